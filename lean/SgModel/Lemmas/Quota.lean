import SgModel.Model.Quota
import SgModel.Lemmas.Persist
import SgModel.Lemmas.PersistMap
/-! The invariant of the concurrent writers (C18) and its preservation by every micro-step of
every thread (core Lean only). -/
namespace SgModel.Quota
open SgModel.Persist

/-! ### state predicates -/

def WF (kv : KV) : Prop := Sorted kv.nodes ∧ Sorted kv.edges

/-- the usage counters equal the number of persisted entities -/
def Counted (s : State) : Prop := s.usageN = s.kv.nodes.length ∧ s.usageE = s.kv.edges.length

def Within (cfg : Cfg) (kv : KV) : Prop :=
  (∀ m, cfg.maxNodes = some m → kv.nodes.length ≤ m) ∧ (∀ m, cfg.maxEdges = some m → kv.edges.length ≤ m)

/-- what holds of the shared state while a thread is inside a call, about to execute `pc` -/
def MidOK (cfg : Cfg) (c : Call) (pc : Pc) (l : Local) (s : State) : Prop :=
  match c with
  | .op op =>
    (match pc with
     | .check => Counted s
     | .log => Counted s ∧ (op.kind = .create → quotaOf cfg op s = .ok)
     | .store => Counted s ∧ (op.kind = .create → quotaOf cfg op s = .ok)
     | .count => Counted (counted op l.existed s)
     | .ret => Counted s
     | .lock => False
     | .scan => False
     | .done => False)
  | .recover =>
    (match pc with
     | .scan => True
     | .count => l.scanN = s.kv.nodes.length ∧ l.scanE = s.kv.edges.length
     | .ret => Counted s
     | _ => False)

structure Inv (cfg : Cfg) (sys : Sys) : Prop where
  wf : WF sys.shared.kv
  within : Within cfg sys.shared.kv
  free : sys.lock = none → Counted sys.shared
  mid : ∀ i th pc, sys.threads[i]? = some th → th.pc = some pc →
          sys.lock = some i ∧ ∃ c rest, th.prog = c :: rest ∧ MidOK cfg c pc th.loc sys.shared
  held : ∀ i, sys.lock = some i → ∃ th pc, sys.threads[i]? = some th ∧ th.pc = some pc

/-! ### the store step on the map -/

theorem wf_apply (kv : KV) (op : Op) (h : WF kv) : WF (kv.apply op) := by
  cases op <;> simp only [KV.apply, WF]
  · exact ⟨(sorted_put _ _ _ h.1).1, h.2⟩
  · exact ⟨h.1, (sorted_put _ _ _ h.2).1⟩
  · exact ⟨sorted_del _ _ h.1, h.2⟩
  · exact ⟨h.1, sorted_del _ _ h.2⟩
  · split
    · exact ⟨(sorted_put _ _ _ h.1).1, h.2⟩
    · exact h
  · split
    · exact ⟨h.1, (sorted_put _ _ _ h.2).1⟩
    · exact h

theorem has_of_get {α : Type} (m : List (Nat × α)) (k : Nat) (v : α) (h : get m k = some v) :
    has m k = true := by simp [has, h]

theorem not_has_of_get {α : Type} (m : List (Nat × α)) (k : Nat) (h : get m k = none) :
    has m k = false := by simp [has, h]

/-- the lengths after the storage write, by kind of operation -/
theorem length_apply (kv : KV) (op : Op) (h : WF kv) :
    (kv.apply op).nodes.length
        = (if op.onNodes then
            (match op.kind with
             | .create => if kv.holds op then kv.nodes.length else kv.nodes.length + 1
             | .delete => if kv.holds op then kv.nodes.length - 1 else kv.nodes.length
             | .update => kv.nodes.length)
           else kv.nodes.length)
    ∧ (kv.apply op).edges.length
        = (if op.onNodes then kv.edges.length
           else
            (match op.kind with
             | .create => if kv.holds op then kv.edges.length else kv.edges.length + 1
             | .delete => if kv.holds op then kv.edges.length - 1 else kv.edges.length
             | .update => kv.edges.length)) := by
  cases op with
  | createNode id ls ps =>
    simp only [KV.apply, Op.onNodes, Op.kind, KV.holds, if_true]
    exact ⟨length_put _ _ _ h.1, trivial⟩
  | createEdge id a b ty ps =>
    simp only [KV.apply, Op.onNodes, Op.kind, KV.holds, Bool.false_eq_true, if_false]
    exact ⟨trivial, length_put _ _ _ h.2⟩
  | deleteNode id =>
    simp only [KV.apply, Op.onNodes, Op.kind, KV.holds, if_true]
    exact ⟨length_del _ _ h.1, trivial⟩
  | deleteEdge id =>
    simp only [KV.apply, Op.onNodes, Op.kind, KV.holds, Bool.false_eq_true, if_false]
    exact ⟨trivial, length_del _ _ h.2⟩
  | updateNode id ps =>
    simp only [KV.apply, Op.onNodes, Op.kind, if_true]
    cases hg : get kv.nodes id with
    | none => simp
    | some v => simp [length_put _ _ _ h.1, has_of_get _ _ _ hg]
  | updateEdge id ps =>
    simp only [KV.apply, Op.onNodes, Op.kind]
    cases hg : get kv.edges id with
    | none => simp
    | some v => simp [length_put _ _ _ h.2, has_of_get _ _ _ hg]

theorem holds_length_pos (kv : KV) (op : Op) (h : kv.holds op = true) :
    (op.onNodes = true → 0 < kv.nodes.length) ∧ (op.onNodes = false → 0 < kv.edges.length) := by
  cases op <;> simp [Op.onNodes, KV.holds] at h ⊢ <;> exact has_length_pos _ _ h

/-- after the storage write and the usage update the counters are exact again -/
theorem counted_after (op : Op) (s : State) (hwf : WF s.kv) (hc : Counted s) :
    Counted (counted op (s.kv.holds op) (stored op s)) := by
  have hl := length_apply s.kv op hwf
  have hp := holds_length_pos s.kv op
  unfold Counted at hc ⊢
  cases hk : op.kind <;> cases hn : op.onNodes <;> cases hh : s.kv.holds op <;>
    simp [counted, bump, stored, hk, hn, hh] at hl hp ⊢ <;> omega

/-- an update does not change the number of entities -/
theorem counted_stored_update (op : Op) (s : State) (hk : op.kind = .update) (hwf : WF s.kv)
    (hc : Counted s) : Counted (stored op s) := by
  have hl := length_apply s.kv op hwf
  unfold Counted at hc ⊢
  cases hn : op.onNodes <;> simp [stored, hk, hn] at hl ⊢ <;> omega

theorem quota_room (cfg : Cfg) (op : Op) (s : State) (h : quotaOf cfg op s = .ok) :
    (op.onNodes = true → ∀ m, cfg.maxNodes = some m → s.usageN < m)
    ∧ (op.onNodes = false → ∀ m, cfg.maxEdges = some m → s.usageE < m) := by
  unfold quotaOf checkQuota at h
  constructor
  · intro hn m hm
    simp only [hn, if_true, hm] at h
    cases hr : cfg.registered <;> cases he : cfg.enabled <;> simp [hr, he] at h
    omega
  · intro hn m hm
    simp only [hn, Bool.false_eq_true, if_false, hm] at h
    cases hr : cfg.registered <;> cases he : cfg.enabled <;> simp [hr, he] at h
    omega

/-- the storage write keeps the tenant within its quota: a create was checked against the
(exact) usage counter, everything else does not add entities -/
theorem within_apply (cfg : Cfg) (op : Op) (s : State) (hwf : WF s.kv) (hc : Counted s)
    (hw : Within cfg s.kv) (hq : op.kind = .create → quotaOf cfg op s = .ok) :
    Within cfg (s.kv.apply op) := by
  have hl := length_apply s.kv op hwf
  unfold Counted at hc
  unfold Within at hw ⊢
  cases hk : op.kind <;> cases hn : op.onNodes <;> simp [hk, hn] at hl
  · have hr := (quota_room cfg op s (hq hk)).2 hn
    refine ⟨fun m hm => by rw [hl.1]; exact hw.1 m hm, fun m hm => ?_⟩
    have := hr m hm
    rw [hl.2]; split <;> omega
  · have hr := (quota_room cfg op s (hq hk)).1 hn
    refine ⟨fun m hm => ?_, fun m hm => by rw [hl.2]; exact hw.2 m hm⟩
    have := hr m hm
    rw [hl.1]; split <;> omega
  · exact ⟨fun m hm => by rw [hl.1]; exact hw.1 m hm,
           fun m hm => by have := hw.2 m hm; rw [hl.2]; split <;> omega⟩
  · exact ⟨fun m hm => by have := hw.1 m hm; rw [hl.1]; split <;> omega,
           fun m hm => by rw [hl.2]; exact hw.2 m hm⟩
  · exact ⟨fun m hm => by rw [hl.1]; exact hw.1 m hm, fun m hm => by rw [hl.2]; exact hw.2 m hm⟩
  · exact ⟨fun m hm => by rw [hl.1]; exact hw.1 m hm, fun m hm => by rw [hl.2]; exact hw.2 m hm⟩

/-! ### the micro-steps of the repaired code, one equation each -/

theorem micro_lock (cfg : Cfg) (op : Op) (s : State) (l : Local) :
    micro cfg op .lock s l = (s, l, .ok (match op.kind with | .create => .check | _ => .log)) := rfl

theorem micro_check (cfg : Cfg) (op : Op) (s : State) (l : Local) :
    micro cfg op .check s l
      = match quotaOf cfg op s with
        | .ok => (s, l, .ok .log)
        | .err e => (s, l, .error e) := rfl

theorem micro_log (cfg : Cfg) (op : Op) (s : State) (l : Local) :
    micro cfg op .log s l = (logged s, l, .ok .store) := rfl

theorem micro_store (cfg : Cfg) (op : Op) (s : State) (l : Local) :
    micro cfg op .store s l
      = (stored op s, { existed := s.kv.holds op },
          .ok (match op.kind with | .update => .ret | _ => .count)) := rfl

theorem micro_count (cfg : Cfg) (hreg : cfg.registered = true) (op : Op) (s : State) (l : Local) :
    micro cfg op .count s l = (counted op l.existed s, l, .ok .ret) := by
  cases hk : op.kind <;> cases hl : l.existed <;> simp [micro, counted, hk, hl, hreg]

theorem micro_ret (cfg : Cfg) (op : Op) (s : State) (l : Local) :
    micro cfg op .ret s l = (s, l, .ok .done) := rfl

/-! ### one step of one thread -/

/-- the call of thread `t` returns -/
def finish (sys : Sys) (t : Nat) (th : Thread) (op : Call) (rest : List Call) (s' : State)
    (lock' : Option Nat) (r : Res) : Sys :=
  { shared := s', lock := release lock' t,
    threads := sys.threads.set t { prog := rest, done := th.done ++ [(op, r)] } }

/-- the call of thread `t` moves on to `pc'` -/
def cont (sys : Sys) (t : Nat) (th : Thread) (op : Call) (rest : List Call) (s' : State)
    (lock' : Option Nat) (pc' : Pc) (l' : Local) : Sys :=
  { shared := s', lock := lock',
    threads := sys.threads.set t { prog := op :: rest, pc := some pc', loc := l', done := th.done } }

theorem stepThread_eq (I : Impl) (cfg : Cfg) (sys : Sys) (t : Nat) (th : Thread) (op : Call)
    (rest : List Call) (hth : sys.threads[t]? = some th) (hprog : th.prog = op :: rest)
    (hen : ¬ (th.pc.getD (callStart I op) = .lock ∧ sys.lock ≠ none)) :
    stepThread I cfg sys t =
      match callMicro I cfg op (th.pc.getD (callStart I op)) sys.shared th.loc with
      | (s', _, .error e) =>
          finish sys t th op rest s' (if th.pc.getD (callStart I op) = .lock then some t else sys.lock) (.err e)
      | (s', l', .ok pc') =>
          if pc' = .done then
            finish sys t th op rest s' (if th.pc.getD (callStart I op) = .lock then some t else sys.lock) .ok
          else cont sys t th op rest s' (if th.pc.getD (callStart I op) = .lock then some t else sys.lock) pc' l' := by
  unfold stepThread
  simp only [hth, hprog, hen, if_false]
  rfl

theorem stepThread_disabled (I : Impl) (cfg : Cfg) (sys : Sys) (t : Nat) (th : Thread) (op : Call)
    (rest : List Call) (hth : sys.threads[t]? = some th) (hprog : th.prog = op :: rest)
    (hen : th.pc.getD (callStart I op) = .lock ∧ sys.lock ≠ none) :
    stepThread I cfg sys t = sys := by
  unfold stepThread
  simp only [hth, hprog, hen, ne_eq, not_false_eq_true, and_self, if_true]

theorem lt_of_getElem? {α : Type} {l : List α} {i : Nat} {a : α} (h : l[i]? = some a) : i < l.length := by
  obtain ⟨h', _⟩ := List.getElem?_eq_some_iff.mp h
  exact h'

/-- the invariant after a call returned, the shared state being exact -/
theorem inv_finish (cfg : Cfg) (sys : Sys) (t : Nat) (th : Thread) (op : Call) (rest : List Call)
    (s' : State) (r : Res) (hth : sys.threads[t]? = some th)
    (hwf : WF s'.kv) (hw : Within cfg s'.kv) (hc : Counted s')
    (hoth : ∀ i th' pc, i ≠ t → sys.threads[i]? = some th' → th'.pc = some pc → False) :
    Inv cfg (finish sys t th op rest s' (some t) r) := by
  refine ⟨hwf, hw, fun _ => hc, ?_, fun i hi => by simp [finish, release] at hi⟩
  intro i th' pc hi hpc
  by_cases hit : i = t
  · subst hit
    simp only [finish, List.getElem?_set_self (lt_of_getElem? hth), Option.some.injEq] at hi
    subst hi
    simp at hpc
  · have hne : t ≠ i := fun e => hit e.symm
    simp only [finish, List.getElem?_set_ne hne] at hi
    exact absurd (hoth i th' pc hit hi hpc) id

/-- the invariant after the call of the lock holder `t` moved on -/
theorem inv_cont (cfg : Cfg) (sys : Sys) (t : Nat) (th : Thread) (op : Call) (rest : List Call)
    (s' : State) (pc' : Pc) (l' : Local) (hth : sys.threads[t]? = some th) (hprog : th.prog = op :: rest)
    (hwf : WF s'.kv) (hw : Within cfg s'.kv) (hm : MidOK cfg op pc' l' s')
    (hoth : ∀ i th' pc, i ≠ t → sys.threads[i]? = some th' → th'.pc = some pc → False) :
    Inv cfg (cont sys t th op rest s' (some t) pc' l') := by
  refine ⟨hwf, hw, fun h => by simp [cont] at h, ?_, ?_⟩
  rotate_left
  · intro i hi
    simp only [cont, Option.some.injEq] at hi
    subst hi
    exact ⟨{ prog := op :: rest, pc := some pc', loc := l', done := th.done }, pc',
      by simp only [cont, List.getElem?_set_self (lt_of_getElem? hth)], rfl⟩
  intro i th' pc hi hpc
  by_cases hit : i = t
  · subst hit
    simp only [cont, List.getElem?_set_self (lt_of_getElem? hth), Option.some.injEq] at hi
    subst hi
    simp only [Option.some.injEq] at hpc
    subst hpc
    exact ⟨rfl, op, rest, rfl, hm⟩
  · have hne : t ≠ i := fun e => hit e.symm
    simp only [cont, List.getElem?_set_ne hne] at hi
    exact absurd (hoth i th' pc hit hi hpc) id

theorem counted_logged (s : State) (h : Counted s) : Counted (logged s) := h

theorem quotaOf_logged (cfg : Cfg) (op : Op) (s : State) : quotaOf cfg op (logged s) = quotaOf cfg op s := rfl

@[simp] theorem callMicro_op (I : Impl) (cfg : Cfg) (o : Op) (pc : Pc) (s : State) (l : Local) :
    callMicro I cfg (.op o) pc s l = I.micro cfg o pc s l := rfl
@[simp] theorem callMicro_recover (I : Impl) (cfg : Cfg) (pc : Pc) (s : State) (l : Local) :
    callMicro I cfg .recover pc s l = I.recMicro cfg pc s l := rfl
@[simp] theorem callStart_fixed (c : Call) : callStart fixed c = .lock := by cases c <;> rfl
@[simp] theorem fixed_recMicro : fixed.recMicro = recMicro := rfl

theorem recMicro_lock (cfg : Cfg) (s : State) (l : Local) :
    recMicro cfg .lock s l = (s, l, .ok .scan) := rfl
theorem recMicro_scan (cfg : Cfg) (s : State) (l : Local) :
    recMicro cfg .scan s l
      = (s, { l with scanN := s.kv.nodes.length, scanE := s.kv.edges.length }, .ok .count) := rfl
theorem recMicro_count (cfg : Cfg) (hreg : cfg.registered = true) (s : State) (l : Local) :
    recMicro cfg .count s l = ({ s with usageN := l.scanN, usageE := l.scanE }, l, .ok .ret) := by
  simp [recMicro, hreg]
theorem recMicro_ret (cfg : Cfg) (s : State) (l : Local) :
    recMicro cfg .ret s l = (s, l, .ok .done) := rfl

/-- **every micro-step of every thread preserves the invariant** — `persist_*` calls and
`recover` calls alike -/
theorem step_inv (cfg : Cfg) (hreg : cfg.registered = true) (sys : Sys) (t : Nat) (h : Inv cfg sys) :
    Inv cfg (stepThread fixed cfg sys t) := by
  cases hth : sys.threads[t]? with
  | none => simp [stepThread, hth]; exact h
  | some th =>
    cases hprog : th.prog with
    | nil => simp [stepThread, hth, hprog]; exact h
    | cons c rest =>
      cases hpc : th.pc with
      | none =>
        -- the thread is parked before its next call: the step acquires the lock
        by_cases hl : sys.lock = none
        · have hen : ¬ (th.pc.getD (callStart fixed c) = .lock ∧ sys.lock ≠ none) := by simp [hl]
          rw [stepThread_eq fixed cfg sys t th c rest hth hprog hen]
          have hoth : ∀ i th' pc, i ≠ t → sys.threads[i]? = some th' → th'.pc = some pc → False := by
            intro i th' pc _ hi hp
            have := (h.mid i th' pc hi hp).1
            rw [hl] at this; simp at this
          have hc := h.free hl
          simp only [hpc, Option.getD_none, callStart_fixed, if_true]
          cases c with
          | op op =>
            simp only [callMicro_op, fixed_micro, micro_lock]
            cases hk : op.kind
            · simp only [show (Pc.check = Pc.done) = False from by simp, if_false]
              exact inv_cont cfg sys t th _ rest _ _ _ hth hprog h.wf h.within hc hoth
            · simp only [show (Pc.log = Pc.done) = False from by simp, if_false]
              exact inv_cont cfg sys t th _ rest _ _ _ hth hprog h.wf h.within
                ⟨hc, fun hk' => by rw [hk] at hk'; simp at hk'⟩ hoth
            · simp only [show (Pc.log = Pc.done) = False from by simp, if_false]
              exact inv_cont cfg sys t th _ rest _ _ _ hth hprog h.wf h.within
                ⟨hc, fun hk' => by rw [hk] at hk'; simp at hk'⟩ hoth
          | recover =>
            simp only [callMicro_recover, fixed_recMicro, recMicro_lock,
              show (Pc.scan = Pc.done) = False from by simp, if_false]
            exact inv_cont cfg sys t th _ rest _ _ _ hth hprog h.wf h.within trivial hoth
        · have hen : th.pc.getD (callStart fixed c) = .lock ∧ sys.lock ≠ none := by
            simp [hpc, hl]
          rw [stepThread_disabled fixed cfg sys t th c rest hth hprog hen]
          exact h
      | some pc =>
        -- the thread is inside a call: it holds the lock
        obtain ⟨hlock, c', rest', hprog', hm⟩ := h.mid t th pc hth hpc
        rw [hprog] at hprog'
        simp only [List.cons.injEq] at hprog'
        obtain ⟨hop, hrest⟩ := hprog'
        subst hop; subst hrest
        have hoth : ∀ i th' pc', i ≠ t → sys.threads[i]? = some th' → th'.pc = some pc' → False := by
          intro i th' pc' hit hi hp
          have := (h.mid i th' pc' hi hp).1
          rw [hlock] at this
          simp only [Option.some.injEq] at this
          exact hit this.symm
        have hne : pc ≠ .lock := by
          intro e; subst e; cases c <;> exact absurd hm id
        have hen : ¬ (th.pc.getD (callStart fixed c) = .lock ∧ sys.lock ≠ none) := by simp [hpc, hne]
        rw [stepThread_eq fixed cfg sys t th c rest hth hprog hen]
        simp only [hpc, Option.getD_some, hne, if_false, hlock]
        cases c with
        | op op =>
          simp only [callMicro_op, fixed_micro]
          cases pc with
          | lock => exact absurd hm id
          | done => exact absurd hm id
          | scan => exact absurd hm id
          | check =>
            simp only [micro_check]
            cases hq : quotaOf cfg op sys.shared with
            | ok =>
              simp only [show (Pc.log = Pc.done) = False from by simp, if_false]
              exact inv_cont cfg sys t th _ rest _ _ _ hth hprog h.wf h.within ⟨hm, fun _ => hq⟩ hoth
            | err e =>
              exact inv_finish cfg sys t th _ rest _ _ hth h.wf h.within hm hoth
          | log =>
            simp only [micro_log, show (Pc.store = Pc.done) = False from by simp, if_false]
            exact inv_cont cfg sys t th _ rest _ _ _ hth hprog h.wf h.within
              ⟨counted_logged _ hm.1, fun hk => by rw [quotaOf_logged]; exact hm.2 hk⟩ hoth
          | store =>
            simp only [micro_store]
            have hwf' : WF (stored op sys.shared).kv := wf_apply _ _ h.wf
            have hw' : Within cfg (stored op sys.shared).kv :=
              within_apply cfg op sys.shared h.wf hm.1 h.within hm.2
            cases hk : op.kind
            · simp only [show (Pc.count = Pc.done) = False from by simp, if_false]
              exact inv_cont cfg sys t th _ rest _ _ _ hth hprog hwf' hw'
                (counted_after op sys.shared h.wf hm.1) hoth
            · simp only [show (Pc.count = Pc.done) = False from by simp, if_false]
              exact inv_cont cfg sys t th _ rest _ _ _ hth hprog hwf' hw'
                (counted_after op sys.shared h.wf hm.1) hoth
            · simp only [show (Pc.ret = Pc.done) = False from by simp, if_false]
              exact inv_cont cfg sys t th _ rest _ _ _ hth hprog hwf' hw'
                (counted_stored_update op sys.shared hk h.wf hm.1) hoth
          | count =>
            simp only [micro_count cfg hreg, show (Pc.ret = Pc.done) = False from by simp, if_false]
            have hkv : (counted op th.loc.existed sys.shared).kv = sys.shared.kv := counted_kv _ _ _
            exact inv_cont cfg sys t th _ rest _ _ _ hth hprog (by rw [hkv]; exact h.wf)
              (by rw [hkv]; exact h.within) hm hoth
          | ret =>
            simp only [micro_ret, if_true]
            exact inv_finish cfg sys t th _ rest _ _ hth h.wf h.within hm hoth
        | recover =>
          simp only [callMicro_recover, fixed_recMicro]
          cases pc with
          | lock => exact absurd hm id
          | done => exact absurd hm id
          | check => exact absurd hm id
          | log => exact absurd hm id
          | store => exact absurd hm id
          | scan =>
            simp only [recMicro_scan, show (Pc.count = Pc.done) = False from by simp, if_false]
            exact inv_cont cfg sys t th _ rest _ _ _ hth hprog h.wf h.within ⟨rfl, rfl⟩ hoth
          | count =>
            simp only [recMicro_count cfg hreg, show (Pc.ret = Pc.done) = False from by simp, if_false]
            exact inv_cont cfg sys t th _ rest _ _ _ hth hprog h.wf h.within
              (show Counted _ from ⟨hm.1, hm.2⟩) hoth
          | ret =>
            simp only [recMicro_ret, if_true]
            exact inv_finish cfg sys t th _ rest _ _ hth h.wf h.within hm hoth

/-- a call made while nobody else is inside one (sequentially): the state stays
well-formed, within quota and exactly counted; a creation is accepted exactly when the
(exact) counter leaves room -/
theorem seq_call (cfg : Cfg) (hreg : cfg.registered = true) (op : Op) (s : State)
    (hwf : WF s.kv) (hc : Counted s) (hw : Within cfg s.kv) :
    WF (traceOp fixed cfg op s).final.kv ∧ Counted (traceOp fixed cfg op s).final
    ∧ Within cfg (traceOp fixed cfg op s).final.kv
    ∧ (op.kind = .create → (traceOp fixed cfg op s).result = quotaOf cfg op s) := by
  rw [traceOp_fixed cfg hreg]
  have hcl : Counted (logged s) := hc
  cases hk : op.kind
  · cases hq : quotaOf cfg op s with
    | err e => exact ⟨hwf, hc, hw, fun _ => rfl⟩
    | ok =>
      refine ⟨?_, ?_, ?_, fun _ => rfl⟩
      · simp only [counted_kv, stored_kv, logged_kv]; exact wf_apply _ _ hwf
      · exact counted_after op (logged s) hwf hcl
      · simp only [counted_kv, stored_kv, logged_kv]
        exact within_apply cfg op (logged s) hwf hcl hw (fun _ => hq)
  · refine ⟨?_, ?_, ?_, fun h => by simp at h⟩
    · simp only [counted_kv, stored_kv, logged_kv]; exact wf_apply _ _ hwf
    · exact counted_after op (logged s) hwf hcl
    · simp only [counted_kv, stored_kv, logged_kv]
      exact within_apply cfg op (logged s) hwf hcl hw (fun h => by rw [hk] at h; simp at h)
  · refine ⟨?_, ?_, ?_, fun h => by simp at h⟩
    · simp only [stored_kv, logged_kv]; exact wf_apply _ _ hwf
    · exact counted_stored_update op (logged s) hk hwf hcl
    · simp only [stored_kv, logged_kv]
      exact within_apply cfg op (logged s) hwf hcl hw (fun h => by rw [hk] at h; simp at h)

theorem quotaOf_probe (cfg : Cfg) (hreg : cfg.registered = true) (hen : cfg.enabled = true) (s : State)
    (hc : Counted s) :
    quotaOf cfg probeOp s = if room cfg.maxNodes s.kv.nodes.length then .ok else .err .quota := by
  unfold quotaOf checkQuota room
  simp only [probeOp, Op.onNodes, if_true, hreg, hen, Bool.not_true, Bool.false_eq_true, if_false]
  rw [hc.1]
  cases cfg.maxNodes with
  | none => rfl
  | some m =>
    simp only
    by_cases h : m ≤ s.kv.nodes.length
    · have : ¬ s.kv.nodes.length < m := by omega
      simp [h, this]
    · have : s.kv.nodes.length < m := by omega
      simp [h, this]

theorem probe_edges (cfg : Cfg) (hreg : cfg.registered = true) (s : State) :
    (traceOp fixed cfg probeOp s).final.kv.edges = s.kv.edges := by
  rw [traceOp_fixed cfg hreg]
  simp only [probeOp, Op.kind]
  cases quotaOf cfg (.createNode 99 [] []) s <;> simp [KV.apply]

theorem run_inv (cfg : Cfg) (hreg : cfg.registered = true) (sched : List Nat) (sys : Sys)
    (h : Inv cfg sys) : Inv cfg (run fixed cfg sys sched) := by
  induction sched generalizing sys with
  | nil => exact h
  | cons t rest ih => exact ih _ (step_inv cfg hreg sys t h)

theorem drain_inv (cfg : Cfg) (hreg : cfg.registered = true) (fuel : Nat) (sys : Sys)
    (h : Inv cfg sys) : Inv cfg (drain fixed cfg fuel sys) := by
  induction fuel generalizing sys with
  | zero => exact h
  | succ n ih =>
    unfold drain
    split
    · exact ih _ (step_inv cfg hreg sys _ h)
    · exact h

theorem init_inv (cfg : Cfg) (progs : List (List Call)) : Inv cfg (init progs) := by
  refine ⟨⟨sorted_nil, sorted_nil⟩, ⟨fun m _ => Nat.zero_le m, fun m _ => Nat.zero_le m⟩,
    fun _ => ⟨rfl, rfl⟩, ?_, fun i hi => by simp [init] at hi⟩
  intro i th pc hi hpc
  simp only [init, List.getElem?_map] at hi
  cases hp : progs[i]? with
  | none => simp [hp] at hi
  | some p =>
    simp only [hp, Option.map_some, Option.some.injEq] at hi
    subst hi
    simp at hpc

/-! ### the programs are executed in order: completed calls ++ remaining calls = the program -/

def Shape (progs : List (List Call)) (sys : Sys) : Prop :=
  sys.threads.length = progs.length
  ∧ ∀ (i : Nat) (th : Thread), sys.threads[i]? = some th → progs[i]? = some (th.done.map (·.1) ++ th.prog)

theorem shape_set (progs : List (List Call)) (sys : Sys) (t : Nat) (th th' : Thread) (s' : State)
    (lk : Option Nat) (h : Shape progs sys) (hth : sys.threads[t]? = some th)
    (heq : th'.done.map (·.1) ++ th'.prog = th.done.map (·.1) ++ th.prog) :
    Shape progs { shared := s', lock := lk, threads := sys.threads.set t th' } := by
  refine ⟨by simp [h.1], ?_⟩
  intro i thi hi
  by_cases hit : i = t
  · subst hit
    simp only [List.getElem?_set_self (lt_of_getElem? hth), Option.some.injEq] at hi
    subst hi
    rw [heq]; exact h.2 i th hth
  · have hne : t ≠ i := fun e => hit e.symm
    simp only [List.getElem?_set_ne hne] at hi
    exact h.2 i thi hi

theorem step_shape (I : Impl) (cfg : Cfg) (progs : List (List Call)) (sys : Sys) (t : Nat)
    (h : Shape progs sys) : Shape progs (stepThread I cfg sys t) := by
  cases hth : sys.threads[t]? with
  | none => simp [stepThread, hth]; exact h
  | some th =>
    cases hprog : th.prog with
    | nil => simp [stepThread, hth, hprog]; exact h
    | cons op rest =>
      by_cases hen : th.pc.getD (callStart I op) = .lock ∧ sys.lock ≠ none
      · rw [stepThread_disabled I cfg sys t th op rest hth hprog hen]; exact h
      · rw [stepThread_eq I cfg sys t th op rest hth hprog hen]
        rcases hmic : callMicro I cfg op (th.pc.getD (callStart I op)) sys.shared th.loc with ⟨s', l', r⟩
        cases r with
        | error e =>
          simp only [finish]
          exact shape_set progs sys t th _ _ _ h hth (by simp [hprog])
        | ok pc' =>
          simp only
          split
          · simp only [finish]
            exact shape_set progs sys t th _ _ _ h hth (by simp [hprog])
          · simp only [cont]
            exact shape_set progs sys t th _ _ _ h hth (by simp [hprog])

theorem run_shape (I : Impl) (cfg : Cfg) (progs : List (List Call)) (sched : List Nat) (sys : Sys)
    (h : Shape progs sys) : Shape progs (run I cfg sys sched) := by
  induction sched generalizing sys with
  | nil => exact h
  | cons t rest ih => exact ih _ (step_shape I cfg progs sys t h)

theorem drain_shape (I : Impl) (cfg : Cfg) (progs : List (List Call)) (fuel : Nat) (sys : Sys)
    (h : Shape progs sys) : Shape progs (drain I cfg fuel sys) := by
  induction fuel generalizing sys with
  | zero => exact h
  | succ n ih =>
    unfold drain
    split
    · exact ih _ (step_shape I cfg progs sys _ h)
    · exact h

theorem init_shape (progs : List (List Call)) : Shape progs (init progs) := by
  refine ⟨by simp [init], ?_⟩
  intro i th hi
  simp only [init, List.getElem?_map] at hi
  cases hp : progs[i]? with
  | none => simp [hp] at hi
  | some p =>
    simp only [hp, Option.map_some, Option.some.injEq] at hi
    subst hi
    simp

end SgModel.Quota
