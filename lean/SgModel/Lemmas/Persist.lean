import SgModel.Model.Persist
/-! Helper lemmas for C16 / C32 (core Lean only): the ordered map, the equations of one
`persist_*` call, and the crash-run induction. -/
namespace SgModel.Persist

/-! ### ordered map -/

theorem get_put_self {α : Type} (m : List (Nat × α)) (k : Nat) (v : α) :
    get (put m k v) k = some v := by
  induction m with
  | nil => simp [put, get]
  | cons p rest ih =>
    obtain ⟨k', v'⟩ := p
    unfold put
    by_cases h1 : k < k'
    · simp [h1, get]
    · by_cases h2 : k = k'
      · simp [h2, get]
      · have : ¬ k' = k := fun h => h2 h.symm
        simp [h1, h2, get, this, ih]

theorem get_put_other {α : Type} (m : List (Nat × α)) (k j : Nat) (v : α) (h : j ≠ k) :
    get (put m k v) j = get m j := by
  induction m with
  | nil =>
    have : ¬ k = j := fun e => h e.symm
    simp [put, get, this]
  | cons p rest ih =>
    obtain ⟨k', v'⟩ := p
    have hkj : ¬ k = j := fun e => h e.symm
    unfold put
    by_cases h1 : k < k'
    · simp [h1, get, hkj]
    · by_cases h2 : k = k'
      · subst h2; simp [get, hkj]
      · simp [h1, h2, get, ih]

theorem get_del_self {α : Type} (m : List (Nat × α)) (k : Nat) : get (del m k) k = none := by
  induction m with
  | nil => simp [del, get]
  | cons p rest ih =>
    obtain ⟨k', v'⟩ := p
    by_cases h : k' = k
    · subst h; simpa [del, get] using ih
    · have : (k' != k) = true := by simp [h]
      simp only [del, List.filter_cons, this, if_true, get, h, if_false] at ih ⊢
      exact ih

/-! ### one call as equations -/

@[simp] theorem push_mk (x : Pc × State) (m f r) : (OpTrace.mk m f r).push x = ⟨x :: m, f, r⟩ := rfl
@[simp] theorem fixed_micro : fixed.micro = micro := rfl
@[simp] theorem fixed_start : fixed.start = start := rfl
@[simp] theorem fixed_recover : fixed.recover = recover := rfl

theorem traceFrom_succ (I : Impl) (cfg op n pc s l) :
    traceFrom I cfg op (n+1) pc s l =
      match I.micro cfg op pc s l with
      | (s', _, .error e) => ⟨[], s', .err e⟩
      | (s', l', .ok pc') =>
        if pc' = .done then ⟨[], s', .ok⟩
        else (traceFrom I cfg op n pc' s' l').push (pc, s') := rfl

/-- state after the WAL append -/
def logged (s : State) : State := { s with wal := s.wal + 1 }
/-- state after the storage write -/
def stored (op : Op) (s : State) : State := { s with kv := s.kv.apply op }
/-- state after the usage update (`e` = the entity existed before the write) -/
def counted (op : Op) (e : Bool) (s : State) : State :=
  match op.kind with
  | .create => if e then s else bump s op.onNodes true
  | .delete => if e then bump s op.onNodes false else s
  | .update => s

@[simp] theorem logged_kv (s : State) : (logged s).kv = s.kv := rfl
@[simp] theorem stored_kv (op : Op) (s : State) : (stored op s).kv = s.kv.apply op := rfl
@[simp] theorem bump_kv (s : State) (a b : Bool) : (bump s a b).kv = s.kv := by
  unfold bump; split <;> rfl
@[simp] theorem counted_kv (op : Op) (e : Bool) (s : State) : (counted op e s).kv = s.kv := by
  unfold counted; cases op.kind <;> cases e <;> simp

theorem trace_ret (cfg op n s l) :
    traceFrom fixed cfg op (n+1) .ret s l = ⟨[], s, .ok⟩ := by
  rw [traceFrom_succ]; simp [micro]

theorem trace_count (cfg : Cfg) (h : cfg.registered = true) (op n s l) :
    traceFrom fixed cfg op (n+2) .count s l
      = ⟨[(.count, counted op l.existed s)], counted op l.existed s, .ok⟩ := by
  rw [traceFrom_succ]
  cases hl : l.existed <;> cases op <;> simp [micro, Op.kind, counted, trace_ret, h, hl]

theorem trace_store (cfg : Cfg) (h : cfg.registered = true) (op n s l) :
    traceFrom fixed cfg op (n+3) .store s l
      = match op.kind with
        | .update => ⟨[(.store, stored op s)], stored op s, .ok⟩
        | _ => ⟨[(.store, stored op s), (.count, counted op (s.kv.holds op) (stored op s))],
                counted op (s.kv.holds op) (stored op s), .ok⟩ := by
  rw [traceFrom_succ]
  cases op <;> simp [micro, Op.kind, stored, trace_ret, trace_count, h]

theorem trace_log (cfg : Cfg) (op n s l) :
    traceFrom fixed cfg op (n+4) .log s l
      = (traceFrom fixed cfg op (n+3) .store (logged s) l).push (.log, logged s) := by
  rw [traceFrom_succ]; simp [micro, logged]

/-- the whole call of the repaired code, as equations -/
theorem traceOp_fixed (cfg : Cfg) (h : cfg.registered = true) (op : Op) (s : State) :
    traceOp fixed cfg op s =
      match op.kind with
      | .create =>
        match quotaOf cfg op s with
        | .err e => ⟨[(.lock, s)], s, .err e⟩
        | .ok => ⟨[(.lock, s), (.check, s), (.log, logged s), (.store, stored op (logged s)),
                   (.count, counted op (s.kv.holds op) (stored op (logged s)))],
                  counted op (s.kv.holds op) (stored op (logged s)), .ok⟩
      | .delete => ⟨[(.lock, s), (.log, logged s), (.store, stored op (logged s)),
                   (.count, counted op (s.kv.holds op) (stored op (logged s)))],
                  counted op (s.kv.holds op) (stored op (logged s)), .ok⟩
      | .update => ⟨[(.lock, s), (.log, logged s), (.store, stored op (logged s))],
                  stored op (logged s), .ok⟩ := by
  unfold traceOp
  rw [traceFrom_succ]
  cases hk : op.kind
  · simp only [fixed_micro, fixed_start, start, micro, hk]
    simp only [show (Pc.check = Pc.done) = False from by simp, if_false]
    rw [traceFrom_succ]
    simp only [fixed_micro, micro]
    cases hq : quotaOf cfg op s
    · simp [trace_log, trace_store, h, hk, logged]
    · simp
  · simp [start, micro, hk, trace_log, trace_store, h, logged]
  · simp [start, micro, hk, trace_log, trace_store, h, logged]

/-- what a call does to the store: all of the operation's effect or none of it, at every
hook point; all of it when it returns `Ok`; nothing at all when it returns an error -/
theorem trace_kv (cfg : Cfg) (h : cfg.registered = true) (op : Op) (s : State) :
    ((traceOp fixed cfg op s).result = .ok → (traceOp fixed cfg op s).final.kv = s.kv.apply op)
    ∧ ((traceOp fixed cfg op s).result ≠ .ok → (traceOp fixed cfg op s).final = s
          ∧ ∀ m ∈ (traceOp fixed cfg op s).mids, m.2 = s)
    ∧ (∀ m ∈ (traceOp fixed cfg op s).mids, m.2.kv = s.kv ∨ m.2.kv = s.kv.apply op) := by
  rw [traceOp_fixed cfg h]
  cases hk : op.kind
  · cases hq : quotaOf cfg op s <;> simp
  · simp
  · simp

/-! ### the crash run -/

theorem applyAll_cons (kv : KV) (op : Op) (ops : List Op) :
    KV.applyAll kv (op :: ops) = KV.applyAll (kv.apply op) ops := rfl

theorem crashRun_cons_some (I : Impl) (cfg : Cfg) (op : Op) (rest : List Op) (k : Nat) (s : State)
    (m : Pc × State) (hm : (traceOp I cfg op s).mids[k]? = some m) :
    crashRun I cfg (op :: rest) k s
      = ⟨[], some op, ((traceOp I cfg op s).mids.take (k + 1)).map (·.1), m.2⟩ := by
  simp [crashRun, hm]

theorem crashRun_cons_none (I : Impl) (cfg : Cfg) (op : Op) (rest : List Op) (k : Nat) (s : State)
    (hm : (traceOp I cfg op s).mids[k]? = none) :
    crashRun I cfg (op :: rest) k s
      = ⟨(traceOp I cfg op s).result
            :: (crashRun I cfg rest (k - (traceOp I cfg op s).mids.length) (traceOp I cfg op s).final).acked,
          (crashRun I cfg rest (k - (traceOp I cfg op s).mids.length) (traceOp I cfg op s).final).inflight,
          (traceOp I cfg op s).mids.map (·.1)
            ++ (crashRun I cfg rest (k - (traceOp I cfg op s).mids.length) (traceOp I cfg op s).final).points,
          (crashRun I cfg rest (k - (traceOp I cfg op s).mids.length) (traceOp I cfg op s).final).state⟩ := by
  simp [crashRun, hm]

theorem crashRun_spec (cfg : Cfg) (h : cfg.registered = true) :
    ∀ (ops : List Op) (k : Nat) (s : State),
      (crashRun fixed cfg ops k s).acked.length ≤ ops.length
      ∧ ((crashRun fixed cfg ops k s).inflight = none →
          (crashRun fixed cfg ops k s).state.kv
            = KV.applyAll s.kv (ackedOk ops (crashRun fixed cfg ops k s).acked))
      ∧ (∀ op, (crashRun fixed cfg ops k s).inflight = some op →
          ops[(crashRun fixed cfg ops k s).acked.length]? = some op
          ∧ ((crashRun fixed cfg ops k s).state.kv
                = KV.applyAll s.kv (ackedOk ops (crashRun fixed cfg ops k s).acked)
             ∨ (crashRun fixed cfg ops k s).state.kv
                = (KV.applyAll s.kv (ackedOk ops (crashRun fixed cfg ops k s).acked)).apply op)) := by
  intro ops
  induction ops with
  | nil => intro k s; simp [crashRun, ackedOk, KV.applyAll]
  | cons op rest ih =>
    intro k s
    have hkv := trace_kv cfg h op s
    cases hm : (traceOp fixed cfg op s).mids[k]? with
    | some m =>
      have hmem : m ∈ (traceOp fixed cfg op s).mids := List.mem_of_getElem? hm
      rw [crashRun_cons_some fixed cfg op rest k s m hm]
      refine ⟨Nat.zero_le _, fun hc => by simp at hc, ?_⟩
      intro op' hop'
      simp only [Option.some.injEq] at hop'
      subst hop'
      exact ⟨rfl, hkv.2.2 m hmem⟩
    | none =>
      have ih' := ih (k - (traceOp fixed cfg op s).mids.length) (traceOp fixed cfg op s).final
      rw [crashRun_cons_none fixed cfg op rest k s hm]
      refine ⟨Nat.succ_le_succ ih'.1, ?_, ?_⟩
      · intro hnone
        cases hr : (traceOp fixed cfg op s).result with
        | ok =>
          show _ = KV.applyAll s.kv (ackedOk (op :: rest) (Res.ok :: _))
          simp only [ackedOk, Res.isOk, if_true, applyAll_cons]
          rw [← hkv.1 hr]; exact ih'.2.1 hnone
        | err e =>
          have hne : (traceOp fixed cfg op s).result ≠ .ok := by rw [hr]; simp
          show _ = KV.applyAll s.kv (ackedOk (op :: rest) (Res.err e :: _))
          simp only [ackedOk, Res.isOk, Bool.false_eq_true, if_false]
          have hf : (traceOp fixed cfg op s).final.kv = s.kv := by rw [(hkv.2.1 hne).1]
          have := ih'.2.1 hnone
          rw [hf] at this
          exact this
      · intro op' hop'
        have := ih'.2.2 op' hop'
        refine ⟨this.1, ?_⟩
        cases hr : (traceOp fixed cfg op s).result with
        | ok =>
          show _ = KV.applyAll s.kv (ackedOk (op :: rest) (Res.ok :: _))
              ∨ _ = (KV.applyAll s.kv (ackedOk (op :: rest) (Res.ok :: _))).apply op'
          simp only [ackedOk, Res.isOk, if_true, applyAll_cons]
          rw [← hkv.1 hr]; exact this.2
        | err e =>
          have hne : (traceOp fixed cfg op s).result ≠ .ok := by rw [hr]; simp
          show _ = KV.applyAll s.kv (ackedOk (op :: rest) (Res.err e :: _))
              ∨ _ = (KV.applyAll s.kv (ackedOk (op :: rest) (Res.err e :: _))).apply op'
          simp only [ackedOk, Res.isOk, Bool.false_eq_true, if_false]
          have hf : (traceOp fixed cfg op s).final.kv = s.kv := by rw [(hkv.2.1 hne).1]
          have h2 := this.2
          rw [hf] at h2
          exact h2

end SgModel.Persist
