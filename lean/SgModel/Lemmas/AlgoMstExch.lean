import SgModel.Lemmas.AlgoMst
/-!
Lemmas for the MST minimality theorem of C26, part 2: the exchange argument.  A spanning
connected edge list `T'` is turned, one edge at a time, into one that only uses edges of the
tree `T` (cycle property: the removed edge is at least as heavy as the tree edge that takes
its place), and a connected list inside a tree on `m` nodes with `m − 1` edges is the whole tree.
-/
namespace SgModel.Algo

/-- `T'` joins every node of node 0's component of `E` to node 0 -/
def Conn (E T' : List Edge) : Prop := ∀ x, Reach (sym (pairs E)) 0 x → Reach (sym (pairs T')) 0 x

/-- every entry of `A` occurs in `B` up to orientation (same weight) -/
def SubE (A B : List Edge) : Prop := ∀ g ∈ A, canonE g ∈ B.map canonE

theorem reach_mono_subE {A B : List Edge} (h : SubE A B) {a b : Nat}
    (hr : Reach (sym (pairs A)) a b) : Reach (sym (pairs B)) a b :=
  Reach.mono (sym_pairs_subset h) hr

/-- a walk that leaves a set does so along one of its edges -/
theorem reach_cross {P : Pairs} {S : Nat → Prop} {a b : Nat} (h : Reach P a b) (ha : S a) (hb : ¬ S b) :
    ∃ x y, (x, y) ∈ P ∧ S x ∧ ¬ S y := by
  induction h with
  | refl => exact absurd ha hb
  | @step m z _ he ih =>
    by_cases hm : S m
    · exact ⟨m, z, he, hm, hb⟩
    · exact ih hm

/-- entries of `T'` that are not tree edges -/
def foreign (T T' : List Edge) : Nat := T'.countP (fun g => !decide (canonE g ∈ T.map canonE))

theorem pairs_append (A B : List Edge) : pairs (A ++ B) = pairs A ++ pairs B := by simp [pairs]
theorem pairs_cons (e : Edge) (A : List Edge) : pairs (e :: A) = (e.1, e.2.1) :: pairs A := by simp [pairs]

theorem mem_sym_pairs_split {l1 l2 : List Edge} {f : Edge} {a b : Nat}
    (h : (a, b) ∈ sym (pairs (l1 ++ f :: l2))) :
    (a, b) ∈ sym (pairs (l1 ++ l2)) ∨ (a = f.1 ∧ b = f.2.1) ∨ (a = f.2.1 ∧ b = f.1) := by
  rcases mem_sym.mp h with h | h
  · rw [pairs_append, pairs_cons] at h
    rcases List.mem_append.mp h with h | h
    · exact Or.inl (mem_sym.mpr (Or.inl (by rw [pairs_append]; exact List.mem_append.mpr (Or.inl h))))
    · rcases List.mem_cons.mp h with h | h
      · simp only [Prod.mk.injEq] at h; exact Or.inr (Or.inl h)
      · exact Or.inl (mem_sym.mpr (Or.inl (by rw [pairs_append]; exact List.mem_append.mpr (Or.inr h))))
  · rw [pairs_append, pairs_cons] at h
    rcases List.mem_append.mp h with h | h
    · exact Or.inl (mem_sym.mpr (Or.inr (by rw [pairs_append]; exact List.mem_append.mpr (Or.inl h))))
    · rcases List.mem_cons.mp h with h | h
      · simp only [Prod.mk.injEq] at h; exact Or.inr (Or.inr ⟨h.2, h.1⟩)
      · exact Or.inl (mem_sym.mpr (Or.inr (by rw [pairs_append]; exact List.mem_append.mpr (Or.inr h))))

theorem subE_drop {l1 l2 : List Edge} {f : Edge} {E : List Edge} (h : SubE (l1 ++ f :: l2) E) :
    SubE (l1 ++ l2) E := by
  intro g hg
  apply h
  rcases List.mem_append.mp hg with hg | hg
  · exact List.mem_append.mpr (Or.inl hg)
  · exact List.mem_append.mpr (Or.inr (List.mem_cons_of_mem _ hg))

theorem wsum_append (A B : List Edge) : wsum (A ++ B) = wsum A + wsum B := by simp [wsum]
theorem wsum_cons (e : Edge) (A : List Edge) : wsum (e :: A) = e.2.2 + wsum A := by simp [wsum]

/-- the hypotheses the checker establishes about the reported tree -/
structure TreeCert (E T : List Edge) : Prop where
  sub : SubE T E
  cert : ∀ g ∈ E, Reach (sym (pairs E)) 0 g.1 →
    Reach (sym (pairs (lightT T g.2.2))) g.1 g.2.1

theorem mem_lightT {T : List Edge} {w : Nat} {e : Edge} : e ∈ lightT T w ↔ e ∈ T ∧ e.2.2 ≤ w := by
  simp [lightT, List.mem_filter]

/-- one exchange step: drop a non-tree entry `f`; if that disconnects, a tree edge that is
not heavier reconnects -/
theorem exchange_step {E T : List Edge} (hc : TreeCert E T) {l1 l2 : List Edge} {f : Edge}
    (hsub : SubE (l1 ++ f :: l2) E) (hconn : Conn E (l1 ++ f :: l2)) :
    ∃ T1, foreign T T1 = foreign T (l1 ++ l2) ∧ SubE T1 E ∧ Conn E T1
      ∧ wsum T1 ≤ wsum (l1 ++ f :: l2) := by
  let D := l1 ++ l2
  have hDE : SubE D E := subE_drop hsub
  have hwD : wsum D ≤ wsum (l1 ++ f :: l2) := by
    simp only [D, wsum_append, wsum_cons]; omega
  let S : Nat → Prop := fun x => Reach (sym (pairs D)) 0 x
  by_cases hiff : (S f.1 ↔ S f.2.1)
  · -- `f` is not needed
    refine ⟨D, rfl, hDE, ?_, hwD⟩
    intro x hx
    have hr := hconn x hx
    clear hx
    show S x
    induction hr with
    | refl => exact Reach.refl _
    | @step y z _ he ih =>
      rcases mem_sym_pairs_split he with h | ⟨h1, h2⟩ | ⟨h1, h2⟩
      · exact Reach.step ih h
      · rw [h2]; rw [h1] at ih; exact hiff.mp ih
      · rw [h2]; rw [h1] at ih; exact hiff.mpr ih
  · -- exactly one end of `f` is still joined to node 0: call it `a`, the other `b`
    have hab : ∃ a b, S a ∧ ¬ S b ∧ ((a = f.1 ∧ b = f.2.1) ∨ (a = f.2.1 ∧ b = f.1)) := by
      by_cases h1 : S f.1
      · have h2 : ¬ S f.2.1 := fun h2 => hiff ⟨fun _ => h2, fun _ => h1⟩
        exact ⟨f.1, f.2.1, h1, h2, Or.inl ⟨rfl, rfl⟩⟩
      · have h2 : S f.2.1 := by
          apply Classical.byContradiction
          intro h2; exact hiff ⟨fun h => absurd h h1, fun h => absurd h h2⟩
        exact ⟨f.2.1, f.1, h2, h1, Or.inr ⟨rfl, rfl⟩⟩
    obtain ⟨a, b, hSa, hSb, hends⟩ := hab
    -- the entry of `E` behind `f`
    have hfE : canonE f ∈ E.map canonE := hsub f (List.mem_append.mpr (Or.inr (List.mem_cons_self ..)))
    obtain ⟨g, hgE, hgf⟩ := List.mem_map.mp hfE
    obtain ⟨hgw, hgor⟩ := canonE_eq hgf
    have haE : Reach (sym (pairs E)) 0 a := reach_mono_subE hDE hSa
    have hfpair := pair_mem_sym_of_canon hfE
    have hbE : Reach (sym (pairs E)) 0 b := by
      rcases hends with ⟨h1, h2⟩ | ⟨h1, h2⟩
      · rw [h1] at haE; rw [h2]; exact Reach.step haE hfpair.1
      · rw [h1] at haE; rw [h2]; exact Reach.step haE hfpair.2
    -- light tree walk from `a` to `b`
    have hlight : Reach (sym (pairs (lightT T f.2.2))) a b := by
      have hg1 : Reach (sym (pairs E)) 0 g.1 := by
        rcases hgor with ⟨h1, _⟩ | ⟨h1, _⟩ <;> rcases hends with ⟨e1, e2⟩ | ⟨e1, e2⟩
        · rw [h1, ← e1]; exact haE
        · rw [h1, ← e2]; exact hbE
        · rw [h1, ← e2]; exact hbE
        · rw [h1, ← e1]; exact haE
      have hc' := hc.cert g hgE hg1
      rw [hgw] at hc'
      rcases hgor with ⟨h1, h2⟩ | ⟨h1, h2⟩ <;> rcases hends with ⟨e1, e2⟩ | ⟨e1, e2⟩
      · rw [h1, h2, ← e1, ← e2] at hc'; exact hc'
      · rw [h1, h2, ← e1, ← e2] at hc'; exact reach_sym_symm hc'
      · rw [h1, h2, ← e1, ← e2] at hc'; exact reach_sym_symm hc'
      · rw [h1, h2, ← e1, ← e2] at hc'; exact hc'
    obtain ⟨x, y, hxy, hSx, hSy⟩ := reach_cross (S := S) hlight hSa hSb
    -- the tree edge behind the crossing pair
    have hedge : ∃ e ∈ T, e.2.2 ≤ f.2.2 ∧ ((e.1 = x ∧ e.2.1 = y) ∨ (e.1 = y ∧ e.2.1 = x)) := by
      rcases mem_sym.mp hxy with h | h
      · obtain ⟨w, hw⟩ := mem_pairs.mp h
        have := mem_lightT.mp hw
        exact ⟨(x, y, w), this.1, this.2, Or.inl ⟨rfl, rfl⟩⟩
      · obtain ⟨w, hw⟩ := mem_pairs.mp h
        have := mem_lightT.mp hw
        exact ⟨(y, x, w), this.1, this.2, Or.inr ⟨rfl, rfl⟩⟩
    obtain ⟨e, heT, hew, heor⟩ := hedge
    have heTc : canonE e ∈ T.map canonE := List.mem_map.mpr ⟨e, heT, rfl⟩
    have hexy : (x, y) ∈ sym (pairs (e :: D)) ∧ (y, x) ∈ sym (pairs (e :: D)) := by
      have h0 : (e.1, e.2.1) ∈ pairs (e :: D) := by rw [pairs_cons]; exact List.mem_cons_self ..
      rcases heor with ⟨h1, h2⟩ | ⟨h1, h2⟩
      · rw [h1, h2] at h0
        exact ⟨mem_sym.mpr (Or.inl h0), mem_sym.mpr (Or.inr h0)⟩
      · rw [h1, h2] at h0
        exact ⟨mem_sym.mpr (Or.inr h0), mem_sym.mpr (Or.inl h0)⟩
    have hDsub : ∀ p, p ∈ sym (pairs D) → p ∈ sym (pairs (e :: D)) := by
      intro p hp
      rcases mem_sym.mp (show (p.1, p.2) ∈ sym (pairs D) from hp) with h | h
      · exact mem_sym.mpr (Or.inl (by rw [pairs_cons]; exact List.mem_cons_of_mem _ h))
      · exact mem_sym.mpr (Or.inr (by rw [pairs_cons]; exact List.mem_cons_of_mem _ h))
    refine ⟨e :: D, ?_, ?_, ?_, ?_⟩
    · simp [foreign, D, heTc]
    · intro g' hg'
      rcases List.mem_cons.mp hg' with rfl | hg'
      · exact hc.sub _ heT
      · exact hDE g' hg'
    · -- still connected: every node is joined (without `f`) to node 0 or to `b`
      let S' : Nat → Prop := fun z => Reach (sym (pairs D)) b z
      have hcover : ∀ z, Reach (sym (pairs (l1 ++ f :: l2))) 0 z → S z ∨ S' z := by
        intro z hz
        induction hz with
        | refl => exact Or.inl (Reach.refl _)
        | @step p q _ he' ih =>
          rcases mem_sym_pairs_split he' with h | ⟨h1, h2⟩ | ⟨h1, h2⟩
          · rcases ih with ih | ih
            · exact Or.inl (Reach.step ih h)
            · exact Or.inr (Reach.step ih h)
          · -- p = f.1, q = f.2.1
            rcases hends with ⟨e1, e2⟩ | ⟨e1, e2⟩
            · right; rw [h2, ← e2]; exact Reach.refl _
            · left; rw [h2, ← e1]; exact hSa
          · rcases hends with ⟨e1, e2⟩ | ⟨e1, e2⟩
            · left; rw [h2, ← e1]; exact hSa
            · right; rw [h2, ← e2]; exact Reach.refl _
      -- `y` is joined to `b` without `f`
      have hyE : Reach (sym (pairs E)) 0 y := by
        have hxE : Reach (sym (pairs E)) 0 x := reach_mono_subE hDE hSx
        have hp := pair_mem_sym_of_canon (hc.sub e heT)
        rcases heor with ⟨h1, h2⟩ | ⟨h1, h2⟩
        · rw [h1, h2] at hp; exact Reach.step hxE hp.1
        · rw [h1, h2] at hp; exact Reach.step hxE hp.2
      have hby : S' y := by
        rcases hcover y (hconn y hyE) with h | h
        · exact absurd h hSy
        · exact h
      have hyb : Reach (sym (pairs D)) y b := reach_sym_symm hby
      have h0b : Reach (sym (pairs (e :: D))) 0 b :=
        Reach.trans (Reach.step (Reach.mono hDsub hSx) hexy.1) (Reach.mono hDsub hyb)
      intro z hz
      rcases hcover z (hconn z hz) with h | h
      · exact Reach.mono hDsub h
      · exact Reach.trans h0b (Reach.mono hDsub h)
    · have : wsum (e :: D) = e.2.2 + wsum D := wsum_cons e D
      simp only [D, wsum_append, wsum_cons] at this ⊢
      omega

theorem foreign_split (T : List Edge) {l1 l2 : List Edge} {f : Edge}
    (hf : canonE f ∉ T.map canonE) : foreign T (l1 ++ f :: l2) = foreign T (l1 ++ l2) + 1 := by
  simp [foreign, List.countP_append, hf]
  omega

/-- all non-tree entries can be exchanged away without gaining weight -/
theorem exchange_all {E T : List Edge} (hc : TreeCert E T) : ∀ (k : Nat) (T' : List Edge),
    foreign T T' = k → SubE T' E → Conn E T' →
    ∃ T'', foreign T T'' = 0 ∧ Conn E T'' ∧ wsum T'' ≤ wsum T' := by
  intro k
  induction k with
  | zero => intro T' h _ hconn; exact ⟨T', h, hconn, Nat.le_refl _⟩
  | succ k ih =>
    intro T' hk hsub hconn
    have hpos : 0 < foreign T T' := by omega
    obtain ⟨f, hfT', hfp⟩ := List.countP_pos_iff.mp hpos
    have hf : canonE f ∉ T.map canonE := by simpa using hfp
    obtain ⟨l1, l2, rfl⟩ := List.append_of_mem hfT'
    obtain ⟨T1, h1, h2, h3, h4⟩ := exchange_step hc hsub hconn
    have := foreign_split T (l1 := l1) (l2 := l2) hf
    obtain ⟨T'', a, b, c⟩ := ih T1 (by omega) h2 h3
    exact ⟨T'', a, b, by omega⟩

/-- a connected edge list inside a tree (m nodes, m − 1 edges) weighs at least as much as the tree -/
theorem tree_le_of_inside {E T : List Edge} {C : List Nat} (hCnd : C.Nodup)
    (hC : ∀ x ∈ C, Reach (sym (pairs E)) 0 x) (hlen : T.length + 1 = C.length) (hTconn : Conn E T)
    {T'' : List Edge} (hin : foreign T T'' = 0) (hconn : Conn E T'') : wsum T ≤ wsum T'' := by
  have hall : ∀ g ∈ T'', canonE g ∈ T.map canonE := by
    intro g hg
    apply Classical.byContradiction
    intro hng
    have : 0 < foreign T T'' := List.countP_pos_iff.mpr ⟨g, hg, by simp [hng]⟩
    omega
  let Tc := T.map canonE
  -- the tree has no repeated edge
  have hnd : Tc.Nodup := by
    apply nodup_of_length_dedupE
    have hsubN : SubE T (dedupE Tc) := by
      intro e he
      have : canonE e ∈ dedupE Tc := mem_dedupE.mpr (List.mem_map.mpr ⟨e, he, rfl⟩)
      exact List.mem_map.mpr ⟨canonE e, this, canonE_idem e⟩
    have hcount := count_le_edges (F := pairs (dedupE Tc)) (r := 0) hCnd
      (fun x hx => reach_mono_subE hsubN (hTconn x (hC x hx)))
    have hl1 : (pairs (dedupE Tc)).length = (dedupE Tc).length := by simp [pairs]
    have hl2 : Tc.length = T.length := by simp [Tc]
    omega
  -- every tree edge is used by `T''`
  let Ts := Tc.filter (fun e => decide (e ∈ T''.map canonE))
  have hsubS : SubE T'' Ts := by
    intro g hg
    have h1 : canonE g ∈ Ts := List.mem_filter.mpr ⟨hall g hg, by simpa using List.mem_map.mpr ⟨g, hg, rfl⟩⟩
    exact List.mem_map.mpr ⟨canonE g, h1, canonE_idem g⟩
  have hcount := count_le_edges (F := pairs Ts) (r := 0) hCnd
    (fun x hx => reach_mono_subE hsubS (hconn x (hC x hx)))
  have hl1 : (pairs Ts).length = Ts.length := by simp [pairs]
  have hl2 : Tc.length = T.length := by simp [Tc]
  have hle : Ts.length ≤ Tc.length := List.length_filter_le _ _
  have heq : Tc.countP (fun e => decide (e ∈ T''.map canonE)) = Tc.length := by
    rw [List.countP_eq_length_filter]; show Ts.length = Tc.length; omega
  have hsubset : ∀ e ∈ Tc, e ∈ T''.map canonE := by
    intro e he
    have := List.countP_eq_length.mp heq e he
    simpa using this
  have hsum : wsum (T.map canonE) ≤ wsum (T''.map canonE) :=
    sum_le_of_nodup_subset (fun e => e.2.2) hnd hsubset
  rw [wsum_map_canonE, wsum_map_canonE] at hsum
  exact hsum

end SgModel.Algo
