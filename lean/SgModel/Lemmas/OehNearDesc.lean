import SgModel.Lemmas.OehDecomp
/-! Near-tree `descendants`: the frontier loop over forest subtrees and exception edges. -/
namespace SgModel.Oeh

/-- did the loop stop because the frontier ran empty (and not because the fuel ran out)? -/
def nearDescDone (N : Near) : Nat → List Nat → List Nat → Bool
  | 0, F, _ => F.isEmpty
  | _ + 1, [], _ => true
  | f + 1, cur :: frontier, seen =>
    let seen1 := (N.lab.descendants cur).foldl (fun s d => insertSorted d s) seen
    let push := N.exceptions.filter (fun e => N.lab.subsumes e.2 cur && !(seen1.contains e.1))
    nearDescDone N f ((push.map (·.1)).reverse ++ frontier) seen1

/-- membership in the forest slice of the near-tree labels -/
theorem near_slice_mem {P : Poset} {h : Nat → Nat} (D : IsDag P h) (cur w : Nat) (hc : cur < P.n) :
    w ∈ (buildNear P).lab.descendants cur ↔ Reach (forestOf P) w cur := by
  have F := forest_isForest D
  have e : (buildNear P).lab = buildNested (forestOf P) := rfl
  rw [e, nested_descendants_eq_pre F cur hc]
  exact (mem_pre_iff_reach F.toAcyclic w cur hc).trans (reach_iff_Reach F.toAcyclic w cur hc)

structure LoopInv (P : Poset) (y : Nat) (F S : List Nat) : Prop where
  sorted : SSorted S
  soundS : ∀ z ∈ S, Reach P z y
  soundF : ∀ z ∈ F, Reach P z y ∧ z < P.n
  down : ∀ z ∈ S, ∀ w, Reach (forestOf P) w z → w ∈ S
  pend : ∀ e ∈ (buildNear P).exceptions, e.2 ∈ S → e.1 ∈ S ∨ e.1 ∈ F

structure LoopOut (P : Poset) (y : Nat) (S R : List Nat) (done : Bool) : Prop where
  sorted : SSorted R
  sound : ∀ z ∈ R, Reach P z y
  mono : ∀ z ∈ S, z ∈ R
  down : ∀ z ∈ R, ∀ w, Reach (forestOf P) w z → w ∈ R
  closed : done = true → ∀ e ∈ (buildNear P).exceptions, e.2 ∈ R → e.1 ∈ R

theorem nearDescLoop_spec {P : Poset} {h : Nat → Nat} (D : IsDag P h) (y : Nat) (hy : y < P.n) :
    ∀ (f : Nat) (F S : List Nat), LoopInv P y F S →
      LoopOut P y S (nearDescLoop (buildNear P) f F S) (nearDescDone (buildNear P) f F S) := by
  intro f
  induction f with
  | zero =>
    intro F S I
    refine ⟨I.sorted, I.soundS, fun _ h => h, I.down, ?_⟩
    intro hd e he hp
    simp only [nearDescDone, List.isEmpty_iff] at hd
    subst hd
    rcases I.pend e he hp with h | h
    · exact h
    · cases h
  | succ f ih =>
    intro F S I
    cases F with
    | nil =>
      refine ⟨I.sorted, I.soundS, fun _ h => h, I.down, ?_⟩
      intro _ e he hp
      rcases I.pend e he hp with h | h
      · exact h
      · cases h
    | cons cur F =>
      have hcur := I.soundF cur (by simp)
      -- names for the next state
      let S1 := unionSorted S ((buildNear P).lab.descendants cur)
      let push := (buildNear P).exceptions.filter
        (fun e => (buildNear P).lab.subsumes e.2 cur && !(S1.contains e.1))
      have hloop : nearDescLoop (buildNear P) (f + 1) (cur :: F) S
          = nearDescLoop (buildNear P) f ((push.map (·.1)).reverse ++ F) S1 := rfl
      have hdone : nearDescDone (buildNear P) (f + 1) (cur :: F) S
          = nearDescDone (buildNear P) f ((push.map (·.1)).reverse ++ F) S1 := rfl
      have hmemS1 : ∀ z, z ∈ S1 ↔ z ∈ S ∨ Reach (forestOf P) z cur := by
        intro z
        simp only [S1]
        rw [mem_unionSorted, near_slice_mem D cur z hcur.2]
      have hsubF : ∀ {a b : Nat}, Reach (forestOf P) a b → Reach P a b :=
        fun r => r.mono (fun e he => forest_edge_sub he)
      have I1 : LoopInv P y ((push.map (·.1)).reverse ++ F) S1 := by
        refine ⟨unionSorted_sorted _ _ I.sorted, ?_, ?_, ?_, ?_⟩
        · intro z hz
          rcases (hmemS1 z).mp hz with h1 | h1
          · exact I.soundS z h1
          · exact (hsubF h1).trans hcur.1
        · intro z hz
          rcases List.mem_append.mp hz with h1 | h1
          · simp only [List.mem_reverse, List.mem_map] at h1
            obtain ⟨e, he, rfl⟩ := h1
            have hf := List.mem_filter.mp he
            have hed := exc_sub (mem_exceptions.mp hf.1)
            have hr := D.inRange _ hed
            simp only [Bool.and_eq_true] at hf
            have hpc := (forest_sub_iff D e.2 cur hr.2 hcur.2).mp hf.2.1
            exact ⟨Reach.step hed ((hsubF hpc).trans hcur.1), hr.1⟩
          · exact I.soundF z (by simp [h1])
        · intro z hz w hw
          rcases (hmemS1 z).mp hz with h1 | h1
          · exact (hmemS1 w).mpr (Or.inl (I.down z h1 w hw))
          · exact (hmemS1 w).mpr (Or.inr (hw.trans h1))
        · intro e he hp
          by_cases hc1 : e.1 ∈ S1
          · exact Or.inl hc1
          · right
            have hed := exc_sub (mem_exceptions.mp he)
            have hr := D.inRange _ hed
            rcases (hmemS1 e.2).mp hp with h1 | h1
            · rcases I.pend e he h1 with h2 | h2
              · exact absurd ((hmemS1 e.1).mpr (Or.inl h2)) hc1
              · rcases List.mem_cons.mp h2 with h3 | h3
                · exact absurd ((hmemS1 e.1).mpr (Or.inr (h3 ▸ Reach.refl _))) hc1
                · exact List.mem_append.mpr (Or.inr h3)
            · apply List.mem_append.mpr; left
              simp only [List.mem_reverse, List.mem_map]
              refine ⟨e, List.mem_filter.mpr ⟨he, ?_⟩, rfl⟩
              simp only [Bool.and_eq_true, Bool.not_eq_true', List.contains_eq_mem,
                decide_eq_false_iff_not]
              exact ⟨(forest_sub_iff D e.2 cur hr.2 hcur.2).mpr h1, hc1⟩
      have out := ih _ _ I1
      rw [hloop, hdone]
      exact ⟨out.sorted, out.sound, fun z hz => out.mono z ((hmemS1 z).mpr (Or.inl hz)),
        out.down, out.closed⟩

/-- the initial state `frontier = [y]`, `seen = []` -/
theorem loopInv_init {P : Poset} (y : Nat) (hy : y < P.n) : LoopInv P y [y] [] :=
  ⟨by simp [SSorted], fun _ h => (by cases h),
    fun z hz => (by simp at hz; subst hz; exact ⟨Reach.refl _, hy⟩),
    fun _ h => (by cases h), fun _ _ h => (by cases h)⟩

/-- **soundness, for every fuel**: the enumeration is strictly increasing (no duplicates) and
lists only descendants of `y` -/
theorem near_desc_sound {P : Poset} {h : Nat → Nat} (D : IsDag P h) (y : Nat) (hy : y < P.n) :
    SSorted ((buildNear P).descendants y)
    ∧ ∀ z ∈ (buildNear P).descendants y, Reach P z y := by
  have out := nearDescLoop_spec D y hy
    (nearFuel (buildNear P))
    [y] [] (loopInv_init y hy)
  exact ⟨out.sorted, out.sound⟩

/-- **exactness when the frontier runs empty**: the enumeration is the specification's list -/
theorem near_desc_eq {P : Poset} {h : Nat → Nat} (D : IsDag P h) (y : Nat) (hy : y < P.n)
    (hdone : nearDescDone (buildNear P)
      (nearFuel (buildNear P))
      [y] [] = true) :
    (buildNear P).descendants y = specDesc P y := by
  have out := nearDescLoop_spec D y hy
    (nearFuel (buildNear P))
    [y] [] (loopInv_init y hy)
  have hR : (buildNear P).descendants y = nearDescLoop (buildNear P)
      (nearFuel (buildNear P))
      [y] [] := rfl
  rw [← hR] at out
  apply sorted_ext _ _ out.sorted (specDesc_sorted P y)
  intro x
  rw [mem_specDesc D.toAcyclic x y hy]
  constructor
  · exact out.sound x
  · intro r
    -- y is in the result (first iteration puts y's forest subtree into `seen`)
    have hyin : y ∈ (buildNear P).descendants y := by
      rw [hR]
      have hk : nearFuel (buildNear P) = ((buildNear P).exceptions.length + 1) ^ (buildNear P).lab.tin.length + 1 := rfl
      rw [hk]
      generalize ((buildNear P).exceptions.length + 1) ^ (buildNear P).lab.tin.length = k
      let S1 := unionSorted [] ((buildNear P).lab.descendants y)
      let push := (buildNear P).exceptions.filter
        (fun e => (buildNear P).lab.subsumes e.2 y && !(S1.contains e.1))
      have hloop : nearDescLoop (buildNear P) (k + 1) [y] []
          = nearDescLoop (buildNear P) k ((push.map (·.1)).reverse ++ []) S1 := rfl
      rw [hloop]
      have hy1 : y ∈ S1 := by
        simp only [S1]
        rw [mem_unionSorted, near_slice_mem D y y hy]
        exact Or.inr (Reach.refl _)
      -- monotonicity of `seen` through the remaining iterations
      have mono : ∀ (f : Nat) (F S : List Nat) (z : Nat), z ∈ S →
          z ∈ nearDescLoop (buildNear P) f F S := by
        intro f
        induction f with
        | zero => intro F S z hz; exact hz
        | succ f ih =>
          intro F S z hz
          cases F with
          | nil => exact hz
          | cons c F =>
            simp only [nearDescLoop]
            apply ih
            have : z ∈ unionSorted S ((buildNear P).lab.descendants c) :=
              (mem_unionSorted z _ _).mpr (Or.inl hz)
            exact this
      exact mono k _ S1 y hy1
    -- every node below y is in the result: forest edges by `down`, exception edges by `closed`
    have key : ∀ a b, Reach P a b → b ∈ (buildNear P).descendants y → b < P.n →
        a ∈ (buildNear P).descendants y := by
      intro a b rab
      induction rab with
      | refl _ => intro hb _; exact hb
      | @step a p b e r ih =>
        intro hb hbn
        have hr := D.inRange _ e
        have hp := ih hb hbn
        rcases edge_split hr.1 e with hf | hexc
        · exact out.down p hp a (Reach.step hf (Reach.refl _))
        · exact out.closed hdone (a, p) (mem_exceptions.mpr hexc) hp
    exact key x y r hyin hy

end SgModel.Oeh
