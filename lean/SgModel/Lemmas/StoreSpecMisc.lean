import SgModel.Lemmas.StoreSpecTyped
/-!
Helper lemmas for the graph-store model (C06), part 21: the Boolean clauses `specGetE`
(`get_edge` agrees with `all_edges`) and `specNodeCount` (`node_count` = number of observed
nodes, for a duplicate-free probe list that covers the ids in use).
-/
namespace SgModel.Store

/-- looking an id up in the observed relationships is `get_edge` -/
theorem find_obsEdges {s : State} (h : InvE s) (n : Nat) :
    ((obsEdges s).find? (fun e => eId e == n)).map (fun e => (eSrc e, eTgt e, eTy e, eProps e))
      = getEdge s n := by
  cases hf : (obsEdges s).find? (fun e => eId e == n) with
  | some x =>
    have hx := List.mem_of_find?_eq_some hf
    have hp := List.find?_some hf
    simp only [beq_iff_eq] at hp
    have := (mem_obsEdges h x).mp hx
    rw [hp] at this
    rw [this]; rfl
  | none =>
    simp only [Option.map_none]
    cases hg : getEdge s n with
    | none => rfl
    | some q =>
      obtain ⟨a, b, t, ps⟩ := q
      have hm : (n, a, b, t, ps) ∈ obsEdges s := (mem_obsEdges h _).mpr hg
      have := List.find?_eq_none.mp hf _ hm
      simp [eId] at this

theorem specGetE_holds {s : State} (hI : Inv s) (p : Probe) : specGetE p (obs s p) = true := by
  unfold specGetE
  show ((p.ids.zip (p.ids.map (getEdge s))).all _) = true
  rw [all_zip_map_self]
  intro n _
  simp only [beq_iff_eq]
  rw [obs_edges_eq, find_obsEdges hI.toInvE]

/-! ### node_count -/

theorem length_filter_isSome_eq {α : Type} (l : List (Option α)) :
    (l.filter Option.isSome).length
      = ((List.range l.length).filter (fun i => (l.getD i none).isSome)).length := by
  induction l with
  | nil => rfl
  | cons a as ih =>
    rw [List.length_cons, List.range_succ_eq_map, List.filter_cons, List.filter_cons]
    have hmap : ((List.range as.length).map Nat.succ).filter (fun i => ((a :: as).getD i none).isSome)
        = ((List.range as.length).filter (fun i => (as.getD i none).isSome)).map Nat.succ := by
      rw [List.filter_map]
      congr 1
    cases a with
    | none => simp only [Option.isSome_none, Bool.false_eq_true, if_false, List.getD_cons_zero, hmap,
        List.length_map, ih]
    | some v => simp only [Option.isSome_some, if_true, List.getD_cons_zero, List.length_cons, hmap,
        List.length_map, ih]

theorem length_filterMap_eq_filter {α β : Type} (l : List α) (f : α → Option β) :
    (l.filterMap f).length = (l.filter (fun x => (f x).isSome)).length := by
  induction l with
  | nil => rfl
  | cons a as ih =>
    cases hf : f a with
    | none => simp [List.filterMap_cons, List.filter_cons, hf, ih]
    | some v => simp [List.filterMap_cons, List.filter_cons, hf, ih]

theorem specNodeCount_holds (s : State) (p : Probe) (hnd : p.ids.Nodup)
    (hcov : ∀ n, getNode s n ≠ none → n ∈ p.ids) : specNodeCount (obs s p) = true := by
  unfold specNodeCount
  simp only [beq_iff_eq]
  show nodeCount s = (p.ids.filterMap _).length
  rw [length_filterMap_eq_filter]
  unfold nodeCount
  rw [length_filter_isSome_eq]
  apply List.Perm.length_eq
  rw [List.perm_ext_iff_of_nodup (List.nodup_range.filter _) (hnd.filter _)]
  intro n
  simp only [List.mem_filter, List.mem_range, Option.isSome_map]
  constructor
  · rintro ⟨_, hl⟩
    have hne : getNode s n ≠ none := by
      intro hh
      have hh' : s.nodes.getD n none = none := hh
      rw [hh'] at hl; cases hl
    exact ⟨hcov n hne, hl⟩
  · rintro ⟨_, hl⟩
    refine ⟨?_, hl⟩
    apply Nat.lt_of_not_le
    intro hle
    have : s.nodes.getD n none = none := by
      simp [List.getD_eq_getElem?_getD, List.getElem?_eq_none hle]
    simp only [getNode] at hl
    rw [this] at hl; cases hl

end SgModel.Store
