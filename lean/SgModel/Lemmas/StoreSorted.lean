import SgModel.Lemmas.StoreTy
import SgModel.Lemmas.StoreBsearch
/-!
Helper lemmas for the graph-store model (C06), part 11: sortedness invariants (I6b, I7): every
frozen row is sorted by neighbour id; every write-buffer row is sorted by neighbour id while no
edge stub is pending.  Preserved by every step, in both directions.
-/
namespace SgModel.Store

abbrev SortedK (r : Row) : Prop := r.Pairwise (fun a b => a.1 ≤ b.1)

theorem sortedK_keys {r : Row} (h : SortedK r) : SortedN (r.map (·.1)) :=
  List.pairwise_map.mpr h

theorem keys_getD (r : Row) (i : Nat) (h : i < r.length) : (r.map (·.1)).getD i 0 = (r[i]).1 := by
  simp [List.getD_eq_getElem?_getD, h]

/-- `create_edge`'s sorted insert keeps a sorted row sorted -/
theorem sortedK_insertAt {r : Row} (hs : SortedK r) (x e : Nat) :
    SortedK (insertAt r (bsearch (r.map (·.1)) x).2 (x, e)) := by
  obtain ⟨_, hlo, hhi⟩ := bsearch_pos (sortedK_keys hs) x
  generalize (bsearch (r.map (·.1)) x).2 = p at hlo hhi
  have hsplit : SortedK (r.take p ++ r.drop p) := by rw [List.take_append_drop]; exact hs
  obtain ⟨h1, h2, h3⟩ := List.pairwise_append.mp hsplit
  unfold insertAt
  refine List.pairwise_append.mpr ⟨h1, List.pairwise_cons.mpr ⟨?_, h2⟩, ?_⟩
  · intro b hb
    obtain ⟨j, hj, hjb⟩ := List.mem_iff_getElem.mp hb
    rw [List.length_drop] at hj
    rw [List.getElem_drop] at hjb
    have := hhi (p + j) (by omega) (by simp; omega)
    rw [keys_getD r (p + j) (by omega), hjb] at this
    exact this
  · intro a ha b hb
    rcases List.mem_cons.mp hb with rfl | hb
    · obtain ⟨i, hi, hia⟩ := List.mem_iff_getElem.mp ha
      rw [List.length_take] at hi
      rw [List.getElem_take] at hia
      have := hlo i (by omega)
      rw [keys_getD r i (by omega), hia] at this
      exact this
    · exact h3 a ha b hb

theorem sortedK_insKey (x : Nat × Nat) {r : Row} (hs : SortedK r) : SortedK (insKey x r) := by
  induction r with
  | nil => simp [insKey]
  | cons y ys ih =>
    simp only [insKey]
    obtain ⟨hy, hys⟩ := List.pairwise_cons.mp hs
    split
    · rename_i hle
      refine List.pairwise_cons.mpr ⟨?_, hs⟩
      intro b hb
      rcases List.mem_cons.mp hb with rfl | hb
      · exact hle
      · exact Nat.le_trans hle (hy b hb)
    · rename_i hnle
      refine List.pairwise_cons.mpr ⟨?_, ih hys⟩
      intro b hb
      rcases List.mem_cons.mp ((insKey_perm x ys).mem_iff.mp hb) with rfl | hb
      · omega
      · exact hy b hb

theorem sortedK_sortRow (r : Row) : SortedK (sortRow r) := by
  induction r with
  | nil => simp [sortRow]
  | cons x xs ih => exact sortedK_insKey x ih

theorem sortedK_filter {r : Row} (hs : SortedK r) (p : Nat × Nat → Bool) : SortedK (r.filter p) :=
  List.Pairwise.filter p hs

/-! ### one tier -/

structure TierSorted (T : Tier) (pending : Bool) : Prop where
  segs : ∀ seg ∈ T.segs, ∀ n, SortedK (seg.getD n [])
  buf : pending = false → ∀ n, SortedK (T.buf.getD n [])

theorem tierSorted_init (b : Bool) : TierSorted {} b := by
  refine ⟨fun seg h => ?_, fun _ n => ?_⟩
  · have : seg ∈ ([] : List Seg) := h
    cases this
  · show SortedK (([] : List Row).getD n [])
    simp

theorem TierSorted.ensure {T : Tier} {b : Bool} (h : TierSorted T b) (n : Nat) :
    TierSorted (T.ensure n) b := by
  have hs : (T.ensure n).segs = T.segs := by unfold Tier.ensure; split <;> rfl
  refine ⟨fun seg hm => h.segs seg (hs ▸ hm), fun hb m => ?_⟩
  have := Tier.row_ensure T n m
  unfold Tier.row Tier.frozenRow at this
  rw [hs] at this
  have hbuf : (T.ensure n).buf.getD m [] = T.buf.getD m [] := List.append_cancel_left this
  rw [hbuf]; exact h.buf hb m

theorem TierSorted.insertSorted {T : Tier} {b : Bool} (h : TierSorted T b) (n x e : Nat) :
    TierSorted (T.insertSorted n x e) b := by
  refine ⟨h.segs, fun hb m => ?_⟩
  show SortedK ((setGrow T.buf n _ []).getD m [])
  rw [getD_setGrow]
  split
  · exact sortedK_insertAt (h.buf hb n) x e
  · exact h.buf hb m

theorem TierSorted.push {T : Tier} {b : Bool} (h : TierSorted T b) (n x e : Nat) :
    TierSorted (T.push n x e) true :=
  ⟨h.segs, fun hb => by cases hb⟩

theorem TierSorted.remove {T : Tier} {b : Bool} (h : TierSorted T b) (n e : Nat) :
    TierSorted (T.remove n e) b := by
  refine ⟨fun seg hm m => ?_, fun hb m => ?_⟩
  · obtain ⟨seg0, hm0, rfl⟩ := List.mem_map.mp hm
    rw [getD_set_eq]
    split
    · exact sortedK_filter (h.segs seg0 hm0 n) _
    · exact h.segs seg0 hm0 m
  · show SortedK ((T.buf.set n _).getD m [])
    rw [getD_set_eq]
    split
    · exact sortedK_filter (h.buf hb n) _
    · exact h.buf hb m

theorem Tier.compact_buf (T : Tier) (m : Nat) : (T.compact).buf.getD m [] = [] := by
  show (T.buf.map (fun _ => ([] : Row))).getD m [] = []
  simp only [List.getD_eq_getElem?_getD, List.getElem?_map]
  cases T.buf[m]? <;> rfl

/-- after a compaction the buffer is empty, so the tier is sorted whatever the flag says -/
theorem TierSorted.compact {T : Tier} {b : Bool} (h : TierSorted T b) (b' : Bool) :
    TierSorted T.compact b' := by
  refine ⟨fun seg hm m => ?_, fun _ m => by rw [Tier.compact_buf]; simp⟩
  rcases List.mem_append.mp hm with hm | hm
  · exact h.segs seg hm m
  · simp only [List.mem_singleton] at hm
    subst hm
    simp only [List.getD_eq_getElem?_getD, List.getElem?_map]
    cases T.buf[m]? with
    | none => simp
    | some r => exact sortedK_sortRow r

theorem sumLen_zero_getD {α : Type} (rows : List (List α)) (h : sumLen rows = 0) (m : Nat) :
    rows.getD m [] = [] := by
  induction rows generalizing m with
  | nil => simp
  | cons a as ih =>
    rw [sumLen_cons] at h
    have ha : a = [] := List.eq_nil_of_length_eq_zero (by omega)
    cases m with
    | zero => simp [ha]
    | succ k => simpa using ih (by omega) k

/-- a tier whose buffer is empty is sorted for any flag -/
theorem TierSorted.of_empty_buf {T : Tier} {b : Bool} (h : TierSorted T b) (he : T.bufCount = 0)
    (b' : Bool) : TierSorted T b' :=
  ⟨h.segs, fun _ m => by rw [sumLen_zero_getD T.buf he m]; simp⟩

/-! ### the store -/

structure SortInv (s : State) : Prop where
  out : TierSorted s.outT s.stubPending
  inn : TierSorted s.inT s.stubPending

theorem sortInv_init : SortInv init := ⟨tierSorted_init _, tierSorted_init _⟩

theorem SortInv.frame {s s' : State} (h : SortInv s) (ho : s'.outT = s.outT) (hi : s'.inT = s.inT)
    (hp : s'.stubPending = s.stubPending) : SortInv s' := by
  refine ⟨?_, ?_⟩
  · rw [ho, hp]; exact h.out
  · rw [hi, hp]; exact h.inn

theorem updNode_tiers (s : State) (n : Nat) (f : NodeRec → NodeRec) :
    (updNode s n f).outT = s.outT ∧ (updNode s n f).inT = s.inT
    ∧ (updNode s n f).stubPending = s.stubPending := by
  unfold updNode; cases getNode s n <;> exact ⟨rfl, rfl, rfl⟩

theorem sortInv_createNode {s : State} (h : SortInv s) (l : Nat) (ps : Props) :
    SortInv (createNode s l ps).1 := by
  unfold createNode allocN
  cases s.freeN <;> exact ⟨h.out.ensure _, h.inn.ensure _⟩

theorem createEdge_tiers {s : State} {a b : Nat} (ty : Nat) (ps : Props)
    (ha : liveN s a = true) (hb : liveN s b = true) :
    (createEdge s a b ty ps).1.outT = s.outT.insertSorted a b (allocE s).1
    ∧ (createEdge s a b ty ps).1.inT = s.inT.insertSorted b a (allocE s).1 := by
  unfold createEdge
  simp only [ha, hb, Bool.not_true, Bool.false_eq_true, if_false]
  unfold allocE
  cases s.freeE <;> (rw [linkEdge_eq]; exact ⟨rfl, rfl⟩)

theorem createEdgeStub_tiers {s : State} {a b : Nat} (ty : Nat)
    (ha : liveN s a = true) (hb : liveN s b = true) :
    (createEdgeStub s a b ty).1.outT = s.outT.push a b (allocE s).1
    ∧ (createEdgeStub s a b ty).1.inT = s.inT.push b a (allocE s).1 := by
  unfold createEdgeStub
  simp only [ha, hb, Bool.not_true, Bool.or_self, Bool.false_eq_true, if_false]
  unfold allocE
  cases s.freeE <;> (rw [linkEdge_eq]; exact ⟨rfl, rfl⟩)

theorem sortInv_createEdge {s : State} (h : SortInv s) (a b ty : Nat) (ps : Props) :
    SortInv (createEdge s a b ty ps).1 := by
  cases ha : liveN s a with
  | false => unfold createEdge; simp only [ha]; exact h
  | true =>
    cases hb : liveN s b with
    | false => unfold createEdge; simp only [ha, hb]; exact h
    | true =>
      obtain ⟨ho, hi⟩ := createEdge_tiers (s := s) ty ps ha hb
      obtain ⟨_, _, _, _, _, hp, _, _⟩ := createEdge_reads (s := s) ty ps ha hb
      refine ⟨?_, ?_⟩
      · rw [ho, hp]; exact h.out.insertSorted _ _ _
      · rw [hi, hp]; exact h.inn.insertSorted _ _ _

theorem sortInv_createEdgeStub {s : State} (h : SortInv s) (a b ty : Nat) :
    SortInv (createEdgeStub s a b ty).1 := by
  cases ha : liveN s a with
  | false => unfold createEdgeStub; simp only [ha]; exact h
  | true =>
    cases hb : liveN s b with
    | false => unfold createEdgeStub; simp only [ha, hb]; exact h
    | true =>
      obtain ⟨ho, hi⟩ := createEdgeStub_tiers (s := s) ty ha hb
      obtain ⟨_, _, _, _, _, hp, _, _⟩ := createEdgeStub_reads (s := s) ty ha hb
      refine ⟨?_, ?_⟩
      · rw [ho, hp]; exact h.out.push _ _ _
      · rw [hi, hp]; exact h.inn.push _ _ _

theorem sortInv_deleteEdge {s : State} (h : SortInv s) (e : Nat) : SortInv (deleteEdge s e).1 := by
  unfold deleteEdge
  cases getEdge s e with
  | none => exact h
  | some q =>
    obtain ⟨a, b, ty, ps⟩ := q
    exact ⟨h.out.remove a e, h.inn.remove b e⟩

theorem foldl_deleteEdge_sorted (ids : List Nat) {s : State} (h : SortInv s) :
    SortInv (ids.foldl (fun acc e => (deleteEdge acc e).1) s) := by
  induction ids generalizing s with
  | nil => exact h
  | cons a as ih => exact ih (sortInv_deleteEdge h a)

theorem sortInv_deleteNode {s : State} (h : SortInv s) (n : Nat) : SortInv (deleteNode s n).1 := by
  unfold deleteNode deleteNodeWith
  cases getNode s n with
  | none => exact h
  | some r => exact foldl_deleteEdge_sorted _ (h.frame rfl rfl rfl)

/-- after `compact_adjacency` both write buffers are empty -/
theorem sortInv_compact {s : State} (h : SortInv s) (b' : Bool) :
    TierSorted (compact s).outT b' ∧ TierSorted (compact s).inT b' := by
  unfold compact
  split
  · rename_i hz
    exact ⟨h.out.of_empty_buf hz.1 b', h.inn.of_empty_buf hz.2 b'⟩
  · exact ⟨h.out.compact b', h.inn.compact b'⟩

theorem sortInv_step {s : State} (h : SortInv s) (op : Op) : SortInv (step s op).1 := by
  cases op with
  | mkN l => exact sortInv_createNode h l []
  | mkNP l k v => exact sortInv_createNode h l [(k, v)]
  | mkNS l => exact sortInv_createNode h l []
  | mkE a b ty => exact sortInv_createEdge h a b ty []
  | mkEP a b ty k v => exact sortInv_createEdge h a b ty [(k, v)]
  | mkES a b ty => exact sortInv_createEdgeStub h a b ty
  | delE e => exact sortInv_deleteEdge h e
  | delN n => exact sortInv_deleteNode h n
  | addL n l =>
    show SortInv (addLabel s n l).1
    unfold addLabel; cases getNode s n with
    | none => exact h
    | some r =>
      obtain ⟨a1, a2, a3⟩ := updNode_tiers s n (fun r => { r with labels := setInsert r.labels l })
      exact h.frame a1 a2 a3
  | rmL n l =>
    show SortInv (removeLabel s n l).1
    unfold removeLabel; cases getNode s n with
    | none => exact h
    | some r =>
      simp only; split
      · exact h
      · obtain ⟨a1, a2, a3⟩ := updNode_tiers s n (fun r => { r with labels := r.labels.filter (· != l) })
        exact h.frame a1 a2 a3
  | setNP n k v =>
    show SortInv (setNodeProp s n k v).1
    unfold setNodeProp; cases getNode s n with
    | none => exact h
    | some r =>
      obtain ⟨a1, a2, a3⟩ := updNode_tiers s n (fun r => { r with props := assocSet r.props k v })
      exact h.frame a1 a2 a3
  | rmNP n k =>
    show SortInv (removeNodeProp s n k).1
    unfold removeNodeProp
    obtain ⟨a1, a2, a3⟩ := updNode_tiers s n (fun r => { r with props := assocErase r.props k })
    exact h.frame a1 a2 a3
  | setEP e k v =>
    show SortInv (setEdgeProp s e k v).1
    unfold setEdgeProp; split <;> exact h.frame rfl rfl rfl
  | rmEP e k =>
    show SortInv (removeEdgeProp s e k).1
    unfold removeEdgeProp; split <;> exact h.frame rfl rfl rfl
  | compact =>
    obtain ⟨c1, c2⟩ := sortInv_compact h (compact s).stubPending
    exact ⟨c1, c2⟩
  | finish =>
    obtain ⟨c1, c2⟩ := sortInv_compact h false
    exact ⟨c1, c2⟩
  | clear => exact sortInv_init

theorem sortInv_run (ops : List Op) : SortInv (run ops) := by
  have : ∀ (ops : List Op) (s : State), SortInv s →
      SortInv (ops.foldl (fun s op => (step s op).1) s) := by
    intro ops
    induction ops with
    | nil => intro s h; exact h
    | cons op rest ih => intro s h; exact ih _ (sortInv_step h op)
  exact this ops init sortInv_init

end SgModel.Store
