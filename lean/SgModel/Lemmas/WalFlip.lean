import SgModel.Lemmas.WalVariants
/-! C15 — image variants: one byte of a file of a valid directory XOR-ed with a mask, inside
the region the checksum protects (entry bytes, stored checksum).  Core Lean only. -/
namespace SgModel.Wal

theorem flipByte_append_left : ∀ (x y : Bytes) (p : Nat) (m : UInt8), p < x.length →
    flipByte (x ++ y) p m = flipByte x p m ++ y
  | [], _, _, _, h => by simp at h
  | a :: x, y, 0, m, _ => by simp [flipByte]
  | a :: x, y, p + 1, m, h => by
    have := flipByte_append_left x y p m (by simpa using h)
    simp only [flipByte] at this ⊢
    simp [this]

theorem flipByte_append_right : ∀ (x y : Bytes) (p : Nat) (m : UInt8), x.length ≤ p →
    flipByte (x ++ y) p m = x ++ flipByte y (p - x.length) m
  | [], _, _, _, _ => by simp
  | a :: x, y, 0, m, h => by simp at h
  | a :: x, y, p + 1, m, h => by
    have := flipByte_append_right x y p m (by simpa using h)
    simp only [flipByte] at this ⊢
    simp [this]

theorem flipByte_at (a c : Bytes) (b m : UInt8) :
    flipByte (a ++ b :: c) a.length m = a ++ (b ^^^ m) :: c := by
  rw [flipByte_append_right a _ _ m (Nat.le_refl _)]
  simp [flipByte]

theorem split_at {l : Bytes} {p : Nat} (h : p < l.length) :
    ∃ a b c, l = a ++ b :: c ∧ a.length = p :=
  ⟨l.take p, l[p], l.drop (p + 1), by rw [← List.drop_eq_getElem_cons h, List.take_append_drop],
    by simp [List.length_take]; omega⟩

/-- a frame whose entry or stored checksum no longer match -/
def Damaged (r : Rec) (e' ckb : Bytes) : Prop :=
  e'.length = r.entry.length ∧ ckb.length = 4 ∧ fromLE ckb ≠ cksum e'

def badFrame (r : Rec) (e' ckb : Bytes) : Bytes :=
  le 4 (r.entry.length + 12) ++ (le 8 r.seq ++ (e' ++ ckb))

theorem frame_eq (r : Rec) : frame r = le 4 (r.entry.length + 12) ++ (le 8 r.seq ++ (r.entry ++ le 4 (cksum r.entry))) := rfl

/-- a flip at offset `p` that `locate` places in the entry or the stored checksum of record `j`
turns the file into: the first `j` frames, a damaged frame, the rest unchanged -/
theorem locate_flip : ∀ (rs : List Rec) (p j : Nat) (g : Region), locate rs p = some (j, g) →
    (g = .entry ∨ g = .cksum) → ∀ (mask : UInt8), mask ≠ 0 →
    ∃ r e' ckb, rs[j]? = some r ∧ Damaged r e' ckb ∧ ∀ tail,
      flipByte (frames rs ++ tail) p mask
        = frames (rs.take j) ++ (badFrame r e' ckb ++ (frames (rs.drop (j + 1)) ++ tail))
  | [], _, _, _, h, _, _, _ => by simp [locate] at h
  | r :: rs, p, j, g, h, hg, mask, hm => by
    simp only [locate] at h
    by_cases h4 : p < 4
    · rw [if_pos h4] at h; simp at h; rcases hg with hg | hg <;> simp_all
    rw [if_neg h4] at h
    by_cases h12 : p < 12
    · rw [if_pos h12] at h; simp at h; rcases hg with hg | hg <;> simp_all
    rw [if_neg h12] at h
    by_cases he : p < 12 + r.entry.length
    · -- the entry of the first record
      rw [if_pos he] at h; simp at h
      obtain ⟨rfl, rfl⟩ := h
      obtain ⟨a, b, c, hsplit, hal⟩ := split_at (l := r.entry) (p := p - 12) (by omega)
      refine ⟨r, a ++ (b ^^^ mask) :: c, le 4 (cksum r.entry), by simp, ⟨?_, le_length 4 _, ?_⟩, ?_⟩
      · rw [hsplit]; simp
      · rw [fromLE_le 4 _ (cksum_lt _), hsplit]; exact cksum_flip a c b mask hm
      · intro tail
        simp only [frames, List.take_zero, List.nil_append, Nat.zero_add, List.drop_succ_cons,
          List.drop_zero, badFrame, frame_eq, List.append_assoc]
        rw [flipByte_append_right _ _ _ _ (by rw [le_length]; omega), le_length,
          flipByte_append_right _ _ _ _ (by rw [le_length]; omega), le_length,
          flipByte_append_left _ _ _ _ (by omega)]
        have hp : p - 4 - 8 = a.length := by omega
        rw [hp]
        conv => lhs; rw [hsplit]
        rw [flipByte_at]
        simp only [hsplit, List.append_assoc, List.cons_append]
    rw [if_neg he] at h
    by_cases hc : p < 16 + r.entry.length
    · -- the stored checksum of the first record
      rw [if_pos hc] at h; simp at h
      obtain ⟨rfl, rfl⟩ := h
      obtain ⟨x, y, z, hsplit, hxl⟩ := split_at (l := le 4 (cksum r.entry)) (p := p - 12 - r.entry.length)
        (by rw [le_length]; omega)
      have hl4 : (x ++ (y ^^^ mask) :: z).length = 4 := by
        have := congrArg List.length hsplit; simp [le_length] at this ⊢; omega
      refine ⟨r, r.entry, x ++ (y ^^^ mask) :: z, by simp, ⟨rfl, hl4, ?_⟩, ?_⟩
      · intro heq
        have h3 : fromLE (x ++ (y ^^^ mask) :: z) = fromLE (le 4 (cksum r.entry)) := by
          rw [heq, fromLE_le 4 _ (cksum_lt _)]
        have h4' := fromLE_inj _ _ (by rw [hl4, le_length]) h3
        rw [hsplit] at h4'
        have h5 := List.append_cancel_left h4'
        simp only [List.cons.injEq] at h5
        have h6 : y ^^^ (y ^^^ mask) = y ^^^ y := by rw [h5.1]
        rw [← UInt8.xor_assoc, UInt8.xor_self, UInt8.zero_xor] at h6
        exact hm h6
      · intro tail
        simp only [frames, List.take_zero, List.nil_append, Nat.zero_add, List.drop_succ_cons,
          List.drop_zero, badFrame, frame_eq, List.append_assoc]
        rw [flipByte_append_right _ _ _ _ (by rw [le_length]; omega), le_length,
          flipByte_append_right _ _ _ _ (by rw [le_length]; omega), le_length,
          flipByte_append_right _ _ _ _ (by omega),
          flipByte_append_left _ _ _ _ (by rw [le_length]; omega)]
        have hp : p - 4 - 8 - r.entry.length = x.length := by omega
        rw [hp]
        conv => lhs; rw [hsplit]
        rw [flipByte_at]
        simp only [List.append_assoc, List.cons_append]
    · -- a later record
      rw [if_neg hc] at h
      cases hl : locate rs (p - (16 + r.entry.length)) with
      | none => rw [hl] at h; simp at h
      | some jg =>
        rw [hl] at h
        obtain ⟨j', g'⟩ := jg
        simp at h
        obtain ⟨rfl, rfl⟩ := h
        obtain ⟨r', e', ckb, hget, hdam, hflip⟩ := locate_flip rs _ j' g' hl hg mask hm
        refine ⟨r', e', ckb, by simpa using hget, hdam, ?_⟩
        intro tail
        simp only [frames, List.take_succ_cons, List.drop_succ_cons, List.append_assoc]
        have hsub : p - (r.entry.length + 16) = p - (16 + r.entry.length) := by omega
        rw [flipByte_append_right _ _ _ _ (by rw [frame_length]; omega), frame_length, hsub, hflip tail]

/-- replay of intact records followed by a damaged frame: exactly the intact records, and an error -/
theorem replay_damaged {dec : Dec} (pre : List Rec) (hw : ∀ r ∈ pre, WFRec dec r) (r : Rec)
    (e' ckb post : Bytes) (hL : r.entry.length + 12 < 256 ^ 4) (hd : Damaged r e' ckb) :
    ∃ err, err ≠ End.ok ∧
      replay Mode.fixed dec (frames pre ++ (badFrame r e' ckb ++ post)) = (pre, err) := by
  obtain ⟨hlen, hc4, hne⟩ := hd
  apply replay_pre_then pre hw _ (fun p => ∃ err, err ≠ End.ok ∧ p = (pre, err))
  intro fuel
  rw [← hlen] at hL
  obtain ⟨err, h1, h2⟩ := replayFile_badck (m := Mode.fixed) rfl dec r.seq e' ckb post fuel hL hc4 hne
  refine ⟨err, h1, ?_⟩
  have : badFrame r e' ckb ++ post = le 4 (e'.length + 12) ++ (le 8 r.seq ++ (e' ++ ckb)) ++ post := by
    simp [badFrame, hlen]
  rw [this, h2]; simp

/-- the flip used by the `f.<file>.<offset>.<mask>` variants -/
def flipFile (p : Nat) (mask : UInt8) (f : File) : File := { f with data := flipByte f.data p mask }

/-- a good file, flipped inside the entry / stored checksum of its record `j`, replays exactly its
first `j` records and then fails -/
theorem replay_flipFile {dec : Dec} {f : File} (hg : Good dec f) {p j : Nat} {g : Region}
    (hloc : locate (recsOf dec f) p = some (j, g)) (hreg : g = .entry ∨ g = .cksum)
    (mask : UInt8) (hm : mask ≠ 0) :
    ∃ err, err ≠ End.ok ∧
      replay Mode.fixed dec (flipFile p mask f).data = ((recsOf dec f).take j, err) := by
  obtain ⟨rs, t, hw, ht, hd⟩ := hg
  have hrf : recsOf dec f = rs := recsOf_eq hw ht hd
  rw [hrf] at hloc ⊢
  obtain ⟨r, e', ckb, hget, hdam, hflip⟩ := locate_flip rs p j g hloc hreg mask hm
  have hr : r ∈ rs := List.mem_of_getElem? hget
  obtain ⟨err, h1, h2⟩ := replay_damaged (rs.take j) (fun x hx => hw x (List.mem_of_mem_take hx)) r e' ckb
    (frames (rs.drop (j + 1)) ++ t) (hw r hr).2.1 hdam
  exact ⟨err, h1, by simp only [flipFile, hd, hflip t, h2]⟩

theorem replayDir_modify_bad {dec : Dec} (T : File → File) : ∀ (fs : List File) (i : Nat) (f : File)
    (pre : List Rec) (err : End), (∀ g ∈ fs, Good dec g) → fs[i]? = some f →
    replay Mode.fixed dec (T f).data = (pre, err) → err ≠ End.ok →
    replayDir Mode.fixed dec ((fs.modify i T).map (·.data))
      = (((fs.take i).map (recsOf dec)).flatten ++ pre, err)
  | [], _, _, _, _, _, h, _, _ => by simp at h
  | g :: fs, 0, f, pre, err, _, hget, hr, hne => by
    simp at hget; subst hget
    simp [replayDir, hr, hne]
  | g :: fs, i + 1, f, pre, err, hgood, hget, hr, hne => by
    have ih := replayDir_modify_bad T fs i f pre err (fun x hx => hgood x (by simp [hx]))
      (by simpa using hget) hr hne
    simp only [List.modify_succ_cons, List.map_cons, replayDir,
      replay_good (m := Mode.fixed) rfl (hgood g (by simp)), if_true, ih, List.take_succ_cons,
      List.flatten_cons, List.append_assoc]

theorem take_flatten_sublist {dec : Dec} : ∀ (fs : List File) (i : Nat) (f : File) (j : Nat),
    fs[i]? = some f →
    List.Sublist (((fs.take i).map (recsOf dec)).flatten ++ (recsOf dec f).take j)
      ((fs.map (recsOf dec)).flatten)
  | [], _, _, _, h => by simp at h
  | g :: fs, 0, f, j, h => by
    simp at h; subst h
    simp only [List.take_zero, List.map_nil, List.flatten_nil, List.nil_append, List.map_cons,
      List.flatten_cons]
    exact (List.take_sublist _ _).trans (List.sublist_append_left _ _)
  | g :: fs, i + 1, f, j, h => by
    have ih := take_flatten_sublist (dec := dec) fs i f j (by simpa using h)
    simp only [List.take_succ_cons, List.map_cons, List.flatten_cons, List.append_assoc]
    exact List.Sublist.append_left ih _

/-- **one byte of a valid directory changed inside an entry or a stored checksum**: what the
model observes satisfies `specFlip` for the records the files held (entries pairwise distinct) -/
theorem specFlip_of_dirOK {dec : Dec} {fs : List File} {B : Nat} (h : DirOK dec fs B)
    (hnd : (((fs.map (recsOf dec)).flatten).map (·.entry)).Nodup)
    {i p j : Nat} {g : Region} {f : File} (hget : fs[i]? = some f)
    (hloc : locate (recsOf dec f) p = some (j, g)) (hreg : g = .entry ∨ g = .cksum)
    (mask : UInt8) (hm : mask ≠ 0) (top : Nat) :
    specFlip (fs.map (recsOf dec)) i p
      (observe Mode.fixed dec (fs.modify i (flipFile p mask)) top) = true := by
  have hf : f ∈ fs := List.mem_of_getElem? hget
  obtain ⟨err, herr, hrep⟩ := replay_flipFile (h.1 f hf).1 hloc hreg mask hm
  have hdir := replayDir_modify_bad (flipFile p mask) fs i f _ err (fun g hg => (h.1 g hg).1) hget hrep herr
  have hsub := take_flatten_sublist (dec := dec) fs i f j hget
  generalize hbef : ((fs.take i).map (recsOf dec)).flatten ++ (recsOf dec f).take j = before at hdir hsub
  have hR : (observe Mode.fixed dec (fs.modify i (flipFile p mask)) top).runs
      = (List.range (top + 1)).map (fun frm => ((delivered frm before).map (·.entry), err, 0)) := by
    simp only [observe, hdir, if_neg herr]
  have hR0 : (List.range (top + 1)).map (fun frm => ((delivered frm before).map (·.entry), err, 0))
      = (before.map (·.entry), err, 0)
        :: ((List.range top).map Nat.succ).map (fun frm => ((delivered frm before).map (·.entry), err, 0)) := by
    simp only [List.range_succ_eq_map, List.map_cons, delivered_zero]
  have hfr : (fs.map (recsOf dec))[i]? = some (recsOf dec f) := by simp [hget]
  have hsubseq : isSubseq (before.map (·.entry)) (((fs.map (recsOf dec)).flatten).map (·.entry)) = true :=
    isSubseq_of_sublist (hsub.map _)
  have hbef' : ((fs.map (recsOf dec)).take i).flatten ++ (recsOf dec f).take j = before := by
    rw [← List.map_take]; exact hbef
  have herr' : (err != End.ok) = true := by simpa using herr
  unfold specFlip
  rw [hfr, hR, hR0]
  simp only
  rw [filter_of_sublist hsub hnd, ← hR0, hloc]
  simp only [hsubseq, beq_self_eq_true, Bool.true_and, hbef', Bool.and_eq_true]
  refine ⟨?_, ?_⟩
  · simp only [List.all_eq_true, List.mem_range, List.length_map, List.length_range]
    intro frm hfrm
    simp [List.getElem?_map, List.getElem?_range hfrm, herr']
  · rcases hreg with rfl | rfl <;> simp [herr']

end SgModel.Wal
