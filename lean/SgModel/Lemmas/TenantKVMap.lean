import SgModel.Lemmas.TenantKV
/-! Helper lemmas for C17, part 2 (core Lean only): the ordered map — sortedness, point
reads, and "seek + take while the prefix matches = filter by prefix". -/
namespace SgModel.TenantKV

def Sorted (m : KV) : Prop := m.Pairwise (fun a b => bytesLt a.1 b.1 = true)

theorem sorted_nil : Sorted [] := List.Pairwise.nil

theorem mem_kvPut {m : KV} {k : Bytes} {v : Val} {e : Bytes × Val} (h : e ∈ kvPut m k v) :
    e = (k, v) ∨ e ∈ m := by
  induction m with
  | nil => simp [kvPut] at h; exact Or.inl h
  | cons a m ih =>
    obtain ⟨k', v'⟩ := a
    simp only [kvPut] at h
    split at h
    · rcases List.mem_cons.mp h with h | h
      · exact Or.inl h
      · exact Or.inr h
    · split at h
      · rcases List.mem_cons.mp h with h | h
        · exact Or.inl h
        · exact Or.inr (List.mem_cons_of_mem _ h)
      · rcases List.mem_cons.mp h with h | h
        · exact Or.inr (by rw [h]; exact List.mem_cons_self)
        · rcases ih h with h | h
          · exact Or.inl h
          · exact Or.inr (List.mem_cons_of_mem _ h)

theorem sorted_kvPut {m : KV} (h : Sorted m) (k : Bytes) (v : Val) : Sorted (kvPut m k v) := by
  induction m with
  | nil => simp [kvPut, Sorted]
  | cons a m ih =>
    obtain ⟨k', v'⟩ := a
    unfold Sorted at h
    have ⟨h1, h2⟩ := List.pairwise_cons.mp h
    simp only [kvPut]
    split
    · rename_i hlt
      unfold Sorted
      refine List.pairwise_cons.mpr ⟨?_, h⟩
      intro e he
      rcases List.mem_cons.mp he with rfl | he
      · exact hlt
      · exact bytesLt_trans hlt (h1 e he)
    · rename_i hnlt
      split
      · rename_i heq
        simp only [beq_iff_eq] at heq
        subst heq
        unfold Sorted
        exact List.pairwise_cons.mpr ⟨h1, h2⟩
      · rename_i hne
        simp only [beq_iff_eq] at hne
        have hgt : bytesLt k' k = true :=
          bytesLt_total (by simpa using hnlt) hne
        unfold Sorted
        refine List.pairwise_cons.mpr ⟨?_, ih h2⟩
        intro e he
        rcases mem_kvPut he with rfl | he
        · exact hgt
        · exact h1 e he

theorem sorted_kvDel {m : KV} (h : Sorted m) (k : Bytes) : Sorted (kvDel m k) :=
  List.Pairwise.filter _ h

theorem kvGet_cons (e : Bytes × Val) (m : KV) (k : Bytes) :
    kvGet (e :: m) k = if e.1 = k then some e.2 else kvGet m k := by
  unfold kvGet
  rw [List.find?_cons]
  by_cases h : e.1 = k
  · simp [h]
  · have : (e.1 == k) = false := by simpa using h
    simp [this, h]

theorem kvGet_kvPut (m : KV) (k : Bytes) (v : Val) (k' : Bytes) :
    kvGet (kvPut m k v) k' = if k' = k then some v else kvGet m k' := by
  induction m with
  | nil =>
    simp only [kvPut, kvGet_cons]
    by_cases h : k = k'
    · simp [h]
    · have : ¬ k' = k := fun e => h e.symm
      simp [h, this, kvGet]
  | cons a m ih =>
    obtain ⟨k1, v1⟩ := a
    simp only [kvPut]
    split
    · rw [kvGet_cons]
      by_cases h : k = k'
      · simp [h]
      · have : ¬ k' = k := fun e => h e.symm
        simp [h, this]
    · split
      · rename_i heq
        simp only [beq_iff_eq] at heq
        subst heq
        rw [kvGet_cons, kvGet_cons]
        by_cases h : k = k'
        · simp [h]
        · have : ¬ k' = k := fun e => h e.symm
          simp [h, this]
      · rename_i hne
        simp only [beq_iff_eq] at hne
        rw [kvGet_cons, kvGet_cons, ih]
        by_cases h1 : k1 = k'
        · have : ¬ k' = k := by rw [← h1]; exact fun e => hne e.symm
          simp [h1, this]
        · simp [h1]

theorem kvGet_kvDel (m : KV) (k k' : Bytes) :
    kvGet (kvDel m k) k' = if k' = k then none else kvGet m k' := by
  induction m with
  | nil => simp [kvDel, kvGet]
  | cons a m ih =>
    unfold kvDel at *
    rw [List.filter_cons]
    by_cases hak : a.1 = k
    · have : (!(a.1 == k)) = false := by simp [hak]
      simp only [this, Bool.false_eq_true, if_false, ih, kvGet_cons]
      by_cases h : k' = k
      · simp [h]
      · have : ¬ a.1 = k' := by rw [hak]; exact fun e => h e.symm
        simp [h, this]
    · have : (!(a.1 == k)) = true := by simp [hak]
      simp only [this, if_true, kvGet_cons, ih]
      by_cases h1 : a.1 = k'
      · have : ¬ k' = k := by rw [← h1]; exact hak
        simp [h1, this]
      · simp [h1]

theorem mem_kvDel {m : KV} {k : Bytes} {e : Bytes × Val} (h : e ∈ kvDel m k) : e ∈ m :=
  (List.mem_filter.mp h).1

/-- in a sorted map a pair is a member iff the point read of its key returns its value -/
theorem mem_iff_kvGet {m : KV} (h : Sorted m) (k : Bytes) (v : Val) :
    (k, v) ∈ m ↔ kvGet m k = some v := by
  induction m with
  | nil => simp [kvGet]
  | cons a m ih =>
    unfold Sorted at h
    have ⟨h1, h2⟩ := List.pairwise_cons.mp h
    rw [kvGet_cons, List.mem_cons]
    by_cases hk : a.1 = k
    · simp only [hk, if_true, Option.some.injEq]
      constructor
      · rintro (heq | hm)
        · rw [← heq]
        · have := h1 (k, v) hm
          rw [hk, bytesLt_irrefl] at this
          exact absurd this (by simp)
      · intro hv
        exact Or.inl (by rw [← hk, ← hv])
    · simp only [hk, if_false]
      rw [← ih h2]
      constructor
      · rintro (heq | hm)
        · exact absurd (by rw [← heq]) hk
        · exact hm
      · exact Or.inr

/-! ### seek + takeWhile = filter -/

theorem takeWhile_eq_filter {p : Bytes} {l : KV} (h : Sorted l)
    (hge : ∀ e ∈ l, bytesLt e.1 p = false) :
    l.takeWhile (fun e => hasPrefix p e.1) = l.filter (fun e => hasPrefix p e.1) := by
  induction l with
  | nil => rfl
  | cons a l ih =>
    unfold Sorted at h
    have ⟨h1, h2⟩ := List.pairwise_cons.mp h
    rw [List.takeWhile_cons, List.filter_cons]
    cases hp : hasPrefix p a.1 with
    | true =>
      simp only [if_true]
      rw [ih h2 (fun e he => hge e (List.mem_cons_of_mem _ he))]
    | false =>
      simp only [Bool.false_eq_true, if_false]
      symm
      rw [List.filter_eq_nil_iff]
      intro e he
      have := no_prefix_after (hge a List.mem_cons_self) hp (h1 e he)
      simp [this]

theorem scan_eq_filter {p : Bytes} {m : KV} (h : Sorted m) :
    (seek m p).takeWhile (fun e => hasPrefix p e.1) = m.filter (fun e => hasPrefix p e.1) := by
  induction m with
  | nil => rfl
  | cons a m ih =>
    unfold Sorted at h
    have ⟨h1, h2⟩ := List.pairwise_cons.mp h
    unfold seek
    rw [List.dropWhile_cons]
    cases hlt : bytesLt a.1 p with
    | true =>
      simp only [if_true]
      have hno : hasPrefix p a.1 = false := by
        cases hp : hasPrefix p a.1
        · rfl
        · have := not_lt_of_hasPrefix hp
          rw [hlt] at this
          exact absurd this (by simp)
      rw [List.filter_cons]
      simp only [hno, Bool.false_eq_true, if_false]
      exact ih h2
    | false =>
      simp only [Bool.false_eq_true, if_false]
      apply takeWhile_eq_filter h
      intro e he
      rcases List.mem_cons.mp he with rfl | he
      · exact hlt
      · cases hb : bytesLt e.1 p
        · rfl
        · have := bytesLt_trans (h1 e he) hb
          rw [hlt] at this
          exact absurd this (by simp)

/-- the scan of a sorted map returns exactly the values stored under keys with the prefix -/
theorem mem_scanKV {m : KV} (h : Sorted m) (p : Bytes) (v : Val) :
    v ∈ scanKV m p ↔ ∃ k, hasPrefix p k = true ∧ kvGet m k = some v := by
  unfold scanKV
  rw [scan_eq_filter h, List.mem_map]
  constructor
  · rintro ⟨e, he, rfl⟩
    rw [List.mem_filter] at he
    exact ⟨e.1, he.2, (mem_iff_kvGet h e.1 e.2).mp he.1⟩
  · rintro ⟨k, hp, hg⟩
    exact ⟨(k, v), List.mem_filter.mpr ⟨(mem_iff_kvGet h k v).mpr hg, hp⟩, rfl⟩

end SgModel.TenantKV
