import SgModel.Lemmas.StoreCols
/-!
Helper lemmas for the graph-store model (C06), part 23: the Boolean clause `specCols`, and
the whole of `specObs` for the model's observation in every state satisfying the invariants.
-/
namespace SgModel.Store

theorem all_zip2 {α β γ : Type} (l : List α) (f : α → β) (g : α → γ) (q : α × β × γ → Bool) :
    (l.zip ((l.map f).zip (l.map g))).all q = true ↔ ∀ x ∈ l, q (x, f x, g x) = true := by
  rw [zip_map_map l f g, all_zip_map_self]

/-- looking an id up in the observed nodes is `get_node` (for a probed id) -/
theorem find_obsNodes (s : State) (p : Probe) (n : Nat) (hn : n ∈ p.ids) :
    (obs s p).nodes.find? (fun x => x.1 == n) = (getNode s n).map (fun r => (n, r.labels, r.props)) := by
  cases hf : (obs s p).nodes.find? (fun x => x.1 == n) with
  | some x =>
    have hx := List.mem_of_find?_eq_some hf
    have hp := List.find?_some hf
    simp only [beq_iff_eq] at hp
    have := ((mem_obsNodes s p x).mp hx).2
    rw [hp] at this
    rw [this]
    obtain ⟨xi, xl, xp⟩ := x
    simp only at hp
    subst hp
    rfl
  | none =>
    cases hg : getNode s n with
    | none => rfl
    | some r =>
      have hm : (n, r.labels, r.props) ∈ (obs s p).nodes := (mem_obsNodes s p _).mpr ⟨hn, hg⟩
      have := List.find?_eq_none.mp hf _ hm
      simp at this

theorem specCols_holds {s : State} (hI : Inv s) (hC : ColInv s) (p : Probe) :
    specCols p (obs s p) = true := by
  unfold specCols
  show ((p.ids.zip ((p.ids.map _).zip (p.ids.map _))).all _) = true
  rw [all_zip2]
  intro n hn
  show ((p.keys.zip ((p.keys.map _).zip (p.keys.map _))).all _) = true
  rw [all_zip2]
  intro k _
  simp only [Bool.and_eq_true, beq_iff_eq]
  constructor
  · show colGet s.ncols n k = _
    rw [find_obsNodes s p n hn, hC.ncol]
    cases getNode s n <;> rfl
  · show colGet s.ecols n k = _
    rw [hC.ecol, obs_edges_eq, ← find_obsEdges hI.toInvE n]
    cases (obsEdges s).find? (fun e => eId e == n) <;> rfl

/-- everything the harness checks on one observation holds of the model's observation -/
theorem specObs_holds {s : State} (hI : Inv s) (hL : LblInv s) (hT : TyInv s) (hS : SortInv s)
    (hC : ColInv s) (p : Probe) (hnd : p.ids.Nodup)
    (hcov : ∀ n, getNode s n ≠ none → n ∈ p.ids) (hcore : specCore p (obs s p) = true) :
    specObs p (obs s p) = true := by
  simp only [specObs, Bool.and_eq_true]
  exact ⟨⟨⟨⟨⟨⟨hcore, specNodeCount_holds s p hnd hcov⟩, specGetE_holds hI p⟩, specTyped_holds hI p⟩,
    specBetween_holds hI hS p⟩, specIndexes_holds hI hL hT p hcov⟩, specCols_holds hI hC p⟩

end SgModel.Store
