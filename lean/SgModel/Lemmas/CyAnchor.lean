import SgModel.Model.CyPlan
/-!
Anchor independence of a one-hop pattern: enumerating `(a)-[r]-(b)` from `a` or from `b`
gives the same bag of matches (core Lean only).
-/
namespace SgModel.Cy

theorem eq_of_mem_of_id_eq {l : List Node} (h : (l.map (·.id)).Nodup) {a b : Node}
    (ha : a ∈ l) (hb : b ∈ l) (hid : a.id = b.id) : a = b := by
  induction l with
  | nil => cases ha
  | cons x xs ih =>
    simp only [List.map_cons, List.nodup_cons, List.mem_map, not_exists, not_and] at h
    rcases List.mem_cons.mp ha with rfl | ha'
    · rcases List.mem_cons.mp hb with rfl | hb'
      · rfl
      · exact absurd hid.symm (h.1 b hb')
    · rcases List.mem_cons.mp hb with rfl | hb'
      · exact absurd hid (h.1 a ha')
      · exact ih h.2 ha' hb'

theorem node?_eq_some_iff (g : Graph) (hn : (g.nodes.map (·.id)).Nodup) (z : Nat) (b : Node) :
    g.node? z = some b ↔ b ∈ g.nodes ∧ b.id = z := by
  unfold Graph.node?
  constructor
  · intro h
    have h1 := List.mem_of_find?_eq_some h
    have h2 := List.find?_some h
    exact ⟨h1, by simpa using h2⟩
  · rintro ⟨hb, hid⟩
    cases hf : g.nodes.find? (·.id == z) with
    | none =>
      rw [List.find?_eq_none] at hf
      exact absurd (by simp [hid]) (hf b hb)
    | some b' =>
      have h1 := List.mem_of_find?_eq_some hf
      have h2 : b'.id = z := by simpa using List.find?_some hf
      rw [eq_of_mem_of_id_eq hn h1 hb (h2.trans hid.symm)]

theorem relTarget_flip (d : Dir) (x z : Nat) (r : Rel) :
    relTarget d x r = some z ↔ relTarget d.flip z r = some x := by
  cases d <;> simp only [relTarget, Dir.flip, beq_iff_eq] <;> (repeat' split) <;>
    simp only [Option.some.injEq, reduceCtorEq] <;>
    (constructor <;> intro hh <;> first | omega | exact hh.elim)

theorem hopVia_eq_some_iff (g : Graph) (rp : RelPat) (p : NodePat) (d : Dir) (cur : Nat)
    (r : Rel) (t : Nat) :
    hopVia g rp p d cur r = some t ↔
      relOk rp r = true ∧ relTarget d cur r = some t ∧ ∃ b, g.node? t = some b ∧ nodeOk p b = true := by
  unfold hopVia
  by_cases h1 : relOk rp r = true
  · simp only [h1, if_true, true_and]
    cases h2 : relTarget d cur r with
    | none => simp
    | some t' =>
      simp only [Option.some.injEq]
      cases h3 : g.node? t' with
      | none =>
        constructor
        · intro h; simp at h
        · rintro ⟨ht, b, hb, _⟩; rw [← ht, h3] at hb; cases hb
      | some b' =>
        by_cases h4 : nodeOk p b' = true
        · simp only [h4, if_true, Option.some.injEq]
          constructor
          · intro ht; exact ⟨ht, b', by rw [← ht, h3], h4⟩
          · intro h; exact h.1
        · simp only [h4]
          constructor
          · intro h; simp at h
          · rintro ⟨ht, b, hb, hok⟩
            rw [← ht, h3] at hb
            injection hb with hb
            rw [← hb] at hok; exact absurd hok h4
  · simp [h1]

/-! ### duplicate-freeness of keyed enumerations -/

theorem nodup_filterMap_keyed {α β γ : Type} (l : List α) (f : α → Option β) (k : α → γ)
    (key : β → γ) (hl : (l.map k).Nodup) (hk : ∀ x y, f x = some y → key y = k x) :
    (l.filterMap f).Nodup := by
  induction l with
  | nil => simp
  | cons x xs ih =>
    simp only [List.map_cons, List.nodup_cons, List.mem_map, not_exists, not_and] at hl
    simp only [List.filterMap_cons]
    cases hfx : f x with
    | none => exact ih hl.2
    | some y =>
      refine List.nodup_cons.mpr ⟨?_, ih hl.2⟩
      intro hy
      obtain ⟨x', hx', hfx'⟩ := List.mem_filterMap.mp hy
      have e1 := hk x y hfx
      have e2 := hk x' y hfx'
      exact hl.1 x' hx' (e2.symm.trans e1)

theorem nodup_flatMap_keyed {α β γ : Type} (l : List α) (f : α → List β) (k : α → γ)
    (key : β → γ) (hl : (l.map k).Nodup) (hf : ∀ x ∈ l, (f x).Nodup)
    (hk : ∀ x ∈ l, ∀ y ∈ f x, key y = k x) : (l.flatMap f).Nodup := by
  induction l with
  | nil => simp
  | cons x xs ih =>
    simp only [List.map_cons, List.nodup_cons, List.mem_map, not_exists, not_and] at hl
    simp only [List.flatMap_cons]
    rw [List.nodup_append]
    refine ⟨hf x (List.mem_cons_self ..), ih hl.2 (fun a ha => hf a (List.mem_cons_of_mem _ ha))
      (fun a ha => hk a (List.mem_cons_of_mem _ ha)), ?_⟩
    intro a ha b hb hab
    obtain ⟨x', hx', hbx'⟩ := List.mem_flatMap.mp hb
    have e1 := hk x (List.mem_cons_self ..) a ha
    have e2 := hk x' (List.mem_cons_of_mem _ hx') b hbx'
    exact hl.1 x' hx' (by rw [← e2, ← hab, e1])

theorem nodup_hopFromLeft (g : Graph) (hwf : g.WF) (pa : NodePat) (rp : RelPat) (pb : NodePat) :
    (hopFromLeft g pa rp pb).Nodup := by
  unfold hopFromLeft
  apply nodup_flatMap_keyed g.nodes _ (·.id) (·.1) hwf.1
  · intro a _
    split
    · apply nodup_filterMap_keyed g.rels _ (·.id) (·.2.1) hwf.2.1
      intro r y hy
      cases h : hopVia g rp pb rp.dir a.id r with
      | none => simp [h] at hy
      | some t => simp [h] at hy; rw [← hy]
    · exact List.nodup_nil
  · intro a _ y hy
    split at hy
    · obtain ⟨r, _, hr⟩ := List.mem_filterMap.mp hy
      cases h : hopVia g rp pb rp.dir a.id r with
      | none => simp [h] at hr
      | some t => simp [h] at hr; rw [← hr]
    · cases hy

theorem nodup_hopFromRight (g : Graph) (hwf : g.WF) (pa : NodePat) (rp : RelPat) (pb : NodePat) :
    (hopFromRight g pa rp pb).Nodup := by
  unfold hopFromRight
  apply nodup_flatMap_keyed g.nodes _ (·.id) (·.2.2) hwf.1
  · intro b _
    split
    · apply nodup_filterMap_keyed g.rels _ (·.id) (·.2.1) hwf.2.1
      intro r y hy
      cases h : hopVia g rp pa rp.dir.flip b.id r with
      | none => simp [h] at hy
      | some t => simp [h] at hy; rw [← hy]
    · exact List.nodup_nil
  · intro b _ y hy
    split at hy
    · obtain ⟨r, _, hr⟩ := List.mem_filterMap.mp hy
      cases h : hopVia g rp pa rp.dir.flip b.id r with
      | none => simp [h] at hr
      | some t => simp [h] at hr; rw [← hr]
    · cases hy

/-- declarative description of a one-hop match -/
def HopSat (g : Graph) (pa : NodePat) (rp : RelPat) (pb : NodePat) (t : Nat × Nat × Nat) : Prop :=
  ∃ a ∈ g.nodes, ∃ r ∈ g.rels, ∃ b ∈ g.nodes,
    nodeOk pa a = true ∧ relOk rp r = true ∧ nodeOk pb b = true ∧
    relTarget rp.dir a.id r = some b.id ∧ t = (a.id, r.id, b.id)

theorem mem_hopFromLeft (g : Graph) (hwf : g.WF) (pa : NodePat) (rp : RelPat) (pb : NodePat)
    (t : Nat × Nat × Nat) : t ∈ hopFromLeft g pa rp pb ↔ HopSat g pa rp pb t := by
  unfold hopFromLeft HopSat
  rw [List.mem_flatMap]
  constructor
  · rintro ⟨a, ha, ht⟩
    split at ht
    · rename_i hoka
      obtain ⟨r, hr, hfr⟩ := List.mem_filterMap.mp ht
      cases h : hopVia g rp pb rp.dir a.id r with
      | none => simp [h] at hfr
      | some z =>
        simp only [h, Option.map_some, Option.some.injEq] at hfr
        obtain ⟨hrel, htgt, b, hb, hokb⟩ := (hopVia_eq_some_iff g rp pb rp.dir a.id r z).mp h
        obtain ⟨hbm, hbid⟩ := (node?_eq_some_iff g hwf.1 z b).mp hb
        exact ⟨a, ha, r, hr, b, hbm, hoka, hrel, hokb, by rw [hbid]; exact htgt, by rw [hbid]; exact hfr.symm⟩
    · cases ht
  · rintro ⟨a, ha, r, hr, b, hb, hoka, hrel, hokb, htgt, rfl⟩
    refine ⟨a, ha, ?_⟩
    simp only [hoka, if_true]
    apply List.mem_filterMap.mpr
    refine ⟨r, hr, ?_⟩
    have : hopVia g rp pb rp.dir a.id r = some b.id :=
      (hopVia_eq_some_iff g rp pb rp.dir a.id r b.id).mpr
        ⟨hrel, htgt, b, (node?_eq_some_iff g hwf.1 b.id b).mpr ⟨hb, rfl⟩, hokb⟩
    simp [this]

theorem mem_hopFromRight (g : Graph) (hwf : g.WF) (pa : NodePat) (rp : RelPat) (pb : NodePat)
    (t : Nat × Nat × Nat) : t ∈ hopFromRight g pa rp pb ↔ HopSat g pa rp pb t := by
  unfold hopFromRight HopSat
  rw [List.mem_flatMap]
  constructor
  · rintro ⟨b, hb, ht⟩
    split at ht
    · rename_i hokb
      obtain ⟨r, hr, hfr⟩ := List.mem_filterMap.mp ht
      cases h : hopVia g rp pa rp.dir.flip b.id r with
      | none => simp [h] at hfr
      | some z =>
        simp only [h, Option.map_some, Option.some.injEq] at hfr
        obtain ⟨hrel, htgt, a, ha, hoka⟩ := (hopVia_eq_some_iff g rp pa rp.dir.flip b.id r z).mp h
        obtain ⟨ham, haid⟩ := (node?_eq_some_iff g hwf.1 z a).mp ha
        refine ⟨a, ham, r, hr, b, hb, hoka, hrel, hokb, ?_, by rw [haid]; exact hfr.symm⟩
        rw [haid]; exact (relTarget_flip rp.dir z b.id r).mpr htgt
    · cases ht
  · rintro ⟨a, ha, r, hr, b, hb, hoka, hrel, hokb, htgt, rfl⟩
    refine ⟨b, hb, ?_⟩
    simp only [hokb, if_true]
    apply List.mem_filterMap.mpr
    refine ⟨r, hr, ?_⟩
    have : hopVia g rp pa rp.dir.flip b.id r = some a.id :=
      (hopVia_eq_some_iff g rp pa rp.dir.flip b.id r a.id).mpr
        ⟨hrel, (relTarget_flip rp.dir a.id b.id r).mp htgt, a,
          (node?_eq_some_iff g hwf.1 a.id a).mpr ⟨ha, rfl⟩, hoka⟩
    simp [this]

end SgModel.Cy
