import SgModel.Lemmas.OehFast
/-! Chain encoding: the `reach` tables (min reachable position per chain, folded children
before parents) are sound and complete, given a valid topological order and valid chains. -/
namespace SgModel.Oeh

abbrev IdsSorted (L : List (Nat × Nat)) : Prop := L.Pairwise (fun a b => a.1 < b.1)

/-! ### small list facts -/

theorem nodupNat_nodup : ∀ (l : List Nat), nodupNat l = true → l.Nodup := by
  intro l
  induction l with
  | nil => intro _; simp
  | cons a l ih =>
    intro h
    simp only [nodupNat, Bool.and_eq_true, Bool.not_eq_true', List.contains_eq_mem,
      decide_eq_false_iff_not] at h
    exact List.nodup_cons.mpr ⟨h.1, ih h.2⟩

/-! ### `reachInsert` -/

theorem reachInsert_sound : ∀ (L : List (Nat × Nat)) (e x : Nat × Nat),
    x ∈ reachInsert L e → x ∈ L ∨ x = e := by
  intro L
  induction L with
  | nil => intro e x h; simp [reachInsert] at h; exact Or.inr h
  | cons a L ih =>
    intro e x h
    obtain ⟨c, p⟩ := a
    obtain ⟨c', p'⟩ := e
    simp only [reachInsert] at h
    split at h
    · rcases List.mem_cons.mp h with h | h
      · exact Or.inr h
      · exact Or.inl h
    · split at h
      · next hc =>
        rcases List.mem_cons.mp h with h | h
        · split at h
          · right; rw [h, hc]
          · left; rw [h]; simp
        · left; simp [h]
      · rcases List.mem_cons.mp h with h | h
        · left; rw [h]; simp
        · rcases ih _ _ h with h | h
          · left; simp [h]
          · right; exact h

theorem reachInsert_complete : ∀ (L : List (Nat × Nat)) (e : Nat × Nat) (c0 p0 : Nat),
    ((c0, p0) ∈ L ∨ (c0, p0) = e) → ∃ q, q ≤ p0 ∧ (c0, q) ∈ reachInsert L e := by
  intro L
  induction L with
  | nil =>
    intro e c0 p0 h
    rcases h with h | h
    · cases h
    · exact ⟨p0, Nat.le_refl _, by simp [reachInsert, h]⟩
  | cons a L ih =>
    intro e c0 p0 h
    obtain ⟨c, p⟩ := a
    obtain ⟨c', p'⟩ := e
    simp only [reachInsert]
    split
    · refine ⟨p0, Nat.le_refl _, ?_⟩
      rcases h with h | h
      · exact List.mem_cons_of_mem _ h
      · simp [h]
    · split
      · next hc =>
        rcases h with h | h
        · rcases List.mem_cons.mp h with h | h
          · simp only [Prod.mk.injEq] at h
            obtain ⟨rfl, rfl⟩ := h
            split
            · next hlt => exact ⟨p', by omega, by simp⟩
            · exact ⟨p0, Nat.le_refl _, by simp⟩
          · exact ⟨p0, Nat.le_refl _, by simp [h]⟩
        · simp only [Prod.mk.injEq] at h
          obtain ⟨rfl, rfl⟩ := h
          subst hc
          split
          · exact ⟨p0, Nat.le_refl _, by simp⟩
          · next hlt => exact ⟨p, by omega, by simp⟩
      · rcases h with h | h
        · rcases List.mem_cons.mp h with h | h
          · exact ⟨p0, Nat.le_refl _, by simp [h]⟩
          · obtain ⟨q, hq, hm⟩ := ih (c', p') c0 p0 (Or.inl h)
            exact ⟨q, hq, List.mem_cons_of_mem _ hm⟩
        · obtain ⟨q, hq, hm⟩ := ih (c', p') c0 p0 (Or.inr h)
          exact ⟨q, hq, List.mem_cons_of_mem _ hm⟩

theorem reachInsert_sorted : ∀ (L : List (Nat × Nat)) (e : Nat × Nat), IdsSorted L →
    IdsSorted (reachInsert L e) := by
  intro L
  induction L with
  | nil => intro e _; simp [reachInsert, IdsSorted]
  | cons a L ih =>
    intro e hs
    obtain ⟨c, p⟩ := a
    obtain ⟨c', p'⟩ := e
    have hs' := List.pairwise_cons.mp hs
    simp only [reachInsert]
    split
    · next hlt =>
      refine List.pairwise_cons.mpr ⟨?_, hs⟩
      intro z hz
      rcases List.mem_cons.mp hz with h | h
      · rw [h]; exact hlt
      · have := hs'.1 z h; simp only at this ⊢; omega
    · split
      · exact List.pairwise_cons.mpr ⟨hs'.1, hs'.2⟩
      · next h1 h2 =>
        refine List.pairwise_cons.mpr ⟨?_, ih _ hs'.2⟩
        intro z hz
        rcases reachInsert_sound _ _ _ hz with h | h
        · exact hs'.1 z h
        · rw [h]; simp only; omega

/-- the nested fold `for c in children { for e in reach[c] { insert } }` -/
def mergeAll (g : Nat → List (Nat × Nat)) (ks : List Nat) (acc : List (Nat × Nat)) :
    List (Nat × Nat) :=
  ks.foldl (fun acc k => (g k).foldl reachInsert acc) acc

theorem foldInsert_spec : ∀ (l acc : List (Nat × Nat)), IdsSorted acc →
    IdsSorted (l.foldl reachInsert acc)
    ∧ (∀ x, x ∈ l.foldl reachInsert acc → x ∈ acc ∨ x ∈ l)
    ∧ (∀ c0 p0, ((c0, p0) ∈ acc ∨ (c0, p0) ∈ l) →
        ∃ q, q ≤ p0 ∧ (c0, q) ∈ l.foldl reachInsert acc) := by
  intro l
  induction l with
  | nil =>
    intro acc hs
    refine ⟨hs, fun x h => Or.inl h, ?_⟩
    intro c0 p0 h
    rcases h with h | h
    · exact ⟨p0, Nat.le_refl _, h⟩
    · cases h
  | cons e l ih =>
    intro acc hs
    obtain ⟨i1, i2, i3⟩ := ih (reachInsert acc e) (reachInsert_sorted acc e hs)
    refine ⟨i1, ?_, ?_⟩
    · intro x hx
      rcases i2 x hx with h | h
      · rcases reachInsert_sound _ _ _ h with h | h
        · exact Or.inl h
        · exact Or.inr (by simp [h])
      · exact Or.inr (List.mem_cons_of_mem _ h)
    · intro c0 p0 h
      have step : ∃ q1, q1 ≤ p0 ∧ ((c0, q1) ∈ reachInsert acc e ∨ (c0, q1) ∈ l) := by
        rcases h with h | h
        · obtain ⟨q, hq, hm⟩ := reachInsert_complete acc e c0 p0 (Or.inl h)
          exact ⟨q, hq, Or.inl hm⟩
        · rcases List.mem_cons.mp h with h | h
          · obtain ⟨q, hq, hm⟩ := reachInsert_complete acc e c0 p0 (Or.inr h)
            exact ⟨q, hq, Or.inl hm⟩
          · exact ⟨p0, Nat.le_refl _, Or.inr h⟩
      obtain ⟨q1, hq1, hm1⟩ := step
      obtain ⟨q, hq, hm⟩ := i3 c0 q1 hm1
      exact ⟨q, by omega, hm⟩

theorem mergeAll_spec (g : Nat → List (Nat × Nat)) : ∀ (ks : List Nat) (acc : List (Nat × Nat)),
    IdsSorted acc →
    IdsSorted (mergeAll g ks acc)
    ∧ (∀ x, x ∈ mergeAll g ks acc → x ∈ acc ∨ ∃ k ∈ ks, x ∈ g k)
    ∧ (∀ c0 p0, ((c0, p0) ∈ acc ∨ ∃ k ∈ ks, (c0, p0) ∈ g k) →
        ∃ q, q ≤ p0 ∧ (c0, q) ∈ mergeAll g ks acc) := by
  intro ks
  induction ks with
  | nil =>
    intro acc hs
    refine ⟨hs, fun x h => Or.inl h, ?_⟩
    intro c0 p0 h
    rcases h with h | ⟨k, hk, _⟩
    · exact ⟨p0, Nat.le_refl _, h⟩
    · cases hk
  | cons k ks ih =>
    intro acc hs
    obtain ⟨f1, f2, f3⟩ := foldInsert_spec (g k) acc hs
    obtain ⟨i1, i2, i3⟩ := ih ((g k).foldl reachInsert acc) f1
    refine ⟨i1, ?_, ?_⟩
    · intro x hx
      rcases i2 x hx with h | ⟨k', hk', hx'⟩
      · rcases f2 x h with h | h
        · exact Or.inl h
        · exact Or.inr ⟨k, by simp, h⟩
      · exact Or.inr ⟨k', by simp [hk'], hx'⟩
    · intro c0 p0 h
      have step : ∃ q1, q1 ≤ p0 ∧ ((c0, q1) ∈ (g k).foldl reachInsert acc
          ∨ ∃ k' ∈ ks, (c0, q1) ∈ g k') := by
        rcases h with h | ⟨k', hk', hx'⟩
        · obtain ⟨q, hq, hm⟩ := f3 c0 p0 (Or.inl h)
          exact ⟨q, hq, Or.inl hm⟩
        · rcases List.mem_cons.mp hk' with e | e
          · subst e
            obtain ⟨q, hq, hm⟩ := f3 c0 p0 (Or.inr hx')
            exact ⟨q, hq, Or.inl hm⟩
          · exact ⟨p0, Nat.le_refl _, Or.inr ⟨k', e, hx'⟩⟩
      obtain ⟨q1, hq1, hm1⟩ := step
      obtain ⟨q, hq, hm⟩ := i3 c0 q1 hm1
      exact ⟨q, by omega, hm⟩

theorem find_of_sorted : ∀ (L : List (Nat × Nat)) (c p : Nat), IdsSorted L → (c, p) ∈ L →
    L.find? (fun e => e.1 == c) = some (c, p) := by
  intro L
  induction L with
  | nil => intro c p _ h; cases h
  | cons a L ih =>
    intro c p hs hm
    have hs' := List.pairwise_cons.mp hs
    rcases List.mem_cons.mp hm with h | h
    · subst h; simp
    · have hlt := hs'.1 _ h
      simp only at hlt
      have : (a.1 == c) = false := by simp; omega
      simp only [List.find?_cons, this]
      exact ih c p hs'.2 h

/-! ### the reach tables over a topological order -/

/-- `e` is the (chain, position) of some node below `v` -/
def Wit (P : Poset) (co : List (Nat × Nat)) (v : Nat) (e : Nat × Nat) : Prop :=
  ∃ z, z < P.n ∧ Reach P z v ∧ co.getD z (0, 0) = e

/-- a reach table is sorted by chain id, every entry is witnessed by a descendant, and every
descendant is covered by an entry of its chain at a position not below its own -/
structure EntryOK (P : Poset) (co : List (Nat × Nat)) (v : Nat) (L : List (Nat × Nat)) : Prop where
  sorted : IdsSorted L
  sound : ∀ e ∈ L, Wit P co v e
  complete : ∀ e, Wit P co v e → ∃ q, q ≤ e.2 ∧ (e.1, q) ∈ L

theorem Reach.last_step {P : Poset} {z v : Nat} (r : Reach P z v) :
    z = v ∨ ∃ k, (k, v) ∈ P.edges ∧ Reach P z k := by
  induction r with
  | refl _ => exact Or.inl rfl
  | @step z p v e r ih =>
    right
    rcases ih with h | ⟨k, hk, hr⟩
    · subst h; exact ⟨z, e, Reach.refl _⟩
    · exact ⟨k, hk, Reach.step e hr⟩

def rowOf (P : Poset) (co : List (Nat × Nat)) (rm : List (List (Nat × Nat))) (v : Nat) :
    List (Nat × Nat) :=
  mergeAll (fun c => rm.getD c []) (P.children v) [co.getD v (0, 0)]

theorem rowOf_ok {P : Poset} {h : Nat → Nat} (A : Acyclic P h) (co : List (Nat × Nat))
    (rm : List (List (Nat × Nat))) (v : Nat) (hv : v < P.n)
    (hk : ∀ k, (k, v) ∈ P.edges → EntryOK P co k (rm.getD k [])) :
    EntryOK P co v (rowOf P co rm v) := by
  obtain ⟨m1, m2, m3⟩ := mergeAll_spec (fun c => rm.getD c []) (P.children v) [co.getD v (0, 0)]
    (by simp [IdsSorted])
  refine ⟨m1, ?_, ?_⟩
  · intro e he
    rcases m2 e he with h | ⟨k, hk', hx⟩
    · simp only [List.mem_singleton] at h
      exact ⟨v, hv, Reach.refl _, h.symm⟩
    · have hedge := mem_children.mp hk'
      obtain ⟨z, hz, hr, hc⟩ := (hk k hedge).sound e hx
      exact ⟨z, hz, hr.trans (Reach.step hedge (Reach.refl _)), hc⟩
  · intro e ⟨z, hz, hr, hc⟩
    rcases hr.last_step with h | ⟨k, hkv, hrk⟩
    · subst h
      exact m3 e.1 e.2 (Or.inl (List.mem_singleton.mpr (by rw [hc])))
    · obtain ⟨q, hq, hm⟩ := (hk k hkv).complete e ⟨z, hz, hrk, hc⟩
      obtain ⟨q', hq', hm'⟩ := m3 e.1 q (Or.inr ⟨k, mem_children.mpr hkv, hm⟩)
      exact ⟨q', by omega, hm'⟩

theorem mem_prefix_of_idxOf {A R : List Nat} {a : Nat} (h : (A ++ R).idxOf a < A.length) :
    a ∈ A := by
  rw [List.idxOf_append] at h
  by_cases ha : a ∈ A
  · exact ha
  · simp only [ha, if_false] at h; omega

theorem getD_set_rows (rm : List (List (Nat × Nat))) (v u : Nat) (L : List (Nat × Nat)) :
    (rm.set v L).getD u [] = if u = v ∧ v < rm.length then L else rm.getD u [] := by
  by_cases huv : u = v
  · subst huv
    by_cases hl : u < rm.length
    · simp [List.getD_eq_getElem?_getD, hl]
    · simp [List.getD_eq_getElem?_getD, hl, List.set_eq_of_length_le (Nat.le_of_not_lt hl)]
  · simp [List.getD_eq_getElem?_getD, huv, List.getElem?_set_ne (Ne.symm huv)]

/-- folding the rows along a topological order keeps every processed row correct -/
theorem rows_fold {P : Poset} {h : Nat → Nat} (A : Acyclic P h) (co : List (Nat × Nat))
    (order : List Nat) (hnd : order.Nodup)
    (htopo : ∀ e ∈ P.edges, order.idxOf e.1 < order.idxOf e.2)
    (hin : ∀ v ∈ order, v < P.n) :
    ∀ (B done : List Nat) (rm : List (List (Nat × Nat))), order = done ++ B → rm.length = P.n →
      (∀ v ∈ done, EntryOK P co v (rm.getD v [])) →
      ∀ v ∈ order, EntryOK P co v
        ((B.foldl (fun rm v => rm.set v (rowOf P co rm v)) rm).getD v []) := by
  intro B
  induction B with
  | nil =>
    intro done rm ho _ hd v hv
    rw [ho, List.append_nil] at hv
    exact hd v hv
  | cons b B ih =>
    intro done rm ho hl hd
    have hbn : b < P.n := hin b (by rw [ho]; simp)
    have hidx : order.idxOf b = done.length := by
      have : order = done ++ (b :: B) ++ [] := by rw [ho]; simp
      exact idxOf_block this hnd
    have hbnot : b ∉ done := by
      intro hm
      rw [ho, List.nodup_append] at hnd
      exact hnd.2.2 b hm b (by simp) rfl
    have hrow : EntryOK P co b (rowOf P co rm b) := by
      apply rowOf_ok A co rm b hbn
      intro k hk
      have := htopo (k, b) hk
      simp only at this
      rw [hidx] at this
      have hkd : k ∈ done := by
        rw [ho] at this
        exact mem_prefix_of_idxOf this
      exact hd k hkd
    simp only [List.foldl_cons]
    apply ih (done ++ [b]) (rm.set b (rowOf P co rm b)) (by rw [ho]; simp) (by simp [hl])
    intro v hv
    rw [getD_set_rows]
    rcases List.mem_append.mp hv with hvd | hvb
    · have : v ≠ b := fun e => hbnot (e ▸ hvd)
      simp [this]
      exact hd v hvd
    · simp only [List.mem_singleton] at hvb
      subst hvb
      simp [hl, hbn]
      exact hrow

/-! ### chains are downward paths -/

theorem path_reach (P : Poset) : ∀ (ch : List Nat), pathOkB P ch = true → ∀ (i j a b : Nat),
    i ≤ j → ch[i]? = some a → ch[j]? = some b → Reach P b a := by
  intro ch
  induction ch with
  | nil => intro _ i j a b _ ha; simp at ha
  | cons a0 rest ih =>
    intro hp i j a b hij ha hb
    cases rest with
    | nil =>
      have hi : i = 0 := by
        cases i with
        | zero => rfl
        | succ i => simp at ha
      have hj : j = 0 := by
        cases j with
        | zero => rfl
        | succ j => simp at hb
      subst hi; subst hj
      simp at ha hb; rw [← ha, ← hb]; exact Reach.refl _
    | cons b0 r =>
      simp only [pathOkB, Bool.and_eq_true, List.contains_iff_mem] at hp
      cases i with
      | zero =>
        simp at ha
        cases j with
        | zero => simp at hb; rw [← ha, ← hb]; exact Reach.refl _
        | succ j =>
          simp only [List.getElem?_cons_succ] at hb
          have r1 := ih hp.2 0 j b0 b (Nat.zero_le _) (by simp) hb
          rw [← ha]
          exact r1.trans (Reach.step hp.1 (Reach.refl _))
      | succ i =>
        cases j with
        | zero => omega
        | succ j =>
          simp only [List.getElem?_cons_succ] at ha hb
          exact ih hp.2 i j a b (by omega) ha hb

/-! ### the theorem -/

theorem buildChain_rch (P : Poset) :
    (buildChain P).rch = P.topoUp.foldl
      (fun rm v => rm.set v (rowOf P (buildChain P).chainOf rm v)) (List.replicate P.n []) := rfl

/-- **chain subsumption is reachability**, given that Kahn's order and the greedy chain
decomposition are well-formed (`topoOkB`, `chainsOkB`: executable checks) -/
theorem chain_subsumes_iff_reach {P : Poset} {h : Nat → Nat} (A : Acyclic P h)
    (ht : topoOkB P P.topoUp = true) (hc : chainsOkB P (buildChain P) = true)
    (x y : Nat) (hx : x < P.n) (hy : y < P.n) :
    (buildChain P).subsumes x y = reach P P.n x y := by
  simp only [topoOkB, Bool.and_eq_true, List.all_eq_true, List.mem_range, decide_eq_true_eq,
    List.contains_iff_mem] at ht
  obtain ⟨⟨⟨hnd, hall⟩, htopo⟩, hin⟩ := ht
  simp only [chainsOkB, Bool.and_eq_true, List.all_eq_true, List.mem_range, beq_iff_eq] at hc
  obtain ⟨hpos, hpaths⟩ := hc
  have hnd' : P.topoUp.Nodup := nodupNat_nodup _ hnd
  have rows := rows_fold A (buildChain P).chainOf P.topoUp hnd' htopo hin P.topoUp []
    (List.replicate P.n []) (by simp) (by simp) (fun v hv => by cases hv)
  rw [← buildChain_rch] at rows
  have hyrow := rows y (hall y hy)
  rw [Bool.eq_iff_iff, reach_iff_Reach A x y hy]
  simp only [Chain.subsumes]
  constructor
  · intro hs
    cases hf : ((buildChain P).rch.getD y []).find?
        (fun e => e.1 == ((buildChain P).chainOf.getD x (0, 0)).1) with
    | none => rw [hf] at hs; cases hs
    | some e =>
      rw [hf] at hs
      simp only [decide_eq_true_eq] at hs
      have hmem := List.mem_of_find?_eq_some hf
      have hid := List.find?_some hf
      simp only [beq_iff_eq] at hid
      obtain ⟨z, hz, hrz, hcz⟩ := hyrow.sound e hmem
      -- z sits on x's chain at position e.2 ≤ pos x
      have pz := hpos z hz
      have px := hpos x hx
      rw [hcz] at pz
      have hpath : pathOkB P ((buildChain P).chains.getD e.1 []) = true := by
        by_cases hl : e.1 < (buildChain P).chains.length
        · apply hpaths
          rw [List.getD_eq_getElem?_getD, List.getElem?_eq_getElem hl]
          exact List.getElem_mem _
        · rw [List.getD_eq_getElem?_getD, List.getElem?_eq_none (Nat.le_of_not_lt hl)]; rfl
      rw [← hid] at px
      exact (path_reach P _ hpath e.2 ((buildChain P).chainOf.getD x (0, 0)).2 z x hs pz px).trans hrz
  · intro r
    obtain ⟨q, hq, hm⟩ := hyrow.complete ((buildChain P).chainOf.getD x (0, 0)) ⟨x, hx, r, rfl⟩
    rw [find_of_sorted _ _ _ hyrow.sorted hm]
    simpa using hq

end SgModel.Oeh
