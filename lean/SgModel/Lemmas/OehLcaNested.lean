import SgModel.Lemmas.OehLca
/-! Nested-set LCA: walking up from `x` to the first ancestor whose interval contains `y`
yields the unique minimal common upper bound (or nothing, in a forest of several trees). -/
namespace SgModel.Oeh

theorem filter_eq_singleton (p : Nat → Bool) (c : Nat) : ∀ (l : List Nat), l.Nodup → c ∈ l →
    p c = true → (∀ d ∈ l, d ≠ c → p d = false) → l.filter p = [c] := by
  intro l
  induction l with
  | nil => intro _ h; cases h
  | cons a l ih =>
    intro nd hc hp hall
    rw [List.nodup_cons] at nd
    by_cases hac : a = c
    · subst hac
      have : l.filter p = [] := by
        rw [List.filter_eq_nil_iff]
        intro d hd
        have hne : d ≠ a := fun e => nd.1 (e ▸ hd)
        simp [hall d (by simp [hd]) hne]
      simp [List.filter_cons, hp, this]
    · have hcl : c ∈ l := by
        rcases List.mem_cons.mp hc with e | e
        · exact absurd e.symm hac
        · exact e
      have hpa : p a = false := hall a (by simp) hac
      simp only [List.filter_cons, hpa]
      exact ih nd.2 hcl hp (fun d hd hne => hall d (by simp [hd]) hne)

theorem filter_eq_nil_of_forall (p : Nat → Bool) (l : List Nat) (h : ∀ d ∈ l, p d = false) :
    l.filter p = [] := by
  rw [List.filter_eq_nil_iff]; intro d hd; simp [h d hd]

theorem Reach.antisymm {P : Poset} {h : Nat → Nat} (A : Acyclic P h) {a b : Nat}
    (r1 : Reach P a b) (r2 : Reach P b a) : a = b := by
  rcases r1.height A with e | h1
  · exact e
  · rcases r2.height A with e | h2
    · exact e.symm
    · omega

/-- the specification's LCA list is `[c]` when `c` is a common upper bound lying below every
common upper bound -/
theorem specLca_singleton {P : Poset} {h : Nat → Nat} (A : Acyclic P h) (x y c : Nat)
    (hc : c < P.n) (hxc : Reach P x c) (hyc : Reach P y c)
    (hmin : ∀ d, d < P.n → Reach P x d → Reach P y d → Reach P c d) : specLca P x y = [c] := by
  unfold specLca
  simp only [List.filter_filter]
  apply filter_eq_singleton _ c _ List.nodup_range (List.mem_range.mpr hc)
  · simp only [Bool.and_eq_true, Bool.not_eq_true', List.any_eq_false, List.mem_filter,
      List.mem_range]
    refine ⟨?_, (reach_iff_Reach A x c hc).mpr hxc, (reach_iff_Reach A y c hc).mpr hyc⟩
    intro d ⟨hd, hd2⟩
    have rxd := (reach_iff_Reach A x d hd).mp hd2.1
    have ryd := (reach_iff_Reach A y d hd).mp hd2.2
    by_cases hdc : d = c
    · simp [hdc]
    · have : reach P P.n d c = false := by
        cases hr : reach P P.n d c with
        | false => rfl
        | true =>
          exact absurd (Reach.antisymm A ((reach_iff_Reach A d c hc).mp hr) (hmin d hd rxd ryd)) hdc
      simp [this]
  · intro d hd hdc
    have hdn := List.mem_range.mp hd
    cases hx : reach P P.n x d with
    | false => simp
    | true =>
      cases hy : reach P P.n y d with
      | false => simp
      | true =>
        have rxd := (reach_iff_Reach A x d hdn).mp hx
        have ryd := (reach_iff_Reach A y d hdn).mp hy
        have rcd := hmin d hdn rxd ryd
        simp only [Bool.and_true, Bool.true_and, Bool.not_eq_false', List.any_eq_true,
          List.mem_filter, List.mem_range, Bool.and_eq_true, bne_iff_ne, ne_eq]
        exact ⟨c, ⟨hc, (reach_iff_Reach A x c hc).mpr hxc, (reach_iff_Reach A y c hc).mpr hyc⟩,
          fun e => hdc e.symm, (reach_iff_Reach A c d hdn).mpr rcd⟩

theorem specLca_nil {P : Poset} {h : Nat → Nat} (A : Acyclic P h) (x y : Nat)
    (hnone : ∀ d, d < P.n → Reach P x d → Reach P y d → False) : specLca P x y = [] := by
  unfold specLca
  have : (List.range P.n).filter (fun c => reach P P.n x c && reach P P.n y c) = [] := by
    apply filter_eq_nil_of_forall
    intro d hd
    have hdn := List.mem_range.mp hd
    cases hx : reach P P.n x d with
    | false => simp
    | true =>
      cases hy : reach P P.n y d with
      | false => simp
      | true =>
        exact absurd ((reach_iff_Reach A y d hdn).mp hy)
          (fun r => hnone d hdn ((reach_iff_Reach A x d hdn).mp hx) r)
  simp [this]

theorem C28_aux_sub {P : Poset} {h : Nat → Nat} (F : IsForest P h) (a b : Nat) (ha : a < P.n)
    (hb : b < P.n) : ((buildNested P).subsumes a b = true) = Reach P a b := by
  apply propext
  exact (nested_subsumes_iff_mem F a b ha hb).trans
    ((mem_pre_iff_reach F.toAcyclic a b hb).trans (reach_iff_Reach F.toAcyclic a b hb))

/-- the walk up from `x` -/
theorem nestedLca_eq {P : Poset} {h : Nat → Nat} (F : IsForest P h) (x y : Nat) (hx : x < P.n)
    (hy : y < P.n) :
    ∀ (fuel cur : Nat), cur < P.n → P.n + 1 ≤ fuel + h cur → Reach P x cur →
      (∀ c, Reach P x c → Reach P cur c ∨ ¬ Reach P y c) →
      nestedLcaLoop P (buildNested P) fuel cur y = specLca P x y := by
  intro fuel
  induction fuel with
  | zero => intro cur hc hf; have := F.hBound cur hc; omega
  | succ fuel ih =>
    intro cur hc hf hxc hQ
    simp only [nestedLcaLoop]
    have hsub : (buildNested P).subsumes y cur = true ↔ Reach P y cur := by
      rw [C28_aux_sub F y cur hy hc]
    by_cases hs : (buildNested P).subsumes y cur = true
    · simp only [hs, if_true]
      symm
      apply specLca_singleton F.toAcyclic x y cur hc hxc (hsub.mp hs)
      intro d _ rxd ryd
      rcases hQ d rxd with r | r
      · exact r
      · exact absurd ryd r
    · simp only [hs, Bool.false_eq_true, if_false]
      have hny : ¬ Reach P y cur := fun r => hs (hsub.mpr r)
      cases hp : P.parents cur with
      | nil =>
        simp only [List.head?_nil]
        symm
        apply specLca_nil F.toAcyclic
        intro d _ rxd ryd
        rcases hQ d rxd with r | r
        · cases r with
          | refl _ => exact hny ryd
          | step e _ => have := mem_parents.mpr e; rw [hp] at this; cases this
        · exact r ryd
      | cons p ps =>
        simp only [List.head?_cons]
        have hpe : (cur, p) ∈ P.edges := mem_parents.mp (by rw [hp]; simp)
        have hh := F.hEdge _ hpe
        have hpn := (F.inRange _ hpe).2
        simp only at hh hpn
        apply ih p hpn (by omega) (hxc.trans (Reach.step hpe (Reach.refl _)))
        intro c rxc
        rcases hQ c rxc with r | r
        · cases r with
          | refl _ => exact Or.inr hny
          | step e r' =>
            have := parent_unique F e hpe
            subst this
            exact Or.inl r'
        · exact Or.inr r

end SgModel.Oeh
