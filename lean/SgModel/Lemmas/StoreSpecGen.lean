import SgModel.Lemmas.StoreAbs
/-!
Helper lemmas for the graph-store model (C06), part 14: from the function-level description
of a step (`get_node` / `get_edge` before and after) to the Boolean clauses of `specStep` on
the observation lists.
-/
namespace SgModel.Store

/-! ### observation lists as sets -/

theorem mem_obsNodes (s : State) (p : Probe) (x : NodeObs) :
    x ∈ (obs s p).nodes ↔ x.1 ∈ p.ids ∧ getNode s x.1 = some { labels := x.2.1, props := x.2.2 } := by
  show x ∈ p.ids.filterMap _ ↔ _
  simp only [List.mem_filterMap, Option.map_eq_some_iff]
  constructor
  · rintro ⟨n, hn, r, hr, rfl⟩
    exact ⟨hn, hr⟩
  · rintro ⟨hn, hr⟩
    exact ⟨x.1, hn, _, hr, rfl⟩

theorem mem_obsEdges {s : State} (h : InvE s) (x : EdgeObs) :
    x ∈ obsEdges s ↔ getEdge s (eId x) = some (eSrc x, eTgt x, eTy x, eProps x) := by
  simp only [obsEdges, List.mem_filterMap, edgeObs, Option.map_eq_some_iff]
  constructor
  · rintro ⟨e, _, q, hq, rfl⟩
    exact hq
  · intro hg
    obtain ⟨_, hl⟩ := getEdge_some hg
    exact ⟨eId x, (mem_allEdges h _).mpr hl, _, hg, rfl⟩

theorem obs_edges_eq (s : State) (p : Probe) : (obs s p).edges = obsEdges s := rfl

/-! ### Boolean equivalences -/

theorem sameSet_refl {α : Type} [BEq α] [LawfulBEq α] (a : List α) : sameSet a a = true :=
  (sameSet_iff a a).mpr (fun _ => Iff.rfl)

theorem nodeEqv_iff (x y : NodeObs) :
    nodeEqv x y = true ↔ x.1 = y.1 ∧ (∀ l, l ∈ x.2.1 ↔ l ∈ y.2.1) ∧ (∀ q, q ∈ x.2.2 ↔ q ∈ y.2.2) := by
  simp only [nodeEqv, Bool.and_eq_true, beq_iff_eq, sameSet_iff, and_assoc]

theorem nodeEqv_refl (x : NodeObs) : nodeEqv x x = true :=
  (nodeEqv_iff x x).mpr ⟨rfl, fun _ => Iff.rfl, fun _ => Iff.rfl⟩

theorem edgeEqv_iff (x y : EdgeObs) :
    edgeEqv x y = true ↔ eId x = eId y ∧ eSrc x = eSrc y ∧ eTgt x = eTgt y ∧ eTy x = eTy y
      ∧ (∀ q, q ∈ eProps x ↔ q ∈ eProps y) := by
  simp only [edgeEqv, Bool.and_eq_true, beq_iff_eq, sameSet_iff, and_assoc]

theorem edgeEqv_refl (x : EdgeObs) : edgeEqv x x = true :=
  (edgeEqv_iff x x).mpr ⟨rfl, rfl, rfl, rfl, fun _ => Iff.rfl⟩

theorem nodesSame_intro (a b : List NodeObs)
    (h1 : ∀ x ∈ a, ∃ y ∈ b, nodeEqv x y = true) (h2 : ∀ y ∈ b, ∃ x ∈ a, nodeEqv x y = true) :
    nodesSame a b = true := by
  simp only [nodesSame, Bool.and_eq_true, List.all_eq_true, List.any_eq_true]
  exact ⟨h1, h2⟩

theorem edgesSame_intro (a b : List EdgeObs)
    (h1 : ∀ x ∈ a, ∃ y ∈ b, edgeEqv x y = true) (h2 : ∀ y ∈ b, ∃ x ∈ a, edgeEqv x y = true) :
    edgesSame a b = true := by
  simp only [edgesSame, Bool.and_eq_true, List.all_eq_true, List.any_eq_true]
  exact ⟨h1, h2⟩

theorem nodesSame_of_iff (a b : List NodeObs) (h : ∀ x, x ∈ a ↔ x ∈ b) : nodesSame a b = true :=
  nodesSame_intro a b (fun x hx => ⟨x, (h x).mp hx, nodeEqv_refl x⟩)
    (fun y hy => ⟨y, (h y).mpr hy, nodeEqv_refl y⟩)

theorem edgesSame_of_iff (a b : List EdgeObs) (h : ∀ x, x ∈ a ↔ x ∈ b) : edgesSame a b = true :=
  edgesSame_intro a b (fun x hx => ⟨x, (h x).mp hx, edgeEqv_refl x⟩)
    (fun y hy => ⟨y, (h y).mpr hy, edgeEqv_refl y⟩)

/-! ### nodes -/

theorem nodes_same {s s' : State} (p : Probe) (h : ∀ n, getNode s' n = getNode s n) :
    nodesSame (obs s' p).nodes (obs s p).nodes = true := by
  apply nodesSame_of_iff
  intro x
  rw [mem_obsNodes, mem_obsNodes, h]

theorem nodes_add {s s' : State} (p : Probe) (i : Nat) (r0 : NodeRec)
    (hget : ∀ m, getNode s' m = if m = i then some r0 else getNode s m)
    (hdead : getNode s i = none) (hi : i ∈ p.ids) :
    nodesSame (obs s' p).nodes ((i, r0.labels, r0.props) :: (obs s p).nodes) = true := by
  apply nodesSame_of_iff
  intro x
  rw [List.mem_cons, mem_obsNodes, mem_obsNodes, hget]
  by_cases hx : x.1 = i
  · simp only [hx, if_true, Option.some.injEq]
    constructor
    · rintro ⟨_, hr⟩
      left
      obtain ⟨xi, xl, xp⟩ := x
      simp only at hx hr ⊢
      subst hx
      rw [hr]
    · rintro (hh | ⟨_, hr⟩)
      · subst hh; exact ⟨hi, rfl⟩
      · rw [hdead] at hr; cases hr
  · simp only [hx, if_false]
    constructor
    · exact Or.inr
    · rintro (hh | hh)
      · exact absurd (by rw [hh]) hx
      · exact hh

theorem nodes_del {s s' : State} (p : Probe) (n : Nat)
    (hget : ∀ m, getNode s' m = if m = n then none else getNode s m) :
    nodesSame (obs s' p).nodes ((obs s p).nodes.filter (fun x => x.1 != n)) = true := by
  apply nodesSame_of_iff
  intro x
  rw [List.mem_filter, mem_obsNodes, mem_obsNodes, hget]
  by_cases hx : x.1 = n
  · simp [hx]
  · simp [hx]

theorem nodes_upd {s s' : State} (p : Probe) (n : Nat) (g : NodeRec → NodeRec)
    (f : NodeObs → NodeObs)
    (hget : ∀ m, getNode s' m = if m = n then (getNode s n).map g else getNode s m)
    (hf : ∀ r : NodeRec, nodeEqv (n, (g r).labels, (g r).props) (f (n, r.labels, r.props)) = true) :
    nodesSame (obs s' p).nodes ((obs s p).nodes.map (fun x => if x.1 == n then f x else x)) = true := by
  apply nodesSame_intro
  · intro x hx
    rw [mem_obsNodes, hget] at hx
    by_cases hxn : x.1 = n
    · simp only [hxn, if_true] at hx
      obtain ⟨hid, hr⟩ := hx
      cases hgn : getNode s n with
      | none => rw [hgn] at hr; cases hr
      | some r =>
        rw [hgn] at hr
        simp only [Option.map_some, Option.some.injEq] at hr
        refine ⟨f (n, r.labels, r.props), List.mem_map.mpr ⟨(n, r.labels, r.props), ?_, by simp⟩, ?_⟩
        · rw [mem_obsNodes]; exact ⟨hid, hgn⟩
        · have := hf r
          rw [hr] at this
          obtain ⟨xi, xl, xp⟩ := x
          simp only at hxn
          subst hxn
          exact this
    · simp only [hxn, if_false] at hx
      refine ⟨x, List.mem_map.mpr ⟨x, (mem_obsNodes s p x).mpr hx, ?_⟩, nodeEqv_refl x⟩
      have : (x.1 == n) = false := by simpa using hxn
      simp [this]
  · intro y hy
    obtain ⟨x0, hx0, rfl⟩ := List.mem_map.mp hy
    rw [mem_obsNodes] at hx0
    by_cases hxn : x0.1 = n
    · have hb : (x0.1 == n) = true := by simpa using hxn
      simp only [hb, if_true]
      obtain ⟨xi, xl, xp⟩ := x0
      simp only at hxn hx0
      subst hxn
      refine ⟨(xi, (g ⟨xl, xp⟩).labels, (g ⟨xl, xp⟩).props), ?_, hf ⟨xl, xp⟩⟩
      rw [mem_obsNodes, hget]
      simp only [if_true]
      exact ⟨hx0.1, by rw [hx0.2]; rfl⟩
    · have hb : (x0.1 == n) = false := by simpa using hxn
      simp only [hb, Bool.false_eq_true, if_false]
      refine ⟨x0, ?_, nodeEqv_refl x0⟩
      rw [mem_obsNodes, hget]
      simp only [hxn, if_false]
      exact hx0

/-! ### relationships -/

theorem edges_same {s s' : State} (h : InvE s) (h' : InvE s')
    (hget : ∀ e, getEdge s' e = getEdge s e) : edgesSame (obsEdges s') (obsEdges s) = true := by
  apply edgesSame_of_iff
  intro x
  rw [mem_obsEdges h', mem_obsEdges h, hget]

theorem edges_add {s s' : State} (h : InvE s) (h' : InvE s') (i a b ty : Nat) (ps : Props)
    (hget : ∀ e, getEdge s' e = if e = i then some (a, b, ty, ps) else getEdge s e)
    (hdead : getEdge s i = none) :
    edgesSame (obsEdges s') ((i, a, b, ty, ps) :: obsEdges s) = true := by
  apply edgesSame_of_iff
  intro x
  rw [List.mem_cons, mem_obsEdges h', mem_obsEdges h, hget]
  by_cases hx : eId x = i
  · simp only [hx, if_true, Option.some.injEq]
    constructor
    · intro hr
      left
      obtain ⟨xi, xa, xb, xt, xp⟩ := x
      simp only [eId, eSrc, eTgt, eTy, eProps, Prod.mk.injEq] at hx hr ⊢
      exact ⟨hx, hr.1.symm, hr.2.1.symm, hr.2.2.1.symm, hr.2.2.2.symm⟩
    · rintro (hh | hr)
      · subst hh; rfl
      · rw [hdead] at hr; cases hr
  · simp only [hx, if_false]
    constructor
    · exact Or.inr
    · rintro (hh | hh)
      · exact absurd (by rw [hh]; rfl) hx
      · exact hh

theorem edges_del {s s' : State} (h : InvE s) (h' : InvE s') (P : Nat → Prop) [DecidablePred P]
    (keep : EdgeObs → Bool)
    (hget : ∀ e, getEdge s' e = if P e then none else getEdge s e)
    (hkeep : ∀ x ∈ obsEdges s, (keep x = true ↔ ¬ P (eId x))) :
    edgesSame (obsEdges s') ((obsEdges s).filter keep) = true := by
  apply edgesSame_of_iff
  intro x
  rw [List.mem_filter, mem_obsEdges h', hget]
  by_cases hP : P (eId x)
  · simp only [hP, if_true]
    constructor
    · intro hh; cases hh
    · rintro ⟨hm, hk⟩
      exact absurd hP ((hkeep x hm).mp hk)
  · simp only [hP, if_false]
    constructor
    · intro hg
      have hm := (mem_obsEdges h x).mpr hg
      exact ⟨hm, (hkeep x hm).mpr hP⟩
    · rintro ⟨hm, _⟩
      exact (mem_obsEdges h x).mp hm

theorem edges_upd {s s' : State} (h : InvE s) (h' : InvE s') (e : Nat)
    (g : Nat × Nat × Nat × Props → Nat × Nat × Nat × Props) (f : EdgeObs → EdgeObs)
    (hget : ∀ e', getEdge s' e' = if e' = e then (getEdge s e).map g else getEdge s e')
    (hf : ∀ q : Nat × Nat × Nat × Props,
      edgeEqv (e, (g q).1, (g q).2.1, (g q).2.2.1, (g q).2.2.2) (f (e, q.1, q.2.1, q.2.2.1, q.2.2.2)) = true) :
    edgesSame (obsEdges s') ((obsEdges s).map (fun x => if eId x == e then f x else x)) = true := by
  apply edgesSame_intro
  · intro x hx
    rw [mem_obsEdges h', hget] at hx
    by_cases hxe : eId x = e
    · simp only [hxe, if_true] at hx
      cases hge : getEdge s e with
      | none => rw [hge] at hx; cases hx
      | some q =>
        rw [hge] at hx
        simp only [Option.map_some, Option.some.injEq] at hx
        refine ⟨f (e, q.1, q.2.1, q.2.2.1, q.2.2.2),
          List.mem_map.mpr ⟨(e, q.1, q.2.1, q.2.2.1, q.2.2.2), ?_, by simp [eId]⟩, ?_⟩
        · rw [mem_obsEdges h]; exact hge
        · have := hf q
          rw [hx] at this
          obtain ⟨xi, xa, xb, xt, xp⟩ := x
          simp only [eId] at hxe
          subst hxe
          exact this
    · simp only [hxe, if_false] at hx
      refine ⟨x, List.mem_map.mpr ⟨x, (mem_obsEdges h x).mpr hx, ?_⟩, edgeEqv_refl x⟩
      have : (eId x == e) = false := by simpa using hxe
      simp [this]
  · intro y hy
    obtain ⟨x0, hx0, rfl⟩ := List.mem_map.mp hy
    rw [mem_obsEdges h] at hx0
    by_cases hxe : eId x0 = e
    · have hb : (eId x0 == e) = true := by simpa using hxe
      simp only [hb, if_true]
      obtain ⟨xi, xa, xb, xt, xp⟩ := x0
      simp only [eId, eSrc, eTgt, eTy, eProps] at hxe hx0
      subst hxe
      refine ⟨(xi, (g (xa, xb, xt, xp)).1, (g (xa, xb, xt, xp)).2.1, (g (xa, xb, xt, xp)).2.2.1,
        (g (xa, xb, xt, xp)).2.2.2), ?_, hf (xa, xb, xt, xp)⟩
      rw [mem_obsEdges h', hget]
      simp only [eId, if_true]
      rw [hx0]; rfl
    · have hb : (eId x0 == e) = false := by simpa using hxe
      simp only [hb, Bool.false_eq_true, if_false]
      refine ⟨x0, ?_, edgeEqv_refl x0⟩
      rw [mem_obsEdges h', hget]
      simp only [hxe, if_false]
      exact hx0

/-! ### which ids the observation knows -/

theorem nid_contains (s : State) (p : Probe) (hcov : ∀ n, getNode s n ≠ none → n ∈ p.ids) (a : Nat) :
    ((obs s p).nodes.map (·.1)).contains a = liveN s a := by
  cases hl : liveN s a with
  | true =>
    have hne := (liveN_iff s a).mp hl
    cases hg : getNode s a with
    | none => exact absurd hg hne
    | some r =>
      rw [List.contains_iff_mem]
      exact List.mem_map.mpr ⟨(a, r.labels, r.props), (mem_obsNodes s p _).mpr ⟨hcov a hne, hg⟩, rfl⟩
  | false =>
    cases hc : ((obs s p).nodes.map (·.1)).contains a with
    | false => rfl
    | true =>
      obtain ⟨x, hx, hxa⟩ := List.mem_map.mp (List.contains_iff_mem.mp hc)
      have := ((mem_obsNodes s p x).mp hx).2
      rw [hxa] at this
      simp [liveN, this] at hl

theorem eid_contains {s : State} (h : InvE s) (e : Nat) :
    ((obsEdges s).map eId).contains e = (getEdge s e).isSome := by
  rw [obsEdges_ids]
  cases hg : getEdge s e with
  | none =>
    simp only [Option.isSome_none]
    cases hc : (allEdges s).contains e with
    | false => rfl
    | true =>
      have := (mem_allEdges h e).mp (List.contains_iff_mem.mp hc)
      exact absurd (getEdge_none h hg) this
  | some q =>
    obtain ⟨a, b, ty, ps⟩ := q
    simp only [Option.isSome_some]
    exact List.contains_iff_mem.mpr ((mem_allEdges h e).mpr (getEdge_some hg).2)

end SgModel.Store
