import SgModel.Model.SnapJson
/-!
The executable specification's comparisons are reflexive (used to show that the model
satisfies the specification), and `PV.beq` decides equality.
-/
namespace SgModel.SnapJson

mutual
theorem PV.beq_refl : ∀ (a : PV), PV.beq a a = true
  | .null => rfl
  | .bool _ => by simp [PV.beq]
  | .int _ => by simp [PV.beq]
  | .flt _ => by simp [PV.beq]
  | .str _ => by simp [PV.beq]
  | .dt _ => by simp [PV.beq]
  | .vec _ => by simp [PV.beq]
  | .dur _ _ _ _ => by simp [PV.beq]
  | .arr l => by simp [PV.beq, PV.beqL_refl l]
  | .map l => by simp [PV.beq, PV.beqKV_refl l]
theorem PV.beqL_refl : ∀ (l : List PV), PV.beqL l l = true
  | [] => rfl
  | x :: r => by simp [PV.beqL, PV.beq_refl x, PV.beqL_refl r]
theorem PV.beqKV_refl : ∀ (l : List (Str × PV)), PV.beqKV l l = true
  | [] => rfl
  | (k, x) :: r => by simp [PV.beqKV, PV.beq_refl x, PV.beqKV_refl r]
end

mutual
theorem PV.eq_of_beq : ∀ (a b : PV), PV.beq a b = true → a = b
  | .null, b => by cases b <;> simp [PV.beq]
  | .bool x, b => by cases b <;> simp [PV.beq]
  | .int x, b => by cases b <;> simp [PV.beq]
  | .flt x, b => by cases b <;> simp [PV.beq]
  | .str x, b => by cases b <;> simp [PV.beq]
  | .dt x, b => by cases b <;> simp [PV.beq]
  | .vec x, b => by cases b <;> simp [PV.beq]
  | .dur _ _ _ _, b => by cases b <;> simp [PV.beq]; intros; simp_all
  | .arr x, b => by
      cases b <;> simp [PV.beq]
      intro h; exact PV.eqL_of_beqL _ _ h
  | .map x, b => by
      cases b <;> simp [PV.beq]
      intro h; exact PV.eqKV_of_beqKV _ _ h
theorem PV.eqL_of_beqL : ∀ (a b : List PV), PV.beqL a b = true → a = b
  | [], [] => by simp
  | [], _ :: _ => by simp [PV.beqL]
  | _ :: _, [] => by simp [PV.beqL]
  | x :: xs, y :: ys => by
      simp [PV.beqL]
      intro h1 h2
      exact ⟨PV.eq_of_beq x y h1, PV.eqL_of_beqL xs ys h2⟩
theorem PV.eqKV_of_beqKV : ∀ (a b : List (Str × PV)), PV.beqKV a b = true → a = b
  | [], [] => by simp
  | [], _ :: _ => by simp [PV.beqKV]
  | _ :: _, [] => by simp [PV.beqKV]
  | (k, x) :: xs, (k', y) :: ys => by
      simp [PV.beqKV]
      intro h0 h1 h2
      exact ⟨⟨h0, PV.eq_of_beq x y h1⟩, PV.eqKV_of_beqKV xs ys h2⟩
end

theorem propsEqv_refl (a : List (Str × PV)) : propsEqv a a = true := by
  simp only [propsEqv, beq_self_eq_true, Bool.true_and, List.all_eq_true, List.any_eq_true]
  intro kv hkv
  exact ⟨kv, hkv, by simp [PV.beq_refl]⟩

theorem setEqv_refl (a : List Str) : setEqv a a = true := by
  simp only [setEqv, beq_self_eq_true, Bool.true_and, List.all_eq_true, List.contains_iff_mem]
  exact fun x hx => hx

theorem nodesEqv_refl : ∀ (l : List LNode), nodesEqv l l = true
  | [] => rfl
  | a :: r => by simp [nodesEqv, nodeEqv, setEqv_refl, propsEqv_refl, nodesEqv_refl r]

theorem matchAll_refl {α : Type} (eqv : α → α → Bool) (hr : ∀ x, eqv x x = true) :
    ∀ (l : List α), matchAll eqv l l = true
  | [] => rfl
  | x :: r => by
      have : (x :: r).findIdx? (eqv x) = some 0 := by simp [List.findIdx?_cons, hr x]
      simp only [matchAll, this, List.eraseIdx_cons_zero]
      exact matchAll_refl eqv hr r

theorem lgEqv_refl (g : LG) : lgEqv g g = true := by
  simp only [lgEqv, nodesEqv_refl, Bool.true_and, Bool.and_eq_true]
  constructor
  · exact matchAll_refl _ (fun e => by simp [edgeEqv, propsEqv_refl]) _
  · exact matchAll_refl _ (fun h => by simp [hierEqv, setEqv_refl]) _

end SgModel.SnapJson
