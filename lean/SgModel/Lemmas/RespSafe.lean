import SgModel.Lemmas.RespCodec
/-!
Safety of the repaired decoder on arbitrary bytes (C21): never `panic`, the cursor only
moves forward, the allocation meter is linear in the bytes the cursor passed, the recursion
depth is bounded by the budget.  Core Lean only.
-/
namespace SgModel.Resp

/-- what every result of the cursor-level decoder satisfies, relative to its input buffer and
depth budget -/
structure Safe (buf : Bytes) (r : Res) (d : Nat) : Prop where
  rest_le : r.rest.length ≤ buf.length
  meter_le : r.meter + 96 * r.rest.length ≤ 96 * buf.length
  no_panic : r.out ≠ .panic
  val_room : ∀ v, r.out = .val v → r.meter + PUSH_COST + 96 * r.rest.length ≤ 96 * buf.length
  depth_le : r.depth ≤ d

theorem decodeD_nil' (d : Nat) : decodeD d [] = ⟨.none, [], 0, 0⟩ := by
  cases d <;> rfl

theorem safe_none (buf : Bytes) (d : Nat) : Safe buf ⟨.none, buf, 0, 0⟩ d :=
  ⟨Nat.le_refl _, by simp, by simp, (by intro v h; cases h), Nat.zero_le _⟩

theorem statusLine_safe (mk : Bytes → RV) (buf : Bytes) (d : Nat) :
    Safe buf (statusLine mk buf) d := by
  unfold statusLine
  split
  · exact safe_none buf d
  · rename_i line rest h
    have hl := readLine_length h
    split <;> refine ⟨?_, ?_, ?_, ?_, ?_⟩ <;>
      simp only [lineCost, PUSH_COST, ELEM_SIZE, reduceCtorEq, not_false_eq_true, ne_eq,
        false_imp_iff, implies_true] <;> (try intro v _) <;> omega

theorem decodeInt_safe (buf : Bytes) (d : Nat) : Safe buf (decodeInt buf) d := by
  unfold decodeInt
  split
  · exact safe_none buf d
  · rename_i line rest h
    have hl := readLine_length h
    split <;> refine ⟨?_, ?_, ?_, ?_, ?_⟩ <;>
      simp only [lineCost, PUSH_COST, ELEM_SIZE, reduceCtorEq, not_false_eq_true, ne_eq,
        false_imp_iff, implies_true] <;> (try intro v _) <;> omega

theorem decodeNull_safe (buf : Bytes) (d : Nat) : Safe buf (decodeNull buf) d := by
  unfold decodeNull
  split
  · exact safe_none buf d
  · rename_i line rest h
    have hl := readLine_length h
    split <;> refine ⟨?_, ?_, ?_, ?_, ?_⟩ <;>
      simp only [PUSH_COST, ELEM_SIZE, reduceCtorEq, not_false_eq_true, ne_eq,
        false_imp_iff, implies_true] <;> (try intro v _) <;> omega

theorem decodeBulk_safe (buf : Bytes) (d : Nat) : Safe buf (decodeBulk buf) d := by
  unfold decodeBulk
  split
  · exact safe_none buf d
  · rename_i line rest h
    have hl := readLine_length h
    split
    · refine ⟨?_, ?_, ?_, ?_, ?_⟩ <;>
        simp only [lineCost, PUSH_COST, ELEM_SIZE, reduceCtorEq, not_false_eq_true, ne_eq,
          false_imp_iff, implies_true] <;> omega
    · rename_i len _
      split
      · refine ⟨?_, ?_, ?_, ?_, ?_⟩ <;>
          simp only [lineCost, PUSH_COST, ELEM_SIZE, reduceCtorEq, not_false_eq_true, ne_eq,
            false_imp_iff, implies_true] <;> (try intro v _) <;> omega
      · split
        · refine ⟨?_, ?_, ?_, ?_, ?_⟩ <;>
            simp only [lineCost, PUSH_COST, ELEM_SIZE, reduceCtorEq, not_false_eq_true, ne_eq,
              false_imp_iff, implies_true] <;> omega
        · simp only
          split
          · refine ⟨?_, ?_, ?_, ?_, ?_⟩ <;>
              simp only [lineCost, PUSH_COST, ELEM_SIZE, reduceCtorEq, not_false_eq_true, ne_eq,
                false_imp_iff, implies_true] <;> omega
          · rename_i hlen
            split
            · refine ⟨?_, ?_, ?_, ?_, ?_⟩ <;>
                simp only [lineCost, PUSH_COST, ELEM_SIZE, reduceCtorEq, not_false_eq_true, ne_eq,
                  false_imp_iff, implies_true, List.length_drop] <;> (try intro v _) <;> omega
            · refine ⟨?_, ?_, ?_, ?_, ?_⟩ <;>
                simp only [lineCost, PUSH_COST, ELEM_SIZE, reduceCtorEq, not_false_eq_true, ne_eq,
                  false_imp_iff, implies_true, List.length_drop] <;> omega

/-- `parse_inline_tokens` yields at most `(len + 1) / 2` tokens -/
theorem tokenize_count (cs : Bytes) (toks : List Bytes) (cur : Bytes) (inq : Bool) :
    ∀ ts, tokenize cs toks cur inq = some ts →
    2 * ts.length ≤ 2 * toks.length + (if cur.isEmpty then 0 else 1) + cs.length + 1 := by
  fun_induction tokenize cs toks cur inq with
  | case1 toks cur => intro ts h; cases h
  | case2 toks cur inq hq =>
    intro ts h
    simp only [Option.some.injEq] at h
    subst h
    split <;> simp_all <;> omega
  | case3 cs toks cur inq ih =>
    intro ts h; have := ih ts h; simp only [List.length_cons]; omega
  | case4 c cs toks cur inq hc hsp hce ih =>
    intro ts h; have := ih ts h; simp only [List.length_cons]; simp at this; split <;> omega
  | case5 c cs toks cur inq hc hsp hce ih =>
    intro ts h; have := ih ts h
    simp only [List.length_cons, List.length_append, List.length_nil] at this ⊢
    simp at this
    simp [hce]; omega
  | case6 c toks cur inq hc hsp hbs ih =>
    intro ts h; have := ih ts h; simp only [List.length_cons, List.length_nil] at this ⊢; omega
  | case7 c toks cur inq hc hsp hbs n cs' ih =>
    intro ts h; have := ih ts h
    have hne : (cur ++ escOf n).isEmpty = false := by
      unfold escOf; split <;> (try split) <;> (try split) <;> (try split) <;> (try split) <;> simp
    simp only [hne, Bool.false_eq_true, if_false] at this
    simp only [List.length_cons]; split <;> omega
  | case8 c cs toks cur inq hc hsp hbs ih =>
    intro ts h; have := ih ts h
    have hne : (cur ++ [c]).isEmpty = false := by simp
    simp only [hne, Bool.false_eq_true, if_false] at this
    simp only [List.length_cons]; split <;> omega

theorem decodeInline_safe (buf : Bytes) (d : Nat) : Safe buf (decodeInline buf) d := by
  unfold decodeInline
  split
  · exact safe_none buf d
  · rename_i line rest h
    have hl := readLine_length h
    split
    · split
      · refine ⟨?_, ?_, ?_, ?_, ?_⟩ <;>
          simp only [inlineCost, PUSH_COST, ELEM_SIZE, reduceCtorEq, not_false_eq_true, ne_eq,
            false_imp_iff, implies_true] <;> omega
      · rename_i t ts htok
        have hc := tokenize_count line [] [] false (t :: ts) htok
        simp only [List.length_nil, List.isEmpty_nil, if_true, List.length_cons] at hc
        refine ⟨?_, ?_, ?_, ?_, ?_⟩ <;>
          simp only [inlineCost, PUSH_COST, ELEM_SIZE, reduceCtorEq, not_false_eq_true, ne_eq,
            false_imp_iff, implies_true, List.length_cons] <;> (try intro v _) <;> omega
      · refine ⟨?_, ?_, ?_, ?_, ?_⟩ <;>
          simp only [inlineCost, PUSH_COST, ELEM_SIZE, reduceCtorEq, not_false_eq_true, ne_eq,
            false_imp_iff, implies_true] <;> omega
    · refine ⟨?_, ?_, ?_, ?_, ?_⟩ <;>
        simp only [PUSH_COST, ELEM_SIZE, reduceCtorEq, not_false_eq_true, ne_eq,
          false_imp_iff, implies_true] <;> omega

/-- the element loop, given that the element decoder is safe with budget `d` -/
structure SafeL (buf : Bytes) (r : ResL) (d : Nat) : Prop where
  rest_le : r.rest.length ≤ buf.length
  meter_le : r.meter + 96 * r.rest.length ≤ 96 * buf.length
  no_panic : r.out ≠ .panic
  depth_le : r.depth ≤ d

theorem elems_safe (dec : Bytes → Res) (d : Nat) (hdec : ∀ b, Safe b (dec b) d) :
    ∀ (n : Nat) (buf : Bytes), SafeL buf (elems dec PUSH_COST n buf) d := by
  intro n
  induction n with
  | zero => intro buf; exact ⟨Nat.le_refl _, by simp [elems], by simp [elems], by simp [elems]⟩
  | succ n ih =>
    intro buf
    have h := hdec buf
    simp only [elems]
    split
    · rename_i v hv
      have h2 := ih (dec buf).rest
      have hroom := h.val_room v hv
      refine ⟨?_, ?_, ?_, ?_⟩
      · exact Nat.le_trans h2.rest_le h.rest_le
      · have := h2.meter_le; simp only []; omega
      · simp only []
        split
        · simp
        · rename_i o hne; intro e; exact h2.no_panic e
      · simp only []; exact Nat.max_le.mpr ⟨h.depth_le, h2.depth_le⟩
    · exact ⟨h.rest_le, h.meter_le, by simp, h.depth_le⟩
    · exact ⟨h.rest_le, h.meter_le, by simp, h.depth_le⟩
    · exact ⟨h.rest_le, h.meter_le, by simp, h.depth_le⟩
    · rename_i hp; exact absurd hp h.no_panic

theorem decodeD_safe : ∀ (d : Nat) (buf : Bytes), Safe buf (decodeD d buf) d := by
  intro d
  induction d with
  | zero =>
    intro buf
    cases buf with
    | nil => rw [decodeD_nil']; exact safe_none [] 0
    | cons b bs =>
      by_cases h43 : b = 43
      · subst h43; rw [decodeD_43]; exact statusLine_safe _ _ _
      by_cases h45 : b = 45
      · subst h45; rw [decodeD_45]; exact statusLine_safe _ _ _
      by_cases h58 : b = 58
      · subst h58; rw [decodeD_58]; exact decodeInt_safe _ _
      by_cases h36 : b = 36
      · subst h36; rw [decodeD_36]; exact decodeBulk_safe _ _
      by_cases h42 : b = 42
      · subst h42; rw [decodeD_42_zero]
        exact ⟨Nat.le_refl _, by simp, by simp, (by intro v h; cases h), Nat.le_refl _⟩
      by_cases h95 : b = 95
      · subst h95; rw [decodeD_95]; exact decodeNull_safe _ _
      have : isTypeByte b = false := by simp [isTypeByte, h43, h45, h58, h36, h42, h95]
      rw [decodeD_inline 0 b bs this]; exact decodeInline_safe _ _
  | succ d ih =>
    intro buf
    cases buf with
    | nil => rw [decodeD_nil']; exact safe_none [] _
    | cons b bs =>
      by_cases h43 : b = 43
      · subst h43; rw [decodeD_43]; exact statusLine_safe _ _ _
      by_cases h45 : b = 45
      · subst h45; rw [decodeD_45]; exact statusLine_safe _ _ _
      by_cases h58 : b = 58
      · subst h58; rw [decodeD_58]; exact decodeInt_safe _ _
      by_cases h36 : b = 36
      · subst h36; rw [decodeD_36]; exact decodeBulk_safe _ _
      by_cases h42 : b = 42
      · subst h42
        cases hline : readLine (42 :: bs) with
        | none => rw [decodeD_42_noLine d bs hline]; exact safe_none _ _
        | some lr =>
          obtain ⟨line, rest⟩ := lr
          have hl := readLine_length hline
          cases hp : parseUsize line.tail with
          | none =>
            rw [decodeD_42_badLen d bs line rest hline hp]
            refine ⟨?_, ?_, ?_, ?_, ?_⟩ <;>
              simp only [lineCost, reduceCtorEq, not_false_eq_true, ne_eq, false_imp_iff,
                implies_true] <;> omega
          | some n =>
            rw [decodeD_42_succ d bs line rest n hline hp]
            have he := elems_safe (decodeD d) d ih n rest
            have h1 := he.rest_le
            have h2 := he.meter_le
            have h3 := he.depth_le
            refine ⟨?_, ?_, ?_, ?_, ?_⟩
            · simp only []; omega
            · simp only [lineCost]; omega
            · simp only []
              cases ho : (elems (decodeD d) PUSH_COST n rest).out with
              | panic => exact absurd ho he.no_panic
              | _ => simp [arrOut]
            · intro v _; simp only [lineCost]; have hpc : PUSH_COST = 128 := rfl; omega
            · simp only []; omega
      by_cases h95 : b = 95
      · subst h95; rw [decodeD_95]; exact decodeNull_safe _ _
      have : isTypeByte b = false := by simp [isTypeByte, h43, h45, h58, h36, h42, h95]
      rw [decodeD_inline _ b bs this]; exact decodeInline_safe _ _

/-! ### the top-level `decode` in terms of the cursor-level result -/

theorem decode_meter (b : Bytes) : (decode b).meter = (decodeD MAX_DEPTH b).meter := by
  cases h : (decodeD MAX_DEPTH b).out <;> simp [decode, h]

theorem decode_depth (b : Bytes) : (decode b).depth = (decodeD MAX_DEPTH b).depth := by
  cases h : (decodeD MAX_DEPTH b).out <;> simp [decode, h]

theorem decode_not_panic (b : Bytes) : (decode b).out ≠ .panic := by
  have hp := (decodeD_safe MAX_DEPTH b).no_panic
  cases h : (decodeD MAX_DEPTH b).out <;> simp_all [decode]

theorem decode_rest_le (b : Bytes) : (decode b).rest.length ≤ b.length := by
  have hs := (decodeD_safe MAX_DEPTH b).rest_le
  cases h : (decodeD MAX_DEPTH b).out <;> simp [decode, h, hs]

theorem decode_val_lt (b : Bytes) (v : RV) (hv : (decode b).out = .val v) :
    (decode b).rest.length < b.length := by
  have hs := decodeD_safe MAX_DEPTH b
  cases h : (decodeD MAX_DEPTH b).out with
  | val w =>
    have := hs.val_room w h
    have hpc : PUSH_COST = 128 := rfl
    simp only [decode, h]
    omega
  | _ => simp [decode, h] at hv

end SgModel.Resp
