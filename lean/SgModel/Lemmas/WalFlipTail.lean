import SgModel.Lemmas.WalFlipLen
/-! C15 — one byte changed inside a torn tail (the proper prefix of a frame that a crash left at
the end of a file), and the direct form of the length-prefix result.  Core Lean only. -/
namespace SgModel.Wal

theorem flipByte_length (bs : Bytes) (p : Nat) (m : UInt8) : (flipByte bs p m).length = bs.length := by
  simp [flipByte]

/-- a body cut short never parses, under the prefix-free decoder contract -/
theorem parseBody_short {dec : Dec} {r : Rec} (h : PFRec dec r) {L : Nat}
    (hL : L < r.entry.length + 12) : parseBody dec ((body r).take L) = none := by
  obtain ⟨⟨_, _, hdec⟩, hpf⟩ := h
  have hbl : ((body r).take L).length = L := by rw [List.length_take, body_length]; omega
  unfold parseBody
  by_cases h8 : L < 8
  · rw [if_pos (by omega)]
  rw [if_neg (by omega)]
  have hdrop : ((body r).take L).drop 8 = (r.entry ++ le 4 (cksum r.entry)).take (L - 8) := by
    have hb8 : (body r).drop 8 = r.entry ++ le 4 (cksum r.entry) := by
      simp only [body]; exact List.drop_left' (le_length 8 _)
    rw [List.drop_take, hb8]
  rw [hdrop]
  by_cases hin : L - 8 < r.entry.length
  · rw [List.take_append_of_le_length (Nat.le_of_lt hin), hpf _ hin]
  · have : (r.entry ++ le 4 (cksum r.entry)).take (L - 8)
        = r.entry ++ (le 4 (cksum r.entry)).take (L - 8 - r.entry.length) := by
      rw [List.take_append, List.take_of_length_le (by omega)]
    rw [this, hdec]
    dsimp only
    rw [if_pos (by omega)]

/-- **a changed byte inside a torn tail**: the read loop still stops there and delivers nothing
from it — it still looks torn, or (the byte was in its length prefix) fails to decode -/
theorem replayFile_tail_flip {dec : Dec} {r : Rec} (h : PFRec dec r) (k q : Nat) (mask : UInt8)
    (hk : k < (frame r).length) (fuel : Nat) :
    ∃ e, replayFile Mode.fixed dec fuel (flipByte ((frame r).take k) q mask) = ([], e) := by
  cases fuel with
  | zero => exact ⟨_, rfl⟩
  | succ fuel =>
    have hb := h.1.2.1
    rw [frame_length] at hk
    have hlen : (flipByte ((frame r).take k) q mask).length = k := by
      rw [flipByte_length, List.length_take, frame_length]; omega
    rw [replayFile]
    by_cases h4 : k < 4
    · rw [if_pos (by omega)]; exact ⟨_, rfl⟩
    rw [if_neg (by omega)]
    have hsplit : (frame r).take k = le 4 (r.entry.length + 12) ++ (body r).take (k - 4) := by
      simp only [frame]
      rw [List.take_append, le_length, List.take_of_length_le (by rw [le_length]; omega)]
    have hrl : ((body r).take (k - 4)).length = k - 4 := by
      rw [List.length_take, body_length]; omega
    by_cases hq : q < 4
    · -- the byte is in the tail's length prefix
      rw [hsplit, flipByte_append_left _ _ _ _ (by rw [le_length]; exact hq)]
      have hl4 : (flipByte (le 4 (r.entry.length + 12)) q mask).length = 4 := by
        rw [flipByte_length, le_length]
      simp only [List.take_left' hl4, List.drop_left' hl4]
      by_cases hlong : ((body r).take (k - 4)).length < fromLE (flipByte (le 4 (r.entry.length + 12)) q mask)
      · rw [if_pos hlong]; exact ⟨_, rfl⟩
      · rw [if_neg hlong, List.take_take, Nat.min_eq_left (by omega),
          parseBody_short h (by omega)]
        exact ⟨_, rfl⟩
    · -- the byte is in the tail's body part: the prefix still announces more than there is
      rw [hsplit, flipByte_append_right _ _ _ _ (by rw [le_length]; omega)]
      simp only [List.take_left' (le_length 4 _), List.drop_left' (le_length 4 _), fromLE_le 4 _ hb]
      rw [if_pos (by rw [flipByte_length, hrl]; omega)]
      exact ⟨_, rfl⟩

/-- **Direct form, for all images**: intact records followed by a torn tail in which any one
byte was changed (any offset, any mask) replay to exactly the intact records — nothing is
delivered from the tail, so never a wrong entry; the replay ends as for a torn tail or with
an error. -/
theorem replay_tail_flip {dec : Dec} (rs : List Rec) (hw : ∀ x ∈ rs, WFRec dec x) {r : Rec}
    (h : PFRec dec r) (k q : Nat) (mask : UInt8) (hk : k < (frame r).length) :
    ∃ e, replay Mode.fixed dec (frames rs ++ flipByte ((frame r).take k) q mask) = (rs, e) := by
  apply replay_pre_then rs hw _ (fun p => ∃ e, p = (rs, e))
  intro fuel
  obtain ⟨e, he⟩ := replayFile_tail_flip h k q mask hk (fuel + 1)
  exact ⟨e, by rw [he]; simp⟩

/-- **Direct form, length prefix**: intact records, then a frame whose 4-byte length prefix was
replaced by any other 4 bytes, then anything: exactly the intact records are delivered — the
damaged record is reported (error) or looks torn (end of that file), never accepted. -/
theorem replay_len_flip {dec : Dec} (pre : List Rec) (hw : ∀ x ∈ pre, WFRec dec x) {r : Rec}
    (h : PFRec dec r) (lb post : Bytes) (hl4 : lb.length = 4) (hne : fromLE lb ≠ r.entry.length + 12) :
    ∃ e, replay Mode.fixed dec (frames pre ++ (lb ++ (body r ++ post))) = (pre, e) := by
  apply replay_pre_then pre hw _ (fun p => ∃ e, p = (pre, e))
  intro fuel
  obtain ⟨e, he⟩ := replayFile_badlen h lb post fuel hl4 hne
  exact ⟨e, by rw [he]; simp⟩

/-- a decoder that honours the contract on the entry `[5, 5, 0, 0, 0, 9]` but is *not*
prefix-free: on anything else it claims a one-byte entry -/
def decLoose : Dec := fun b => if ([5, 5, 0, 0, 0, 9] : Bytes).isPrefixOf b then some 6 else some 1

theorem decLoose_contract : ∀ rest, decLoose (([5, 5, 0, 0, 0, 9] : Bytes) ++ rest) = some 6 := by
  intro rest
  simp [decLoose, List.isPrefixOf]

/-- what a crash leaves behind the whole records of a file: nothing, or a proper prefix of the
frame of a record satisfying the prefix-free decoder contract -/
def TailPF (dec : Dec) (t : Bytes) : Prop :=
  t = [] ∨ ∃ r k, PFRec dec r ∧ k < (frame r).length ∧ t = (frame r).take k

theorem replay_tailPF_flip {dec : Dec} (rs : List Rec) (hw : ∀ x ∈ rs, WFRec dec x) {t : Bytes}
    (ht : TailPF dec t) (q : Nat) (mask : UInt8) :
    ∃ e, replay Mode.fixed dec (frames rs ++ flipByte t q mask) = (rs, e) := by
  rcases ht with rfl | ⟨r, k, hr, hk, rfl⟩
  · exact ⟨End.ok, by simpa [flipByte] using replay_frames (m := Mode.fixed) rfl rs [] hw torn_nil⟩
  · exact replay_tail_flip rs hw hr k q mask hk

theorem locate_none_ge : ∀ (rs : List Rec) (p : Nat), locate rs p = none → (frames rs).length ≤ p
  | [], _, _ => by simp [frames]
  | r :: rs, p, h => by
    simp only [locate] at h
    split at h
    · simp at h
    split at h
    · simp at h
    split at h
    · simp at h
    split at h
    · simp at h
    · have : locate rs (p - (16 + r.entry.length)) = none := by
        cases hl : locate rs (p - (16 + r.entry.length)) with
        | none => rfl
        | some x => rw [hl] at h; simp at h
      have ih := locate_none_ge rs _ this
      rw [frames_length_cons]; omega

/-- **one byte changed behind the whole records of a file of a valid directory** (inside its torn
tail): what the model observes satisfies `specFlip` — every whole record of that file and of the
earlier files is delivered unaltered, nothing from the tail; later files follow unless the
tail's damaged length prefix made the replay fail -/
theorem specFlipTail_of_dirOK {dec : Dec} {fs : List File} {B : Nat} (h : DirOK dec fs B)
    (hnd : (((fs.map (recsOf dec)).flatten).map (·.entry)).Nodup)
    {i p : Nat} {f : File} (hget : fs[i]? = some f) {t : Bytes}
    (hdata : f.data = frames (recsOf dec f) ++ t) (ht : TailPF dec t)
    (hloc : locate (recsOf dec f) p = none) (mask : UInt8) (top : Nat) :
    specFlip (fs.map (recsOf dec)) i p
      (observe Mode.fixed dec (fs.modify i (flipFile p mask)) top) = true := by
  have hf : f ∈ fs := List.mem_of_getElem? hget
  have hgood : ∀ g ∈ fs, Good dec g := fun g hg => (h.1 g hg).1
  have hw : ∀ x ∈ recsOf dec f, WFRec dec x := by
    obtain ⟨rs, t', hw, ht', hd⟩ := hgood f hf
    rw [recsOf_eq hw ht' hd]; exact hw
  have hge := locate_none_ge _ _ hloc
  obtain ⟨e, hrep⟩ : ∃ e, replay Mode.fixed dec (flipFile p mask f).data = (recsOf dec f, e) := by
    simp only [flipFile, hdata, flipByte_append_right _ _ _ _ hge]
    exact replay_tailPF_flip _ hw ht _ mask
  have hfr : (fs.map (recsOf dec))[i]? = some (recsOf dec f) := by simp [hget]
  have htk : (recsOf dec f).take (recsOf dec f).length = recsOf dec f := List.take_length
  by_cases hok : e = End.ok
  · subst hok
    have hdir := replayDir_modify_ok (flipFile p mask) fs i f _ hgood hget hrep
    have hsub := take_drop_flatten_sublist (dec := dec) fs i f (recsOf dec f).length hget
    rw [htk] at hsub
    generalize hK : ((fs.take i).map (recsOf dec)).flatten
      ++ (recsOf dec f ++ ((fs.drop (i + 1)).map (recsOf dec)).flatten) = K at hdir hsub
    have hR : (observe Mode.fixed dec (fs.modify i (flipFile p mask)) top).runs
        = (List.range (top + 1)).map (fun frm => ((delivered frm K).map (·.entry), End.ok, lastSeq frm K)) := by
      simp only [observe, hdir, if_true]
    have hR0 : (List.range (top + 1)).map (fun frm => ((delivered frm K).map (·.entry), End.ok, lastSeq frm K))
        = (K.map (·.entry), End.ok, lastSeq 0 K)
          :: ((List.range top).map Nat.succ).map (fun frm =>
            ((delivered frm K).map (·.entry), End.ok, lastSeq frm K)) := by
      simp only [List.range_succ_eq_map, List.map_cons, delivered_zero]
    have hsubseq : isSubseq (K.map (·.entry)) (((fs.map (recsOf dec)).flatten).map (·.entry)) = true :=
      isSubseq_of_sublist (hsub.map _)
    unfold specFlip
    rw [hfr, hR, hR0]
    simp only
    rw [filter_of_sublist hsub hnd, ← hR0, hloc]
    simp only [hsubseq, beq_self_eq_true, Bool.true_and, Bool.and_true]
    simp only [List.all_eq_true, List.mem_range, List.length_map, List.length_range]
    intro frm hfrm
    simp [List.getElem?_map, List.getElem?_range hfrm]
  · have hdir := replayDir_modify_bad (flipFile p mask) fs i f _ e hgood hget hrep hok
    have hsub := take_flatten_sublist (dec := dec) fs i f (recsOf dec f).length hget
    rw [htk] at hsub
    generalize hK : ((fs.take i).map (recsOf dec)).flatten ++ recsOf dec f = K at hdir hsub
    have hR : (observe Mode.fixed dec (fs.modify i (flipFile p mask)) top).runs
        = (List.range (top + 1)).map (fun frm => ((delivered frm K).map (·.entry), e, 0)) := by
      simp only [observe, hdir, if_neg hok]
    have hR0 : (List.range (top + 1)).map (fun frm => ((delivered frm K).map (·.entry), e, 0))
        = (K.map (·.entry), e, 0)
          :: ((List.range top).map Nat.succ).map (fun frm => ((delivered frm K).map (·.entry), e, 0)) := by
      simp only [List.range_succ_eq_map, List.map_cons, delivered_zero]
    have hsubseq : isSubseq (K.map (·.entry)) (((fs.map (recsOf dec)).flatten).map (·.entry)) = true :=
      isSubseq_of_sublist (hsub.map _)
    have herr' : (e != End.ok) = true := by simpa using hok
    unfold specFlip
    rw [hfr, hR, hR0]
    simp only
    rw [filter_of_sublist hsub hnd, ← hR0, hloc]
    simp only [hsubseq, beq_self_eq_true, Bool.true_and, Bool.and_true]
    simp only [List.all_eq_true, List.mem_range, List.length_map, List.length_range]
    intro frm hfrm
    simp [List.getElem?_map, List.getElem?_range hfrm, herr']

end SgModel.Wal
