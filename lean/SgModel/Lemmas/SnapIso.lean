import SgModel.Lemmas.SnapLidx
/-!
C12, graph level: importing what the exporter wrote for a well-formed store into the empty
store succeeds and yields the same logical graph.
-/
namespace SgModel.SnapJson

/-- what the property quantifies over: a store as the public API can build it -/
structure GraphWF (g : St) : Prop where
  idsNodup : (nodeIds g).Nodup
  edgesClosed : ∀ e ∈ g.edges, e.src ∈ nodeIds g ∧ e.tgt ∈ nodeIds g
  nodesOk : ∀ n ∈ g.nodes, NodeWF n
  edgesOk : ∀ e ∈ g.edges, snapOkKV e.props = true
  hierNames : (g.hier.map (·.name)).Nodup
  hierNorm : ∀ h ∈ g.hier, normHier h = h

theorem exportLines_eq (g : St) :
    exportLines false g = g.hier.map hierLine ++ g.nodes.map nodeLine1 ++ g.edges.map edgeLine1 := by
  have h1 : g.nodes.flatMap (nodeLines false) = g.nodes.map nodeLine1 := by
    induction g.nodes with
    | nil => rfl
    | cons n r ih => simp [List.flatMap_cons, nodeLines, nodeLine1, ih]
  have h2 : g.edges.map (edgeLine false) = g.edges.map edgeLine1 := rfl
  simp [exportLines, h1, h2]

theorem logical_nodes_imp (ns : List NodeS) (h : ∀ n ∈ ns, NodeWF n) : ∀ (k : Nat),
    (impNodesFrom k ns).map (fun n => ({ labels := n.labels, props := mergedView n } : LNode))
      = ns.map (fun n => { labels := n.labels, props := mergedView n }) := by
  induction ns with
  | nil => intro k; rfl
  | cons n r ih =>
    intro k
    simp only [impNodesFrom, List.map_cons]
    rw [ih (fun m hm => h m (List.mem_cons_of_mem _ hm)) (k + 1),
      mergedView_newNode k (h n List.mem_cons_self)]
    rfl

theorem logical_edges_imp (ids : List Nat) (R : List (Nat × Nat)) (es : List EdgeS)
    (hR : ∀ e ∈ es, lookupNat e.src R = some (ids.idxOf e.src) ∧ lookupNat e.tgt R = some (ids.idxOf e.tgt))
    (hlt : ∀ e ∈ es, ids.idxOf e.src < ids.length ∧ ids.idxOf e.tgt < ids.length)
    (hok : ∀ e ∈ es, snapOkKV e.props = true) : ∀ (k : Nat),
    (impEdgesFrom R k es).map (fun e =>
        ({ src := rank (List.range' 0 ids.length) e.src, tgt := rank (List.range' 0 ids.length) e.tgt,
           ty := e.ty, props := e.props } : LEdge))
      = es.map (fun e => { src := rank ids e.src, tgt := rank ids e.tgt, ty := e.ty, props := e.props }) := by
  induction es with
  | nil => intro k; rfl
  | cons e r ih =>
    intro k
    have hRe := hR e List.mem_cons_self
    have hle := hlt e List.mem_cons_self
    simp only [impEdgesFrom, List.map_cons, hRe.1, hRe.2, Option.getD_some]
    rw [ih (fun m hm => hR m (List.mem_cons_of_mem _ hm)) (fun m hm => hlt m (List.mem_cons_of_mem _ hm))
      (fun m hm => hok m (List.mem_cons_of_mem _ hm)) (k + 1)]
    have h1 := idxOf_range' ids.length 0 _ hle.1
    have h2 := idxOf_range' ids.length 0 _ hle.2
    simp only [Nat.zero_add] at h1 h2
    simp only [rank, h1, h2, decKV_encKV _ (hok e List.mem_cons_self)]

theorem foldLines_nodes_lidx (ns : List NodeS) : ∀ (s s' : Imp), LidxInv s.st →
    foldLines false true [] s (ns.map nodeLine1) = (s', true) → LidxInv s'.st := by
  induction ns with
  | nil =>
    intro s s' h he
    simp only [List.map_nil, foldLines, Prod.mk.injEq, and_true] at he
    subst he; exact h
  | cons n r ih =>
    intro s s' h he
    simp only [List.map_cons, foldLines, nodeLine1, stepLine, findExisting] at he
    refine ih _ s' ?_ he
    exact lidxInv_createNode _ _ h

theorem import_export_iso (g : St) (hdr : List Str) (h : GraphWF g) :
    ∃ st', importLines false true [] hdr {} (exportLines false g)
        = (st', some { nodes := g.nodes.length, edges := g.edges.length, merged := 0, hier := g.hier.length })
      ∧ logical st' = logical g ∧ lidxOk st' = true := by
  have hnodes := foldLines_nodes g.nodes
    ({ st := {}, dedup := [], hier := g.hier.reverse ++ [] } : Imp)
  obtain ⟨s2, e2, n2, r2, ed2, h2, hh2, nn2, ne2, c2a, c2b, c2c⟩ := hnodes
  have hlook : ∀ id ∈ nodeIds g, lookupNat id s2.remap = some ((nodeIds g).idxOf id) := by
    intro id hid
    rw [r2, lookupNat_remapFrom g.nodes 0 [] id h.idsNodup]
    simp only [nodeIds] at hid
    simp [hid, nodeIds]
  have hedges := foldLines_edges g.edges s2 (by
    intro e he
    have := h.edgesClosed e he
    simp [hlook _ this.1, hlook _ this.2])
  obtain ⟨s3, e3, ed3, n3, h3, hh3, r3, c3a, c3b, c3c, lx3, nx3⟩ := hedges
  -- the fold over the whole export
  have hfold : foldLines false true [] ({ st := {}, dedup := [] } : Imp) (exportLines false g)
      = (s3, true) := by
    rw [exportLines_eq, foldLines_append, foldLines_append, foldLines_hier]
    simp only [e2, e3]
  -- declarations
  have hhier := addHier_fresh g.hier s3.st 0
    (by rw [h3, h2]; simpa using h.hierNames) h.hierNorm
  have hinv2 : LidxInv s2.st := foldLines_nodes_lidx g.nodes _ s2 lidxInv_empty e2
  refine ⟨{ s3.st with hier := s3.st.hier ++ g.hier }, ?_, ?_, ?_⟩
  · unfold importLines
    simp only [List.isEmpty_nil, ↓reduceIte, hfold]
    simp only [addHier, hh3, hh2, List.reverse_append, List.reverse_nil, List.nil_append,
      List.reverse_reverse, hhier, Nat.zero_add]
    simp [c3a, c3b, c3c, c2a, c2b, c2c]
  · have hids : nodeIds { s3.st with hier := s3.st.hier ++ g.hier } = List.range' 0 (nodeIds g).length := by
      simp [nodeIds, n3, n2, ids_impNodesFrom]
    unfold logical
    rw [hids]
    congr 1
    · simp only [n3, n2, List.nil_append]
      exact logical_nodes_imp g.nodes h.nodesOk 0
    · simp only [ed3, ed2, r2, List.nil_append]
      refine logical_edges_imp (nodeIds g) _ g.edges ?_ ?_ h.edgesOk _
      · intro e he
        have := h.edgesClosed e he
        rw [← r2]
        exact ⟨hlook _ this.1, hlook _ this.2⟩
      · intro e he
        have := h.edgesClosed e he
        exact ⟨List.idxOf_lt_length_iff.mpr this.1, List.idxOf_lt_length_iff.mpr this.2⟩
    · simp [h3, h2]
  · apply lidxOk_of_inv
    constructor
    · intro n hn l hl
      simp only [n3, lx3] at hn ⊢
      exact hinv2.complete n hn l hl
    · intro e he id hid
      simp only [lx3] at he
      obtain ⟨n, g1, g2⟩ := hinv2.sound e he id hid
      refine ⟨n, ?_, g2⟩
      unfold getNode at g1 ⊢
      simpa [n3] using g1
    · intro n hn
      simp only [n3, nx3] at hn ⊢
      exact hinv2.fresh n hn

end SgModel.SnapJson
