import SgModel.Model.SnapFS
/-!
C14 helpers: the states reachable by completed persists, and the crash case analyses.
-/
namespace SgModel.SnapFS

/-- after a history whose last acknowledged payload is `l`, the file system is empty or one
of the three committed shapes -/
def Shape (l : Restored) (fs : FS) : Prop :=
  (l = .nothing ∧ fs = {}) ∨ ∃ a, l = .ok a ∧ (fs = committed1 a ∨ fs = committed2 a ∨ fs = committed3 a)

theorem persist_empty (b : Nat) : persist false b {} = committed1 b := rfl
theorem persist_c1 (a b : Nat) : persist false b (committed1 a) = committed2 b := rfl
theorem persist_c2 (a b : Nat) : persist false b (committed2 a) = committed3 b := rfl
theorem persist_c3 (a b : Nat) : persist false b (committed3 a) = committed2 b := rfl

theorem shape_persist {l : Restored} {fs : FS} (h : Shape l fs) (b : Nat) :
    Shape (.ok b) (persist false b fs) := by
  rcases h with ⟨_, rfl⟩ | ⟨a, _, rfl | rfl | rfl⟩
  · exact Or.inr ⟨b, rfl, Or.inl (persist_empty b)⟩
  · exact Or.inr ⟨b, rfl, Or.inr (Or.inl (persist_c1 a b))⟩
  · exact Or.inr ⟨b, rfl, Or.inr (Or.inr (persist_c2 a b))⟩
  · exact Or.inr ⟨b, rfl, Or.inr (Or.inl (persist_c3 a b))⟩

theorem shape_foldl (hist : List Nat) : ∀ (l : Restored) (fs : FS), Shape l fs →
    Shape (hist.foldl (fun _ b => Restored.ok b) l) (hist.foldl (fun fs b => persist false b fs) fs) := by
  induction hist with
  | nil => intro l fs h; exact h
  | cons b r ih => intro l fs h; exact ih _ _ (shape_persist h b)

theorem shape_persistAll (hist : List Nat) : Shape (lastOf hist) (persistAll false hist) :=
  shape_foldl hist .nothing {} (Or.inl ⟨rfl, rfl⟩)

theorem take_persistSteps (b k : Nat) :
    (persistSteps false b).take (k + 8) = persistSteps false b := by
  apply List.take_of_length_le
  simp [persistSteps]

theorem foldl_handle (reqs : List (Nat × Bool)) : ∀ (fs : FS),
    reqs.foldl (fun fs r => (handleReq fs r).1) fs
      = (acked reqs).foldl (fun fs b => persist false b fs) fs := by
  induction reqs with
  | nil => intro fs; rfl
  | cons r rest ih =>
    intro fs
    obtain ⟨b, ok⟩ := r
    cases ok with
    | true => simp only [List.foldl_cons, handleReq, acked, List.filter_cons, List.map_cons, ↓reduceIte]; exact ih _
    | false =>
      simp only [List.foldl_cons, handleReq, acked, List.filter_cons, Bool.false_eq_true, ↓reduceIte]
      exact ih _

theorem handleAll_eq (reqs : List (Nat × Bool)) : handleAll reqs = persistAll false (acked reqs) :=
  foldl_handle reqs {}

end SgModel.SnapFS
