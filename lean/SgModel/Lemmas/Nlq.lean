import SgModel.Model.Nlq
/-!
Lemmas for C24: a read-only statement leaves every store unchanged; the legacy prefix test
ignores everything after the first keyword.
-/
namespace SgModel.Nlq

theorem foldl_ok {G : Type} (eff : Item → G → G)
    (hok : ∀ it g, itemOk it = true → eff it g = g) :
    ∀ (items : List Item) (g : G), items.all itemOk = true →
      items.foldl (fun g it => eff it g) g = g := by
  intro items
  induction items with
  | nil => intro g _; rfl
  | cons it rest ih =>
    intro g h
    simp only [List.all_cons, Bool.and_eq_true] at h
    simp only [List.foldl_cons]
    rw [hok it g h.1]
    exact ih g h.2

theorem exec_readOnly {G : Type} (eff : Item → G → G)
    (hok : ∀ it g, itemOk it = true → eff it g = g) :
    ∀ (s : Stmt) (g : G), isReadOnly s = true → exec eff s g = g := by
  intro s
  induction s with
  | level items => intro g h; exact foldl_ok eff hok items g h
  | seq a b iha ihb =>
    intro g h
    simp only [isReadOnly, Bool.and_eq_true] at h
    simp only [exec]
    rw [iha g h.1, ihb g h.2]

theorem items_ok_of_readOnly : ∀ (s : Stmt), isReadOnly s = true → ∀ it ∈ s.items, itemOk it = true := by
  intro s
  induction s with
  | level items =>
    intro h it hit
    simp only [isReadOnly, List.all_eq_true] at h
    exact h it hit
  | seq a b iha ihb =>
    intro h it hit
    simp only [isReadOnly, Bool.and_eq_true] at h
    simp only [Stmt.items, List.mem_append] at hit
    rcases hit with hit | hit
    · exact iha h.1 it hit
    · exact ihb h.2 it hit

/-! the legacy prefix test -/

theorem trimStart_append_nonws (a b : List Char) (c : Char) (hc : Lex.isWsUnicode c = false) :
    ∃ a', trimStart (a ++ c :: b) = a' ++ c :: b := by
  induction a with
  | nil => exact ⟨[], by simp [trimStart, hc]⟩
  | cons x rest ih =>
    by_cases hx : Lex.isWsUnicode x = true
    · obtain ⟨a', h⟩ := ih
      exact ⟨a', by simp [trimStart, hx, h]⟩
    · exact ⟨x :: rest, by simp [trimStart, hx]⟩

/-- trimming a text that starts with a non-blank word `w` keeps `w` in front -/
theorem trim_keeps_prefix (w s : List Char) (c d : Char) (hc : Lex.isWsUnicode c = false)
    (hd : Lex.isWsUnicode d = false) :
    ∃ s', trim (c :: (w ++ d :: s)) = c :: (w ++ d :: s') := by
  unfold trim trimEnd
  have h1 : trimStart (c :: (w ++ d :: s)) = c :: (w ++ d :: s) := by simp [trimStart, hc]
  rw [h1]
  have hrev : (c :: (w ++ d :: s)).reverse = s.reverse ++ d :: (w.reverse ++ [c]) := by simp
  rw [hrev]
  obtain ⟨a', h⟩ := trimStart_append_nonws s.reverse (w.reverse ++ [c]) d hd
  rw [h]
  exact ⟨a'.reverse, by simp⟩

end SgModel.Nlq
