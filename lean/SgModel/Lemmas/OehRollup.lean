import SgModel.Lemmas.OehNested
/-! SUM / COUNT roll-ups of the nested-set index after arbitrary update sequences. -/
namespace SgModel.Oeh

theorem isum_append (a b : List Int) : (a ++ b).sum = a.sum + b.sum := by
  induction a with
  | nil => simp
  | cons x a ih => simp only [List.cons_append, List.sum_cons, ih]; omega

theorem perm_map_sum {l1 l2 : List Nat} (g : Nat → Int) (p : l1.Perm l2) :
    (l1.map g).sum = (l2.map g).sum := by
  induction p with
  | nil => rfl
  | cons x _ ih => simp only [List.map_cons, List.sum_cons, ih]
  | swap x y l => simp only [List.map_cons, List.sum_cons]; omega
  | trans _ _ ih1 ih2 => rw [ih1, ih2]

theorem psumF_congr {v v' : Nat → Int} : ∀ k, (∀ i, i < k → v i = v' i) → psumF v k = psumF v' k := by
  intro k
  induction k with
  | zero => intro _; rfl
  | succ k ih =>
    intro h
    simp only [psumF]
    rw [ih (fun i hi => h i (by omega)), h k (by omega)]

theorem fwInv_congr {t : List Int} {n : Nat} {v v' : Nat → Int} (h : FwInv t n v)
    (e : ∀ i, i < n → v i = v' i) : FwInv t n v' := by
  refine ⟨h.1, ?_⟩
  intro k hk hkn
  rw [h.2 k hk hkn, psumF_congr k (fun i hi => e i (by omega)),
    psumF_congr (k - lowbit k) (fun i hi => e i (by omega))]

/-- a difference of prefix sums is the sum over the slice -/
theorem psumF_slice (l : List Nat) (g : Nat → Int) : ∀ (c a : Nat), a + c ≤ l.length →
    psumF (fun r => g (l.getD r 0)) (a + c) - psumF (fun r => g (l.getD r 0)) a
      = (((l.drop a).take c).map g).sum := by
  intro c
  induction c with
  | zero => intro a _; simp
  | succ c ih =>
    intro a hle
    have h1 := ih a (by omega)
    have hlt : a + c < l.length := by omega
    have hget : (l.drop a)[c]? = some (l.getD (a + c) 0) := by
      rw [List.getElem?_drop, List.getD_eq_getElem?_getD, List.getElem?_eq_getElem hlt]; rfl
    rw [List.take_add_one, hget]
    simp only [Option.toList_some, List.map_append, List.map_cons, List.map_nil, isum_append,
      List.sum_cons, List.sum_nil]
    have : a + (c + 1) = (a + c) + 1 := by omega
    rw [this]
    simp only [psumF]
    omega

theorem idxOf_of_getElem? {l : List Nat} (nd : l.Nodup) {r a : Nat} (h : l[r]? = some a) :
    l.idxOf a = r := by
  obtain ⟨hr, ha⟩ := List.getElem?_eq_some_iff.mp h
  have hd : l = l.take r ++ (a :: l.drop (r + 1)) ++ [] := by
    rw [List.append_nil, ← ha, ← List.drop_eq_getElem_cons hr, List.take_append_drop]
  have := idxOf_block hd nd
  rw [this, List.length_take]; omega

theorem C28_aux_range {t : List Int} {n : Nat} {v : Nat → Int} (h : FwInv t n v)
    (lo hi : Nat) (hlo : lo ≤ hi) (hhi : hi < n) :
    fwRange t lo hi = psumF v (hi + 1) - psumF v lo := by
  unfold fwRange
  have : ¬ hi < lo := by omega
  simp only [this, if_false]
  rw [fwPrefix_eq h (hi + 1) (by omega), fwPrefix_eq h lo (by omega)]

/-! ### the rank table is a permutation of the nodes -/

theorem mem_order_lt {P : Poset} {h : Nat → Nat} (A : Acyclic P h) {x : Nat} (hx : x ∈ order P) :
    x < P.n := by
  simp only [order, List.mem_flatMap] at hx
  obtain ⟨r, hr, hxr⟩ := hx
  exact mem_pre_lt A P.n x r (mem_roots.mp hr).1 hxr

theorem order_perm_range {P : Poset} {h : Nat → Nat} (F : IsForest P h) :
    (order P).Perm (List.range P.n) := by
  rw [List.perm_ext_iff_of_nodup (nodup_order F) List.nodup_range]
  intro a
  constructor
  · intro ha; exact List.mem_range.mpr (mem_order_lt F.toAcyclic ha)
  · intro ha
    have hy := List.mem_range.mp ha
    obtain ⟨L, R, hLR⟩ := order_block F.toAcyclic a hy
    obtain ⟨tl, htl⟩ := pre_head P a hy
    rw [hLR, htl]; simp

theorem order_length {P : Poset} {h : Nat → Nat} (F : IsForest P h) : (order P).length = P.n := by
  rw [(order_perm_range F).length_eq]; simp

/-- the listing of `y` is a permutation of the brute-force descendant set -/
theorem pre_perm_specDesc {P : Poset} {h : Nat → Nat} (F : IsForest P h) (y : Nat) (hy : y < P.n) :
    (pre P P.n y).Perm (specDesc P y) := by
  have nd2 : (specDesc P y).Nodup := List.Pairwise.filter _ List.nodup_range
  rw [List.perm_ext_iff_of_nodup (nodup_pre F P.n y (F.hBound y hy)) nd2]
  intro x
  simp only [specDesc, List.mem_filter, List.mem_range]
  constructor
  · intro hx
    exact ⟨mem_pre_lt F.toAcyclic P.n x y hy hx, reach_of_mem_pre P P.n x y hx⟩
  · intro ⟨_, hr⟩
    exact mem_pre_of_reach F.toAcyclic P.n x y P.n (F.hBound y hy) hr

/-! ### the invariant of the nested-set index under updates -/

/-- value at rank `r` -/
def rankVal (P : Poset) (m : Measure) : Nat → Int := fun r => (mval m ((order P).getD r 0)).getD 0

structure NInv (I : NestedIdx) (P : Poset) (m : Measure) : Prop where
  hP : I.P = P
  hlab : I.lab = buildNested P
  hm : I.measure = m
  hlen : m.length = P.n
  hfen : FwInv I.fen P.n (rankVal P m)

theorem ninv_build {P : Poset} {h : Nat → Nat} (F : IsForest P h) (m : Measure)
    (hm : m.length = P.n) : NInv (NestedIdx.build P m) P m := by
  refine ⟨rfl, rfl, rfl, hm, ?_⟩
  have hb := fwBuild_inv ((byRank P (buildNested P) m).map (·.getD 0))
  have hl : ((byRank P (buildNested P) m).map (·.getD 0)).length = P.n := by simp [byRank]
  rw [hl] at hb
  refine fwInv_congr hb ?_
  intro i hi
  simp [rankVal, byRank, buildNested, List.getD_eq_getElem?_getD, List.getElem?_map,
    List.getElem?_range, hi]

theorem mval_set (m : Measure) (u v : Nat) (x : Option Int) (hu : u < m.length) :
    mval (m.set u x) v = if v = u then x else mval m v := by
  unfold mval
  by_cases h : v = u
  · subst h; simp [hu]
  · simp [h, List.getElem?_set_ne (Ne.symm h)]

theorem ninv_update {P : Poset} {h : Nat → Nat} (F : IsForest P h) {I : NestedIdx} {m : Measure}
    (inv : NInv I P m) (u : Nat × Option Int) : NInv (I.update u) P (updMeasure m u) := by
  unfold NestedIdx.update updMeasure
  by_cases hu : P.n ≤ u.1
  · have : I.P.n ≤ u.1 := by rw [inv.hP]; exact hu
    simp only [this, if_true]
    have hset : m.set u.1 u.2 = m := by
      apply List.set_eq_of_length_le; rw [inv.hlen]; exact hu
    rw [hset]; exact inv
  · have hu' : u.1 < P.n := by omega
    have : ¬ I.P.n ≤ u.1 := by rw [inv.hP]; exact hu
    simp only [this, if_false]
    refine ⟨inv.hP, inv.hlab, by simp [inv.hm], by simp [inv.hlen], ?_⟩
    simp only [inv.hlab, inv.hm]
    have hadd := fwAdd_inv inv.hfen ((buildNested P).tinOf u.1) (u.2.getD 0 - (mval m u.1).getD 0)
    refine fwInv_congr hadd ?_
    intro i hi
    simp only [bump, rankVal]
    rw [tinOf_eq P u.1 hu']
    have hol := order_length F
    have hget : (order P)[i]? = some ((order P).getD i 0) := by
      rw [List.getD_eq_getElem?_getD, List.getElem?_eq_getElem (by omega)]; rfl
    have hml : u.1 < m.length := by rw [inv.hlen]; exact hu'
    by_cases hi2 : i = (order P).idxOf u.1
    · have hnode : (order P).getD i 0 = u.1 := by
        have hmem : u.1 ∈ order P := (order_perm_range F).mem_iff.mpr (List.mem_range.mpr hu')
        rw [List.getD_eq_getElem?_getD, hi2, List.getElem?_eq_getElem (List.idxOf_lt_length_of_mem hmem),
          List.getElem_idxOf]; rfl
      rw [hnode, mval_set m u.1 u.1 u.2 hml]
      simp [hi2]; omega
    · have hnode : (order P).getD i 0 ≠ u.1 := by
        intro he
        rw [he] at hget
        exact hi2 (idxOf_of_getElem? (nodup_order F) hget).symm
      rw [mval_set m u.1 _ u.2 hml]
      rw [if_neg hnode, if_neg hi2]

theorem ninv_foldl {P : Poset} {h : Nat → Nat} (F : IsForest P h) :
    ∀ (us : List (Nat × Option Int)) (I : NestedIdx) (m : Measure), NInv I P m →
      NInv (us.foldl NestedIdx.update I) P (us.foldl updMeasure m) := by
  intro us
  induction us with
  | nil => intro I m h; exact h
  | cons u us ih => intro I m h; exact ih _ _ (ninv_update F h u)

/-- under the invariant the SUM roll-up is the brute-force sum over the descendant set -/
theorem rollup_sum_of_inv {P : Poset} {h : Nat → Nat} (F : IsForest P h) {I : NestedIdx}
    {m : Measure} (inv : NInv I P m) (y : Nat) (hy : y < P.n) :
    I.rollup .sum y = .int (bruteSum P m y) := by
  obtain ⟨L, R, hLR, htin, htout⟩ := block_labels F y hy
  obtain ⟨tl, htl⟩ := pre_head P y hy
  have hol := order_length F
  have hlen : L.length + (pre P P.n y).length ≤ (order P).length := by
    rw [hLR]; simp [List.length_append]
  have hpos : 0 < (pre P P.n y).length := by rw [htl]; simp
  simp only [NestedIdx.rollup, inv.hlab, RV.int.injEq]
  rw [C28_aux_range inv.hfen _ _ (by omega) (by omega)]
  have e1 : (buildNested P).toutOf y + 1 = L.length + (pre P P.n y).length := htout
  rw [e1, htin]
  have : psumF (rankVal P m) (L.length + (pre P P.n y).length) - psumF (rankVal P m) L.length
      = ((((order P).drop L.length).take (pre P P.n y).length).map (fun v => (mval m v).getD 0)).sum :=
    psumF_slice (order P) (fun v => (mval m v).getD 0) (pre P P.n y).length L.length hlen
  rw [this, hLR, List.append_assoc, List.drop_left, List.take_left]
  exact perm_map_sum _ (pre_perm_specDesc F y hy)

theorem rollup_count_forest {P : Poset} {h : Nat → Nat} (F : IsForest P h) {I : NestedIdx}
    {m : Measure} (inv : NInv I P m) (y : Nat) (hy : y < P.n) :
    I.rollup .count y = specRollup P m .count y := by
  obtain ⟨L, R, hLR, htin, htout⟩ := block_labels F y hy
  simp only [NestedIdx.rollup, inv.hlab, specRollup, Nested.count]
  have hl := (pre_perm_specDesc F y hy).length_eq
  have : (buildNested P).toutOf y - (buildNested P).tinOf y + 1 = (specDesc P y).length := by
    obtain ⟨tl, htl⟩ := pre_head P y hy
    have hpos : 0 < (pre P P.n y).length := by rw [htl]; simp
    omega
  rw [this]

end SgModel.Oeh
