import SgModel.Model.Algo
/-!
Helper lemmas for C26: reachability closure (soundness, completeness, fuel), components,
walks and potentials.  Core Lean only.
-/
namespace SgModel.Algo

/-! ### Reach -/

theorem Reach.trans {P : Pairs} {a b c : Nat} (h1 : Reach P a b) (h2 : Reach P b c) : Reach P a c := by
  induction h2 with
  | refl => exact h1
  | step _ he ih => exact Reach.step ih he

theorem Reach.head {P : Pairs} {a b c : Nat} (he : (a, b) ∈ P) (h : Reach P b c) : Reach P a c :=
  Reach.trans (Reach.step (Reach.refl a) he) h

/-- reversing every pair reverses reachability -/
theorem Reach.flip {P Q : Pairs} (hq : ∀ a b, (a, b) ∈ Q → (b, a) ∈ P) {s v : Nat}
    (h : Reach Q s v) : Reach P v s := by
  induction h with
  | refl => exact Reach.refl _
  | step _ he ih => exact Reach.head (hq _ _ he) ih

theorem Reach.mono {P Q : Pairs} (hq : ∀ e, e ∈ P → e ∈ Q) {s v : Nat} (h : Reach P s v) : Reach Q s v := by
  induction h with
  | refl => exact Reach.refl _
  | step _ he ih => exact Reach.step ih (hq _ he)

theorem mem_rev {P : Pairs} {a b : Nat} : (a, b) ∈ rev P ↔ (b, a) ∈ P := by
  simp only [rev, List.mem_map]
  constructor
  · rintro ⟨⟨x, y⟩, h, heq⟩
    simp only [Prod.mk.injEq] at heq
    obtain ⟨rfl, rfl⟩ := heq; exact h
  · intro h; exact ⟨(b, a), h, rfl⟩

theorem mem_sym {P : Pairs} {a b : Nat} : (a, b) ∈ sym P ↔ (a, b) ∈ P ∨ (b, a) ∈ P := by
  simp only [sym, List.mem_append, mem_rev]

theorem reach_rev_iff {P : Pairs} {s v : Nat} : Reach (rev P) s v ↔ Reach P v s :=
  ⟨Reach.flip (fun _ _ h => mem_rev.mp h), Reach.flip (fun _ _ h => mem_rev.mpr h)⟩

/-- weak reachability is symmetric -/
theorem reach_sym_symm {P : Pairs} {a b : Nat} (h : Reach (sym P) a b) : Reach (sym P) b a :=
  Reach.flip (fun x y hxy => mem_sym.mpr ((mem_sym.mp hxy).symm)) h

/-! ### closure: soundness -/

theorem mem_expand {P : Pairs} {S : List Nat} {v : Nat} :
    v ∈ expand P S ↔ v ∈ S ∨ ∃ u, (u, v) ∈ P ∧ u ∈ S ∧ v ∉ S := by
  simp only [expand, List.mem_append, List.mem_map, List.mem_filter, Bool.and_eq_true,
    decide_eq_true_eq, Bool.not_eq_eq_eq_not, Bool.not_true, decide_eq_false_iff_not]
  constructor
  · rintro (h | ⟨⟨a, b⟩, ⟨hm, h1, h2⟩, rfl⟩)
    · exact Or.inl h
    · exact Or.inr ⟨a, hm, h1, h2⟩
  · rintro (h | ⟨u, hm, h1, h2⟩)
    · exact Or.inl h
    · exact Or.inr ⟨(u, v), ⟨hm, h1, h2⟩, rfl⟩

theorem closure_sound {P : Pairs} {s : Nat} : ∀ (f : Nat) (S : List Nat),
    (∀ v ∈ S, Reach P s v) → ∀ v ∈ closure P f S, Reach P s v := by
  intro f
  induction f with
  | zero => intro S h v hv; exact h v hv
  | succ f ih =>
    intro S h v hv
    rw [closure] at hv
    split at hv
    · exact h v hv
    · refine ih (expand P S) ?_ v hv
      intro x hx
      rcases mem_expand.mp hx with hx | ⟨u, hm, hu, _⟩
      · exact h x hx
      · exact Reach.step (h u hu) hm

theorem subset_closure {P : Pairs} : ∀ (f : Nat) (S : List Nat), ∀ v ∈ S, v ∈ closure P f S := by
  intro f
  induction f with
  | zero => intro S v hv; exact hv
  | succ f ih =>
    intro S v hv
    rw [closure]
    split
    · exact hv
    · exact ih _ v (mem_expand.mpr (Or.inl hv))

/-! ### closure: it ends closed -/

theorem closedB_iff {P : Pairs} {S : List Nat} :
    closedB P S = true ↔ ∀ u v, (u, v) ∈ P → u ∈ S → v ∈ S := by
  simp only [closedB, List.all_eq_true, Bool.or_eq_true, Bool.not_eq_eq_eq_not, Bool.not_true,
    decide_eq_false_iff_not, decide_eq_true_eq]
  constructor
  · intro h u v hm hu
    rcases h (u, v) hm with h | h
    · exact absurd hu h
    · exact h
  · intro h e he
    by_cases hu : e.1 ∈ S
    · exact Or.inr (h e.1 e.2 he hu)
    · exact Or.inl hu

theorem countP_lt_of_witness {α : Type} (p q : α → Bool) (l : List α)
    (himp : ∀ x ∈ l, q x = true → p x = true) (w : α) (hw : w ∈ l) (hpw : p w = true) (hqw : q w = false) :
    l.countP q < l.countP p := by
  induction l with
  | nil => cases hw
  | cons a t ih =>
    have hmono : t.countP q ≤ t.countP p :=
      List.countP_mono_left (fun x hx hq => himp x (List.mem_cons_of_mem _ hx) hq)
    rcases List.mem_cons.mp hw with rfl | hw'
    · simp only [List.countP_cons, hpw, hqw]; simp; omega
    · have ih' := ih (fun x hx => himp x (List.mem_cons_of_mem _ hx)) hw'
      simp only [List.countP_cons]
      have := himp a (List.mem_cons_self ..)
      cases hq : q a <;> cases hp : p a <;> simp_all <;> omega

/-- pairs whose target is still outside `S` -/
def openCount (P : Pairs) (S : List Nat) : Nat := P.countP (fun e => !decide (e.2 ∈ S))

theorem openCount_expand_lt {P : Pairs} {S : List Nat} (h : closedB P S = false) :
    openCount P (expand P S) < openCount P S := by
  have : ¬ (∀ u v, (u, v) ∈ P → u ∈ S → v ∈ S) := by
    intro hc; rw [closedB_iff.mpr hc] at h; cases h
  have ⟨u, v, hm, hu, hv⟩ : ∃ u v, (u, v) ∈ P ∧ u ∈ S ∧ v ∉ S := by
    apply Classical.byContradiction
    intro hne
    apply this
    intro u v hm hu
    apply Classical.byContradiction
    intro hv
    exact hne ⟨u, v, hm, hu, hv⟩
  unfold openCount
  apply countP_lt_of_witness _ _ P _ (u, v) hm
  · simp [hv]
  · simp only [Bool.not_eq_eq_eq_not, Bool.not_false, decide_eq_true_eq]
    exact mem_expand.mpr (Or.inr ⟨u, hm, hu, hv⟩)
  · intro x _ hq
    simp only [Bool.not_eq_eq_eq_not, Bool.not_true, decide_eq_false_iff_not] at hq ⊢
    intro hx; exact hq (mem_expand.mpr (Or.inl hx))

theorem closure_closed_of_fuel {P : Pairs} : ∀ (f : Nat) (S : List Nat),
    openCount P S < f → closedB P (closure P f S) = true := by
  intro f
  induction f with
  | zero => intro S h; omega
  | succ f ih =>
    intro S h
    rw [closure]
    split
    · assumption
    · rename_i hc
      have hc' : closedB P S = false := by cases hh : closedB P S <;> simp_all
      have := openCount_expand_lt hc'
      exact ih _ (by omega)

theorem reachSet_closed (P : Pairs) (s : Nat) : closedB P (reachSet P s) = true := by
  apply closure_closed_of_fuel
  have : openCount P [s] ≤ P.length := List.countP_le_length
  omega

theorem closed_complete {P : Pairs} {S : List Nat} {s : Nat} (hc : closedB P S = true) (hs : s ∈ S)
    {v : Nat} (h : Reach P s v) : v ∈ S := by
  induction h with
  | refl => exact hs
  | step _ he ih => exact closedB_iff.mp hc _ _ he ih

/-- the closure computes exactly the reachable set -/
theorem mem_reachSet_iff {P : Pairs} {s v : Nat} : v ∈ reachSet P s ↔ Reach P s v := by
  constructor
  · intro h
    refine closure_sound _ [s] ?_ v h
    intro x hx
    rw [List.mem_singleton.mp hx]; exact Reach.refl _
  · intro h
    exact closed_complete (reachSet_closed P s) (subset_closure _ _ s (List.mem_singleton.mpr rfl)) h

/-! ### components -/

theorem mem_canon {n : Nat} {S : List Nat} {v : Nat} : v ∈ canon n S ↔ v < n ∧ v ∈ S := by
  simp [canon, List.mem_filter, List.mem_range]

theorem mem_compW_iff {P : Pairs} {n s v : Nat} : v ∈ compW P n s ↔ v < n ∧ Reach (sym P) s v := by
  rw [compW, mem_canon, mem_reachSet_iff]

theorem mem_compS_iff {P : Pairs} {n s v : Nat} :
    v ∈ compS P n s ↔ v < n ∧ Reach P s v ∧ Reach P v s := by
  rw [compS, mem_canon, List.mem_filter, decide_eq_true_eq, mem_reachSet_iff, mem_reachSet_iff,
    reach_rev_iff]

/-- two increasing sublists of `range n` with the same members are equal -/
theorem canon_ext {n : Nat} {S T : List Nat} (h : ∀ v, v < n → (v ∈ S ↔ v ∈ T)) : canon n S = canon n T := by
  unfold canon
  apply List.filter_congr
  intro x hx
  have := h x (List.mem_range.mp hx)
  by_cases hs : x ∈ S <;> simp_all

theorem partitionBy_aux (comp : Nat → List Nat) (nodes : List Nat) (acc : List (List Nat)) :
    let r := nodes.foldl (fun acc s => if acc.any (fun C => decide (s ∈ C)) then acc else acc ++ [comp s]) acc
    (∀ C ∈ r, C ∈ acc ∨ ∃ s ∈ nodes, C = comp s)
    ∧ (∀ C ∈ acc, C ∈ r)
    ∧ ((∀ s, s ∈ comp s) → ∀ s ∈ nodes, ∃ C ∈ r, s ∈ C) := by
  induction nodes generalizing acc with
  | nil => simp
  | cons a t ih =>
    simp only [List.foldl_cons]
    split
    · rename_i hany
      have ⟨h1, h2, h3⟩ := ih acc
      refine ⟨?_, h2, ?_⟩
      · intro C hC
        rcases h1 C hC with h | ⟨s, hs, rfl⟩
        · exact Or.inl h
        · exact Or.inr ⟨s, List.mem_cons_of_mem _ hs, rfl⟩
      · intro hself s hs
        rcases List.mem_cons.mp hs with rfl | hs
        · simp only [List.any_eq_true, decide_eq_true_eq] at hany
          obtain ⟨C, hC, hsC⟩ := hany
          exact ⟨C, h2 C hC, hsC⟩
        · exact h3 hself s hs
    · have ⟨h1, h2, h3⟩ := ih (acc ++ [comp a])
      refine ⟨?_, ?_, ?_⟩
      · intro C hC
        rcases h1 C hC with h | ⟨s, hs, rfl⟩
        · rcases List.mem_append.mp h with h | h
          · exact Or.inl h
          · exact Or.inr ⟨a, List.mem_cons_self .., List.mem_singleton.mp h⟩
        · exact Or.inr ⟨s, List.mem_cons_of_mem _ hs, rfl⟩
      · intro C hC; exact h2 C (List.mem_append.mpr (Or.inl hC))
      · intro hself s hs
        rcases List.mem_cons.mp hs with rfl | hs
        · exact ⟨comp s, h2 _ (List.mem_append.mpr (Or.inr (List.mem_singleton.mpr rfl))), hself s⟩
        · exact h3 hself s hs

theorem mem_partitionBy {comp : Nat → List Nat} {nodes : List Nat} {C : List Nat}
    (h : C ∈ partitionBy comp nodes) : ∃ s ∈ nodes, C = comp s := by
  have := (partitionBy_aux comp nodes []).1 C h
  simpa using this

theorem partitionBy_covers {comp : Nat → List Nat} {nodes : List Nat} (hself : ∀ s, s ∈ nodes → s ∈ comp s)
    {s : Nat} (hs : s ∈ nodes) : ∃ C ∈ partitionBy comp nodes, s ∈ C := by
  -- replace `comp` outside `nodes` is irrelevant: re-run the invariant with the weaker hypothesis
  have key : ∀ (nodes' : List Nat) (acc : List (List Nat)), (∀ x ∈ nodes', x ∈ comp x) →
      ∀ x ∈ nodes', ∃ C ∈ nodes'.foldl (fun acc s => if acc.any (fun C => decide (s ∈ C)) then acc else acc ++ [comp s]) acc, x ∈ C := by
    intro nodes'
    induction nodes' with
    | nil => intro acc _ x hx; cases hx
    | cons a t ih =>
      intro acc hself' x hx
      have hkeep := fun acc' => (partitionBy_aux comp t acc').2.1
      simp only [List.foldl_cons]
      rcases List.mem_cons.mp hx with rfl | hx
      · split
        · rename_i hany
          simp only [List.any_eq_true, decide_eq_true_eq] at hany
          obtain ⟨C, hC, hxC⟩ := hany
          exact ⟨C, hkeep acc C hC, hxC⟩
        · exact ⟨comp x, hkeep _ _ (List.mem_append.mpr (Or.inr (List.mem_singleton.mpr rfl))),
            hself' x (List.mem_cons_self ..)⟩
      · exact ih _ (fun y hy => hself' y (List.mem_cons_of_mem _ hy)) x hx
  exact key nodes [] hself s hs

end SgModel.Algo
