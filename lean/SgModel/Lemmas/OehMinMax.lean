import SgModel.Lemmas.OehSegSet
import SgModel.Lemmas.OehRollup
/-! MIN / MAX roll-ups of the nested-set index (segment trees) after arbitrary updates. -/
namespace SgModel.Oeh

theorem seginv_congr {s : Seg} {leaf leaf' : Nat → RV} (I : SegInv s leaf)
    (h : ∀ j, j < s.size → leaf j = leaf' j) : SegInv s leaf' :=
  ⟨I.len, I.pos, I.nle, I.hrec, fun j hj => by rw [I.leaves j hj, h j hj]⟩

/-- right fold of the values `k z` over a list of nodes -/
def frv (f : RV → RV → RV) (k : Nat → RV) (l : List Nat) : RV := (l.map k).foldr f .null

theorem frv_perm {f : RV → RV → RV} (M : CMon f) (k : Nat → RV) {l1 l2 : List Nat}
    (p : l1.Perm l2) : frv f k l1 = frv f k l2 := by
  unfold frv
  induction p with
  | nil => rfl
  | cons x _ ih => simp only [List.map_cons, List.foldr_cons, ih]
  | swap x y l =>
    simp only [List.map_cons, List.foldr_cons]
    rw [← M.assoc, ← M.assoc, M.comm (k y)]
  | trans _ _ ih1 ih2 => rw [ih1, ih2]

theorem foldMeasure_eq_frv (op : Op) (M : CMon op.combine) (hid : op.identity = .null)
    (m : Measure) (nodes : List Nat) :
    foldMeasure op m nodes = frv op.combine (fun z => optRV (mval m z)) nodes := by
  unfold foldMeasure frv
  rw [hid]
  have key : ∀ (l : List Nat) (acc : RV),
      l.foldl (fun acc z => match mval m z with
        | some v => op.combine acc (.int v)
        | none => acc) acc
      = op.combine acc ((l.map (fun z => optRV (mval m z))).foldr op.combine .null) := by
    intro l
    induction l with
    | nil => intro acc; simp [M.idr]
    | cons z l ih =>
      intro acc
      simp only [List.foldl_cons, List.map_cons, List.foldr_cons]
      rw [ih, ← M.assoc]
      congr 1
      cases mval m z with
      | none => simp [optRV, M.idr]
      | some v => simp [optRV]
  have := key nodes .null
  rw [M.idl] at this
  exact this

theorem segS_eq_frv (f : RV → RV → RV) (k : Nat → RV) (l : List Nat) : ∀ (c a : Nat),
    a + c ≤ l.length →
    segS f (fun r => k (l.getD r 0)) a c = frv f k ((l.drop a).take c) := by
  intro c
  induction c with
  | zero => intro a _; simp [segS, frv]
  | succ c ih =>
    intro a h
    have hlt : a < l.length := by omega
    rw [segS, ih (a + 1) (by omega)]
    have e : (l.drop a).take (c + 1) = l[a] :: (l.drop (a + 1)).take c := by
      rw [List.drop_eq_getElem_cons hlt, List.take_succ_cons]
    have e2 : l.getD a 0 = l[a] := by
      simp [List.getD_eq_getElem?_getD, List.getElem?_eq_getElem hlt]
    rw [e, e2]; rfl

/-- leaf value at rank `r` -/
def leafOf (P : Poset) (m : Measure) : Nat → RV :=
  fun r => if r < P.n then optRV (mval m ((order P).getD r 0)) else .null

structure NInvMM (I : NestedIdx) (P : Poset) (m : Measure) : Prop where
  base : NInv I P m
  smin : SegInv I.segMin (leafOf P m)
  smax : SegInv I.segMax (leafOf P m)
  opmin : I.segMin.op = .min
  opmax : I.segMax.op = .max
  nmin : I.segMin.n = P.n
  nmax : I.segMax.n = P.n

theorem byRank_vals (P : Poset) (m : Measure) (j : Nat) :
    ((byRank P (buildNested P) m).map optRV).getD j .null = leafOf P m j := by
  unfold leafOf byRank
  by_cases hj : j < P.n
  · simp [hj, buildNested, List.getD_eq_getElem?_getD, List.getElem?_map, List.getElem?_range]
  · simp [hj, List.getD_eq_getElem?_getD, List.getElem?_map, List.getElem?_range]

theorem ninvmm_build {P : Poset} {h : Nat → Nat} (F : IsForest P h) (m : Measure)
    (hm : m.length = P.n) : NInvMM (NestedIdx.build P m) P m := by
  have b1 := seg_build_inv ((byRank P (buildNested P) m).map optRV) .min rfl
  have b2 := seg_build_inv ((byRank P (buildNested P) m).map optRV) .max rfl
  have hl : ((byRank P (buildNested P) m).map optRV).length = P.n := by simp [byRank]
  exact ⟨ninv_build F m hm,
    seginv_congr b1.1 (fun j _ => byRank_vals P m j),
    seginv_congr b2.1 (fun j _ => byRank_vals P m j),
    b1.2.1, b2.2.1, by rw [← hl]; exact b1.2.2, by rw [← hl]; exact b2.2.2⟩

/-- how the leaf vector changes under a measure write -/
theorem leafOf_update {P : Poset} {h : Nat → Nat} (F : IsForest P h) (m : Measure)
    (hm : m.length = P.n) (u : Nat × Option Int) (hu : u.1 < P.n) (j : Nat) :
    leafOf P (m.set u.1 u.2) j
      = if j = (buildNested P).tinOf u.1 then optRV u.2 else leafOf P m j := by
  rw [tinOf_eq P u.1 hu]
  unfold leafOf
  by_cases hj : j < P.n
  · simp only [hj, if_true]
    have hol := order_length F
    have hget : (order P)[j]? = some ((order P).getD j 0) := by
      rw [List.getD_eq_getElem?_getD, List.getElem?_eq_getElem (by omega)]; rfl
    have hml : u.1 < m.length := by rw [hm]; exact hu
    by_cases hi2 : j = (order P).idxOf u.1
    · have hnode : (order P).getD j 0 = u.1 := by
        have hmem : u.1 ∈ order P := (order_perm_range F).mem_iff.mpr (List.mem_range.mpr hu)
        rw [List.getD_eq_getElem?_getD, hi2,
          List.getElem?_eq_getElem (List.idxOf_lt_length_of_mem hmem), List.getElem_idxOf]; rfl
      rw [hnode, mval_set m u.1 u.1 u.2 hml]; simp [hi2]
    · have hnode : (order P).getD j 0 ≠ u.1 := by
        intro he
        rw [he] at hget
        exact hi2 (idxOf_of_getElem? (nodup_order F) hget).symm
      rw [mval_set m u.1 _ u.2 hml, if_neg hnode, if_neg hi2]
  · have hne : j ≠ (order P).idxOf u.1 := by
      have hmem : u.1 ∈ order P := (order_perm_range F).mem_iff.mpr (List.mem_range.mpr hu)
      have := List.idxOf_lt_length_of_mem hmem
      rw [order_length F] at this; omega
    simp [hj, hne]

theorem ninvmm_update {P : Poset} {h : Nat → Nat} (F : IsForest P h) {I : NestedIdx} {m : Measure}
    (inv : NInvMM I P m) (u : Nat × Option Int) : NInvMM (I.update u) P (updMeasure m u) := by
  have hb := ninv_update F inv.base u
  by_cases hu : P.n ≤ u.1
  · have e : I.update u = I := by
      unfold NestedIdx.update
      have : I.P.n ≤ u.1 := by rw [inv.base.hP]; exact hu
      simp [this]
    have hset : updMeasure m u = m := by
      unfold updMeasure
      apply List.set_eq_of_length_le; rw [inv.base.hlen]; exact hu
    rw [e, hset]; exact inv
  · have hu' : u.1 < P.n := by omega
    have hrank : (buildNested P).tinOf u.1 < P.n := by
      rw [tinOf_eq P u.1 hu']
      have hmem : u.1 ∈ order P := (order_perm_range F).mem_iff.mpr (List.mem_range.mpr hu')
      have := List.idxOf_lt_length_of_mem hmem
      rw [order_length F] at this; exact this
    have c : ¬ I.P.n ≤ u.1 := by rw [inv.base.hP]; exact hu
    have e1 : (I.update u).segMin = I.segMin.set ((buildNested P).tinOf u.1) (optRV u.2) := by
      unfold NestedIdx.update; simp [c, inv.base.hlab]
    have e2 : (I.update u).segMax = I.segMax.set ((buildNested P).tinOf u.1) (optRV u.2) := by
      unfold NestedIdx.update; simp [c, inv.base.hlab]
    have s1 := seg_set_inv inv.smin ((buildNested P).tinOf u.1) (optRV u.2)
      (by rw [inv.nmin]; exact hrank)
    have s2 := seg_set_inv inv.smax ((buildNested P).tinOf u.1) (optRV u.2)
      (by rw [inv.nmax]; exact hrank)
    have hleaf : ∀ j, (if j = (buildNested P).tinOf u.1 then optRV u.2 else leafOf P m j)
        = leafOf P (updMeasure m u) j :=
      fun j => (leafOf_update F m inv.base.hlen u hu' j).symm
    refine ⟨hb, ?_, ?_, ?_, ?_, ?_, ?_⟩
    · rw [e1]; exact seginv_congr s1.1 (fun j _ => hleaf j)
    · rw [e2]; exact seginv_congr s2.1 (fun j _ => hleaf j)
    · rw [e1, s1.2.1]; exact inv.opmin
    · rw [e2, s2.2.1]; exact inv.opmax
    · rw [e1, s1.2.2]; exact inv.nmin
    · rw [e2, s2.2.2]; exact inv.nmax

theorem ninvmm_foldl {P : Poset} {h : Nat → Nat} (F : IsForest P h) :
    ∀ (us : List (Nat × Option Int)) (I : NestedIdx) (m : Measure), NInvMM I P m →
      NInvMM (us.foldl NestedIdx.update I) P (us.foldl updMeasure m) := by
  intro us
  induction us with
  | nil => intro I m h; exact h
  | cons u us ih => intro I m h; exact ih _ _ (ninvmm_update F h u)

/-- the range fold of a segment tree over `y`'s rank interval is the spec's fold over the set
of descendants -/
theorem seg_rollup_eq {P : Poset} {h : Nat → Nat} (F : IsForest P h) (m : Measure) (op : Op)
    (M : CMon op.combine) (hid : op.identity = .null) (hop : op ≠ .count) (s : Seg)
    (I : SegInv s (leafOf P m)) (hsop : s.op = op) (hsn : s.n = P.n) (y : Nat) (hy : y < P.n) :
    s.range ((buildNested P).tinOf y) ((buildNested P).toutOf y) = specRollup P m op y := by
  obtain ⟨L, R, hLR, htin, htout⟩ := block_labels F y hy
  obtain ⟨tl, htl⟩ := pre_head P y hy
  have hol := order_length F
  have hpos : 0 < (pre P P.n y).length := by rw [htl]; simp
  have hlen : L.length + (pre P P.n y).length ≤ (order P).length := by
    rw [hLR]; simp [List.length_append]
  have M' : CMon s.op.combine := by rw [hsop]; exact M
  rw [seg_range_eq M' I (by rw [hsop]; exact hid) _ _ (by omega) (by rw [hsn]; omega), hsop]
  have hc : (buildNested P).toutOf y - (buildNested P).tinOf y + 1 = (pre P P.n y).length := by omega
  rw [hc, htin]
  have hcongr : segS op.combine (leafOf P m) L.length (pre P P.n y).length
      = segS op.combine (fun r => (fun z => optRV (mval m z)) ((order P).getD r 0)) L.length
          (pre P P.n y).length := by
    apply segS_congr
    intro i h1 h2
    have : i < P.n := by omega
    simp [leafOf, this]
  rw [hcongr, segS_eq_frv op.combine (fun z => optRV (mval m z)) (order P) (pre P P.n y).length
    L.length hlen, hLR, List.append_assoc, List.drop_left, List.take_left]
  rw [frv_perm M _ (pre_perm_specDesc F y hy), ← foldMeasure_eq_frv op M hid]
  cases op <;> simp_all [specRollup]

theorem rollup_minmax_of_inv {P : Poset} {h : Nat → Nat} (F : IsForest P h) {I : NestedIdx}
    {m : Measure} (inv : NInvMM I P m) (y : Nat) (hy : y < P.n) :
    I.rollup .min y = specRollup P m .min y ∧ I.rollup .max y = specRollup P m .max y := by
  constructor
  · simp only [NestedIdx.rollup, inv.base.hlab]
    exact seg_rollup_eq F m .min cmon_min rfl (by decide) _ inv.smin inv.opmin inv.nmin y hy
  · simp only [NestedIdx.rollup, inv.base.hlab]
    exact seg_rollup_eq F m .max cmon_max rfl (by decide) _ inv.smax inv.opmax inv.nmax y hy

end SgModel.Oeh
