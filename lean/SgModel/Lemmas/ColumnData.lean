import SgModel.Lemmas.Column
/-! `ColumnData<T>`: well-formedness, get-after-set, get-after-remove, the kept count — for an
arbitrary representation policy (C30; core Lean only). -/
namespace SgModel.Column

variable {α : Type}

theorem count_set_true {ps : List Bool} {s : Nat} (hs : s < ps.length) :
    (ps.set s true).count true = if ps[s] = true then ps.count true else ps.count true + 1 := by
  rw [List.count_set hs]
  cases h : ps[s]
  · simp
  · have : 0 < ps.count true := List.count_pos_iff.mpr (h ▸ List.getElem_mem hs)
    simp; omega

theorem count_set_false {ps : List Bool} {s : Nat} (hs : s < ps.length) :
    (ps.set s false).count true = if ps[s] = true then ps.count true - 1 else ps.count true := by
  rw [List.count_set hs]
  cases h : ps[s] <;> simp

theorem getD_eq_getElem {ps : List Bool} {s : Nat} (hs : s < ps.length) :
    ps.getD s false = ps[s] := by
  rw [List.getD_eq_getElem?_getD, List.getElem?_eq_getElem hs]; rfl

/-- the invariant of one `ColumnData` -/
def ColData.WF : ColData α → Prop
  | .sparse m => KeysNodup m
  | .dense _ vs ps c => vs.length = ps.length ∧ c = ps.count true

/-! #### promotion is invisible -/

theorem promote_get (P : Policy) (e : Nat) (d : α) {m : List (Nat × α)} (hn : KeysNodup m)
    (j : Nat) : (promote P e d m).get j = alGet m j := by
  unfold promote
  split
  · split
    · rename_i mn mx hmn hmx
      dsimp only
      split
      · simp only [ColData.get]
        have hr : ∀ k ∈ m.map (·.1), mn ≤ k ∧
            k - mn < (List.replicate (mx - mn + 1) d, List.replicate (mx - mn + 1) false).1.length := by
          intro k hk
          have h1 := minKey_le hmn k hk
          have h2 := le_maxKey hmx k hk
          simp only [List.length_replicate]
          omega
        by_cases hj : mn ≤ j
        · simp only [hj, if_true]
          rw [scatter_get hn _ (by simp) hr (j - mn)]
          have : mn + (j - mn) = j := by omega
          rw [this]
          cases alGet m j with
          | some v => rfl
          | none =>
            simp only
            apply slotGet_of_not_present
            rw [List.getD_eq_getElem?_getD, List.getElem?_replicate]
            split <;> rfl
        · simp only [hj, if_false]
          symm
          apply alGet_eq_none_of_not_mem
          intro hm
          exact hj (minKey_le hmn j hm)
      · rfl
    · rfl
  · rfl

theorem promote_len (P : Policy) (e : Nat) (d : α) (m : List (Nat × α)) :
    (promote P e d m).len = m.length := by
  unfold promote
  split
  · split
    · dsimp only
      split <;> rfl
    · rfl
  · rfl

theorem promote_wf (P : Policy) (e : Nat) (d : α) {m : List (Nat × α)} (hn : KeysNodup m) :
    (promote P e d m).WF := by
  unfold promote
  split
  · split
    · rename_i mn mx hmn hmx
      dsimp only
      split
      · simp only [ColData.WF]
        have hlen := scatter_length mn m (List.replicate (mx - mn + 1) d, List.replicate (mx - mn + 1) false)
        refine ⟨by rw [hlen.1, hlen.2]; simp, ?_⟩
        rw [scatter_count hn]
        · simp [List.count_replicate]
        · intro k hk
          have h1 := minKey_le hmn k hk
          have h2 := le_maxKey hmx k hk
          simp only [List.length_replicate, List.getElem?_replicate]
          refine ⟨h1, by omega, ?_⟩
          have : k - mn < mx - mn + 1 := by omega
          simp [this]
      · exact hn
    · exact hn
  · exact hn

/-! #### set -/

theorem ColData.get_set (P : Policy) (e : Nat) (d : α) {c : ColData α} (h : c.WF)
    (i : Nat) (v : α) (j : Nat) :
    (c.set P e d i v).get j = if j = i then some v else c.get j := by
  cases c with
  | sparse m =>
    simp only [ColData.set]
    rw [promote_get P e d (keysNodup_alSet h i v), alGet_alSet]
    rfl
  | dense base vs ps cnt =>
    obtain ⟨hl, _⟩ := h
    simp only [ColData.set]
    split
    · -- inside the band
      rename_i hin
      simp only [Bool.and_eq_true, decide_eq_true_eq] at hin
      simp only [ColData.get]
      by_cases hji : j = i
      · subst hji
        simp only [hin.1, if_true]
        exact slotGet_set_same v hin.2 hl
      · simp only [hji, if_false]
        by_cases hbj : base ≤ j
        · simp only [hbj, if_true]
          exact slotGet_set_other v true (by omega)
        · simp [hbj]
    · rename_i hnin
      simp only [Bool.and_eq_true, decide_eq_true_eq, not_and] at hnin
      split
      · rename_i hbi
        have hout : vs.length ≤ i - base := by have := hnin hbi; omega
        split
        · -- extend upward
          simp only [ColData.get]
          by_cases hji : j = i
          · subst hji
            simp only [hbi, if_true]
            apply slotGet_set_same
            · rw [length_growTo _ _ _ (by omega)]; omega
            · rw [length_growTo _ _ _ (by omega), length_growTo _ _ _ (by omega)]
          · simp only [hji, if_false]
            by_cases hbj : base ≤ j
            · simp only [hbj, if_true]
              rw [slotGet_set_other v true (by omega), slotGet_growTo d _ _ hl]
            · simp [hbj]
        · -- demote
          simp only [ColData.get]
          rw [alGet_alSet, alGet_denseEntries]
      · rename_i hbi
        split
        · -- rebase
          simp only [ColData.get]
          have hk : 0 < base - i := by omega
          by_cases hji : j = i
          · subst hji
            simp only [Nat.le_refl, if_true, Nat.sub_self]
            apply slotGet_set_same
            · simp; omega
            · simp [maskValues, hl]
          · simp only [hji, if_false]
            by_cases hij : i ≤ j
            · simp only [hij, if_true]
              rw [slotGet_set_other v true (by omega), slotGet_rebase d _ _ hl]
              by_cases hjb : j < base
              · have h1 : j - i < base - i := by omega
                have h2 : ¬ base ≤ j := by omega
                simp [h1, h2]
              · have h1 : ¬ j - i < base - i := by omega
                have h2 : base ≤ j := by omega
                have h3 : j - i - (base - i) = j - base := by omega
                simp [h1, h2, h3]
            · have h2 : ¬ base ≤ j := by omega
              simp [hij, h2]
        · -- demote
          simp only [ColData.get]
          rw [alGet_alSet, alGet_denseEntries]

theorem ColData.get_isSome_dense {base : Nat} {vs : List α} {ps : List Bool} {cnt i : Nat}
    (hl : vs.length = ps.length) (hb : base ≤ i) (hs : i - base < vs.length) :
    ((ColData.dense base vs ps cnt).get i).isSome = ps[i - base]'(by omega) := by
  simp only [ColData.get, hb, if_true, slotGet]
  have hps : i - base < ps.length := by omega
  rw [getD_eq_getElem hps]
  simp only [hs, decide_true, Bool.true_and]
  cases ps[i - base]
  · simp
  · simp [List.getElem?_eq_getElem hs]

theorem ColData.wf_set (P : Policy) (e : Nat) (d : α) {c : ColData α} (h : c.WF)
    (i : Nat) (v : α) : (c.set P e d i v).WF := by
  cases c with
  | sparse m => exact promote_wf P e d (keysNodup_alSet h i v)
  | dense base vs ps cnt =>
    obtain ⟨hl, hc⟩ := h
    simp only [ColData.set]
    split
    · rename_i hin
      simp only [Bool.and_eq_true, decide_eq_true_eq] at hin
      have hps : i - base < ps.length := by omega
      refine ⟨by simp [hl], ?_⟩
      rw [count_set_true hps, getD_eq_getElem hps, hc]
    · rename_i hnin
      simp only [Bool.and_eq_true, decide_eq_true_eq, not_and] at hnin
      split
      · rename_i hbi
        have hout : vs.length ≤ i - base := by have := hnin hbi; omega
        split
        · refine ⟨by simp [length_growTo _ _ _ (show vs.length ≤ i - base + 1 by omega),
              length_growTo _ _ _ (show ps.length ≤ i - base + 1 by omega)], ?_⟩
          have hlen : (growTo false ps (i - base + 1)).length = i - base + 1 :=
            length_growTo _ _ _ (by omega)
          rw [count_set_true (by omega)]
          have hget : (growTo false ps (i - base + 1))[i - base]'(by omega) = false := by
            have : (growTo false ps (i - base + 1))[i - base]? = some false := by
              unfold growTo
              rw [List.getElem?_append_right (by omega), List.getElem?_replicate]
              have : i - base - ps.length < i - base + 1 - ps.length := by omega
              simp [this]
            rw [List.getElem?_eq_getElem (by omega)] at this
            exact Option.some.inj this
          simp only [hget, Bool.false_eq_true, if_false]
          unfold growTo
          rw [List.count_append, List.count_replicate, hc]
          simp
        · exact keysNodup_alSet (keysNodup_denseEntries base vs ps) i v
      · rename_i hbi
        split
        · have hk : 0 < base - i := by omega
          refine ⟨by simp [maskValues, hl], ?_⟩
          rw [count_set_true (by simp; omega)]
          have hget : (List.replicate (base - i) false ++ ps)[0]'(by simp; omega) = false := by
            rw [List.getElem_append_left (by simpa using hk)]
            simp
          simp only [hget, Bool.false_eq_true, if_false]
          rw [List.count_append, List.count_replicate, hc]
          simp
        · exact keysNodup_alSet (keysNodup_denseEntries base vs ps) i v

theorem ColData.len_set (P : Policy) (e : Nat) (d : α) {c : ColData α} (h : c.WF)
    (i : Nat) (v : α) :
    (c.set P e d i v).len = if (c.get i).isSome then c.len else c.len + 1 := by
  cases c with
  | sparse m =>
    have hget : (ColData.sparse m).get i = alGet m i := rfl
    rw [hget]
    show (promote P e d (alSet m i v)).len = if (alGet m i).isSome then m.length else m.length + 1
    rw [promote_len]
    simp only [alSet, List.length_cons]
    by_cases hk : i ∈ m.map (·.1)
    · rw [alGet_isSome_iff.mpr hk]
      have := length_alErase_of_mem h hk
      simp; omega
    · have : (alGet m i).isSome = false := by
        cases hh : (alGet m i).isSome
        · rfl
        · exact absurd (alGet_isSome_iff.mp hh) hk
      rw [this, length_alErase_of_not_mem hk]
      simp
  | dense base vs ps cnt =>
    obtain ⟨hl, hc⟩ := h
    have hdemote : (alSet (denseEntries base vs ps) i v).length = cnt + 1 →
        ((ColData.dense base vs ps cnt).get i).isSome = false →
        (ColData.sparse (alSet (denseEntries base vs ps) i v)).len =
          if ((ColData.dense base vs ps cnt).get i).isSome then (ColData.dense base vs ps cnt).len
          else (ColData.dense base vs ps cnt).len + 1 := by
      intro h1 h2; simp [ColData.len, h1, h2]
    have hlenDemote : ((ColData.dense base vs ps cnt).get i).isSome = false →
        (alSet (denseEntries base vs ps) i v).length = cnt + 1 := by
      intro hnone
      have hnm : i ∉ (denseEntries base vs ps).map (·.1) := by
        intro hm
        have := alGet_isSome_iff.mpr hm
        rw [alGet_denseEntries] at this
        simp only [ColData.get] at hnone
        rw [hnone] at this
        exact absurd this (by simp)
      simp only [alSet, List.length_cons, length_alErase_of_not_mem hnm,
        length_denseEntries base vs ps hl, hc]
    simp only [ColData.set]
    split
    · rename_i hin
      simp only [Bool.and_eq_true, decide_eq_true_eq] at hin
      have hps : i - base < ps.length := by omega
      rw [ColData.get_isSome_dense hl hin.1 hin.2, getD_eq_getElem hps]
      rfl
    · rename_i hnin
      simp only [Bool.and_eq_true, decide_eq_true_eq, not_and] at hnin
      have hnone : ((ColData.dense base vs ps cnt).get i).isSome = false := by
        simp only [ColData.get]
        by_cases hbi : base ≤ i
        · have hout : vs.length ≤ i - base := by have := hnin hbi; omega
          simp [hbi, slotGet_of_ge hout]
        · simp [hbi]
      split
      · split
        · simp [ColData.len, hnone]
        · exact hdemote (hlenDemote hnone) hnone
      · split
        · simp [ColData.len, hnone]
        · exact hdemote (hlenDemote hnone) hnone

/-! #### remove -/

theorem ColData.get_remove (d : α) {c : ColData α} (h : c.WF) (i j : Nat) :
    (c.remove d i).get j = if j = i then none else c.get j := by
  cases c with
  | sparse m => simp only [ColData.remove, ColData.get, alGet_alErase]
  | dense base vs ps cnt =>
    obtain ⟨hl, _⟩ := h
    simp only [ColData.remove]
    split
    · rename_i hin
      simp only [Bool.and_eq_true, decide_eq_true_eq] at hin
      simp only [ColData.get]
      by_cases hji : j = i
      · subst hji
        simp only [hin.1, if_true]
        exact slotGet_clear_same d hl
      · simp only [hji, if_false]
        by_cases hbj : base ≤ j
        · simp only [hbj, if_true]
          exact slotGet_set_other d false (by omega)
        · simp [hbj]
    · rename_i hnin
      by_cases hji : j = i
      · subst hji
        simp only [if_true, ColData.get]
        by_cases hbj : base ≤ j
        · simp only [hbj, if_true]
          simp only [hbj, decide_true, Bool.true_and, Bool.and_eq_true, decide_eq_true_eq,
            not_and] at hnin
          by_cases hs : j - base < vs.length
          · exact slotGet_of_not_present (by simpa using hnin hs)
          · exact slotGet_of_ge (by omega)
        · simp [hbj]
      · simp [hji]

theorem ColData.wf_remove (d : α) {c : ColData α} (h : c.WF) (i : Nat) : (c.remove d i).WF := by
  cases c with
  | sparse m => exact keysNodup_alErase h i
  | dense base vs ps cnt =>
    obtain ⟨hl, hc⟩ := h
    simp only [ColData.remove]
    split
    · rename_i hin
      simp only [Bool.and_eq_true, decide_eq_true_eq] at hin
      have hps : i - base < ps.length := by omega
      refine ⟨by simp [hl], ?_⟩
      rw [count_set_false hps, hc]
      have := hin.2.2
      rw [getD_eq_getElem hps] at this
      simp [this]
    · exact ⟨hl, hc⟩

theorem ColData.len_remove (d : α) {c : ColData α} (h : c.WF) (i : Nat) :
    (c.remove d i).len = if (c.get i).isSome then c.len - 1 else c.len := by
  cases c with
  | sparse m =>
    have hget : (ColData.sparse m).get i = alGet m i := rfl
    rw [hget]
    show (alErase m i).length = if (alGet m i).isSome then m.length - 1 else m.length
    by_cases hk : i ∈ m.map (·.1)
    · rw [alGet_isSome_iff.mpr hk]
      have := length_alErase_of_mem h hk
      simp; omega
    · have : (alGet m i).isSome = false := by
        cases hh : (alGet m i).isSome
        · rfl
        · exact absurd (alGet_isSome_iff.mp hh) hk
      rw [this, length_alErase_of_not_mem hk]
      simp
  | dense base vs ps cnt =>
    obtain ⟨hl, hc⟩ := h
    simp only [ColData.remove]
    split
    · rename_i hin
      simp only [Bool.and_eq_true, decide_eq_true_eq] at hin
      have hps : i - base < ps.length := by omega
      rw [ColData.get_isSome_dense hl hin.1 hin.2.1]
      have := hin.2.2
      rw [getD_eq_getElem hps] at this
      simp [ColData.len, this]
    · rename_i hnin
      have hnone : ((ColData.dense base vs ps cnt).get i).isSome = false := by
        simp only [ColData.get]
        by_cases hbi : base ≤ i
        · simp only [hbi, decide_true, Bool.true_and, Bool.and_eq_true, decide_eq_true_eq,
            not_and] at hnin
          simp only [hbi, if_true]
          by_cases hs : i - base < vs.length
          · rw [slotGet_of_not_present (by simpa using hnin hs)]; rfl
          · rw [slotGet_of_ge (by omega)]; rfl
        · simp [hbi]
      simp [hnone]

/-! #### entries (`for_each`) -/

theorem ColData.alGet_entries (c : ColData α) (j : Nat) : alGet c.entries j = c.get j := by
  cases c with
  | sparse m => rfl
  | dense base vs ps cnt => simp only [ColData.entries, ColData.get, alGet_denseEntries]

theorem ColData.keysNodup_entries {c : ColData α} (h : c.WF) : KeysNodup c.entries := by
  cases c with
  | sparse m => exact h
  | dense base vs ps cnt => exact keysNodup_denseEntries base vs ps

theorem ColData.length_entries {c : ColData α} (h : c.WF) : c.entries.length = c.len := by
  cases c with
  | sparse m => rfl
  | dense base vs ps cnt =>
    simp only [ColData.entries, ColData.len, length_denseEntries base vs ps h.1, h.2]

theorem ColData.wf_new : (ColData.sparse ([] : List (Nat × α))).WF := by
  simp [ColData.WF, KeysNodup]

end SgModel.Column
