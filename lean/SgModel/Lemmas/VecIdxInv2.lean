import SgModel.Lemmas.VecIdxInv
/-!
Every statement preserves the vector-index invariant (continuation of `VecIdxInv.lean`).
-/
namespace SgModel.VecIdx

theorem mem_rebuild {nodes : List Node} {dim : Nat} {e : Entry} :
    e ∈ rebuild nodes dim ↔ Live nodes dim e := by
  simp only [rebuild, List.mem_filterMap, Live]
  constructor
  · rintro ⟨x, hx, h⟩
    cases hv : x.vec with
    | none => simp [hv] at h
    | some v =>
      simp only [hv] at h
      by_cases hc : (x.inL && decide (v.length = dim)) = true
      · simp only [hc, if_true, Option.some.injEq] at h
        subst h
        simp only [Bool.and_eq_true, decide_eq_true_eq] at hc
        exact ⟨x, hx, rfl, hc.1, hv, hc.2⟩
      · simp [hc] at h
  · rintro ⟨x, hx, hxi, h1, h2, h3⟩
    refine ⟨x, hx, ?_⟩
    simp only [h2, h1, h3, Bool.true_and, decide_true, if_true, Option.some.injEq]
    cases e; simp_all

theorem nodup_rebuild {nodes : List Node} (hi : IdsNodup nodes) (dim : Nat) : NodesNodup (rebuild nodes dim) := by
  unfold rebuild NodesNodup
  refine List.Pairwise.filterMap _ ?_ hi
  intro a a' hne b hb b' hb'
  cases ha : a.vec with
  | none => simp [ha] at hb
  | some v =>
    cases ha' : a'.vec with
    | none => simp [ha'] at hb'
    | some v' =>
      simp only [ha] at hb
      simp only [ha'] at hb'
      split at hb
      · split at hb'
        · simp only [Option.some.injEq] at hb hb'
          subst hb; subst hb'; exact hne
        · simp at hb'
      · simp at hb

theorem live_lt {s : State} (hlt : ∀ x ∈ s.nodes, x.id < s.next) {dim : Nat} {e : Entry}
    (h : Live s.nodes dim e) : e.node < s.next := by
  obtain ⟨x, hx, hxi, _⟩ := h
  rw [← hxi]; exact hlt x hx

theorem idx_map_some {s : State} {g : Index → Index} {ix' : Index} (h : onIdx s g = some ix') :
    ∃ ix, s.idx = some ix ∧ g ix = ix' := by
  simpa [onIdx, Option.map_eq_some_iff] using h

theorem inv_step {s : State} (hi : Inv s) (op : Op) : Inv (step s op) := by
  have hI : ∀ f : Node → Node, (∀ x, (f x).id = x.id) → ∀ n,
      IdsNodup (mapNode f s.nodes n) ∧ ∀ x ∈ mapNode f s.nodes n, x.id < s.next :=
    fun f hf n => ⟨idsNodup_mapNode hf n hi.ids, lt_map hi.lt hi.ids f hf n⟩
  cases op with
  | mkIndex dim m =>
    refine ⟨hi.ids, hi.lt, ?_⟩
    intro ix hix
    simp only [step, Option.some.injEq] at hix
    subst hix
    exact ⟨fun e => mem_rebuild, nodup_rebuild hi.ids dim⟩
  | create inL vec =>
    have hids : IdsNodup (s.nodes ++ [{ id := s.next, inL := inL, vec := vec }]) := by
      simp only [IdsNodup, List.pairwise_append, List.pairwise_cons, List.Pairwise.nil,
        List.mem_singleton, forall_eq, and_true, List.not_mem_nil, false_imp_iff, implies_true, true_and]
      refine ⟨hi.ids, ?_⟩
      intro a ha
      have := hi.lt a ha
      omega
    have hlive : ∀ dim e, Live (s.nodes ++ [{ id := s.next, inL := inL, vec := vec }]) dim e ↔
        Live s.nodes dim e ∨ (e.node = s.next ∧ inL = true ∧ vec = some e.vec ∧ e.vec.length = dim) := by
      intro dim e
      simp only [Live, List.mem_append, List.mem_singleton]
      constructor
      · rintro ⟨x, hx | rfl, hxi, h1, h2, h3⟩
        · exact Or.inl ⟨x, hx, hxi, h1, h2, h3⟩
        · exact Or.inr ⟨hxi.symm, h1, h2, h3⟩
      · rintro (⟨x, hx, hxi, h1, h2, h3⟩ | ⟨h0, h1, h2, h3⟩)
        · exact ⟨x, Or.inl hx, hxi, h1, h2, h3⟩
        · exact ⟨_, Or.inr rfl, h0.symm, h1, h2, h3⟩
    refine ⟨hids, ?_, ?_⟩
    · intro x hx
      simp only [step, List.mem_append, List.mem_singleton] at hx ⊢
      rcases hx with hx | rfl
      · have := hi.lt x hx; omega
      · simp
    · intro ix' hix'
      simp only [step] at hix' ⊢
      have hunch : ∀ ix, s.idx = some ix → (inL = false ∨ vec = none) →
          IxOk (s.nodes ++ [{ id := s.next, inL := inL, vec := vec }]) ix := by
        intro ix hix hno
        have hok := hi.ix ix hix
        refine ⟨?_, hok.nodup⟩
        intro e
        rw [hlive, hok.exact e]
        constructor
        · exact Or.inl
        · rintro (h | ⟨_, h1, h2, _⟩)
          · exact h
          · rcases hno with h | h
            · rw [h] at h1; exact absurd h1 (by decide)
            · rw [h] at h2; exact absurd h2 (by simp)
      cases vec with
      | none => exact hunch ix' hix' (Or.inr rfl)
      | some v =>
        cases inL with
        | false => exact hunch ix' hix' (Or.inl rfl)
        | true =>
          simp only [if_true] at hix'
          obtain ⟨ix, hix, rfl⟩ := idx_map_some hix'
          have hok := hi.ix ix hix
          refine ⟨?_, nodup_addVector hok.nodup _ _⟩
          intro e
          rw [mem_addVector hok.nodup, hlive, dim_addVector, hok.exact e]
          constructor
          · rintro (⟨h1, h2, h3⟩ | ⟨h, _⟩)
            · exact Or.inr ⟨h1, rfl, by rw [h2], h2 ▸ h3⟩
            · exact Or.inl h
          · rintro (h | ⟨h1, _, h2, h3⟩)
            · exact Or.inr ⟨h, Nat.ne_of_lt (live_lt hi.lt h)⟩
            · simp only [Option.some.injEq] at h2
              exact Or.inl ⟨h1, h2.symm, h2 ▸ h3⟩
  | setVec h vec =>
    simp only [step]
    cases hf : findNode s.nodes h with
    | none => exact hi
    | some node =>
      obtain ⟨hn, hid⟩ := findNode_some hf
      subst hid
      refine ⟨(hI (fun x => { x with vec := vec }) (fun _ => rfl) node.id).1, (hI (fun x => { x with vec := vec }) (fun _ => rfl) node.id).2, ?_⟩
      intro ix' hix'
      simp only at hix' ⊢
      cases hL : node.inL with
      | false =>
        simp only [hL, Bool.false_eq_true, if_false] at hix'
        refine ixOk_same hi.ids hn _ rfl (hi.ix ix' hix') ?_
        intro v _; simp [hL]
      | true =>
        simp only [hL, if_true] at hix'
        cases vec with
        | none =>
          obtain ⟨ix, hix, rfl⟩ := idx_map_some hix'
          exact ixOk_remove hi.ids hn _ rfl (hi.ix ix hix) (Or.inr rfl)
        | some v =>
          obtain ⟨ix, hix, rfl⟩ := idx_map_some hix'
          exact ixOk_add hi.ids hn _ rfl (hi.ix ix hix) v hL rfl
  | removeVec h =>
    simp only [step]
    cases hf : findNode s.nodes h with
    | none => exact hi
    | some node =>
      obtain ⟨hn, hid⟩ := findNode_some hf
      subst hid
      refine ⟨(hI (fun x => { x with vec := none }) (fun _ => rfl) node.id).1, (hI (fun x => { x with vec := none }) (fun _ => rfl) node.id).2, ?_⟩
      intro ix' hix'
      simp only at hix' ⊢
      cases hL : node.inL with
      | false =>
        simp only [hL, Bool.false_eq_true, if_false] at hix'
        refine ixOk_same hi.ids hn _ rfl (hi.ix ix' hix') ?_
        intro v _; simp [hL]
      | true =>
        simp only [hL, if_true] at hix'
        obtain ⟨ix, hix, rfl⟩ := idx_map_some hix'
        exact ixOk_remove hi.ids hn _ rfl (hi.ix ix hix) (Or.inr rfl)
  | addLabel h =>
    simp only [step]
    cases hf : findNode s.nodes h with
    | none => exact hi
    | some node =>
      obtain ⟨hn, hid⟩ := findNode_some hf
      subst hid
      refine ⟨(hI (fun x => { x with inL := true }) (fun _ => rfl) node.id).1, (hI (fun x => { x with inL := true }) (fun _ => rfl) node.id).2, ?_⟩
      intro ix' hix'
      simp only at hix' ⊢
      cases hv : node.vec with
      | none =>
        simp only [hv] at hix'
        refine ixOk_same hi.ids hn _ rfl (hi.ix ix' hix') ?_
        intro v _; simp [hv]
      | some v =>
        simp only [hv] at hix'
        obtain ⟨ix, hix, rfl⟩ := idx_map_some hix'
        exact ixOk_add hi.ids hn _ rfl (hi.ix ix hix) v rfl hv
  | removeLabel h =>
    simp only [step]
    cases hf : findNode s.nodes h with
    | none => exact hi
    | some node =>
      obtain ⟨hn, hid⟩ := findNode_some hf
      subst hid
      simp only
      cases hL : node.inL with
      | false => simp only [Bool.false_eq_true, if_false]; exact hi
      | true =>
        simp only [if_true]
        refine ⟨(hI (fun x => { x with inL := false }) (fun _ => rfl) node.id).1, (hI (fun x => { x with inL := false }) (fun _ => rfl) node.id).2, ?_⟩
        intro ix' hix'
        simp only at hix' ⊢
        obtain ⟨ix, hix, rfl⟩ := idx_map_some hix'
        exact ixOk_remove hi.ids hn _ rfl (hi.ix ix hix) (Or.inl rfl)
  | delete h =>
    simp only [step]
    cases hf : findNode s.nodes h with
    | none => exact hi
    | some node =>
      obtain ⟨hn, hid⟩ := findNode_some hf
      subst hid
      have hlive : ∀ dim e, Live (dropNode s.nodes node.id) dim e ↔ e.node ≠ node.id ∧ Live s.nodes dim e := by
        intro dim e
        simp only [Live]
        constructor
        · rintro ⟨x, hx, hxi, h1, h2, h3⟩
          have := (mem_dropNode hi.ids).mp hx
          exact ⟨by rw [← hxi]; exact this.2, x, this.1, hxi, h1, h2, h3⟩
        · rintro ⟨hne, x, hx, hxi, h1, h2, h3⟩
          exact ⟨x, (mem_dropNode hi.ids).mpr ⟨hx, by rw [hxi]; exact hne⟩, hxi, h1, h2, h3⟩
      refine ⟨idsNodup_dropNode _ hi.ids, fun x hx => hi.lt x ((mem_dropNode hi.ids).mp hx).1, ?_⟩
      intro ix' hix'
      simp only at hix' ⊢
      cases hL : node.inL with
      | false =>
        simp only [hL, Bool.false_eq_true, if_false] at hix'
        have hok := hi.ix ix' hix'
        refine ⟨?_, hok.nodup⟩
        intro e
        rw [hlive, hok.exact e]
        constructor
        · intro hl
          refine ⟨?_, hl⟩
          intro he
          have := (live_self hi.ids hn _ he).mp hl
          rw [hL] at this; exact absurd this.1 (by decide)
        · exact fun h => h.2
      | true =>
        simp only [hL, if_true] at hix'
        obtain ⟨ix, hix, rfl⟩ := idx_map_some hix'
        have hok := hi.ix ix hix
        refine ⟨?_, nodup_remove _ hok.nodup⟩
        intro e
        simp only [removeVector, mem_remove]
        rw [hlive, hok.exact e]
        exact ⟨fun h => ⟨h.2, h.1⟩, fun h => ⟨h.2, h.1⟩⟩

theorem inv_empty : Inv ({} : State) :=
  ⟨by simp [IdsNodup], by intro x hx; simp at hx, by intro ix h; simp at h⟩

theorem inv_run (ops : List Op) : Inv (run ops) := by
  unfold run
  generalize hs : ({} : State) = s0
  have h0 : Inv s0 := hs ▸ inv_empty
  clear hs
  induction ops generalizing s0 with
  | nil => exact h0
  | cons op rest ih => exact ih _ (inv_step h0 op)

end SgModel.VecIdx
