import SgModel.Lemmas.StoreBetween
/-!
Helper lemmas for the graph-store model (C06), part 13: the abstraction to the logical graph —
`get_node` and `get_edge` as functions of the id — and what every write does to them
(the function-level form of `abs (step s op) = S.step (abs s) op`).
-/
namespace SgModel.Store

theorem getEdge_congr {s s' : State} (hendp : s'.endp = s.endp) (hty : s'.etypeIds = s.etypeIds)
    (htbl : s'.etypeTable = s.etypeTable) (hep : s'.eprops = s.eprops) (e : Nat) :
    getEdge s' e = getEdge s e := by
  simp [getEdge, endpOf, edgeTypeOf, typeIdOf, hendp, hty, htbl, hep]

theorem getNode_congr {s s' : State} (hn : s'.nodes = s.nodes) (n : Nat) :
    getNode s' n = getNode s n := by simp [getNode, hn]

/-- `get_edge` is determined by the three point reads -/
theorem getEdge_eq_of_reads {s s' : State} {e e0 : Nat} (h1 : endpOf s' e = endpOf s e0)
    (h2 : edgeTypeOf s' e = edgeTypeOf s e0) (h3 : assocGet s'.eprops e = assocGet s.eprops e0) :
    getEdge s' e = getEdge s e0 := by
  unfold getEdge; rw [h1, h2, h3]

theorem getEdge_none_of_dead {s : State} {e : Nat} (h : endpOf s e = (0, 0)) : getEdge s e = none := by
  unfold getEdge; simp [h]

/-! ### node creation -/

theorem createNode_abs (s : State) (l : Nat) (ps : Props) :
    (∀ n, getNode (createNode s l ps).1 n
        = if n = (allocN s).1 then some { labels := [l], props := ps } else getNode s n)
    ∧ (∀ e, getEdge (createNode s l ps).1 e = getEdge s e)
    ∧ (createNode s l ps).2 = .id (allocN s).1 := by
  obtain ⟨hg, hret, _⟩ := createNode_reads s l ps
  refine ⟨hg, fun e => ?_, hret⟩
  unfold createNode allocN
  cases s.freeN <;> exact getEdge_congr rfl rfl rfl rfl e

/-! ### relationship creation -/

theorem getEdge_after_link {s s' : State} (hI : Inv s) (i a b ty : Nat) (ps : Props)
    (ha : getNode s a ≠ none)
    (hfresh : endpOf s i = (0, 0))
    (hendp : ∀ e, endpOf s' e = if e = i then (a, b) else endpOf s e)
    (hty : ∀ e, typeIdOf s' e = if e = i then some (intern s.etypeTable ty).2 else typeIdOf s e)
    (htbl : s'.etypeTable = (intern s.etypeTable ty).1)
    (hep : s'.eprops = (if ps.isEmpty then s.eprops else assocSet s.eprops i ps)) :
    ∀ e, getEdge s' e = if e = i then some (a, b, ty, ps) else getEdge s e := by
  have hte := edgeTypeOf_after_link hI.toInvE i ty hty htbl hfresh
  have ha0 : a ≠ 0 := by intro h0; subst h0; exact ha hI.node0
  have hnone : assocGet s.eprops i = none :=
    assocGet_none (fun p hp hpe => hI.eprops_live p hp (by rw [hpe]; exact hfresh))
  intro e
  by_cases he : e = i
  · subst he
    simp only [if_true]
    unfold getEdge
    rw [hendp, hte, hep]
    have hne : ((a, b) : Nat × Nat) ≠ (0, 0) := fun hp => ha0 (Prod.mk.inj hp).1
    have hb : (((a, b) : Nat × Nat) == (0, 0)) = false := by simpa using hne
    simp only [if_true, hb, Bool.false_eq_true, if_false]
    cases hemp : ps.isEmpty with
    | true =>
      have : ps = [] := by simpa using hemp
      subst this
      simp [hnone]
    | false =>
      simp only [Bool.false_eq_true, if_false]
      rw [assocGet_assocSet]; simp
  · simp only [he, if_false]
    apply getEdge_eq_of_reads
    · rw [hendp]; simp [he]
    · rw [hte]; simp [he]
    · rw [hep]
      split
      · rfl
      · rw [assocGet_assocSet]; simp [he]

theorem createEdge_abs {s : State} (hI : Inv s) {a b : Nat} (ty : Nat) (ps : Props)
    (ha : liveN s a = true) (hb : liveN s b = true) :
    (∀ n, getNode (createEdge s a b ty ps).1 n = getNode s n)
    ∧ (∀ e, getEdge (createEdge s a b ty ps).1 e
        = if e = (allocE s).1 then some (a, b, ty, ps) else getEdge s e)
    ∧ (createEdge s a b ty ps).2 = .id (allocE s).1
    ∧ getEdge s (allocE s).1 = none := by
  obtain ⟨hret, hendp, hty, htbl, _, _, hep, hn⟩ := createEdge_reads (s := s) ty ps ha hb
  have hfresh := (allocE_spec hI.toInvE).1
  exact ⟨fun n => getNode_congr hn n,
    getEdge_after_link hI _ a b ty ps ((liveN_iff s a).mp ha) hfresh hendp hty htbl hep,
    hret, getEdge_none_of_dead hfresh⟩

theorem createEdgeStub_abs {s : State} (hI : Inv s) {a b : Nat} (ty : Nat)
    (ha : liveN s a = true) (hb : liveN s b = true) :
    (∀ n, getNode (createEdgeStub s a b ty).1 n = getNode s n)
    ∧ (∀ e, getEdge (createEdgeStub s a b ty).1 e
        = if e = (allocE s).1 then some (a, b, ty, []) else getEdge s e)
    ∧ (createEdgeStub s a b ty).2 = .id (allocE s).1
    ∧ getEdge s (allocE s).1 = none := by
  obtain ⟨hret, hendp, hty, htbl, _, _, hep, hn⟩ := createEdgeStub_reads (s := s) ty ha hb
  have hfresh := (allocE_spec hI.toInvE).1
  exact ⟨fun n => getNode_congr hn n,
    getEdge_after_link hI _ a b ty [] ((liveN_iff s a).mp ha) hfresh hendp hty htbl (by simp [hep]),
    hret, getEdge_none_of_dead hfresh⟩

/-! ### deletion -/

theorem deleteEdge_eprops (s : State) (e e' : Nat) (hne : e' ≠ e) :
    assocGet (deleteEdge s e).1.eprops e' = assocGet s.eprops e' := by
  unfold deleteEdge
  cases getEdge s e with
  | none => rfl
  | some q =>
    obtain ⟨a, b, ty, ps⟩ := q
    show assocGet (assocErase s.eprops e) e' = _
    rw [assocGet_assocErase]; simp [hne]

theorem deleteEdge_abs {s : State} (hI : InvE s) (e : Nat) :
    (∀ n, getNode (deleteEdge s e).1 n = getNode s n)
    ∧ (∀ e', getEdge (deleteEdge s e).1 e' = if e' = e then none else getEdge s e')
    ∧ (deleteEdge s e).2 = (if (getEdge s e).isSome then .ok else .err 2) := by
  obtain ⟨hendp, hnodes⟩ := deleteEdge_reads hI e
  obtain ⟨hty, _, _⟩ := deleteEdge_ty hI e
  refine ⟨fun n => getNode_congr hnodes n, fun e' => ?_, ?_⟩
  · by_cases he : e' = e
    · subst he
      simp only [if_true]
      apply getEdge_none_of_dead
      rw [hendp]; simp
    · simp only [he, if_false]
      apply getEdge_eq_of_reads
      · rw [hendp]; simp [he]
      · rw [hty]; simp [he]
      · exact deleteEdge_eprops s e e' he
  · unfold deleteEdge
    cases getEdge s e with
    | none => rfl
    | some q => obtain ⟨a, b, ty, ps⟩ := q; rfl

theorem foldl_deleteEdge_abs (ids : List Nat) {s : State} (hI : InvE s) :
    (∀ n, getNode (ids.foldl (fun acc e => (deleteEdge acc e).1) s) n = getNode s n)
    ∧ (∀ e', getEdge (ids.foldl (fun acc e => (deleteEdge acc e).1) s) e'
        = if e' ∈ ids then none else getEdge s e') := by
  induction ids generalizing s with
  | nil => exact ⟨fun n => rfl, fun e' => by simp⟩
  | cons a as ih =>
    obtain ⟨i1, i2⟩ := ih (invE_deleteEdge hI a)
    obtain ⟨d1, d2, _⟩ := deleteEdge_abs hI a
    simp only [List.foldl_cons]
    refine ⟨fun n => by rw [i1, d1], fun e' => ?_⟩
    rw [i2, d2]
    by_cases hm : e' ∈ as
    · simp [hm]
    · by_cases he : e' = a
      · simp [he]
      · simp [hm, he]

/-- the relationships `delete_node` removes are exactly the existing ones incident to the node -/
theorem mem_incident_ids {s : State} (hI : Inv s) (n e : Nat) :
    e ∈ (s.outT.row n).map (·.2) ++ (s.inT.row n).map (·.2)
      ↔ (endpOf s e ≠ (0, 0) ∧ ((endpOf s e).1 = n ∨ (endpOf s e).2 = n)) := by
  rw [List.mem_append]
  constructor
  · rintro (hm | hm)
    · obtain ⟨p, hp, rfl⟩ := List.mem_map.mp hm
      have hk := keyOut_some.mp (hI.out.sound n p.1 p.2 hp)
      exact ⟨hk.2, Or.inl (by rw [hk.1])⟩
    · obtain ⟨p, hp, rfl⟩ := List.mem_map.mp hm
      have hk := keyIn_some.mp (hI.inn.sound n p.1 p.2 hp)
      exact ⟨hk.2, Or.inr (by rw [hk.1])⟩
  · rintro ⟨hl, hs | ht⟩
    · left
      have := hI.out.complete e n (endpOf s e).2 (keyOut_some.mpr ⟨by rw [← hs], hl⟩)
      exact List.mem_map.mpr ⟨_, this, rfl⟩
    · right
      have := hI.inn.complete e n (endpOf s e).1 (keyIn_some.mpr ⟨by rw [← ht], hl⟩)
      exact List.mem_map.mpr ⟨_, this, rfl⟩

theorem deleteNode_abs {s : State} (hI : Inv s) (n : Nat) (r : NodeRec) (hn : getNode s n = some r) :
    (∀ m, getNode (deleteNode s n).1 m = if m = n then none else getNode s m)
    ∧ (∀ e, getEdge (deleteNode s n).1 e
        = if (endpOf s e ≠ (0, 0) ∧ ((endpOf s e).1 = n ∨ (endpOf s e).2 = n)) then none
          else getEdge s e)
    ∧ (deleteNode s n).2 = .ok := by
  unfold deleteNode deleteNodeWith
  rw [hn]
  simp only
  obtain ⟨f1, f2⟩ := foldl_deleteEdge_abs ((s.outT.row n).map (·.2) ++ (s.inT.row n).map (·.2))
    (invE_dropNode hI.toInvE n r hn)
  refine ⟨fun m => by rw [f1, getNode_dropNode], fun e => ?_, by first | rfl | trivial⟩
  rw [f2]
  have hd : getEdge (dropNode s n r) e = getEdge s e := getEdge_congr rfl rfl rfl rfl e
  rw [hd]
  by_cases hm : e ∈ (s.outT.row n).map (·.2) ++ (s.inT.row n).map (·.2)
  · rw [if_pos hm, if_pos ((mem_incident_ids hI n e).mp hm)]
  · rw [if_neg hm, if_neg (fun hh => hm ((mem_incident_ids hI n e).mpr hh))]

/-! ### node records -/

theorem updNode_abs (s : State) (n : Nat) (f : NodeRec → NodeRec) :
    (∀ m, getNode (updNode s n f) m = if m = n then (getNode s n).map f else getNode s m)
    ∧ (∀ e, getEdge (updNode s n f) e = getEdge s e) := by
  obtain ⟨a1, a2, a3, _, _, _, _, _, _, _, a11, _⟩ := updNode_fields s n f
  exact ⟨fun m => getNode_updNode_eq s n m f, fun e => getEdge_congr a1 a2 a3 a11 e⟩

/-! ### relationship properties -/

theorem setEdgeProp_abs {s : State} (hI : InvE s) (e k v : Nat) (hl : liveE s e = true) :
    (∀ n, getNode (setEdgeProp s e k v).1 n = getNode s n)
    ∧ (∀ e', getEdge (setEdgeProp s e k v).1 e'
        = if e' = e then (getEdge s e).map (fun q => (q.1, q.2.1, q.2.2.1, assocSet q.2.2.2 k v))
          else getEdge s e')
    ∧ (setEdgeProp s e k v).2 = .ok := by
  have hlive : endpOf s e ≠ (0, 0) := by simpa [liveE] using hl
  unfold setEdgeProp
  simp only [hl, Bool.not_true, Bool.false_eq_true, if_false]
  refine ⟨fun n => rfl, fun e' => ?_, by first | rfl | trivial⟩
  by_cases he : e' = e
  · subst he
    simp only [if_true]
    obtain ⟨ty, hg, hty⟩ := getEdge_of_live hI hlive
    rw [hg]
    simp only [Option.map_some]
    unfold getEdge
    have hb : (endpOf s e' == (0, 0)) = false := by simpa using hlive
    show (if (endpOf s e' == (0, 0)) = true then none else
      match edgeTypeOf s e' with
      | some ty => some ((endpOf s e').1, (endpOf s e').2, ty,
          (assocGet (assocSet s.eprops e' (assocSet ((assocGet s.eprops e').getD []) k v)) e').getD [])
      | none => none) = _
    rw [hb, hty, assocGet_assocSet]
    simp
  · simp only [he, if_false]
    refine getEdge_eq_of_reads (s := s) (e0 := e') rfl rfl ?_
    show assocGet (assocSet s.eprops e _) e' = _
    rw [assocGet_assocSet]; simp [he]

theorem removeEdgeProp_abs {s : State} (hI : InvE s) (e k : Nat) :
    (∀ n, getNode (removeEdgeProp s e k).1 n = getNode s n)
    ∧ (∀ e', getEdge (removeEdgeProp s e k).1 e'
        = if e' = e then (getEdge s e).map (fun q => (q.1, q.2.1, q.2.2.1, assocErase q.2.2.2 k))
          else getEdge s e')
    ∧ (removeEdgeProp s e k).2 = .ok := by
  unfold removeEdgeProp
  cases hl : liveE s e with
  | false =>
    have hdead : endpOf s e = (0, 0) := by simpa [liveE] using hl
    simp only [Bool.not_false, if_true]
    refine ⟨fun n => rfl, fun e' => ?_, by first | rfl | trivial⟩
    have hsame : getEdge ({ s with ecols := colRemove s.ecols e k } : State) e' = getEdge s e' :=
      getEdge_congr rfl rfl rfl rfl e'
    rw [hsame]
    by_cases he : e' = e
    · subst he; simp [getEdge_none_of_dead hdead]
    · simp [he]
  | true =>
    have hlive : endpOf s e ≠ (0, 0) := by simpa [liveE] using hl
    simp only [Bool.not_true, Bool.false_eq_true, if_false]
    refine ⟨fun n => rfl, fun e' => ?_, by first | rfl | trivial⟩
    by_cases he : e' = e
    · subst he
      simp only [if_true]
      obtain ⟨ty, hg, hty⟩ := getEdge_of_live hI hlive
      rw [hg]
      simp only [Option.map_some]
      unfold getEdge
      have hb : (endpOf s e' == (0, 0)) = false := by simpa using hlive
      show (if (endpOf s e' == (0, 0)) = true then none else
        match edgeTypeOf s e' with
        | some ty => some ((endpOf s e').1, (endpOf s e').2, ty,
            (assocGet (assocSet s.eprops e' (assocErase ((assocGet s.eprops e').getD []) k)) e').getD [])
        | none => none) = _
      rw [hb, hty, assocGet_assocSet]
      simp
    · simp only [he, if_false]
      refine getEdge_eq_of_reads (s := s) (e0 := e') rfl rfl ?_
      show assocGet (assocSet s.eprops e _) e' = _
      rw [assocGet_assocSet]; simp [he]

/-! ### compaction, bulk-load finish, clear -/

theorem compact_abs (s : State) :
    (∀ n, getNode (compact s) n = getNode s n) ∧ (∀ e, getEdge (compact s) e = getEdge s e) := by
  unfold compact
  split
  · exact ⟨fun _ => rfl, fun _ => rfl⟩
  · exact ⟨fun n => rfl, fun e => getEdge_congr rfl rfl rfl rfl e⟩

theorem finish_abs (s : State) :
    (∀ n, getNode (finish s) n = getNode s n) ∧ (∀ e, getEdge (finish s) e = getEdge s e)
    ∧ (finish s).stubPending = false := by
  obtain ⟨c1, c2⟩ := compact_abs s
  refine ⟨fun n => ?_, fun e => ?_, rfl⟩
  · rw [← c1 n]; rfl
  · rw [← c2 e]; exact getEdge_congr rfl rfl rfl rfl e

theorem getEdge_init (e : Nat) : getEdge init e = none := getEdge_none_of_dead (endpOf_init e)

end SgModel.Store
