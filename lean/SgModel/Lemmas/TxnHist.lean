import SgModel.Lemmas.Txn
/-!
History-level lemmas for C09: the simulation lifted to runs, dead transactions, stable
attributes, commit versions.
-/
namespace SgModel.Txn

/-! ### histories -/

theorem rel_runFrom {s : State} {a : AState} (r : Rel s a) (ops : List Op) :
    (runFrom s ops).2 = (arunFrom a ops).2 ∧ Rel (runFrom s ops).1 (arunFrom a ops).1 := by
  induction ops generalizing s a with
  | nil => exact ⟨rfl, r⟩
  | cons op ops ih =>
    obtain ⟨r', hout⟩ := rel_step r op
    obtain ⟨h1, h2⟩ := ih r'
    simp only [runFrom, arunFrom]
    refine ⟨?_, h2⟩
    rw [h1, hout, r'.core]

theorem rel_foldl {s : State} {a : AState} (r : Rel s a) (ops : List Op) :
    Rel (ops.foldl (fun s op => (step s op).1) s) (ops.foldl (fun s op => (astep s op).1) a) := by
  induction ops generalizing s a with
  | nil => exact r
  | cons op ops ih => exact ih (rel_step r op).1

theorem rel_exec (ops : List Op) : Rel (exec ops) (aexec ops) := rel_foldl rel_init ops

theorem runFrom_state (s : State) (ops : List Op) :
    (runFrom s ops).1 = ops.foldl (fun s op => (step s op).1) s := by
  induction ops generalizing s with
  | nil => rfl
  | cons op ops ih => simp only [runFrom, List.foldl_cons]; exact ih _

theorem exec_append (pre post : List Op) :
    exec (pre ++ post) = post.foldl (fun s op => (step s op).1) (exec pre) := by
  simp [exec, List.foldl_append]

theorem aexec_append (pre post : List Op) :
    aexec (pre ++ post) = post.foldl (fun s op => (astep s op).1) (aexec pre) := by
  simp [aexec, List.foldl_append]

/-- the shared part after one `I` step is the `coreStep` result -/
theorem step_core (s : State) (op : Op) :
    (step s op).1.core = (coreStep s.core (conflictI s) op).1 := by
  unfold step
  rcases coreStep s.core (conflictI s) op with ⟨c, out, ctx⟩
  cases ctx <;> rfl

theorem step_out (s : State) (op : Op) :
    (step s op).2 = (coreStep s.core (conflictI s) op).2.1 := by
  unfold step
  rcases coreStep s.core (conflictI s) op with ⟨c, out, ctx⟩
  cases ctx <;> rfl

theorem step_shape (s : State) (op : Op) : CoreStep s.core (step s op).1.core := by
  rw [step_core]; exact coreStep_shape _ _ _

/-! ### a finished (or collected) transaction stays finished -/

def Dead (c : Core) (t : Nat) : Prop :=
  t < c.nextId ∧ ∀ x ∈ c.txns, x.id = t → x.status ≠ .active

theorem dead_of_shape {c c' : Core} {t : Nat} (h : CoreStep c c') (d : Dead c t) : Dead c' t := by
  obtain ⟨hlt, hd⟩ := d
  cases h with
  | begin iso ht hn hc =>
    refine ⟨by omega, ?_⟩
    intro x hx hid
    rw [ht] at hx
    rcases List.mem_append.mp hx with hx | hx
    · exact hd x hx hid
    · simp only [List.mem_singleton] at hx; subst hx; simp only at hid; omega
  | map g hg ht hn hc =>
    refine ⟨by omega, ?_⟩
    intro x hx hid
    rw [ht] at hx
    rcases List.mem_map.mp hx with ⟨y, hy, rfl⟩
    intro hact
    exact hd y hy (by rw [← (hg y).1]; exact hid) ((hg y).2.2.2 hact)
  | filter p ht hn hc =>
    refine ⟨by omega, ?_⟩
    intro x hx hid
    rw [ht] at hx
    exact hd x (List.mem_filter.mp hx).1 hid

theorem dead_foldl {s : State} {t : Nat} (d : Dead s.core t) (ops : List Op) :
    Dead (ops.foldl (fun s op => (step s op).1) s).core t := by
  induction ops generalizing s with
  | nil => exact d
  | cons op ops ih => exact ih (dead_of_shape (step_shape s op) d)

/-- on a dead transaction `commit` and `abort` fail and change nothing -/
theorem coreStep_commit_dead {c : Core} {t : Nat} (f : Txn → Bool) (d : Dead c t) :
    coreStep c f (.commit t) = (c, .notFound, none) ∨ coreStep c f (.commit t) = (c, .notActive, none) := by
  simp only [coreStep]
  cases hft : findTxn c t with
  | none => exact Or.inl rfl
  | some x =>
    have := d.2 x (findTxn_some hft).1 (findTxn_some hft).2
    right
    simp [this]

theorem coreStep_abort_dead {c : Core} {t : Nat} (f : Txn → Bool) (d : Dead c t) :
    coreStep c f (.abort t) = (c, .notFound, none) ∨ coreStep c f (.abort t) = (c, .notActive, none) := by
  simp only [coreStep]
  cases hft : findTxn c t with
  | none => exact Or.inl rfl
  | some x =>
    have := d.2 x (findTxn_some hft).1 (findTxn_some hft).2
    right
    simp [this]

theorem setTxn_status_dead {c : Core} (_w : WF c) {t : Nat} (hlt : t < c.nextId) (f : Txn → Txn)
    (hf : ∀ x, (f x).id = x.id ∧ (f x).status ≠ .active) (k : Nat) :
    Dead { setTxn c t f with cur := k } t := by
  refine ⟨hlt, ?_⟩
  intro x hx hid
  simp only [setTxn] at hx
  rcases List.mem_map.mp hx with ⟨y, hy, rfl⟩
  by_cases h : (y.id == t) = true
  · simp only [h, if_true]; exact (hf y).2
  · simp only [h] at hid ⊢
    simp at h; exact absurd hid h

/-- after `commit t` or `abort t` (whatever the result) of a transaction that was begun
at some point, `t` is dead -/
theorem dead_after_finish {c : Core} (w : WF c) {t : Nat} (hlt : t < c.nextId) (f : Txn → Bool) :
    Dead (coreStep c f (.commit t)).1 t ∧ Dead (coreStep c f (.abort t)).1 t := by
  have hnone : findTxn c t = none → Dead c t := fun h => ⟨hlt, fun x hx hid => absurd hid (findTxn_none h x hx)⟩
  have hna : ∀ x, findTxn c t = some x → x.status ≠ .active → Dead c t := by
    intro x hft hst
    refine ⟨hlt, fun y hy hid => ?_⟩
    have := findTxn_of_mem w hy
    rw [hid, hft] at this
    cases this; exact hst
  constructor
  · simp only [coreStep]
    cases hft : findTxn c t with
    | none => exact hnone hft
    | some x =>
      simp only
      split
      · rename_i h; exact hna x hft (by simpa using h)
      · split
        · exact setTxn_status_dead w hlt (fun y => { y with status := .aborted })
            (fun y => ⟨rfl, by simp⟩) c.cur
        · exact setTxn_status_dead w hlt
            (fun y => { y with status := .committed, commitV := some (c.cur + 1) })
            (fun y => ⟨rfl, by simp⟩) (c.cur + 1)
  · simp only [coreStep]
    cases hft : findTxn c t with
    | none => exact hnone hft
    | some x =>
      simp only
      split
      · rename_i h; exact hna x hft (by simpa using h)
      · exact setTxn_status_dead w hlt (fun y => { y with status := .aborted })
          (fun y => ⟨rfl, by simp⟩) c.cur

/-! ### isolation level and start version of a transaction never change -/

def Attr (c : Core) (t : Nat) (iso : Iso) (st : Nat) : Prop :=
  t < c.nextId ∧ ∀ x ∈ c.txns, x.id = t → x.iso = iso ∧ x.start = st

theorem attr_of_shape {c c' : Core} {t : Nat} {iso : Iso} {st : Nat} (h : CoreStep c c')
    (d : Attr c t iso st) : Attr c' t iso st := by
  obtain ⟨hlt, hd⟩ := d
  cases h with
  | begin iso' ht hn hc =>
    refine ⟨by omega, ?_⟩
    intro x hx hid
    rw [ht] at hx
    rcases List.mem_append.mp hx with hx | hx
    · exact hd x hx hid
    · simp only [List.mem_singleton] at hx; subst hx; simp only at hid; omega
  | map g hg ht hn hc =>
    refine ⟨by omega, ?_⟩
    intro x hx hid
    rw [ht] at hx
    rcases List.mem_map.mp hx with ⟨y, hy, rfl⟩
    rw [(hg y).2.1, (hg y).2.2.1]
    exact hd y hy (by rw [← (hg y).1]; exact hid)
  | filter p ht hn hc =>
    refine ⟨by omega, ?_⟩
    intro x hx hid
    rw [ht] at hx
    exact hd x (List.mem_filter.mp hx).1 hid

theorem attr_foldl {s : State} {t : Nat} {iso : Iso} {st : Nat} (d : Attr s.core t iso st)
    (ops : List Op) : Attr (ops.foldl (fun s op => (step s op).1) s).core t iso st := by
  induction ops generalizing s with
  | nil => exact d
  | cons op ops ih => exact ih (attr_of_shape (step_shape s op) d)

/-! ### commit versions -/

def commitVersions (os : List Obs) : List Nat :=
  os.filterMap (fun o => match o.out with | .committed v => some v | _ => none)

theorem coreStep_committed {c : Core} {f : Txn → Bool} {op : Op} {v : Nat}
    (h : (coreStep c f op).2.1 = .committed v) : v = c.cur + 1 ∧ (coreStep c f op).1.cur = c.cur + 1 := by
  cases op with
  | commit t =>
    simp only [coreStep] at h ⊢
    cases hft : findTxn c t with
    | none => simp [hft] at h
    | some x =>
      simp only [hft] at h ⊢
      split at h
      · simp at h
      · split at h
        · simp at h
        · rename_i h1 h2
          simp only [Out.committed.injEq] at h
          simp [h1, h2, h.symm]
  | abort t =>
    simp only [coreStep] at h
    cases hft : findTxn c t with
    | none => simp [hft] at h
    | some x =>
      simp only [hft] at h
      split at h <;> simp at h
  | begin iso => simp [coreStep] at h
  | writeNode t n => simp [coreStep] at h
  | writeEdge t e => simp [coreStep] at h
  | bump => simp [coreStep] at h
  | gc w => simp [coreStep] at h

theorem commitVersions_runFrom (s : State) (ops : List Op) :
    (∀ v ∈ commitVersions (runFrom s ops).2, s.core.cur < v)
    ∧ (commitVersions (runFrom s ops).2).Pairwise (· < ·) := by
  induction ops generalizing s with
  | nil => simp [runFrom, commitVersions]
  | cons op ops ih =>
    obtain ⟨ih1, ih2⟩ := ih (step s op).1
    have hle : s.core.cur ≤ (step s op).1.core.cur := shape_cur_le (step_shape s op)
    simp only [runFrom, commitVersions, List.filterMap_cons, obsOf]
    cases hout : (step s op).2 with
    | committed v =>
      simp only
      rw [step_out] at hout
      obtain ⟨hv, hcur⟩ := coreStep_committed hout
      rw [← step_core] at hcur
      refine ⟨?_, ?_⟩
      · intro v' hv'
        rcases List.mem_cons.mp hv' with rfl | hv'
        · omega
        · have := ih1 v' hv'; omega
      · rw [List.pairwise_cons]
        refine ⟨?_, ih2⟩
        intro v' hv'
        have := ih1 v' hv'; omega
    | began id => exact ⟨fun v hv => by have := ih1 v hv; omega, ih2⟩
    | unit => exact ⟨fun v hv => by have := ih1 v hv; omega, ih2⟩
    | conflict => exact ⟨fun v hv => by have := ih1 v hv; omega, ih2⟩
    | notFound => exact ⟨fun v hv => by have := ih1 v hv; omega, ih2⟩
    | notActive => exact ⟨fun v hv => by have := ih1 v hv; omega, ih2⟩
    | aborted => exact ⟨fun v hv => by have := ih1 v hv; omega, ih2⟩

/-! ### the abstract log only grows, `began` only gains the freshly allocated id -/

theorem astep_grows (a : AState) (op : Op) :
    (∃ ext, (astep a op).1.log = a.log ++ ext)
    ∧ a.core.nextId ≤ (astep a op).1.core.nextId
    ∧ ∀ t, t < a.core.nextId → lookup (astep a op).1.began t = lookup a.began t := by
  have hn := coreStep_nextId a.core (conflictS a) op
  unfold astep
  rcases hres : coreStep a.core (conflictS a) op with ⟨c', out, ctx⟩
  rw [hres] at hn
  simp only at hn
  have hle : a.core.nextId ≤ c'.nextId := by
    rw [hn]; cases op <;> simp
  cases ctx with
  | some x => exact ⟨⟨_, rfl⟩, hle, fun t _ => rfl⟩
  | none =>
    cases op with
    | begin iso =>
      refine ⟨⟨[], by simp⟩, hle, ?_⟩
      intro t ht
      exact lookup_cons_ne _ _ _ _ (by omega)
    | _ => exact ⟨⟨[], by simp⟩, hle, fun t _ => rfl⟩

theorem afoldl_grows (a : AState) (ops : List Op) :
    (∃ ext, (ops.foldl (fun s op => (astep s op).1) a).log = a.log ++ ext)
    ∧ a.core.nextId ≤ (ops.foldl (fun s op => (astep s op).1) a).core.nextId
    ∧ ∀ t, t < a.core.nextId →
        lookup (ops.foldl (fun s op => (astep s op).1) a).began t = lookup a.began t := by
  induction ops generalizing a with
  | nil => exact ⟨⟨[], by simp⟩, Nat.le_refl _, fun _ _ => rfl⟩
  | cons op ops ih =>
    obtain ⟨⟨e1, h1⟩, h2, h3⟩ := astep_grows a op
    obtain ⟨⟨e2, h4⟩, h5, h6⟩ := ih (astep a op).1
    simp only [List.foldl_cons]
    refine ⟨⟨e1 ++ e2, by rw [h4, h1, List.append_assoc]⟩, by omega, ?_⟩
    intro t ht
    rw [h6 t (by omega), h3 t ht]

end SgModel.Txn
