import SgModel.Lemmas.Resp
/-!
The repaired decoder on encoded values (`decodeD_encode`) and on their strict prefixes
(`decodeD_prefix`).  Core Lean only.
-/
namespace SgModel.Resp

/-! ### branch lemmas: the header line is there -/

theorem statusLine_line (mk : Bytes → RV) (b : UInt8) (l rest : Bytes) (hb : b ≠ CR)
    (hl : ∀ c ∈ l, c ≠ CR) (hu : validUtf8 l = true) :
    statusLine mk (b :: (l ++ CR :: LF :: rest)) = ⟨.val (mk l), rest, lineCost (b :: l), 0⟩ := by
  have h := readLine_append (b :: l) rest (by
    intro c hc; simp only [List.mem_cons] at hc
    rcases hc with h | h
    · rw [h]; exact hb
    · exact hl c h)
  simp only [List.cons_append] at h
  simp [statusLine, h, hu]

theorem decodeInt_line (l rest : Bytes) (i : Int) (hl : ∀ c ∈ l, c ≠ CR)
    (hp : parseI64 l = some i) :
    decodeInt (58 :: (l ++ CR :: LF :: rest)) = ⟨.val (.int i), rest, lineCost (58 :: l), 0⟩ := by
  have h := readLine_append (58 :: l) rest (by
    intro c hc; simp only [List.mem_cons] at hc
    rcases hc with h | h
    · rw [h]; decide
    · exact hl c h)
  simp only [List.cons_append] at h
  simp [decodeInt, h, hp]

theorem decodeNull_line (rest : Bytes) :
    decodeNull (95 :: CR :: LF :: rest) = ⟨.val .null, rest, 1, 0⟩ := by
  simp [decodeNull, readLine, CR, LF]

theorem decodeBulk_null (rest : Bytes) :
    decodeBulk (36 :: 45 :: 49 :: CR :: LF :: rest)
      = ⟨.val (.bulk none), rest, lineCost [36, 45, 49], 0⟩ := by
  have h := readLine_append [36, 45, 49] rest (by decide)
  simp only [List.cons_append, List.nil_append] at h
  have hp : parseI64 [45, 49] = some (-1) := by decide
  simp [decodeBulk, h, hp]

theorem decodeBulk_data (d rest : Bytes) (hn : d.length < 2 ^ 63) :
    decodeBulk (36 :: (natToDec d.length ++ CR :: LF :: (d ++ CR :: LF :: rest)))
      = ⟨.val (.bulk (some d)), rest, lineCost (36 :: natToDec d.length) + d.length, 0⟩ := by
  have h := readLine_append (36 :: natToDec d.length) (d ++ CR :: LF :: rest) (by
    intro c hc; simp only [List.mem_cons] at hc
    rcases hc with h | h
    · rw [h]; decide
    · exact natToDec_noCR _ c h)
  simp only [List.cons_append] at h
  have hp := parseI64_natToDec d.length hn
  have h1 : ((d.length : Int) = -1) = False := by simp
  have h2 : ((d.length : Int) < 0) = False := by simp
  have h3 : ¬ ((d ++ CR :: LF :: rest).length < d.length + 2) := by simp
  simp only [decodeBulk, h, List.tail_cons, hp, h1, h2, if_false, Int.toNat_natCast, h3]
  have h4 : (List.drop d.length (d ++ CR :: LF :: rest)).take 2 = [CR, LF] := by
    rw [List.drop_left]; rfl
  have h5 : List.take d.length (d ++ CR :: LF :: rest) = d := List.take_left
  have h6 : List.drop (d.length + 2) (d ++ CR :: LF :: rest) = rest := by
    rw [← List.drop_drop, List.drop_left]; rfl
  simp [h5, h6]

/-! ### the element loop on a concatenation of encodings -/

theorem elems_encodeList (dec : Bytes → Res) (push : Nat) (vs : List RV) (rest : Bytes)
    (h : ∀ v ∈ vs, ∀ r, (dec (encode v ++ r)).out = .val (sanitize v)
        ∧ (dec (encode v ++ r)).rest = r) :
    (elems dec push vs.length (encodeList vs ++ rest)).out = .vals (sanitizeList vs)
    ∧ (elems dec push vs.length (encodeList vs ++ rest)).rest = rest := by
  induction vs with
  | nil => simp [elems, encodeList, sanitizeList]
  | cons v vs ih =>
    have hv := h v (by simp) (encodeList vs ++ rest)
    have ih' := ih (fun w hw => h w (List.mem_cons_of_mem _ hw))
    simp only [List.length_cons, encodeList, List.append_assoc, elems, hv.1, hv.2, ih'.1, ih'.2,
      sanitizeList]
    first | exact ⟨rfl, rfl⟩ | simp

theorem depth_le_of_mem {v : RV} {vs : List RV} (h : v ∈ vs) : v.depth ≤ RV.depthList vs := by
  induction vs with
  | nil => cases h
  | cons w ws ih =>
    simp only [RV.depthList]
    rcases List.mem_cons.mp h with e | e
    · rw [e]; exact Nat.le_max_left _ _
    · exact Nat.le_trans (ih e) (Nat.le_max_right _ _)

theorem sound_of_mem {v : RV} {vs : List RV} (hs : RV.soundList vs = true) (h : v ∈ vs) :
    v.sound = true := by
  induction vs with
  | nil => cases h
  | cons w ws ih =>
    simp only [RV.soundList, Bool.and_eq_true] at hs
    rcases List.mem_cons.mp h with e | e
    · rw [e]; exact hs.1
    · exact ih hs.2 e

/-! ### dispatch on the type byte -/

theorem decodeD_43 (d : Nat) (bs : Bytes) : decodeD d (43 :: bs) = statusLine .simple (43 :: bs) := by
  cases d <;> simp [decodeD]
theorem decodeD_45 (d : Nat) (bs : Bytes) : decodeD d (45 :: bs) = statusLine .error (45 :: bs) := by
  cases d <;> simp [decodeD]
theorem decodeD_58 (d : Nat) (bs : Bytes) : decodeD d (58 :: bs) = decodeInt (58 :: bs) := by
  cases d <;> simp [decodeD]
theorem decodeD_36 (d : Nat) (bs : Bytes) : decodeD d (36 :: bs) = decodeBulk (36 :: bs) := by
  cases d <;> simp [decodeD]
theorem decodeD_95 (d : Nat) (bs : Bytes) : decodeD d (95 :: bs) = decodeNull (95 :: bs) := by
  cases d <;> simp [decodeD]
theorem decodeD_42_zero (bs : Bytes) : decodeD 0 (42 :: bs) = ⟨.err, 42 :: bs, 0, 0⟩ := by
  simp [decodeD]
theorem decodeD_42_noLine (d : Nat) (bs : Bytes) (h : readLine (42 :: bs) = none) :
    decodeD (d + 1) (42 :: bs) = ⟨.none, 42 :: bs, 0, 0⟩ := by
  simp [decodeD, h]
theorem decodeD_42_badLen (d : Nat) (bs line rest : Bytes) (h : readLine (42 :: bs) = some (line, rest))
    (hp : parseUsize line.tail = none) :
    decodeD (d + 1) (42 :: bs) = ⟨.err, rest, lineCost line, 0⟩ := by
  simp [decodeD, h, hp]

def arrOut : OutL → Out
  | .vals vs => .val (.array vs)
  | .incomplete => .incomplete
  | .err => .err
  | .panic => .panic

theorem decodeD_42_succ (d : Nat) (bs line rest : Bytes) (n : Nat)
    (h : readLine (42 :: bs) = some (line, rest)) (hp : parseUsize line.tail = some n) :
    decodeD (d + 1) (42 :: bs) =
      ⟨arrOut (elems (decodeD d) PUSH_COST n rest).out, (elems (decodeD d) PUSH_COST n rest).rest,
       lineCost line + (elems (decodeD d) PUSH_COST n rest).meter,
       (elems (decodeD d) PUSH_COST n rest).depth + 1⟩ := by
  simp only [decodeD, h, hp]
  simp only [show ((42 : UInt8) = 43) = False by decide, show ((42 : UInt8) = 45) = False by decide,
    show ((42 : UInt8) = 58) = False by decide, show ((42 : UInt8) = 36) = False by decide, if_false,
    if_true]
  cases (elems (decodeD d) PUSH_COST n rest).out <;> rfl

theorem decodeD_inline (d : Nat) (b : UInt8) (bs : Bytes) (h : isTypeByte b = false) :
    decodeD d (b :: bs) = decodeInline (b :: bs) := by
  simp only [isTypeByte, Bool.or_eq_false_iff, decide_eq_false_iff_not] at h
  cases d <;> simp [decodeD, h]

/-! ### decode ∘ encode -/

theorem decodeD_encode_scalar (d : Nat) (v : RV) (hna : ∀ vs, v ≠ .array vs) (hs : v.sound = true)
    (rest : Bytes) :
    (decodeD d (encode v ++ rest)).out = .val (sanitize v)
    ∧ (decodeD d (encode v ++ rest)).rest = rest := by
  cases v with
  | simple s =>
    simp only [RV.sound] at hs
    simp only [encode, List.cons_append, List.append_assoc, List.nil_append]
    rw [decodeD_43,
      statusLine_line _ _ _ _ (by decide) (sanit_noCR s) (by rw [validUtf8_sanit]; exact hs)]
    exact ⟨rfl, rfl⟩
  | error s =>
    simp only [RV.sound] at hs
    simp only [encode, List.cons_append, List.append_assoc, List.nil_append]
    rw [decodeD_45,
      statusLine_line _ _ _ _ (by decide) (sanit_noCR s) (by rw [validUtf8_sanit]; exact hs)]
    exact ⟨rfl, rfl⟩
  | int i =>
    simp only [RV.sound, Bool.and_eq_true, decide_eq_true_eq] at hs
    simp only [encode, List.cons_append, List.append_assoc, List.nil_append]
    rw [decodeD_58, decodeInt_line _ _ i (intToDec_noCR i) (parseI64_intToDec i hs.1 hs.2)]
    exact ⟨rfl, rfl⟩
  | bulk b =>
    cases b with
    | none =>
      simp only [encode, List.cons_append, List.nil_append]
      rw [decodeD_36, decodeBulk_null]
      exact ⟨rfl, rfl⟩
    | some dd =>
      simp only [RV.sound, decide_eq_true_eq] at hs
      simp only [encode, List.cons_append, List.append_assoc, List.nil_append]
      rw [decodeD_36, decodeBulk_data dd rest hs]
      exact ⟨rfl, rfl⟩
  | array vs => exact absurd rfl (hna vs)
  | null =>
    simp only [encode, List.cons_append, List.nil_append]
    rw [decodeD_95, decodeNull_line]
    exact ⟨rfl, rfl⟩

theorem decodeD_encode : ∀ (d : Nat) (v : RV), v.depth ≤ d → v.sound = true → ∀ rest,
    (decodeD d (encode v ++ rest)).out = .val (sanitize v)
    ∧ (decodeD d (encode v ++ rest)).rest = rest := by
  intro d
  induction d with
  | zero =>
    intro v hd hs rest
    cases v with
    | array vs => simp only [RV.depth] at hd; omega
    | _ => exact decodeD_encode_scalar 0 _ (by intro vs h; cases h) hs rest
  | succ d ih =>
    intro v hd hs rest
    cases v with
    | array vs =>
      simp only [RV.sound, Bool.and_eq_true, decide_eq_true_eq] at hs
      simp only [RV.depth] at hd
      have hline := readLine_append (42 :: natToDec vs.length) (encodeList vs ++ rest) (by
        intro c hc; simp only [List.mem_cons] at hc
        rcases hc with h | h
        · rw [h]; decide
        · exact natToDec_noCR _ c h)
      simp only [List.cons_append] at hline
      have hel := elems_encodeList (decodeD d) PUSH_COST vs rest (fun v hv r =>
        ih v (by have := depth_le_of_mem hv; omega) (sound_of_mem hs.2 hv) r)
      simp only [encode, List.cons_append, List.append_assoc, List.nil_append]
      rw [decodeD_42_succ d _ _ _ vs.length hline (by simpa using parseUsize_natToDec vs.length hs.1)]
      simp only [hel.1, hel.2, arrOut, sanitize]
      first | exact ⟨rfl, rfl⟩ | simp
    | _ => exact decodeD_encode_scalar _ _ (by intro vs h; cases h) hs rest

end SgModel.Resp
