import SgModel.Model.Route
/-!
Helper lemmas for C23: the word scanner `scan` inverts `render` on valid token sequences,
whatever the separators and the case of the letters.
-/
namespace SgModel.Route

theorem flush_nil : flush [] = [] := rfl

theorem flush_ne {w : List Char} (h : w ≠ []) : flush w = [w] := by
  cases w with
  | nil => exact absurd rfl h
  | cons a t => rfl

theorem quote_not_word {q : Char} (h : isQuote q = true) : isWordChar q = false := by
  simp only [isQuote, Bool.or_eq_true, beq_iff_eq] at h
  rcases h with (h | h) | h <;> subst h <;> decide

/-- a run of word characters is appended (upper-cased) to the word being read -/
theorem scan_word (w : List Char) (hw : w.all isWordChar = true) (cur rest : List Char) :
    scan .code cur (w ++ rest) = scan .code (cur ++ up w) rest := by
  induction w generalizing cur with
  | nil => simp [up]
  | cons c cs ih =>
    simp only [List.all_cons, Bool.and_eq_true] at hw
    simp only [List.cons_append, scan, hw.1, if_true]
    rw [ih hw.2]
    simp [up, List.append_assoc]

/-- a character that is neither a word character nor a quote ends the current word -/
theorem scan_other (c : Char) (h1 : isWordChar c = false) (h2 : isQuote c = false)
    (h3 : (c == '/') = false) (cur rest : List Char) :
    scan .code cur (c :: rest) = flush cur ++ scan .code [] rest := by
  simp [scan, h1, h2, h3]

/-- a line comment is skipped up to and including its line feed -/
theorem scan_line_body (s : List Char) (hs : s.all (fun c => c != '\n') = true)
    (cur rest : List Char) :
    scan .line cur (s ++ '\n' :: rest) = scan .code cur rest := by
  induction s with
  | nil => simp [scan]
  | cons c cs ih =>
    simp only [List.all_cons, Bool.and_eq_true, bne_iff_ne, ne_eq] at hs
    have h1 : (c == '\n') = false := by simpa using hs.1
    simp only [List.cons_append, scan, h1]
    exact ih hs.2

/-- a block comment without `*` inside is skipped up to and including `*/` -/
theorem scan_block_body (s : List Char) (hs : s.all (fun c => c != '*') = true)
    (cur rest : List Char) :
    scan .block cur (s ++ '*' :: '/' :: rest) = scan .code cur rest := by
  induction s with
  | nil => simp [scan]
  | cons c cs ih =>
    simp only [List.all_cons, Bool.and_eq_true, bne_iff_ne, ne_eq] at hs
    have h1 : (c == '*') = false := by simpa using hs.1
    simp only [List.cons_append, scan, h1]
    exact ih hs.2

theorem quote_not_backslash {q : Char} (h : isQuote q = true) : (q == '\\') = false := by
  simp only [isQuote, Bool.or_eq_true, beq_iff_eq] at h
  rcases h with (h | h) | h <;> subst h <;> decide

/-- quoted text without its own delimiter and without backslashes is skipped -/
theorem scan_str_body (q : Char) (hq : isQuote q = true) (s : List Char)
    (hs : s.all (fun c => c != q && c != '\\') = true) (cur rest : List Char) :
    scan (.str q) cur (s ++ q :: rest) = scan .code cur rest := by
  induction s with
  | nil => simp [scan, quote_not_backslash hq]
  | cons c cs ih =>
    simp only [List.all_cons, Bool.and_eq_true, bne_iff_ne, ne_eq] at hs
    have h1 : (c == '\\') = false := by simpa using hs.1.2
    have h2 : (c == q) = false := by simpa using hs.1.1
    simp only [List.cons_append, scan, h1, h2]
    exact ih hs.2

/-- inside quoted text a run without delimiter and backslash is skipped -/
theorem scan_str_seg (q : Char) (s : List Char) (hs : cleanSeg q s = true) (cur rest : List Char) :
    scan (.str q) cur (s ++ rest) = scan (.str q) cur rest := by
  induction s with
  | nil => rfl
  | cons c cs ih =>
    simp only [cleanSeg, List.all_cons, Bool.and_eq_true, bne_iff_ne, ne_eq] at hs
    have h1 : (c == '\\') = false := by simpa using hs.1.2
    have h2 : (c == q) = false := by simpa using hs.1.1
    simp only [List.cons_append, scan, h1, h2]
    exact ih (by simpa [cleanSeg] using hs.2)

/-- …and so is every segment that ends in an escaped delimiter -/
theorem scan_esc_body (q : Char) (segs : List (List Char)) (hs : segs.all (cleanSeg q) = true)
    (cur rest : List Char) :
    scan (.str q) cur (escBody q segs ++ rest) = scan (.str q) cur rest := by
  induction segs with
  | nil => rfl
  | cons a r ih =>
    simp only [List.all_cons, Bool.and_eq_true] at hs
    have e : escBody q (a :: r) ++ rest = a ++ ('\\' :: q :: (escBody q r ++ rest)) := by
      simp [escBody]
    rw [e, scan_str_seg q a hs.1]
    have h1 : scan (.str q) cur ('\\' :: q :: (escBody q r ++ rest))
        = scan (.str q) cur (escBody q r ++ rest) := by
      simp [scan]
    rw [h1, ih hs.2]

/-- a separator ends the current word and contributes nothing -/
theorem scan_sep (s : Sep) (hs : s ≠ .none) (cur rest : List Char) :
    scan .code cur (s.chars ++ rest) = flush cur ++ scan .code [] rest := by
  cases s with
  | none => exact absurd rfl hs
  | sp => exact scan_other ' ' (by decide) (by decide) (by decide) cur rest
  | tab => exact scan_other '\t' (by decide) (by decide) (by decide) cur rest
  | lf => exact scan_other '\n' (by decide) (by decide) (by decide) cur rest
  | crlf =>
    show scan .code cur ('\r' :: '\n' :: rest) = _
    rw [scan_other '\r' (by decide) (by decide) (by decide), scan_other '\n' (by decide) (by decide) (by decide)]
    simp [flush_nil]

theorem scan_sep_nil (s : Sep) (rest : List Char) :
    scan .code [] (s.chars ++ rest) = scan .code [] rest := by
  by_cases h : s = .none
  · subst h; rfl
  · rw [scan_sep s h]; simp [flush_nil]

theorem up_ne_nil {w : List Char} (h : w ≠ []) : up w ≠ [] := by
  cases w with
  | nil => exact absurd rfl h
  | cons a t => simp [up]

/-- The scanner recovers exactly the words of a valid token sequence.  `cur` may hold a
pending word only when the sequence does not continue it. -/
theorem scan_render_gen (xs : List (Tok × Sep)) :
    ∀ cur : List Char, valid xs = true → (cur = [] ∨ startsWord xs = false) →
      scan .code cur (render xs) = flush cur ++ wordsOf xs := by
  induction xs with
  | nil => intro cur _ _; simp [render, scan, wordsOf]
  | cons x r ih =>
    intro cur hv hc
    obtain ⟨t, s⟩ := x
    cases t with
    | word w =>
      have hcur : cur = [] := by
        rcases hc with h | h
        · exact h
        · simp [startsWord] at h
      subst hcur
      simp only [valid, Tok.wf, Bool.and_eq_true, Bool.not_eq_true', List.isEmpty_eq_false_iff] at hv
      obtain ⟨⟨⟨hne, hall⟩, hglue⟩, hvr⟩ := hv
      simp only [render, Tok.chars, wordsOf, flush_nil, List.nil_append]
      rw [scan_word w hall]
      simp only [List.nil_append]
      by_cases hs : s = .none
      · subst hs
        simp only [Bool.not_eq_true'] at hglue
        simp only [Sep.chars, List.nil_append]
        rw [ih (up w) hvr (Or.inr hglue), flush_ne (up_ne_nil hne)]
        rfl
      · rw [scan_sep s hs, ih [] hvr (Or.inl rfl), flush_ne (up_ne_nil hne)]
        simp [flush_nil]
    | str q body =>
      simp only [valid, Tok.wf, Bool.and_eq_true] at hv
      obtain ⟨⟨⟨hq, hbody⟩, _⟩, hvr⟩ := hv
      have hr : render ((Tok.str q body, s) :: r) = q :: (body ++ q :: (s.chars ++ render r)) := by
        simp [render, Tok.chars]
      have h1 : scan .code cur (q :: (body ++ q :: (s.chars ++ render r)))
          = flush cur ++ scan (.str q) [] (body ++ q :: (s.chars ++ render r)) := by
        simp [scan, quote_not_word hq, hq]
      rw [hr, h1, scan_str_body q hq body hbody, scan_sep_nil, ih [] hvr (Or.inl rfl)]
      simp [flush_nil, wordsOf]
    | strEsc q segs last =>
      simp only [valid, Tok.wf, Bool.and_eq_true] at hv
      obtain ⟨⟨⟨⟨hq, hsegs⟩, hlast⟩, _⟩, hvr⟩ := hv
      have hlast' : last.all (fun c => c != q && c != '\\') = true := hlast
      have hr : render ((Tok.strEsc q segs last, s) :: r)
          = q :: (escBody q segs ++ (last ++ q :: (s.chars ++ render r))) := by
        simp [render, Tok.chars]
      have h1 : scan .code cur (q :: (escBody q segs ++ (last ++ q :: (s.chars ++ render r))))
          = flush cur ++ scan (.str q) [] (escBody q segs ++ (last ++ q :: (s.chars ++ render r))) := by
        simp [scan, quote_not_word hq, hq]
      rw [hr, h1, scan_esc_body q segs hsegs, scan_str_body q hq last hlast', scan_sep_nil,
        ih [] hvr (Or.inl rfl)]
      simp [flush_nil, wordsOf]
    | sym c =>
      simp only [valid, Tok.wf, Bool.and_eq_true, Bool.not_eq_true', bne_iff_ne, ne_eq] at hv
      obtain ⟨⟨⟨⟨hw, hq⟩, hsl⟩, _⟩, hvr⟩ := hv
      have hsl' : (c == '/') = false := by simpa using hsl
      simp only [render, Tok.chars, wordsOf, List.cons_append, List.nil_append]
      rw [scan_other c hw hq hsl', scan_sep_nil, ih [] hvr (Or.inl rfl)]
      simp [flush_nil]
    | lineComment body =>
      simp only [valid, Tok.wf, Bool.and_eq_true] at hv
      obtain ⟨⟨hbody, _⟩, hvr⟩ := hv
      have hr : render ((Tok.lineComment body, s) :: r)
          = '/' :: '/' :: (body ++ '\n' :: (s.chars ++ render r)) := by
        simp [render, Tok.chars]
      have h1 : scan .code cur ('/' :: '/' :: (body ++ '\n' :: (s.chars ++ render r)))
          = flush cur ++ scan .line [] (body ++ '\n' :: (s.chars ++ render r)) := by
        have a : isWordChar '/' = false := by decide
        have b : isQuote '/' = false := by decide
        simp [scan, a, b]
      rw [hr, h1, scan_line_body body hbody, scan_sep_nil, ih [] hvr (Or.inl rfl)]
      simp [flush_nil, wordsOf]
    | blockComment body =>
      simp only [valid, Tok.wf, Bool.and_eq_true] at hv
      obtain ⟨⟨hbody, _⟩, hvr⟩ := hv
      have hr : render ((Tok.blockComment body, s) :: r)
          = '/' :: '*' :: (body ++ '*' :: '/' :: (s.chars ++ render r)) := by
        simp [render, Tok.chars]
      have h1 : scan .code cur ('/' :: '*' :: (body ++ '*' :: '/' :: (s.chars ++ render r)))
          = flush cur ++ scan .block [] (body ++ '*' :: '/' :: (s.chars ++ render r)) := by
        have a : isWordChar '/' = false := by decide
        have b : isQuote '/' = false := by decide
        have c : ('*' == '/') = false := by decide
        simp [scan, a, b, c]
      rw [hr, h1, scan_block_body body hbody, scan_sep_nil, ih [] hvr (Or.inl rfl)]
      simp [flush_nil, wordsOf]

theorem scan_lead (lead : List Sep) (rest : List Char) :
    scan .code [] (leadChars lead ++ rest) = scan .code [] rest := by
  induction lead with
  | nil => rfl
  | cons a r ih => simp only [leadChars, List.append_assoc]; rw [scan_sep_nil, ih]

theorem scan_render (xs : List (Tok × Sep)) (hv : valid xs = true) :
    scan .code [] (render xs) = wordsOf xs := by
  rw [scan_render_gen xs [] hv (Or.inl rfl)]; simp [flush_nil]

theorem scan_renderL (lead : List Sep) (xs : List (Tok × Sep)) (hv : valid xs = true) :
    scan .code [] (renderL lead xs) = wordsOf xs := by
  unfold renderL
  rw [scan_lead, scan_render xs hv]

end SgModel.Route
