import SgModel.Model.Txn
/-!
Helper lemmas for C09 (`Props/C09.lean`): shape of one `coreStep`, well-formedness of the
transaction table, and the simulation relation between the code-shaped machine `I`
(`step`, last-commit maps) and the abstract first-committer-wins machine `S` (`astep`, log).
-/
namespace SgModel.Txn

/-! ### shape of one step on the shared part -/

/-- how `coreStep` can change the shared part -/
inductive CoreStep (c c' : Core) : Prop where
  | begin (iso : Iso)
      (ht : c'.txns = c.txns ++ [{ id := c.nextId, iso := iso, status := .active, start := c.cur }])
      (hn : c'.nextId = c.nextId + 1) (hc : c'.cur = c.cur)
  | map (g : Txn → Txn)
      (hg : ∀ x, (g x).id = x.id ∧ (g x).iso = x.iso ∧ (g x).start = x.start
                 ∧ ((g x).status = .active → x.status = .active))
      (ht : c'.txns = c.txns.map g) (hn : c'.nextId = c.nextId) (hc : c.cur ≤ c'.cur)
  | filter (p : Txn → Bool)
      (ht : c'.txns = c.txns.filter p) (hn : c'.nextId = c.nextId) (hc : c'.cur = c.cur)

theorem coreStep_id (c : Core) : CoreStep c c :=
  .map id (fun _ => ⟨rfl, rfl, rfl, fun h => h⟩) (by simp) rfl (Nat.le_refl _)

theorem setTxn_shape (c : Core) (t : Nat) (f : Txn → Txn) (k : Nat)
    (hf : ∀ x, (f x).id = x.id ∧ (f x).iso = x.iso ∧ (f x).start = x.start
               ∧ ((f x).status = .active → x.status = .active)) :
    CoreStep c { setTxn c t f with cur := c.cur + k } := by
  refine .map (fun x => if x.id == t then f x else x) ?_ rfl rfl (Nat.le_add_right _ _)
  intro x
  by_cases h : (x.id == t) = true
  · simp only [h, if_true]; exact hf x
  · simp only [h]; exact ⟨rfl, rfl, rfl, fun h => h⟩

theorem coreStep_shape (c : Core) (f : Txn → Bool) (op : Op) :
    CoreStep c (coreStep c f op).1 := by
  cases op with
  | begin iso => exact .begin iso rfl rfl rfl
  | writeNode t n => exact setTxn_shape c t _ 0 (fun x => ⟨rfl, rfl, rfl, fun h => h⟩)
  | writeEdge t e => exact setTxn_shape c t _ 0 (fun x => ⟨rfl, rfl, rfl, fun h => h⟩)
  | commit t =>
    simp only [coreStep]
    cases hft : findTxn c t with
    | none => exact coreStep_id c
    | some x =>
      simp only
      split
      · exact coreStep_id c
      · split
        · exact setTxn_shape c t _ 0 (fun x => ⟨rfl, rfl, rfl, fun h => by simp at h⟩)
        · exact setTxn_shape c t (fun y => { y with status := .committed, commitV := some (c.cur + 1) }) 1
            (fun x => ⟨rfl, rfl, rfl, fun h => by simp at h⟩)
  | abort t =>
    simp only [coreStep]
    cases hft : findTxn c t with
    | none => exact coreStep_id c
    | some x =>
      simp only
      split
      · exact coreStep_id c
      · exact setTxn_shape c t _ 0 (fun x => ⟨rfl, rfl, rfl, fun h => by simp at h⟩)
  | bump => exact .map id (fun _ => ⟨rfl, rfl, rfl, fun h => h⟩) (by simp [coreStep]) rfl (Nat.le_succ _)
  | gc w => exact .filter _ rfl rfl rfl

/-! ### well-formed transaction table: ids are below `next_txn_id` and pairwise distinct -/

structure WF (c : Core) : Prop where
  lt : ∀ x ∈ c.txns, x.id < c.nextId
  uniq : c.txns.Pairwise (fun a b => a.id ≠ b.id)

theorem wf_init : WF {} := ⟨fun x hx => by simp at hx, List.Pairwise.nil⟩

theorem wf_of_shape {c c' : Core} (h : CoreStep c c') (w : WF c) : WF c' := by
  cases h with
  | begin iso ht hn hc =>
    refine ⟨?_, ?_⟩
    · intro x hx
      rw [ht] at hx
      rcases List.mem_append.mp hx with hx | hx
      · have := w.lt x hx; omega
      · simp only [List.mem_singleton] at hx; subst hx; simp only; omega
    · rw [ht, List.pairwise_append]
      refine ⟨w.uniq, List.pairwise_singleton _ _, ?_⟩
      intro a ha b hb
      simp only [List.mem_singleton] at hb; subst hb
      have := w.lt a ha; simp only; omega
  | map g hg ht hn hc =>
    refine ⟨?_, ?_⟩
    · intro x hx
      rw [ht] at hx
      rcases List.mem_map.mp hx with ⟨y, hy, rfl⟩
      rw [(hg y).1, hn]; exact w.lt y hy
    · rw [ht, List.pairwise_map]
      exact w.uniq.imp (fun {a b} hab => by rw [(hg a).1, (hg b).1]; exact hab)
  | filter p ht hn hc =>
    refine ⟨?_, ?_⟩
    · intro x hx
      rw [ht] at hx
      rw [hn]; exact w.lt x (List.mem_filter.mp hx).1
    · rw [ht]; exact w.uniq.filter _

theorem wf_coreStep {c : Core} (f : Txn → Bool) (op : Op) (w : WF c) : WF (coreStep c f op).1 :=
  wf_of_shape (coreStep_shape c f op) w

theorem findTxn_some {c : Core} {t : Nat} {x : Txn} (h : findTxn c t = some x) :
    x ∈ c.txns ∧ x.id = t := by
  unfold findTxn at h
  exact ⟨List.mem_of_find?_eq_some h, by simpa using List.find?_some h⟩

theorem findTxn_none {c : Core} {t : Nat} (h : findTxn c t = none) : ∀ x ∈ c.txns, x.id ≠ t := by
  unfold findTxn at h
  intro x hx
  have := List.find?_eq_none.mp h x hx
  simpa using this

theorem findTxn_of_mem {c : Core} (w : WF c) {x : Txn} (hx : x ∈ c.txns) :
    findTxn c x.id = some x := by
  unfold findTxn
  have huniq := w.uniq
  revert hx huniq
  generalize c.txns = l
  intro hx huniq
  induction l with
  | nil => cases hx
  | cons a l ih =>
    rw [List.pairwise_cons] at huniq
    rcases List.mem_cons.mp hx with rfl | hx
    · simp
    · have hne : a.id ≠ x.id := huniq.1 x hx
      have hb : (a.id == x.id) = false := by simpa using hne
      rw [List.find?_cons, hb]
      exact ih hx huniq.2

/-! ### the conflict test is only ever applied to a transaction of the table -/

theorem coreStep_congr (c : Core) (f g : Txn → Bool) (h : ∀ x ∈ c.txns, f x = g x) (op : Op) :
    coreStep c f op = coreStep c g op := by
  cases op with
  | commit t =>
    simp only [coreStep]
    cases hft : findTxn c t with
    | none => rfl
    | some x => simp only [h x (findTxn_some hft).1]
  | _ => rfl

/-- the only step that yields a committed transaction is a successful `commit` -/
theorem coreStep_some {c c' : Core} {f : Txn → Bool} {op : Op} {out : Out} {x : Txn}
    (h : coreStep c f op = (c', out, some x)) :
    ∃ t, op = .commit t ∧ findTxn c t = some x ∧ x.status = .active ∧ f x = false
      ∧ c'.cur = c.cur + 1 ∧ out = .committed (c.cur + 1) := by
  cases op with
  | commit t =>
    simp only [coreStep] at h
    cases hft : findTxn c t with
    | none => simp [hft] at h
    | some y =>
      simp only [hft] at h
      split at h
      · simp at h
      · rename_i hst
        split at h
        · simp at h
        · rename_i hcf
          simp only [Prod.mk.injEq, Option.some.injEq] at h
          obtain ⟨h1, h2, h3⟩ := h
          subst h3
          refine ⟨t, rfl, hft, ?_, by simpa using hcf, by rw [← h1], h2.symm⟩
          simpa using hst
  | begin iso => simp [coreStep] at h
  | writeNode t n => simp [coreStep] at h
  | writeEdge t e => simp [coreStep] at h
  | abort t =>
    simp only [coreStep] at h
    cases hft : findTxn c t with
    | none => simp [hft] at h
    | some y =>
      simp only [hft] at h
      split at h <;> simp at h
  | bump => simp [coreStep] at h
  | gc w => simp [coreStep] at h

/-! ### the simulation relation between `I` and `S` -/

def laterK (m : LastMap) (k start : Nat) : Bool :=
  match lookup m k with | some c => decide (start < c) | none => false

theorem laterIn_eq (m : LastMap) (ks : List Nat) (start : Nat) :
    laterIn m ks start = ks.any (fun k => laterK m k start) := rfl

theorem lookup_stamp (m : LastMap) (ks : List Nat) (v k : Nat) :
    lookup (stamp m ks v) k = if k ∈ ks then some v else lookup m k := by
  unfold lookup stamp
  induction ks with
  | nil => simp
  | cons a ks ih =>
    by_cases hak : a = k
    · subst hak; simp
    · have hb : (a == k) = false := by simpa using hak
      have hka : ¬ k = a := fun h => hak h.symm
      simp only [List.map_cons, List.cons_append, List.find?_cons, hb, List.mem_cons, hka, false_or]
      exact ih

theorem laterK_stamp (m : LastMap) (ks : List Nat) (v k st : Nat) :
    laterK (stamp m ks v) k st = if k ∈ ks then decide (st < v) else laterK m k st := by
  unfold laterK
  rw [lookup_stamp]
  by_cases h : k ∈ ks <;> simp [h]

/-- position `b` splits the log into the entries at or below `start` and those above it -/
def Split (log : List Entry) (cur b start : Nat) : Prop :=
  b ≤ log.length ∧ start ≤ cur ∧ (∀ e ∈ log.take b, e.v ≤ start) ∧ (∀ e ∈ log.drop b, start < e.v)

theorem Split.mono {log ext : List Entry} {cur cur' b start : Nat} (h : Split log cur b start)
    (hc : cur ≤ cur') (hext : ∀ e ∈ ext, cur < e.v) : Split (log ++ ext) cur' b start := by
  obtain ⟨h1, h2, h3, h4⟩ := h
  refine ⟨by rw [List.length_append]; omega, by omega, ?_, ?_⟩
  · intro e he
    rw [List.take_append_of_le_length h1] at he
    exact h3 e he
  · intro e he
    rw [List.drop_append_of_le_length h1] at he
    rcases List.mem_append.mp he with he | he
    · exact h4 e he
    · have := hext e he; omega

theorem Split.mem_drop_iff {log : List Entry} {cur b start : Nat} (h : Split log cur b start)
    (e : Entry) : (e ∈ log ∧ start < e.v) ↔ e ∈ log.drop b := by
  obtain ⟨_, _, h3, h4⟩ := h
  constructor
  · rintro ⟨he, hv⟩
    rw [← List.take_append_drop b log] at he
    rcases List.mem_append.mp he with he | he
    · have := h3 e he; omega
    · exact he
  · intro he
    exact ⟨List.mem_of_mem_drop he, h4 e he⟩

structure Rel (s : State) (a : AState) : Prop where
  core : s.core = a.core
  wf : WF a.core
  nodes : ∀ k st, laterK s.nodeLast k st = true ↔ ∃ e ∈ a.log, k ∈ e.nodes ∧ st < e.v
  edges : ∀ k st, laterK s.edgeLast k st = true ↔ ∃ e ∈ a.log, k ∈ e.edges ∧ st < e.v
  le_cur : ∀ e ∈ a.log, e.v ≤ a.core.cur
  split : ∀ x ∈ a.core.txns, Split a.log a.core.cur ((lookup a.began x.id).getD 0) x.start

theorem rel_init : Rel {} {} where
  core := rfl
  wf := wf_init
  nodes := by intro k st; simp [laterK, lookup]
  edges := by intro k st; simp [laterK, lookup]
  le_cur := by intro e he; simp at he
  split := by intro x hx; simp at hx

theorem conflict_agree {s : State} {a : AState} (r : Rel s a) {x : Txn} (hx : x ∈ a.core.txns) :
    conflictI s x = conflictS a x := by
  have hs := r.split x hx
  rw [Bool.eq_iff_iff]
  simp only [conflictI, laterIn_eq, conflictS, since, Entry.hits, meets, Bool.or_eq_true,
    List.any_eq_true, r.nodes, r.edges, List.contains_iff_mem]
  constructor
  · rintro (⟨k, hk, e, he, hke, hv⟩ | ⟨k, hk, e, he, hke, hv⟩)
    · exact ⟨e, (hs.mem_drop_iff e).mp ⟨he, hv⟩, Or.inl ⟨k, hk, hke⟩⟩
    · exact ⟨e, (hs.mem_drop_iff e).mp ⟨he, hv⟩, Or.inr ⟨k, hk, hke⟩⟩
  · rintro ⟨e, he, (⟨k, hk, hke⟩ | ⟨k, hk, hke⟩)⟩
    · have := (hs.mem_drop_iff e).mpr he
      exact Or.inl ⟨k, hk, e, this.1, hke, this.2⟩
    · have := (hs.mem_drop_iff e).mpr he
      exact Or.inr ⟨k, hk, e, this.1, hke, this.2⟩

theorem lookup_cons_ne (m : LastMap) (k v k' : Nat) (h : k ≠ k') :
    lookup ((k, v) :: m) k' = lookup m k' := by
  have hb : (k == k') = false := by simpa using h
  simp [lookup, hb]

theorem lookup_cons_self (m : LastMap) (k v : Nat) : lookup ((k, v) :: m) k = some v := by
  simp [lookup]

theorem coreStep_nextId (c : Core) (f : Txn → Bool) (op : Op) :
    (coreStep c f op).1.nextId = (match op with | .begin _ => c.nextId + 1 | _ => c.nextId) := by
  cases op with
  | commit t =>
    simp only [coreStep]
    cases findTxn c t with
    | none => rfl
    | some x =>
      simp only
      split
      · rfl
      · split <;> rfl
  | abort t =>
    simp only [coreStep]
    cases findTxn c t with
    | none => rfl
    | some x =>
      simp only
      split <;> rfl
  | _ => rfl

/-- `Split` of every transaction of the table survives a step that maps or filters the
table, leaves `began` alone and appends `ext` (entries above the old current version) -/
theorem split_of_shape {c c' : Core} {log ext : List Entry} {began : List (Nat × Nat)}
    (hsh : CoreStep c c') (hn : c'.nextId = c.nextId)
    (hs : ∀ x ∈ c.txns, Split log c.cur ((lookup began x.id).getD 0) x.start)
    (hext : ∀ e ∈ ext, c.cur < e.v) :
    ∀ x ∈ c'.txns, Split (log ++ ext) c'.cur ((lookup began x.id).getD 0) x.start := by
  intro x hx
  cases hsh with
  | begin iso ht hn' hc => omega
  | map g hg ht hn' hc =>
    rw [ht] at hx
    rcases List.mem_map.mp hx with ⟨y, hy, rfl⟩
    rw [(hg y).1, (hg y).2.2.1]
    exact (hs y hy).mono hc hext
  | filter p ht hn' hc =>
    rw [ht] at hx
    exact (hs x (List.mem_filter.mp hx).1).mono (Nat.le_of_eq hc.symm) hext

theorem shape_cur_le {c c' : Core} (h : CoreStep c c') : c.cur ≤ c'.cur := by
  cases h with
  | begin iso ht hn hc => omega
  | map g hg ht hn hc => exact hc
  | filter p ht hn hc => omega

/-- a step that leaves the log and `began` alone -/
theorem rel_same_log {s : State} {a : AState} (r : Rel s a) {c' : Core}
    (hsh : CoreStep a.core c') (hn : c'.nextId = a.core.nextId) (hwf' : WF c') :
    Rel { s with core := c' } { a with core := c' } where
  core := rfl
  wf := hwf'
  nodes := r.nodes
  edges := r.edges
  le_cur := by
    intro e he
    have := r.le_cur e he
    have := shape_cur_le hsh
    simp only; omega
  split := by
    have := split_of_shape (ext := []) hsh hn r.split (by simp)
    simpa using this

theorem rel_step {s : State} {a : AState} (r : Rel s a) (op : Op) :
    Rel (step s op).1 (astep a op).1 ∧ (step s op).2 = (astep a op).2 := by
  have hcs : coreStep s.core (conflictI s) op = coreStep a.core (conflictS a) op := by
    rw [r.core]
    exact coreStep_congr _ _ _ (fun x hx => conflict_agree r hx) op
  have hshape := coreStep_shape a.core (conflictS a) op
  have hwf' := wf_coreStep (conflictS a) op r.wf
  have hnext := coreStep_nextId a.core (conflictS a) op
  unfold step astep
  rw [hcs]
  rcases hres : coreStep a.core (conflictS a) op with ⟨c', out, ctx⟩
  rw [hres] at hshape hwf' hnext
  simp only at hshape hwf' hnext
  cases ctx with
  | some x =>
    obtain ⟨t, hop, hft, hact, hcf, hcur, hout⟩ := coreStep_some hres
    subst hop
    simp only at hnext ⊢
    refine ⟨?_, trivial⟩
    refine ⟨rfl, hwf', ?_, ?_, ?_, ?_⟩
    · intro k st
      simp only [laterK_stamp]
      constructor
      · intro h
        by_cases hk : k ∈ x.nodeW
        · simp only [hk, if_true, decide_eq_true_eq] at h
          exact ⟨_, List.mem_append_right _ (List.mem_singleton.mpr rfl), hk, h⟩
        · simp only [hk, if_false] at h
          obtain ⟨e, he, h1, h2⟩ := (r.nodes k st).mp h
          exact ⟨e, List.mem_append_left _ he, h1, h2⟩
      · rintro ⟨e, he, h1, h2⟩
        rcases List.mem_append.mp he with he | he
        · by_cases hk : k ∈ x.nodeW
          · simp only [hk, if_true, decide_eq_true_eq]
            have := r.le_cur e he; omega
          · simp only [hk, if_false]
            exact (r.nodes k st).mpr ⟨e, he, h1, h2⟩
        · simp only [List.mem_singleton] at he; subst he
          simp only at h1 h2
          simp [h1, h2]
    · intro k st
      simp only [laterK_stamp]
      constructor
      · intro h
        by_cases hk : k ∈ x.edgeW
        · simp only [hk, if_true, decide_eq_true_eq] at h
          exact ⟨_, List.mem_append_right _ (List.mem_singleton.mpr rfl), hk, h⟩
        · simp only [hk, if_false] at h
          obtain ⟨e, he, h1, h2⟩ := (r.edges k st).mp h
          exact ⟨e, List.mem_append_left _ he, h1, h2⟩
      · rintro ⟨e, he, h1, h2⟩
        rcases List.mem_append.mp he with he | he
        · by_cases hk : k ∈ x.edgeW
          · simp only [hk, if_true, decide_eq_true_eq]
            have := r.le_cur e he; omega
          · simp only [hk, if_false]
            exact (r.edges k st).mpr ⟨e, he, h1, h2⟩
        · simp only [List.mem_singleton] at he; subst he
          simp only at h1 h2
          simp [h1, h2]
    · intro e he
      rcases List.mem_append.mp he with he | he
      · have := r.le_cur e he; simp only; omega
      · simp only [List.mem_singleton] at he; subst he; exact Nat.le_refl _
    · apply split_of_shape hshape hnext r.split
      intro e he; simp only [List.mem_singleton] at he; subst he; simp only; omega
  | none =>
    cases op with
    | begin iso =>
      simp only [coreStep, Prod.mk.injEq, and_true] at hres
      obtain ⟨hc', hout⟩ := hres
      subst hc'
      simp only
      refine ⟨⟨rfl, hwf', r.nodes, r.edges, ?_, ?_⟩, trivial⟩
      · intro e he; exact r.le_cur e he
      · intro x hx
        simp only at hx ⊢
        rcases List.mem_append.mp hx with hx | hx
        · have hlt := r.wf.lt x hx
          rw [lookup_cons_ne _ _ _ _ (by omega)]
          exact r.split x hx
        · simp only [List.mem_singleton] at hx; subst hx
          simp only [lookup_cons_self, Option.getD_some]
          refine ⟨Nat.le_refl _, Nat.le_refl _, ?_, ?_⟩
          · intro e he; rw [List.take_length] at he; exact r.le_cur e he
          · intro e he; rw [List.drop_length] at he; simp at he
    | writeNode t n => exact ⟨rel_same_log r hshape hnext hwf', rfl⟩
    | writeEdge t e => exact ⟨rel_same_log r hshape hnext hwf', rfl⟩
    | commit t => exact ⟨rel_same_log r hshape hnext hwf', rfl⟩
    | abort t => exact ⟨rel_same_log r hshape hnext hwf', rfl⟩
    | bump => exact ⟨rel_same_log r hshape hnext hwf', rfl⟩
    | gc w => exact ⟨rel_same_log r hshape hnext hwf', rfl⟩

end SgModel.Txn
