import SgModel.Model.Quorum
/-! Helper lemmas for C33 (core Lean only). -/
namespace SgModel.Quorum

theorem mem_dedup {l : List Nat} {x : Nat} : x ∈ dedup l ↔ x ∈ l := by
  induction l with
  | nil => simp [dedup]
  | cons a t ih =>
    simp only [dedup, List.contains_iff_mem]
    by_cases h : a ∈ t
    · simp only [h, if_true, ih, List.mem_cons]
      constructor
      · intro hx; exact Or.inr hx
      · intro hx
        rcases hx with rfl | hx
        · exact h
        · exact hx
    · simp only [h, if_false, List.mem_cons, ih]

theorem nodup_dedup (l : List Nat) : (dedup l).Nodup := by
  induction l with
  | nil => simp [dedup]
  | cons a t ih =>
    simp only [dedup, List.contains_iff_mem]
    by_cases h : a ∈ t
    · simpa only [h, if_true] using ih
    · simp only [h, if_false]
      refine List.nodup_cons.mpr ⟨?_, ih⟩
      intro hm
      exact h (mem_dedup.mp hm)

theorem dedup_of_nodup {l : List Nat} (h : l.Nodup) : dedup l = l := by
  induction l with
  | nil => rfl
  | cons a t ih =>
    have ⟨h1, h2⟩ := List.nodup_cons.mp h
    simp only [dedup, List.contains_iff_mem, h1, if_false, ih h2]

theorem mem_voterIds {ns : List NodeCfg} {x : Nat} :
    x ∈ voterIds ns ↔ ∃ n ∈ ns, n.voter = true ∧ n.id = x := by
  unfold voterIds voters
  rw [mem_dedup, List.mem_map]
  constructor
  · rintro ⟨n, hn, rfl⟩
    rw [List.mem_filter] at hn
    exact ⟨n, hn.1, hn.2, rfl⟩
  · rintro ⟨n, hn, hv, rfl⟩
    exact ⟨n, List.mem_filter.mpr ⟨hn, hv⟩, rfl⟩

/-- inclusion–exclusion on one list: two sub-selections that together exceed the list overlap -/
theorem filter_length_add_le (l : List Nat) (p q : Nat → Bool) :
    (l.filter p).length + (l.filter q).length
      ≤ l.length + (l.filter (fun x => p x && q x)).length := by
  induction l with
  | nil => simp
  | cons a t ih =>
    simp only [List.filter_cons, List.length_cons]
    cases hp : p a <;> cases hq : q a <;> simp <;> omega

theorem exists_mem_of_filter_overlap {l : List Nat} {p q : Nat → Bool}
    (h : l.length < (l.filter p).length + (l.filter q).length) :
    ∃ x ∈ l, p x = true ∧ q x = true := by
  have h2 := filter_length_add_le l p q
  have hpos : 0 < (l.filter (fun x => p x && q x)).length := by omega
  obtain ⟨x, hx⟩ := List.exists_mem_of_length_pos hpos
  rw [List.mem_filter] at hx
  exact ⟨x, hx.1, by simpa using hx.2⟩

/-! distinctness of the membership list -/

def Distinct (ns : List NodeCfg) : Prop := (ns.map (·.id)).Nodup

theorem cfgAdd_ids (ns : List NodeCfg) (id : Nat) (v : Bool) :
    (cfgAdd ns id v).map (·.id)
      = if id ∈ ns.map (·.id) then ns.map (·.id) else ns.map (·.id) ++ [id] := by
  induction ns with
  | nil => simp [cfgAdd]
  | cons n rest ih =>
    unfold cfgAdd
    by_cases h : n.id = id
    · simp [h]
    · have h' : ¬ id = n.id := fun e => h e.symm
      simp only [beq_iff_eq, h, if_false, List.map_cons, ih, List.mem_cons, h', false_or]
      split <;> simp

theorem distinct_cfgAdd {ns : List NodeCfg} (h : Distinct ns) (id : Nat) (v : Bool) :
    Distinct (cfgAdd ns id v) := by
  unfold Distinct at *
  rw [cfgAdd_ids]
  split
  · exact h
  · rename_i hnot
    rw [List.nodup_append]
    refine ⟨h, by simp, ?_⟩
    intro a ha b hb
    simp only [List.mem_singleton] at hb
    subst hb
    intro e; subst e; exact hnot ha

theorem distinct_filter {ns : List NodeCfg} (h : Distinct ns) (p : NodeCfg → Bool) :
    Distinct (ns.filter p) := by
  unfold Distinct at *
  exact List.Nodup.sublist (List.Sublist.map _ List.filter_sublist) h

theorem distinct_step {s : State} (h : Distinct s.nodes) (op : Op)
    (hop : ∀ ns, op = .updateConfig ns → Distinct ns) : Distinct (step s op).nodes := by
  cases op with
  | add id v => exact distinct_cfgAdd h id v
  | remove id => exact distinct_filter h _
  | markActive id => exact h
  | markInactive id => exact h
  | role id r => exact h
  | updateConfig ns =>
    simp only [step, stepWith]
    split
    · exact hop ns rfl
    · exact h

/-! the role map: keys stay unique, so the probes see every leader -/

def KeysNodup (m : List (Nat × Role)) : Prop := (m.map (·.1)).Nodup

theorem keysNodup_filter {m : List (Nat × Role)} (h : KeysNodup m) (p : Nat × Role → Bool) :
    KeysNodup (m.filter p) :=
  List.Nodup.sublist (List.Sublist.map _ List.filter_sublist) h

theorem keysNodup_mapInsert {m : List (Nat × Role)} (h : KeysNodup m) (k : Nat) (r : Role) :
    KeysNodup (mapInsert m k r) := by
  unfold mapInsert KeysNodup
  rw [List.map_append, List.nodup_append]
  refine ⟨keysNodup_filter h _, by simp, ?_⟩
  intro a ha b hb
  simp only [List.map_cons, List.map_nil, List.mem_singleton] at hb
  subst hb
  rw [List.mem_map] at ha
  obtain ⟨e, he, rfl⟩ := ha
  rw [List.mem_filter] at he
  simpa using he.2

theorem keysNodup_mapUpdate {m : List (Nat × Role)} (h : KeysNodup m) (k : Nat) (r : Role) :
    KeysNodup (mapUpdate m k r) := by
  unfold mapUpdate KeysNodup at *
  have : (m.map (fun e => if e.1 == k then (k, r) else e)).map (·.1) = m.map (·.1) := by
    rw [List.map_map]
    apply List.map_congr_left
    intro e _
    simp only [Function.comp]
    split
    · rename_i hk; simp only [beq_iff_eq] at hk; exact hk.symm
    · rfl
  rw [this]; exact h

theorem keysNodup_foldl_insert (ns : List NodeCfg) (m : List (Nat × Role)) (h : KeysNodup m) :
    KeysNodup (ns.foldl (fun m n => mapInsert m n.id (initialRole n.voter)) m) := by
  induction ns generalizing m with
  | nil => exact h
  | cons n rest ih => exact ih _ (keysNodup_mapInsert h _ _)

theorem keysNodup_step {s : State} (h : KeysNodup s.roles) (op : Op) :
    KeysNodup (step s op).roles := by
  cases op with
  | add id v => exact keysNodup_mapInsert h _ _
  | remove id => exact keysNodup_filter h _
  | markActive id => exact h
  | markInactive id => exact h
  | role id r => exact keysNodup_mapUpdate h _ _
  | updateConfig ns =>
    simp only [step, stepWith]
    split <;> exact h

theorem keysNodup_run {s : State} (h : KeysNodup s.roles) (ops : List Op) :
    KeysNodup (run s ops).roles := by
  induction ops generalizing s with
  | nil => exact h
  | cons o ops ih => exact ih (keysNodup_step h o)

theorem keysNodup_mk {ns : List NodeCfg} {rf : Nat} {s : State} (h : mk ns rf = some s) :
    KeysNodup s.roles := by
  unfold mk at h
  split at h
  · simp only [Option.some.injEq] at h
    subst h
    exact keysNodup_foldl_insert ns [] (by simp [KeysNodup])
  · simp at h

/-- with unique keys, the lookup of the key of any entry returns that entry's role -/
theorem mapGet_of_mem {m : List (Nat × Role)} (h : KeysNodup m) {e : Nat × Role} (he : e ∈ m) :
    mapGet m e.1 = some e.2 := by
  induction m with
  | nil => simp at he
  | cons a t ih =>
    unfold KeysNodup at h
    rw [List.map_cons, List.nodup_cons] at h
    unfold mapGet
    rw [List.find?_cons]
    rcases List.mem_cons.mp he with rfl | het
    · simp
    · have hne : a.1 ≠ e.1 := by
        intro heq
        exact h.1 (heq ▸ List.mem_map.mpr ⟨e, het, rfl⟩)
      have : (a.1 == e.1) = false := by simpa using hne
      simp only [this]
      exact ih h.2 het

/-! membership operations have exactly their effect on the configuration -/

theorem cfgAdd_any (ns : List NodeCfg) (id : Nat) (v : Bool) :
    (cfgAdd ns id v).any (fun n => n.id == id && n.voter == v) = true := by
  induction ns with
  | nil => simp [cfgAdd]
  | cons n rest ih =>
    unfold cfgAdd
    split
    · simp
    · rw [List.any_cons, ih]; simp

theorem mem_cfgAdd_of_ne {ns : List NodeCfg} {id : Nat} {v : Bool} {n : NodeCfg}
    (h : n ∈ ns) (hne : n.id ≠ id) : n ∈ cfgAdd ns id v := by
  induction ns with
  | nil => simp at h
  | cons a rest ih =>
    unfold cfgAdd
    rcases List.mem_cons.mp h with rfl | hm
    · have : (n.id == id) = false := by simpa using hne
      simp [this]
    · split
      · exact List.mem_cons_of_mem _ hm
      · exact List.mem_cons_of_mem _ (ih hm)

theorem mem_of_mem_cfgAdd_ne {ns : List NodeCfg} {id : Nat} {v : Bool} {n : NodeCfg}
    (h : n ∈ cfgAdd ns id v) (hne : n.id ≠ id) : n ∈ ns := by
  induction ns with
  | nil =>
    simp only [cfgAdd, List.mem_singleton] at h
    exact absurd (by rw [h]) hne
  | cons a rest ih =>
    unfold cfgAdd at h
    split at h
    · rcases List.mem_cons.mp h with rfl | hm
      · exact absurd rfl hne
      · exact List.mem_cons_of_mem _ hm
    · rcases List.mem_cons.mp h with rfl | hm
      · exact List.mem_cons_self
      · exact List.mem_cons_of_mem _ (ih hm)

theorem othersKept_of {id : Nat} {a b : List NodeCfg} (h : ∀ n ∈ a, n.id ≠ id → n ∈ b) :
    othersKept id a b = true := by
  unfold othersKept
  rw [List.all_eq_true]
  intro n hn
  by_cases hid : n.id = id
  · simp [hid]
  · simp [hid, h n hn hid]

end SgModel.Quorum
