import SgModel.Lemmas.MvccRead
/-!
The dump `obsG` read back: `nodeRead`/`edgeRead` of a dump are the model's reads.
-/
namespace SgModel.Mvcc

theorem nodeRead_obs (lg : Bool) (s : State) (out : Out) (i v : Nat) (hi : i < probeIds) (hv : v ≤ s.cur) :
    nodeRead (obsG lg s out) i v = getNodeAt s (i + 1) v := by
  have hv' : v < s.cur + 1 := by omega
  simp [nodeRead, obsG, hi, hv']

theorem edgeRead_obs (lg : Bool) (s : State) (out : Out) (i v : Nat) (hi : i < probeIds) (hv : v ≤ s.cur) :
    edgeRead (obsG lg s out) i v = getEdgeAt s (i + 1) v := by
  have hv' : v < s.cur + 1 := by omega
  simp [edgeRead, obsG, hi, hv']

theorem obs_cur (lg : Bool) (s : State) (out : Out) : (obsG lg s out).cur = s.cur := rfl
theorem obs_wm (lg : Bool) (s : State) (out : Out) : (obsG lg s out).wm = Txn.watermark s.txn.core := rfl

end SgModel.Mvcc
