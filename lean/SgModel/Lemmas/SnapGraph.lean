import SgModel.Lemmas.SnapJson
/-!
Graph-level lemmas for C12: the line codec, the import folds over the three sections of an
exported snapshot (declarations, nodes, relationships), the remap table, merged views.
-/
namespace SgModel.SnapJson

/-! ### line codec -/

theorem strList_map_str (l : List Str) : strList (l.map J.str) = some l := by
  induction l with
  | nil => rfl
  | cons a r ih => simp [strList, ih]

theorem parseLine_node (id : Nat) (labels : List Str) (props : List (Str × J)) :
    parseLine (lineToJ (.node id labels props)) = .node id labels props := by
  simp [lineToJ, parseLine, lookup, kT, kId, kLabels, kProps, sN, decodeNode, getU64, getStrList,
    getObj, strList_map_str]

theorem parseLine_edge (id src tgt : Nat) (ty : Str) (props : List (Str × J)) :
    parseLine (lineToJ (.edge id src tgt ty props)) = .edge id src tgt ty props := by
  simp [lineToJ, parseLine, lookup, kT, kId, kSrc, kTgt, kTy, kProps, sN, sE, sH, decodeEdge, getU64,
    getStr, getObj]

theorem parseLine_hier (h : HierS) : parseLine (lineToJ (.hier h)) = .hier h := by
  obtain ⟨n, ts, r, ml, mp, ops⟩ := h
  cases ml <;> cases mp <;>
    simp [lineToJ, parseLine, lookup, kT, kName, kEdgeTypes, kReverse, kMLabel, kMProp, kOps, sN,
      sH, decodeHier, getStr, getStrList, getBoolD, getOptStr, getStrListD, optStrJ,
      strList_map_str]

/-! ### folds -/

theorem foldLines_append (lg jr : Bool) (ks : List Str) (a b : List Line) : ∀ (s : Imp),
    foldLines lg jr ks s (a ++ b) =
      (match foldLines lg jr ks s a with
       | (s', true) => foldLines lg jr ks s' b
       | (s', false) => (s', false)) := by
  induction a with
  | nil => intro s; rfl
  | cons l r ih =>
    intro s
    simp only [List.cons_append, foldLines]
    cases stepLine lg jr ks s l with
    | none => rfl
    | some s' => exact ih s'

/-- the line the repaired exporter writes for a node -/
def nodeLine1 (n : NodeS) : Line := .node n.id n.labels (encKV false (exportProps false n.row n.col))

/-- the node the importer creates for it under store id `k` -/
def newNode (k : Nat) (n : NodeS) : NodeS :=
  let p := decKV false (encKV false (exportProps false n.row n.col))
  { id := k, labels := n.labels, col := nonNull p, row := p.filter (fun kv => !kv.2.isScalar) }

def impNodesFrom (k : Nat) : List NodeS → List NodeS
  | [] => []
  | n :: r => newNode k n :: impNodesFrom (k + 1) r

def remapFrom (k : Nat) : List NodeS → List (Nat × Nat) → List (Nat × Nat)
  | [], acc => acc
  | n :: r, acc => remapFrom (k + 1) r ((n.id, k) :: acc)

theorem foldLines_hier (hs : List HierS) : ∀ (s : Imp),
    foldLines false true [] s (hs.map hierLine) = ({ s with hier := hs.reverse ++ s.hier }, true) := by
  induction hs with
  | nil => intro s; rfl
  | cons h r ih =>
    intro s
    simp only [List.map_cons, foldLines, hierLine, stepLine]
    have := ih { s with hier := h :: s.hier }
    rw [this]
    simp

theorem foldLines_nodes (ns : List NodeS) : ∀ (s : Imp),
    ∃ s', foldLines false true [] s (ns.map nodeLine1) = (s', true)
      ∧ s'.st.nodes = s.st.nodes ++ impNodesFrom s.st.nextNode ns
      ∧ s'.remap = remapFrom s.st.nextNode ns s.remap
      ∧ s'.st.edges = s.st.edges ∧ s'.st.hier = s.st.hier ∧ s'.hier = s.hier
      ∧ s'.st.nextNode = s.st.nextNode + ns.length ∧ s'.st.nextEdge = s.st.nextEdge
      ∧ s'.nNodes = s.nNodes + ns.length ∧ s'.nEdges = s.nEdges ∧ s'.nMerged = s.nMerged := by
  induction ns with
  | nil => intro s; exact ⟨s, rfl, by simp [impNodesFrom], rfl, rfl, rfl, rfl, rfl, rfl, rfl, rfl, rfl⟩
  | cons n r ih =>
    intro s
    simp only [List.map_cons, foldLines, nodeLine1, stepLine, findExisting]
    obtain ⟨s', h1, h2, h3, h4, h5, h6, h7, h8, h9, h10, h11⟩ := ih
      { s with st := (createNode false n.labels (decKV false (encKV false (exportProps false n.row n.col))) s.st).1,
               created := s.st.nextNode :: s.created,
               dedup := registerDedup s.dedup n.labels (encKV false (exportProps false n.row n.col)) s.st.nextNode [],
               remap := (n.id, s.st.nextNode) :: s.remap, nNodes := s.nNodes + 1 }
    refine ⟨s', ?_, ?_, ?_, ?_, ?_, ?_, ?_, ?_, ?_, ?_, ?_⟩
    · simpa [nodeLine1, createNode] using h1
    · rw [h2]; simp [createNode, impNodesFrom, newNode]
    · rw [h3]; simp [createNode, remapFrom]
    · rw [h4]; simp [createNode]
    · rw [h5]; simp [createNode]
    · rw [h6]
    · rw [h7]; simp [createNode]; omega
    · rw [h8]; simp [createNode]
    · rw [h9]; simp; omega
    · rw [h10]
    · rw [h11]


/-- the line the repaired exporter writes for a relationship -/
def edgeLine1 (e : EdgeS) : Line := .edge e.id e.src e.tgt e.ty (encKV false e.props)

def impEdgesFrom (R : List (Nat × Nat)) (k : Nat) : List EdgeS → List EdgeS
  | [] => []
  | e :: r =>
      { id := k, src := (lookupNat e.src R).getD 0, tgt := (lookupNat e.tgt R).getD 0, ty := e.ty,
        props := decKV false (encKV false e.props) } :: impEdgesFrom R (k + 1) r

theorem foldLines_edges (es : List EdgeS) : ∀ (s : Imp),
    (∀ e ∈ es, (lookupNat e.src s.remap).isSome = true ∧ (lookupNat e.tgt s.remap).isSome = true) →
    ∃ s', foldLines false true [] s (es.map edgeLine1) = (s', true)
      ∧ s'.st.edges = s.st.edges ++ impEdgesFrom s.remap s.st.nextEdge es
      ∧ s'.st.nodes = s.st.nodes ∧ s'.st.hier = s.st.hier ∧ s'.hier = s.hier
      ∧ s'.remap = s.remap
      ∧ s'.nNodes = s.nNodes ∧ s'.nEdges = s.nEdges + es.length ∧ s'.nMerged = s.nMerged
      ∧ s'.st.lidx = s.st.lidx ∧ s'.st.nextNode = s.st.nextNode := by
  induction es with
  | nil => intro s _; exact ⟨s, rfl, by simp [impEdgesFrom], rfl, rfl, rfl, rfl, rfl, rfl, rfl, rfl, rfl⟩
  | cons e r ih =>
    intro s hs
    have he := hs e (List.mem_cons_self)
    obtain ⟨a, ha⟩ := Option.isSome_iff_exists.mp he.1
    obtain ⟨b, hb⟩ := Option.isSome_iff_exists.mp he.2
    simp only [List.map_cons, foldLines, edgeLine1, stepLine, ha, hb]
    obtain ⟨s', h1, h2, h3, h4, h5, h6, h7, h8, h9, h10, h11⟩ := ih
      { s with st := (createEdge a b e.ty (decKV false (encKV false e.props)) s.st).1,
               nEdges := s.nEdges + 1,
               journal := if (true && (!s.created.contains a && !s.created.contains b)) = true
                 then Undo.edge (createEdge a b e.ty (decKV false (encKV false e.props)) s.st).2 :: s.journal
                 else s.journal }
      (fun e' he' => hs e' (List.mem_cons_of_mem _ he'))
    refine ⟨s', ?_, ?_, ?_, ?_, ?_, ?_, ?_, ?_, ?_, ?_, ?_⟩
    · simpa [edgeLine1, createEdge] using h1
    · rw [h2]; simp [createEdge, impEdgesFrom, ha, hb]
    · rw [h3]; simp [createEdge]
    · rw [h4]; simp [createEdge]
    · rw [h5]
    · rw [h6]
    · rw [h7]
    · rw [h8]; simp; omega
    · rw [h9]
    · rw [h10]; simp [createEdge]
    · rw [h11]; simp [createEdge]

/-! ### the remap table -/

theorem lookupNat_remapFrom (ns : List NodeS) : ∀ (k : Nat) (acc : List (Nat × Nat)) (id : Nat),
    (ns.map (·.id)).Nodup →
    lookupNat id (remapFrom k ns acc) =
      if id ∈ ns.map (·.id) then some (k + (ns.map (·.id)).idxOf id) else lookupNat id acc := by
  induction ns with
  | nil => intro k acc id _; simp [remapFrom]
  | cons n r ih =>
    intro k acc id hnd
    simp only [List.map_cons, List.nodup_cons] at hnd
    simp only [remapFrom, List.map_cons]
    rw [ih (k + 1) _ id hnd.2]
    by_cases h1 : id = n.id
    · subst h1
      simp [hnd.1, lookupNat, List.idxOf_cons]
    · have h1' : ¬ n.id = id := fun h => h1 h.symm
      by_cases h2 : id ∈ r.map (·.id)
      · have hb : (n.id == id) = false := by simp [h1']
        simp only [h2, ↓reduceIte, List.mem_cons, or_true, List.idxOf_cons, hb, cond_false]
        congr 1; omega
      · simp [h2, h1, h1', lookupNat]

theorem ids_impNodesFrom (ns : List NodeS) : ∀ (k : Nat),
    (impNodesFrom k ns).map (·.id) = List.range' k ns.length := by
  induction ns with
  | nil => intro k; rfl
  | cons n r ih => intro k; simp [impNodesFrom, newNode, ih (k + 1), List.range'_succ]

theorem idxOf_range' (n : Nat) : ∀ (k j : Nat), j < n → (List.range' k n).idxOf (k + j) = j := by
  induction n with
  | zero => intro k j h; omega
  | succ m ih =>
    intro k j h
    rw [List.range'_succ, List.idxOf_cons]
    cases j with
    | zero => simp
    | succ j' =>
      have hb : (k == k + (j' + 1)) = false := by simp
      rw [hb, cond_false, show k + (j' + 1) = k + 1 + j' by omega, ih (k + 1) j' (by omega)]

/-! ### merged views -/

theorem nonNull_of_noNull {l : List (Str × PV)} (h : ∀ kv ∈ l, kv.2.isNull = false) :
    nonNull l = l := by
  unfold nonNull
  rw [List.filter_eq_self]
  intro kv hkv
  simp [h kv hkv]

theorem nonNull_noNull (l : List (Str × PV)) : ∀ kv ∈ nonNull l, kv.2.isNull = false := by
  intro kv hkv
  simp only [nonNull, List.mem_filter, Bool.not_eq_eq_eq_not, Bool.not_true] at hkv
  exact hkv.2

theorem snapOkKV_iff (l : List (Str × PV)) :
    snapOkKV l = true ↔ ∀ kv ∈ l, snapOk kv.2 = true := by
  induction l with
  | nil => simp [snapOkKV]
  | cons kv r ih =>
    obtain ⟨k, v⟩ := kv
    simp [snapOkKV, ih]

theorem lookup_mem {α : Type} {k : Str} {v : α} {l : List (Str × α)} (h : lookup k l = some v) :
    (k, v) ∈ l := by
  induction l with
  | nil => simp [lookup] at h
  | cons kv r ih =>
    obtain ⟨k', v'⟩ := kv
    simp only [lookup] at h
    split at h
    · rename_i hk
      simp only [beq_iff_eq] at hk
      simp only [Option.some.injEq] at h
      subst hk; subst h
      exact List.mem_cons_self
    · exact List.mem_cons_of_mem _ (ih h)

/-- well-formedness of one node's property storage -/
structure NodeWF (n : NodeS) : Prop where
  rowOk : ∀ kv ∈ n.row, snapOk kv.2 = true ∧ kv.2.isNull = false
  colOk : ∀ kv ∈ n.col, snapOk kv.2 = true

theorem exportProps_eq_mergedView {n : NodeS} (_h : NodeWF n) :
    exportProps false n.row n.col = mergedView n := by
  simp [exportProps, mergedView]

theorem mergedView_ok {n : NodeS} (h : NodeWF n) :
    snapOkKV (mergedView n) = true ∧ ∀ kv ∈ mergedView n, kv.2.isNull = false := by
  constructor
  · rw [snapOkKV_iff]
    intro kv hkv
    simp only [mergedView, List.mem_append, List.mem_filter] at hkv
    rcases hkv with hkv | hkv
    · exact h.colOk kv (List.mem_filter.mp hkv).1
    · exact (h.rowOk kv hkv.1).1
  · intro kv hkv
    simp only [mergedView, List.mem_append, List.mem_filter] at hkv
    rcases hkv with hkv | hkv
    · exact nonNull_noNull n.col kv hkv
    · exact (h.rowOk kv hkv.1).2

theorem mergedView_newNode (k : Nat) {n : NodeS} (h : NodeWF n) :
    mergedView (newNode k n) = mergedView n := by
  have hok := mergedView_ok h
  have hp : decKV false (encKV false (exportProps false n.row n.col)) = mergedView n := by
    rw [exportProps_eq_mergedView h, decKV_encKV _ hok.1]
  unfold newNode
  simp only [hp]
  have hnn : nonNull (mergedView n) = mergedView n := nonNull_of_noNull hok.2
  show nonNull (nonNull (mergedView n)) ++ List.filter _ (List.filter _ (mergedView n)) = mergedView n
  rw [hnn, hnn]
  have : List.filter (fun kv => !(keys (mergedView n)).contains kv.1)
      (List.filter (fun kv => !kv.2.isScalar) (mergedView n)) = [] := by
    rw [List.filter_eq_nil_iff]
    intro kv hkv
    have hmem : kv ∈ mergedView n := (List.mem_filter.mp hkv).1
    have : kv.1 ∈ keys (mergedView n) := List.mem_map_of_mem hmem
    simp [this]
  rw [this, List.append_nil]

/-! ### hierarchy declarations -/

theorem addHier_fresh (decls : List HierS) : ∀ (st : St) (c : Nat),
    ((st.hier.map (·.name)) ++ decls.map (·.name)).Nodup → (∀ h ∈ decls, normHier h = h) →
    decls.foldl (fun (acc : St × Nat) h =>
      if (acc.1.hier.map (·.name)).contains h.name then acc
      else ({ acc.1 with hier := acc.1.hier ++ [normHier h] }, acc.2 + 1)) (st, c)
      = ({ st with hier := st.hier ++ decls }, c + decls.length) := by
  induction decls with
  | nil => intro st c _ _; simp
  | cons d r ih =>
    intro st c hnd hnorm
    simp only [List.foldl_cons]
    have hd : (List.map (fun x => x.name) st.hier).contains d.name = false := by
      rw [List.contains_eq_mem]
      simp only [decide_eq_false_iff_not]
      intro hmem
      rw [List.map_cons, List.nodup_append] at hnd
      exact hnd.2.2 _ hmem _ List.mem_cons_self rfl
    simp only [hd, Bool.false_eq_true, ↓reduceIte, hnorm d List.mem_cons_self]
    rw [ih]
    · simp [Nat.add_assoc, Nat.add_comm 1]
    · simp only [List.map_append, List.map_cons, List.map_nil, List.append_assoc,
        List.cons_append, List.nil_append]
      simpa using hnd
    · exact fun h hh => hnorm h (List.mem_cons_of_mem _ hh)

end SgModel.SnapJson
