import SgModel.Lemmas.RespCodec
/-!
Locality of the repaired decoder: a decoded value depends only on the bytes the cursor passed.
If `decodeD d b` yields a value and leaves `rest`, then `b = used ++ rest` and decoding
`used ++ rest'` yields the same value and leaves `rest'`, for every `rest'`.  Used for the
forwarding proxy (whatever the owning node sends, the relayed bytes are one frame).
Core Lean only.
-/
namespace SgModel.Resp

theorem readLine_local {b l r : Bytes} (h : readLine b = some (l, r)) (r' : Bytes) :
    readLine (l ++ CR :: LF :: r') = some (l, r') := by
  induction b generalizing l r with
  | nil => simp [readLine] at h
  | cons a t ih =>
    cases t with
    | nil => simp [readLine] at h
    | cons c u =>
      simp only [readLine] at h
      split at h
      · simp only [Option.some.injEq, Prod.mk.injEq] at h
        rw [← h.1]; simp [readLine]
      · rename_i hne
        split at h
        · rename_i l' r0 hrec
          simp only [Option.some.injEq, Prod.mk.injEq] at h
          obtain ⟨h1, h2⟩ := h
          subst h1 h2
          have ih' := ih hrec
          have hb := readLine_some hrec
          -- l' ++ CR :: LF :: r' starts with c (if l' ≠ []) or with CR (then c = CR)
          cases l' with
          | nil =>
            simp only [List.nil_append] at hb ih' ⊢
            have hc : c = CR := by
              have := congrArg List.head? hb; simpa using this
            have hane : ¬ (a = CR ∧ CR = LF) := by intro h; exact absurd h.2 (by decide)
            simp [readLine, hane, CR, LF]
          | cons x xs =>
            have hx : x = c := by
              have := congrArg List.head? hb; simp at this; exact this.symm
            subst hx
            have hne' : ¬ (a = CR ∧ x = LF) := hne
            simp only [List.cons_append] at ih' ⊢
            simp only [readLine, hne', if_false, ih']
        · cases h

/-- the statement, for a function from buffers to cursor-level results -/
def LocalAt (f : Bytes → Res) (b : Bytes) : Prop :=
  ∀ v, (f b).out = .val v →
    ∃ used, used ≠ [] ∧ b = used ++ (f b).rest ∧ used.head? = b.head?
      ∧ ∀ r', (f (used ++ r')).out = .val v ∧ (f (used ++ r')).rest = r'

theorem line_used_ne (line r : Bytes) : line ++ CR :: LF :: r ≠ [] := by
  cases line <;> simp

theorem head_line (line r r' : Bytes) :
    (line ++ [CR, LF] ++ r').head? = (line ++ CR :: LF :: r).head? := by
  cases line <;> simp

theorem statusLine_local (mk : Bytes → RV) (b : Bytes) : LocalAt (statusLine mk) b := by
  intro v hv
  unfold statusLine at hv ⊢
  split at hv
  · cases hv
  · rename_i line rest h
    have hb := readLine_some h
    split at hv
    · rename_i hu
      simp only [Out.val.injEq] at hv
      refine ⟨line ++ [CR, LF], by cases line <;> simp, by simp [h, hu, hb], by rw [hb]; cases line <;> simp, ?_⟩
      intro r'
      have := readLine_local h r'
      simp only [List.append_assoc, List.cons_append, List.nil_append, this, hu, if_true, hv]
      first | exact ⟨rfl, rfl⟩ | simp
    · cases hv

theorem decodeInt_local (b : Bytes) : LocalAt decodeInt b := by
  intro v hv
  unfold decodeInt at hv ⊢
  split at hv
  · cases hv
  · rename_i line rest h
    have hb := readLine_some h
    split at hv
    · rename_i i hp
      simp only [Out.val.injEq] at hv
      refine ⟨line ++ [CR, LF], by cases line <;> simp, by simp [h, hp, hb], by rw [hb]; cases line <;> simp, ?_⟩
      intro r'
      have := readLine_local h r'
      simp only [List.append_assoc, List.cons_append, List.nil_append, this, hp, hv]
      first | exact ⟨rfl, rfl⟩ | simp
    · cases hv

theorem decodeNull_local (b : Bytes) : LocalAt decodeNull b := by
  intro v hv
  unfold decodeNull at hv ⊢
  split at hv
  · cases hv
  · rename_i line rest h
    have hb := readLine_some h
    split at hv
    · rename_i hl
      simp only [Out.val.injEq] at hv
      refine ⟨line ++ [CR, LF], by cases line <;> simp, by simp [h, hl, hb], by rw [hb]; cases line <;> simp, ?_⟩
      intro r'
      have := readLine_local h r'
      simp only [List.append_assoc, List.cons_append, List.nil_append, this, hl, if_true, hv]
      first | exact ⟨rfl, rfl⟩ | simp
    · cases hv

theorem decodeInline_local (b : Bytes) : LocalAt decodeInline b := by
  intro v hv
  unfold decodeInline at hv ⊢
  split at hv
  · cases hv
  · rename_i line rest h
    have hb := readLine_some h
    split at hv
    · rename_i hu
      split at hv
      · cases hv
      · rename_i t ts htok
        simp only [Out.val.injEq] at hv
        refine ⟨line ++ [CR, LF], by cases line <;> simp, by simp [h, hu, htok, hb], by rw [hb]; cases line <;> simp, ?_⟩
        intro r'
        have := readLine_local h r'
        simp only [List.append_assoc, List.cons_append, List.nil_append, this, hu, if_true, htok, hv]
        first | exact ⟨rfl, rfl⟩ | simp
      · cases hv
    · cases hv

theorem bulk_tail (data r' : Bytes) :
    ¬ ((data ++ CR :: LF :: r').length < data.length + 2)
    ∧ ((data ++ CR :: LF :: r').drop data.length).take 2 = [CR, LF]
    ∧ (data ++ CR :: LF :: r').take data.length = data
    ∧ (data ++ CR :: LF :: r').drop (data.length + 2) = r' := by
  refine ⟨by simp, ?_, List.take_left, ?_⟩
  · rw [List.drop_left]; rfl
  · rw [← List.drop_drop, List.drop_left]; rfl

theorem decodeBulk_local (b : Bytes) : LocalAt decodeBulk b := by
  intro v hv
  unfold decodeBulk at hv ⊢
  split at hv
  · cases hv
  · rename_i line rest h
    have hb := readLine_some h
    split at hv
    · cases hv
    · rename_i len hp
      split at hv
      · -- null bulk
        rename_i hm1
        simp only [Out.val.injEq] at hv
        refine ⟨line ++ [CR, LF], by cases line <;> simp, by simp [h, hp, hm1, hb],
          by rw [hb]; cases line <;> simp, ?_⟩
        intro r'
        have := readLine_local h r'
        simp only [List.append_assoc, List.cons_append, List.nil_append, this, hp, hm1, if_true, hv]
        first | exact ⟨rfl, rfl⟩ | simp
      · rename_i hm1
        split at hv
        · cases hv
        · rename_i hneg
          simp only at hv
          split at hv
          · cases hv
          · rename_i hlen
            split at hv
            · rename_i hcrlf
              simp only [Out.val.injEq] at hv
              have hlen' : len.toNat + 2 ≤ rest.length := Nat.le_of_not_lt hlen
              -- rest = data ++ [CR, LF] ++ tail
              have hsplit : rest = rest.take len.toNat ++ (CR :: LF :: rest.drop (len.toNat + 2)) := by
                have h1 : rest = rest.take len.toNat ++ rest.drop len.toNat := (List.take_append_drop _ _).symm
                have h2 : rest.drop len.toNat = (rest.drop len.toNat).take 2 ++ (rest.drop len.toNat).drop 2 :=
                  (List.take_append_drop _ _).symm
                rw [hcrlf, List.drop_drop] at h2
                rw [h2] at h1
                simpa using h1
              have htl : (rest.take len.toNat).length = len.toNat := by
                rw [List.length_take]; omega
              refine ⟨line ++ [CR, LF] ++ rest.take len.toNat ++ [CR, LF], by cases line <;> simp, ?_,
                by rw [hb]; cases line <;> simp, ?_⟩
              · simp only [h, hp, hm1, hneg, if_false, hlen, hcrlf, if_true]
                rw [hb]
                simp only [List.append_assoc, List.cons_append, List.nil_append]
                congr 1
                rw [Nat.add_comm] at hsplit
                rw [Nat.add_comm]
                exact congrArg (fun x => CR :: LF :: x) rfl ▸ (by
                  have := hsplit
                  simpa [Nat.add_comm] using this)
              · intro r'
                have hl := readLine_local h (rest.take len.toNat ++ CR :: LF :: r')
                have e : line ++ [CR, LF] ++ rest.take len.toNat ++ [CR, LF] ++ r'
                    = line ++ CR :: LF :: (rest.take len.toNat ++ CR :: LF :: r') := by simp
                rw [e]
                have ht := bulk_tail (rest.take len.toNat) r'
                rw [htl] at ht
                obtain ⟨a1, a2, a3, a4⟩ := ht
                simp only [hl, hp, hm1, hneg, if_false, a1, a2, if_true, a3, a4, hv]
                first | exact ⟨rfl, rfl⟩ | simp
            · cases hv

theorem decodeD_nil'' (d : Nat) : decodeD d [] = ⟨.none, [], 0, 0⟩ := by
  cases d <;> rfl

/-- transport `LocalAt` along a dispatch equation `g (x :: t) = f (x :: t)` -/
theorem local_via (f g : Bytes → Res) {x : UInt8} (hd : ∀ t, g (x :: t) = f (x :: t)) (bs : Bytes)
    (h : LocalAt f (x :: bs)) : LocalAt g (x :: bs) := by
  intro v hv
  rw [hd] at hv
  obtain ⟨used, hne, hb, hh, hr⟩ := h v hv
  obtain ⟨u, hu⟩ : ∃ u, used = x :: u := by
    cases used with
    | nil => exact absurd rfl hne
    | cons y u => simp at hh; exact ⟨u, by rw [hh]⟩
  refine ⟨used, hne, by rw [hd]; exact hb, hh, ?_⟩
  intro r'
  have := hr r'
  rw [hu] at this ⊢
  simp only [List.cons_append] at this ⊢
  rw [hd]; exact this

def LocalL (f : Bytes → ResL) (b : Bytes) : Prop :=
  ∀ vs, (f b).out = .vals vs →
    ∃ used, b = used ++ (f b).rest
      ∧ ∀ r', (f (used ++ r')).out = .vals vs ∧ (f (used ++ r')).rest = r'

theorem elems_local (dec : Bytes → Res) (push : Nat) (hdec : ∀ b, LocalAt dec b) :
    ∀ (n : Nat) (b : Bytes), LocalL (elems dec push n) b := by
  intro n
  induction n with
  | zero =>
    intro b vs hv
    simp only [elems, OutL.vals.injEq] at hv
    exact ⟨[], by simp [elems], fun r' => by simp [elems, hv]⟩
  | succ n ih =>
    intro b ws hv
    simp only [elems] at hv
    split at hv
    · rename_i v hval
      simp only at hv
      split at hv
      · rename_i vs' hvs'
        simp only [OutL.vals.injEq] at hv
        obtain ⟨u1, _, hb1, _, h1⟩ := hdec b v hval
        obtain ⟨u2, hb2, h2⟩ := ih (dec b).rest vs' hvs'
        refine ⟨u1 ++ u2, ?_, ?_⟩
        · simp only [elems, hval]
          rw [List.append_assoc, ← hb2, ← hb1]
        · intro r'
          have a := h1 (u2 ++ r')
          have c := h2 r'
          simp only [List.append_assoc, elems, a.1, a.2, c.1, c.2, hv]
          first | exact ⟨rfl, rfl⟩ | simp
      · rename_i o hne
        -- the inner loop did not produce a list: the whole result is not a list either
        cases ho : (elems dec push n (dec b).rest).out with
        | vals vs' => exact absurd ho (by intro h; exact hne vs' h)
        | incomplete => rw [ho] at hv; cases hv
        | err => rw [ho] at hv; cases hv
        | panic => rw [ho] at hv; cases hv
    · cases hv
    · cases hv
    · cases hv
    · cases hv

theorem decodeD_local : ∀ (d : Nat) (b : Bytes), LocalAt (decodeD d) b := by
  intro d
  induction d with
  | zero =>
    intro b
    cases b with
    | nil => intro v hv; rw [decodeD_nil''] at hv; cases hv
    | cons x bs =>
      by_cases h43 : x = 43
      · subst h43; exact local_via (statusLine .simple) (decodeD 0) (fun t => decodeD_43 0 t) bs (statusLine_local _ _)
      by_cases h45 : x = 45
      · subst h45; exact local_via (statusLine .error) (decodeD 0) (fun t => decodeD_45 0 t) bs (statusLine_local _ _)
      by_cases h58 : x = 58
      · subst h58; exact local_via decodeInt (decodeD 0) (fun t => decodeD_58 0 t) bs (decodeInt_local _)
      by_cases h36 : x = 36
      · subst h36; exact local_via decodeBulk (decodeD 0) (fun t => decodeD_36 0 t) bs (decodeBulk_local _)
      by_cases h42 : x = 42
      · subst h42; intro v hv; rw [decodeD_42_zero] at hv; cases hv
      by_cases h95 : x = 95
      · subst h95; exact local_via decodeNull (decodeD 0) (fun t => decodeD_95 0 t) bs (decodeNull_local _)
      have hty : isTypeByte x = false := by simp [isTypeByte, h43, h45, h58, h36, h42, h95]
      exact local_via decodeInline (decodeD 0) (fun t => decodeD_inline 0 x t hty) bs (decodeInline_local _)
  | succ d ih =>
    intro b
    cases b with
    | nil => intro v hv; rw [decodeD_nil''] at hv; cases hv
    | cons x bs =>
      by_cases h43 : x = 43
      · subst h43; exact local_via (statusLine .simple) _ (fun t => decodeD_43 _ t) bs (statusLine_local _ _)
      by_cases h45 : x = 45
      · subst h45; exact local_via (statusLine .error) _ (fun t => decodeD_45 _ t) bs (statusLine_local _ _)
      by_cases h58 : x = 58
      · subst h58; exact local_via decodeInt _ (fun t => decodeD_58 _ t) bs (decodeInt_local _)
      by_cases h36 : x = 36
      · subst h36; exact local_via decodeBulk _ (fun t => decodeD_36 _ t) bs (decodeBulk_local _)
      by_cases h42 : x = 42
      · subst h42
        intro v hv
        cases hline : readLine (42 :: bs) with
        | none => rw [decodeD_42_noLine d bs hline] at hv; cases hv
        | some lr =>
          obtain ⟨line, rest0⟩ := lr
          have hb := readLine_some hline
          cases hp : parseUsize line.tail with
          | none => rw [decodeD_42_badLen d bs line rest0 hline hp] at hv; cases hv
          | some n =>
            rw [decodeD_42_succ d bs line rest0 n hline hp] at hv ⊢
            simp only at hv ⊢
            cases ho : (elems (decodeD d) PUSH_COST n rest0).out with
            | vals vs =>
              rw [ho] at hv
              simp only [arrOut, Out.val.injEq] at hv
              obtain ⟨u2, hb2, h2⟩ := elems_local (decodeD d) PUSH_COST ih n rest0 vs ho
              -- the header line starts with `*`
              obtain ⟨l', hl'⟩ : ∃ l', line = 42 :: l' := by
                cases line with
                | nil => simp at hb; exact absurd hb.1 (by decide)
                | cons y l' => simp at hb; exact ⟨l', by rw [hb.1]⟩
              refine ⟨line ++ [CR, LF] ++ u2, by cases line <;> simp, ?_, by rw [hl']; simp, ?_⟩
              · rw [hb]
                simp only [List.append_assoc, List.cons_append, List.nil_append]
                rw [← hb2]
              · intro r'
                have hl2 := readLine_local hline (u2 ++ r')
                have e : line ++ [CR, LF] ++ u2 ++ r' = 42 :: (l' ++ CR :: LF :: (u2 ++ r')) := by
                  rw [hl']; simp
                rw [hl'] at hl2
                simp only [List.cons_append] at hl2
                rw [e, decodeD_42_succ d _ (42 :: l') (u2 ++ r') n hl2 (by rw [← hl']; exact hp)]
                have c := h2 r'
                simp only [c.1, c.2, arrOut, hv]
                first | exact ⟨rfl, rfl⟩ | simp
            | incomplete => rw [ho] at hv; cases hv
            | err => rw [ho] at hv; cases hv
            | panic => rw [ho] at hv; cases hv
      by_cases h95 : x = 95
      · subst h95; exact local_via decodeNull _ (fun t => decodeD_95 _ t) bs (decodeNull_local _)
      have hty : isTypeByte x = false := by simp [isTypeByte, h43, h45, h58, h36, h42, h95]
      exact local_via decodeInline _ (fun t => decodeD_inline _ x t hty) bs (decodeInline_local _)

/-- locality of the top-level decoder -/
theorem decode_local (b : Bytes) (v : RV) (hv : (decode b).out = .val v) :
    ∃ used, b = used ++ (decode b).rest
      ∧ ∀ r', (decode (used ++ r')).out = .val v ∧ (decode (used ++ r')).rest = r' := by
  cases ho : (decodeD MAX_DEPTH b).out with
  | val w =>
    have hw : w = v := by simp [decode, ho] at hv; exact hv
    subst hw
    obtain ⟨used, _, hb, _, h⟩ := decodeD_local MAX_DEPTH b w ho
    refine ⟨used, by simp [decode, ho]; exact hb, ?_⟩
    intro r'
    have := h r'
    simp [decode, this.1, this.2]
  | none => simp [decode, ho] at hv
  | incomplete => simp [decode, ho] at hv
  | err => simp [decode, ho] at hv
  | panic => simp [decode, ho] at hv

/-- whatever the owning node sends, what the proxy relays is exactly one frame -/
theorem relayFrom_one_frame : ∀ (cs : List Bytes) (buf out : Bytes),
    relayFrom buf cs = some out → specOneFrame out = true := by
  intro cs
  induction cs with
  | nil => intro buf out h; simp [relayFrom] at h
  | cons c cs ih =>
    intro buf out h
    simp only [relayFrom] at h
    cases ho : (decode (buf ++ c)).out with
    | val v =>
      rw [ho] at h
      simp only [Option.some.injEq] at h
      obtain ⟨used, hb, hloc⟩ := decode_local (buf ++ c) v ho
      have hlen : (buf ++ c).length - (decode (buf ++ c)).rest.length = used.length := by
        have := congrArg List.length hb
        simp only [List.length_append] at this ⊢
        omega
      have hout : out = used := by
        rw [← h, hlen]
        conv => lhs; arg 2; rw [hb]
        exact List.take_left
      have := hloc []
      simp only [List.append_nil] at this
      simp [specOneFrame, hout, this.1, this.2]
    | more => rw [ho] at h; exact ih _ _ h
    | err => rw [ho] at h; cases h
    | panic => rw [ho] at h; cases h

end SgModel.Resp
