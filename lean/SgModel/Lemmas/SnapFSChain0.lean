import SgModel.Lemmas.SnapFS
/-!
C14 helper: a persist that starts from the directory a crash left behind, starting shape
`({} : FS)`.  One lemma per first crash point, nine second crash points each; payloads symbolic.
-/
namespace SgModel.SnapFS

theorem chain_empty_k0 (b1 b2 k2 : Nat) (h2 : k2 ≤ 8) :
    restoreProcess (run ((persistSteps false b2).take k2) (run ((persistSteps false b1).take 0) (({} : FS))))
      = restoreProcess (run ((persistSteps false b1).take 0) (({} : FS)))
    ∨ restoreProcess (run ((persistSteps false b2).take k2) (run ((persistSteps false b1).take 0) (({} : FS))))
      = .ok b2 := by
  rcases k2 with _ | _ | _ | _ | _ | _ | _ | _ | _ | k2
  · exact Or.inl rfl
  · exact Or.inl rfl
  · exact Or.inl rfl
  · exact Or.inl rfl
  · exact Or.inl rfl
  · exact Or.inl rfl
  · exact Or.inr rfl
  · exact Or.inr rfl
  · exact Or.inr rfl
  · exact absurd h2 (by omega)

theorem chain_empty_k1 (b1 b2 k2 : Nat) (h2 : k2 ≤ 8) :
    restoreProcess (run ((persistSteps false b2).take k2) (run ((persistSteps false b1).take 1) (({} : FS))))
      = restoreProcess (run ((persistSteps false b1).take 1) (({} : FS)))
    ∨ restoreProcess (run ((persistSteps false b2).take k2) (run ((persistSteps false b1).take 1) (({} : FS))))
      = .ok b2 := by
  rcases k2 with _ | _ | _ | _ | _ | _ | _ | _ | _ | k2
  · exact Or.inl rfl
  · exact Or.inl rfl
  · exact Or.inl rfl
  · exact Or.inl rfl
  · exact Or.inl rfl
  · exact Or.inl rfl
  · exact Or.inr rfl
  · exact Or.inr rfl
  · exact Or.inr rfl
  · exact absurd h2 (by omega)

theorem chain_empty_k2 (b1 b2 k2 : Nat) (h2 : k2 ≤ 8) :
    restoreProcess (run ((persistSteps false b2).take k2) (run ((persistSteps false b1).take 2) (({} : FS))))
      = restoreProcess (run ((persistSteps false b1).take 2) (({} : FS)))
    ∨ restoreProcess (run ((persistSteps false b2).take k2) (run ((persistSteps false b1).take 2) (({} : FS))))
      = .ok b2 := by
  rcases k2 with _ | _ | _ | _ | _ | _ | _ | _ | _ | k2
  · exact Or.inl rfl
  · exact Or.inl rfl
  · exact Or.inl rfl
  · exact Or.inl rfl
  · exact Or.inl rfl
  · exact Or.inl rfl
  · exact Or.inr rfl
  · exact Or.inr rfl
  · exact Or.inr rfl
  · exact absurd h2 (by omega)

theorem chain_empty_k3 (b1 b2 k2 : Nat) (h2 : k2 ≤ 8) :
    restoreProcess (run ((persistSteps false b2).take k2) (run ((persistSteps false b1).take 3) (({} : FS))))
      = restoreProcess (run ((persistSteps false b1).take 3) (({} : FS)))
    ∨ restoreProcess (run ((persistSteps false b2).take k2) (run ((persistSteps false b1).take 3) (({} : FS))))
      = .ok b2 := by
  rcases k2 with _ | _ | _ | _ | _ | _ | _ | _ | _ | k2
  · exact Or.inl rfl
  · exact Or.inl rfl
  · exact Or.inl rfl
  · exact Or.inl rfl
  · exact Or.inl rfl
  · exact Or.inl rfl
  · exact Or.inr rfl
  · exact Or.inr rfl
  · exact Or.inr rfl
  · exact absurd h2 (by omega)

theorem chain_empty_k4 (b1 b2 k2 : Nat) (h2 : k2 ≤ 8) :
    restoreProcess (run ((persistSteps false b2).take k2) (run ((persistSteps false b1).take 4) (({} : FS))))
      = restoreProcess (run ((persistSteps false b1).take 4) (({} : FS)))
    ∨ restoreProcess (run ((persistSteps false b2).take k2) (run ((persistSteps false b1).take 4) (({} : FS))))
      = .ok b2 := by
  rcases k2 with _ | _ | _ | _ | _ | _ | _ | _ | _ | k2
  · exact Or.inl rfl
  · exact Or.inl rfl
  · exact Or.inl rfl
  · exact Or.inl rfl
  · exact Or.inl rfl
  · exact Or.inl rfl
  · exact Or.inr rfl
  · exact Or.inr rfl
  · exact Or.inr rfl
  · exact absurd h2 (by omega)

theorem chain_empty_k5 (b1 b2 k2 : Nat) (h2 : k2 ≤ 8) :
    restoreProcess (run ((persistSteps false b2).take k2) (run ((persistSteps false b1).take 5) (({} : FS))))
      = restoreProcess (run ((persistSteps false b1).take 5) (({} : FS)))
    ∨ restoreProcess (run ((persistSteps false b2).take k2) (run ((persistSteps false b1).take 5) (({} : FS))))
      = .ok b2 := by
  rcases k2 with _ | _ | _ | _ | _ | _ | _ | _ | _ | k2
  · exact Or.inl rfl
  · exact Or.inl rfl
  · exact Or.inl rfl
  · exact Or.inl rfl
  · exact Or.inl rfl
  · exact Or.inl rfl
  · exact Or.inr rfl
  · exact Or.inr rfl
  · exact Or.inr rfl
  · exact absurd h2 (by omega)

theorem chain_empty_k6 (b1 b2 k2 : Nat) (h2 : k2 ≤ 8) :
    restoreProcess (run ((persistSteps false b2).take k2) (run ((persistSteps false b1).take 6) (({} : FS))))
      = restoreProcess (run ((persistSteps false b1).take 6) (({} : FS)))
    ∨ restoreProcess (run ((persistSteps false b2).take k2) (run ((persistSteps false b1).take 6) (({} : FS))))
      = .ok b2 := by
  rcases k2 with _ | _ | _ | _ | _ | _ | _ | _ | _ | k2
  · exact Or.inl rfl
  · exact Or.inl rfl
  · exact Or.inl rfl
  · exact Or.inl rfl
  · exact Or.inl rfl
  · exact Or.inr rfl
  · exact Or.inr rfl
  · exact Or.inr rfl
  · exact Or.inr rfl
  · exact absurd h2 (by omega)

theorem chain_empty_k7 (b1 b2 k2 : Nat) (h2 : k2 ≤ 8) :
    restoreProcess (run ((persistSteps false b2).take k2) (run ((persistSteps false b1).take 7) (({} : FS))))
      = restoreProcess (run ((persistSteps false b1).take 7) (({} : FS)))
    ∨ restoreProcess (run ((persistSteps false b2).take k2) (run ((persistSteps false b1).take 7) (({} : FS))))
      = .ok b2 := by
  rcases k2 with _ | _ | _ | _ | _ | _ | _ | _ | _ | k2
  · exact Or.inl rfl
  · exact Or.inl rfl
  · exact Or.inl rfl
  · exact Or.inl rfl
  · exact Or.inl rfl
  · exact Or.inr rfl
  · exact Or.inr rfl
  · exact Or.inr rfl
  · exact Or.inr rfl
  · exact absurd h2 (by omega)

theorem chain_empty_k8 (b1 b2 k2 : Nat) (h2 : k2 ≤ 8) :
    restoreProcess (run ((persistSteps false b2).take k2) (run ((persistSteps false b1).take 8) (({} : FS))))
      = restoreProcess (run ((persistSteps false b1).take 8) (({} : FS)))
    ∨ restoreProcess (run ((persistSteps false b2).take k2) (run ((persistSteps false b1).take 8) (({} : FS))))
      = .ok b2 := by
  rcases k2 with _ | _ | _ | _ | _ | _ | _ | _ | _ | k2
  · exact Or.inl rfl
  · exact Or.inl rfl
  · exact Or.inl rfl
  · exact Or.inl rfl
  · exact Or.inl rfl
  · exact Or.inr rfl
  · exact Or.inr rfl
  · exact Or.inr rfl
  · exact Or.inr rfl
  · exact absurd h2 (by omega)

theorem chain_empty (b1 b2 k1 k2 : Nat) (h1 : k1 ≤ 8) (h2 : k2 ≤ 8) :
    restoreProcess (run ((persistSteps false b2).take k2) (run ((persistSteps false b1).take k1) (({} : FS))))
      = restoreProcess (run ((persistSteps false b1).take k1) (({} : FS)))
    ∨ restoreProcess (run ((persistSteps false b2).take k2) (run ((persistSteps false b1).take k1) (({} : FS))))
      = .ok b2 := by
  rcases k1 with _ | _ | _ | _ | _ | _ | _ | _ | _ | k1
  · exact chain_empty_k0 b1 b2 k2 h2
  · exact chain_empty_k1 b1 b2 k2 h2
  · exact chain_empty_k2 b1 b2 k2 h2
  · exact chain_empty_k3 b1 b2 k2 h2
  · exact chain_empty_k4 b1 b2 k2 h2
  · exact chain_empty_k5 b1 b2 k2 h2
  · exact chain_empty_k6 b1 b2 k2 h2
  · exact chain_empty_k7 b1 b2 k2 h2
  · exact chain_empty_k8 b1 b2 k2 h2
  · exact absurd h1 (by omega)

end SgModel.SnapFS
