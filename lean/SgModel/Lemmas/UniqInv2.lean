import SgModel.Lemmas.UniqInv
/-!
Invariant preservation for node deletion, label changes, node creation and constraint
creation (continuation of `UniqInv.lean`).
-/
namespace SgModel.Uniq

theorem mem_mapNode_at {nodes : List Node} (hi : IdsNodup nodes) {node : Node} (hn : node ∈ nodes)
    (f : Node → Node) {y : Node} :
    y ∈ mapNode f nodes node.id ↔ y = f node ∨ (y ∈ nodes ∧ y.id ≠ node.id) := by
  rw [mem_mapNode hi]
  constructor
  · rintro (⟨x, hx, hxn, rfl⟩ | h)
    · have := mem_unique hi hx hn hxn; subst this; exact Or.inl rfl
    · exact Or.inr h
  · rintro (rfl | h)
    · exact Or.inl ⟨node, hn, rfl, rfl⟩
    · exact Or.inr h

theorem holds_mapNode {nodes : List Node} (hi : IdsNodup nodes) {node : Node} (hn : node ∈ nodes)
    (f : Node → Node) (hf : (f node).id = node.id) (l k : Nat) (w : Val) (m : Nat) :
    Holds (mapNode f nodes node.id) l k w m ↔
      if m = node.id then l ∈ (f node).labels ∧ pget (f node).props k = some w
      else Holds nodes l k w m := by
  unfold Holds
  by_cases hm : m = node.id
  · simp only [hm, if_true]
    constructor
    · rintro ⟨x, hx, hxi, hxl, hxv⟩
      rcases (mem_mapNode_at hi hn f).mp hx with rfl | ⟨_, hne⟩
      · exact ⟨hxl, hxv⟩
      · exact absurd hxi hne
    · rintro ⟨hl, hv⟩
      exact ⟨f node, (mem_mapNode_at hi hn f).mpr (Or.inl rfl), hf, hl, hv⟩
  · simp only [hm, if_false]
    constructor
    · rintro ⟨x, hx, hxi, hxl, hxv⟩
      rcases (mem_mapNode_at hi hn f).mp hx with rfl | ⟨hx', _⟩
      · exact absurd (hxi.symm.trans hf) hm
      · exact ⟨x, hx', hxi, hxl, hxv⟩
    · rintro ⟨x, hx, hxi, hxl, hxv⟩
      exact ⟨x, (mem_mapNode_at hi hn f).mpr (Or.inr ⟨hx, by omega⟩), hxi, hxl, hxv⟩

theorem holds_self {nodes : List Node} (hi : IdsNodup nodes) {node : Node} (hn : node ∈ nodes)
    (l k : Nat) (w : Val) :
    Holds nodes l k w node.id ↔ l ∈ node.labels ∧ pget node.props k = some w := by
  constructor
  · rintro ⟨x, hx, hxi, hxl, hxv⟩
    have := mem_unique hi hx hn hxi; subst this; exact ⟨hxl, hxv⟩
  · rintro ⟨hl, hv⟩; exact ⟨node, hn, rfl, hl, hv⟩

/-! ### delete -/

theorem holds_dropNode {nodes : List Node} (hi : IdsNodup nodes) (n : Nat) (l k : Nat) (w : Val) (m : Nat) :
    Holds (dropNode nodes n) l k w m ↔ m ≠ n ∧ Holds nodes l k w m := by
  unfold Holds
  constructor
  · rintro ⟨x, hx, hxi, hxl, hxv⟩
    have := (mem_dropNode hi).mp hx
    exact ⟨by omega, x, this.1, hxi, hxl, hxv⟩
  · rintro ⟨hne, x, hx, hxi, hxl, hxv⟩
    exact ⟨x, (mem_dropNode hi).mpr ⟨hx, by omega⟩, hxi, hxl, hxv⟩

theorem inv_deleteNode {s : State} (hi : Inv s) (n : Nat) : Inv (deleteNode s n) := by
  unfold deleteNode
  cases hf : findNode s.nodes n with
  | none => exact hi
  | some node =>
    obtain ⟨hn, hid⟩ := findNode_some hf
    subst hid
    refine ⟨idsNodup_dropNode _ hi.ids, ?_, ?_, ?_⟩
    · intro x hx; exact hi.lt x ((mem_dropNode hi.ids).mp hx).1
    · intro c' hc' w m
      simp only [List.mem_map] at hc'
      obtain ⟨c, hc, rfl⟩ := hc'
      have hex := hi.exact c hc
      by_cases hl : node.labels.contains c.label = true
      · simp only [hl, if_true]
        rw [holds_dropNode hi.ids, mem_rem, hex]
        by_cases hm : m = node.id
        · subst hm
          rw [holds_self hi.ids hn]
          simp only [and_true, ne_eq, not_true_eq_false, false_and, iff_false, not_and, Classical.not_not]
          intro h; exact h.2
        · simp [hm]
      · have hl' : node.labels.contains c.label = false := by simpa using hl
        simp only [hl', Bool.false_eq_true, if_false]
        rw [holds_dropNode hi.ids, hex]
        by_cases hm : m = node.id
        · subst hm
          rw [holds_self hi.ids hn]
          simp only [ne_eq, not_true_eq_false, false_and, iff_false, not_and]
          intro h; exact absurd (contains_iff.mpr h) (by rw [hl']; decide)
        · simp [hm]
    · intro c' hc'
      simp only [List.mem_map] at hc'
      obtain ⟨c, hc, hcc⟩ := hc'
      have hlk : c'.label = c.label ∧ c'.key = c.key := by
        rw [← hcc]; split <;> simp
      rw [hlk.1, hlk.2]
      intro a ha b hb
      exact hi.uniq c hc a ((mem_dropNode hi.ids).mp ha).1 b ((mem_dropNode hi.ids).mp hb).1

/-! ### labels -/

theorem mem_addLbl {ls : List Nat} {l x : Nat} : x ∈ addLbl ls l ↔ x ∈ ls ∨ x = l := by
  unfold addLbl
  by_cases h : ls.contains l = true
  · simp only [h, if_true]
    constructor
    · exact Or.inl
    · rintro (h1 | rfl)
      · exact h1
      · exact contains_iff.mp h
  · have h' : ¬ l ∈ ls := fun hm => h (contains_iff.mpr hm)
    simp [h']

/-- the unchecked label addition: state after `add_label_to_node` passed its check -/
def addLabelRaw (s : State) (node : Node) (l : Nat) : State :=
  { s with
    nodes := mapNode (fun x => { x with labels := addLbl x.labels l }) s.nodes node.id
    cons := s.cons.map (fun c =>
      if c.label = l then { c with idx := ins c.idx (pget node.props c.key) node.id } else c) }

theorem addLabel_eq (s : State) (n l : Nat) :
    addLabel s n l = match findNode s.nodes n with
      | none => some s
      | some node =>
        if s.cons.any (fun c => c.label = l && blocked c (pget node.props c.key) n) then none
        else some (addLabelRaw s node l) := by
  unfold addLabel
  cases hf : findNode s.nodes n with
  | none => rfl
  | some node =>
    have := (findNode_some hf).2
    subst this
    rfl

theorem holds_addLabelRaw {s : State} (hi : Inv s) {node : Node} (hn : node ∈ s.nodes) (l : Nat)
    (l' k : Nat) (w : Val) (m : Nat) :
    Holds (addLabelRaw s node l).nodes l' k w m ↔
      if m = node.id then (l' ∈ node.labels ∨ l' = l) ∧ pget node.props k = some w
      else Holds s.nodes l' k w m := by
  simp only [addLabelRaw]
  rw [holds_mapNode hi.ids hn _ rfl]
  simp only [mem_addLbl]

theorem inv_addLabelRaw_pre {s : State} (hi : Inv s) {node : Node} (hn : node ∈ s.nodes) (l : Nat) :
    IdsNodup (addLabelRaw s node l).nodes
    ∧ (∀ x ∈ (addLabelRaw s node l).nodes, x.id < (addLabelRaw s node l).next)
    ∧ (∀ c ∈ (addLabelRaw s node l).cons, ∀ w m,
        (w, m) ∈ c.idx ↔ Holds (addLabelRaw s node l).nodes c.label c.key w m) := by
  refine ⟨?_, ?_, ?_⟩
  · simp only [addLabelRaw]
    exact idsNodup_mapNode (f := fun x => { x with labels := addLbl x.labels l }) (fun _ => rfl) _ hi.ids
  · intro x hx
    simp only [addLabelRaw] at hx
    rcases (mem_mapNode_at hi.ids hn _).mp hx with rfl | ⟨hx', _⟩
    · exact hi.lt node hn
    · exact hi.lt x hx'
  · intro c' hc' w m
    simp only [addLabelRaw, List.mem_map] at hc'
    obtain ⟨c, hc, rfl⟩ := hc'
    have hex := hi.exact c hc
    by_cases hl : c.label = l
    · simp only [hl, if_true]
      rw [holds_addLabelRaw hi hn, mem_ins, ← hl, hex]
      by_cases hm : m = node.id
      · subst hm
        rw [holds_self hi.ids hn]
        simp only [if_true, or_true, true_and, and_true]
        constructor
        · rintro (h | h)
          · exact h.2
          · exact h
        · intro h; exact Or.inr h
      · simp [hm]
    · simp only [hl, if_false]
      rw [holds_addLabelRaw hi hn, hex]
      by_cases hm : m = node.id
      · subst hm
        rw [holds_self hi.ids hn]
        simp [hl]
      · simp [hm]

theorem inv_addLabelRaw {s : State} (hi : Inv s) {node : Node} (hn : node ∈ s.nodes) (l : Nat)
    (hb : s.cons.any (fun c => c.label = l && blocked c (pget node.props c.key) node.id) = false) :
    Inv (addLabelRaw s node l) := by
  obtain ⟨h1, h2, h3⟩ := inv_addLabelRaw_pre hi hn l
  refine ⟨h1, h2, h3, ?_⟩
  intro c' hc'
  have hc'' := hc'
  simp only [addLabelRaw, List.mem_map] at hc''
  obtain ⟨c, hc, hcc⟩ := hc''
  have hlk : c'.label = c.label ∧ c'.key = c.key := by
    rw [← hcc]; split <;> simp
  rw [hlk.1, hlk.2, uniqL_iff_holds]
  intro w m m' hm hm'
  rw [holds_addLabelRaw hi hn] at hm hm'
  have hu := (uniqL_iff_holds _ _ _).mp (hi.uniq c hc)
  have hnb : ∀ m, m ≠ node.id → (c.label ∈ node.labels ∨ c.label = l) → pget node.props c.key = some w →
      Holds s.nodes c.label c.key w m → m = node.id := by
    intro m hne hl hv hh
    rcases hl with hl | hl
    · exact hu w m node.id hh ((holds_self hi.ids hn _ _ _).mpr ⟨hl, hv⟩)
    · have : (decide (c.label = l) && blocked c (pget node.props c.key) node.id) = true := by
        simp only [Bool.and_eq_true, decide_eq_true_eq]
        exact ⟨hl, (blocked_iff hi hc _ node.id).mpr ⟨w, hv, m, hne, hh⟩⟩
      have h2 := List.any_eq_false.mp hb c hc
      simp [this] at h2
  by_cases h1 : m = node.id <;> by_cases h2 : m' = node.id
  · omega
  · simp only [h1, if_true, h2, if_false] at hm hm'
    exact absurd (hnb m' h2 hm.1 hm.2 hm') h2
  · simp only [h1, if_false, h2, if_true] at hm hm'
    exact absurd (hnb m h1 hm'.1 hm'.2 hm) h1
  · simp only [h1, h2, if_false] at hm hm'
    exact hu w m m' hm hm'

theorem dup_of_blocked_addLabel {s : State} (hi : Inv s) {node : Node} (hn : node ∈ s.nodes) (l : Nat)
    (hb : s.cons.any (fun c => c.label = l && blocked c (pget node.props c.key) node.id) = true) :
    ∃ c ∈ s.cons, ¬ UniqL (addLabelRaw s node l).nodes c.label c.key := by
  obtain ⟨c, hc, hwb⟩ := List.any_eq_true.mp hb
  simp only [Bool.and_eq_true, decide_eq_true_eq] at hwb
  obtain ⟨hl, hbl⟩ := hwb
  obtain ⟨w, hv, m, hne, hh⟩ := (blocked_iff hi hc _ node.id).mp hbl
  refine ⟨c, hc, ?_⟩
  rw [uniqL_iff_holds]
  intro hu
  have h1 : Holds (addLabelRaw s node l).nodes c.label c.key w node.id := by
    rw [holds_addLabelRaw hi hn]; simp [hl, hv]
  have h2 : Holds (addLabelRaw s node l).nodes c.label c.key w m := by
    rw [holds_addLabelRaw hi hn]; simp [hne, hh]
  exact hne (hu w m node.id h2 h1)

theorem inv_addLabel {s s' : State} (hi : Inv s) {n l : Nat} (h : addLabel s n l = some s') : Inv s' := by
  rw [addLabel_eq] at h
  cases hf : findNode s.nodes n with
  | none => simp [hf] at h; subst h; exact hi
  | some node =>
    obtain ⟨hn, hid⟩ := findNode_some hf
    subst hid
    simp only [hf] at h
    split at h
    · simp at h
    · rename_i hb
      simp only [Option.some.injEq] at h; subst h
      exact inv_addLabelRaw hi hn l (by simpa using hb)

theorem inv_removeLabel {s : State} (hi : Inv s) (n l : Nat) : Inv (removeLabel s n l) := by
  unfold removeLabel
  cases hf : findNode s.nodes n with
  | none => exact hi
  | some node =>
    obtain ⟨hn, hid⟩ := findNode_some hf
    subst hid
    simp only
    split
    · rename_i hl
      have hH : ∀ l' k w m,
          Holds (mapNode (fun x => { x with labels := x.labels.filter (· ≠ l) }) s.nodes node.id) l' k w m ↔
            if m = node.id then (l' ∈ node.labels ∧ l' ≠ l) ∧ pget node.props k = some w
            else Holds s.nodes l' k w m := by
        intro l' k w m
        rw [holds_mapNode hi.ids hn _ rfl]
        simp [List.mem_filter]
      refine ⟨?_, ?_, ?_, ?_⟩
      · exact idsNodup_mapNode (f := fun x => { x with labels := x.labels.filter (· ≠ l) }) (fun _ => rfl) _ hi.ids
      · intro x hx
        rcases (mem_mapNode_at hi.ids hn _).mp hx with rfl | ⟨hx', _⟩
        · exact hi.lt node hn
        · exact hi.lt x hx'
      · intro c' hc' w m
        simp only [List.mem_map] at hc'
        obtain ⟨c, hc, rfl⟩ := hc'
        have hex := hi.exact c hc
        by_cases hcl : c.label = l
        · simp only [hcl, if_true]
          rw [hH, mem_rem, ← hcl, hex]
          by_cases hm : m = node.id
          · subst hm
            rw [holds_self hi.ids hn]
            simp only [if_true, and_true, ne_eq, not_true_eq_false, and_false, false_and, iff_false, not_and,
              Classical.not_not]
            intro h; exact h.2
          · simp [hm]
        · simp only [hcl, if_false]
          rw [hH, hex]
          by_cases hm : m = node.id
          · subst hm
            rw [holds_self hi.ids hn]
            simp [hcl]
          · simp [hm]
      · intro c' hc'
        simp only [List.mem_map] at hc'
        obtain ⟨c, hc, hcc⟩ := hc'
        have hlk : c'.label = c.label ∧ c'.key = c.key := by
          rw [← hcc]; split <;> simp
        rw [hlk.1, hlk.2, uniqL_iff_holds]
        intro w m m' hm hm'
        rw [hH] at hm hm'
        have hu := (uniqL_iff_holds _ _ _).mp (hi.uniq c hc)
        have hs := holds_self hi.ids hn c.label c.key w
        by_cases h1 : m = node.id <;> by_cases h2 : m' = node.id
        · omega
        · simp only [h1, if_true, h2, if_false] at hm hm'
          exact h1 ▸ hu w node.id m' (hs.mpr ⟨hm.1.1, hm.2⟩) hm'
        · simp only [h1, if_false, h2, if_true] at hm hm'
          exact h2 ▸ hu w m node.id hm (hs.mpr ⟨hm'.1.1, hm'.2⟩)
        · simp only [h1, h2, if_false] at hm hm'
          exact hu w m m' hm hm'
    · exact hi

/-! ### node creation -/

theorem inv_createNode {s : State} (hi : Inv s) (labels : List Nat) : Inv (createNode s labels) := by
  have hH : ∀ l k w m, Holds (createNode s labels).nodes l k w m ↔ Holds s.nodes l k w m := by
    intro l k w m
    simp only [Holds, createNode, List.mem_append, List.mem_singleton]
    constructor
    · rintro ⟨x, hx | rfl, hxi, hxl, hxv⟩
      · exact ⟨x, hx, hxi, hxl, hxv⟩
      · simp [pget] at hxv
    · rintro ⟨x, hx, hxi, hxl, hxv⟩
      exact ⟨x, Or.inl hx, hxi, hxl, hxv⟩
  refine ⟨?_, ?_, ?_, ?_⟩
  · simp only [createNode, IdsNodup, List.pairwise_append, List.pairwise_cons, List.Pairwise.nil,
      List.mem_singleton, forall_eq, and_true, List.not_mem_nil, false_imp_iff, implies_true, true_and]
    refine ⟨hi.ids, ?_⟩
    intro a ha
    have := hi.lt a ha
    omega
  · intro x hx
    simp only [createNode, List.mem_append, List.mem_singleton] at hx ⊢
    rcases hx with hx | rfl
    · have := hi.lt x hx; omega
    · simp
  · intro c hc w m
    rw [hH]; exact hi.exact c hc w m
  · intro c hc
    rw [uniqL_iff_holds]
    intro w m m' hm hm'
    rw [hH] at hm hm'
    exact (uniqL_iff_holds _ _ _).mp (hi.uniq c hc) w m m' hm hm'

end SgModel.Uniq
