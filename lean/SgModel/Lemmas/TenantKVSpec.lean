import SgModel.Lemmas.TenantKVRefine
/-! Helper lemmas for C17, part 4 (core Lean only): tenant listing, isolation of the
reference map per tenant, and the pieces of the executable specification. -/
namespace SgModel.TenantKV

theorem Ref.mem_of_get {r : Ref} {k : Nat} {t : Bytes} {i g : Nat} (h : r.get k t i = some g) :
    ((k, t, i), g) ∈ r := by
  unfold Ref.get at h
  cases hf : r.find? (fun e => e.1 == (k, t, i)) with
  | none => rw [hf] at h; simp at h
  | some e =>
    rw [hf] at h
    simp only [Option.map_some, Option.some.injEq] at h
    have h1 := List.find?_some hf
    have h2 := List.mem_of_find?_eq_some hf
    simp only [beq_iff_eq] at h1
    have : e = ((k, t, i), g) := by rw [← h1, ← h]
    rw [← this]; exact h2

theorem mem_dedupB {l : List Bytes} {x : Bytes} : x ∈ dedupB l ↔ x ∈ l := by
  induction l with
  | nil => simp [dedupB]
  | cons a t ih =>
    simp only [dedupB, List.contains_iff_mem]
    by_cases h : a ∈ t
    · simp only [h, if_true, ih, List.mem_cons]
      constructor
      · exact Or.inr
      · rintro (rfl | hx)
        · exact h
        · exact hx
    · simp only [h, if_false, List.mem_cons, ih]

/-- tenant listing is exact: a name is listed iff it holds a node -/
theorem mem_listTenants {s : State} {r : Ref} (h : Good s r) (t : Bytes) :
    t ∈ listTenants s ↔ ∃ id, (r.get chN t id).isSome = true := by
  unfold listTenants
  rw [mem_dedupB, List.mem_map]
  constructor
  · rintro ⟨e, he, rfl⟩
    obtain ⟨t', id', ht', hi', hk, _⟩ := h.invN.2 e he
    have htk : tenantOfKey e.1 = t' := by rw [hk]; exact tenantOfKey_mkKey (accepts_iff.mp ht').2 id'
    rw [htk]
    refine ⟨id', ?_⟩
    have hg : kvGet s.nodes (mkKey chN t' id') = some e.2 :=
      (mem_iff_kvGet h.invN.1 _ _).mp (by rw [← hk]; exact he)
    rw [h.agrN t' id' ht' hi'] at hg
    cases hr : r.get chN t' id' with
    | none => rw [hr] at hg; simp at hg
    | some g => rfl
  · rintro ⟨id, hsome⟩
    cases hr : r.get chN t id with
    | none => rw [hr] at hsome; simp at hsome
    | some g =>
      have hm := Ref.mem_of_get hr
      have ⟨hacc, hid, _⟩ := h.refI _ hm
      simp only at hacc hid
      have hg := h.agrN t id hacc hid
      rw [hr] at hg
      have hmem := (mem_iff_kvGet h.invN.1 _ _).mpr hg
      exact ⟨_, hmem, tenantOfKey_mkKey (accepts_iff.mp hacc).2 id⟩

/-! ### what one acknowledged write does to the reference map -/

theorem Ref.get_step_other (r : Ref) (op : Op) (ok : Bool) (kind : Nat) {t : Bytes} (id : Nat)
    (hne : op.tenant ≠ t) : (r.step op ok).get kind t id = r.get kind t id := by
  unfold Ref.step
  cases ok with
  | false => rfl
  | true =>
    have key : ∀ (k0 : Nat) (t0 : Bytes) (i0 : Nat), t0 ≠ t → ¬ (kind, t, id) = (k0, t0, i0) := by
      intro k0 t0 i0 h x
      simp only [Prod.mk.injEq] at x
      exact h x.2.1.symm
    cases op with
    | putNode t0 i0 g =>
      simp only [Op.tenant] at hne
      simp only [if_true]
      rw [Ref.get_put]; simp only [key _ _ _ hne, if_false]
    | delNode t0 i0 =>
      simp only [Op.tenant] at hne
      simp only [if_true]
      rw [Ref.get_erase]; simp only [key _ _ _ hne, if_false]
    | putEdge t0 i0 g =>
      simp only [Op.tenant] at hne
      simp only [if_true]
      rw [Ref.get_put]; simp only [key _ _ _ hne, if_false]
    | delEdge t0 i0 =>
      simp only [Op.tenant] at hne
      simp only [if_true]
      rw [Ref.get_erase]; simp only [key _ _ _ hne, if_false]

theorem Ref.get_step_congr {r r' : Ref} {t : Bytes} (h : ∀ k i, r.get k t i = r'.get k t i)
    (op : Op) (ok : Bool) (kind : Nat) (id : Nat) :
    (r.step op ok).get kind t id = (r'.step op ok).get kind t id := by
  unfold Ref.step
  cases ok with
  | false => exact h kind id
  | true =>
    cases op <;> simp only [if_true]
    · rw [Ref.get_put, Ref.get_put, h]
    · rw [Ref.get_erase, Ref.get_erase, h]
    · rw [Ref.get_put, Ref.get_put, h]
    · rw [Ref.get_erase, Ref.get_erase, h]

/-- the bindings of tenant `t` depend only on the writes made under `t` -/
theorem refRun_isolated_foldl (t : Bytes) (ops : List Op) {r r' : Ref}
    (h : ∀ k i, r.get k t i = r'.get k t i) :
    ∀ k i, (ops.foldl (fun m op => m.step op (accepts op.tenant)) r).get k t i
      = ((ops.filter (fun op => op.tenant == t)).foldl
          (fun m op => m.step op (accepts op.tenant)) r').get k t i := by
  induction ops generalizing r r' with
  | nil => exact h
  | cons o ops ih =>
    rw [List.filter_cons]
    by_cases ho : o.tenant = t
    · have : (o.tenant == t) = true := by simpa using ho
      simp only [this, if_true, List.foldl_cons]
      exact ih (fun k i => Ref.get_step_congr h o _ k i)
    · have : (o.tenant == t) = false := by simpa using ho
      simp only [this, Bool.false_eq_true, if_false, List.foldl_cons]
      exact ih (fun k i => by rw [Ref.get_step_other _ _ _ _ _ ho]; exact h k i)

/-! ### pieces of the specification -/

theorem zipAll_map {β γ : Type} (f : β → γ → Bool) (g : β → γ) (l : List β)
    (h : ∀ x ∈ l, f x (g x) = true) : zipAll f l (l.map g) = true := by
  induction l with
  | nil => rfl
  | cons a t ih =>
    simp only [List.map_cons, zipAll, Bool.and_eq_true]
    exact ⟨h a (by simp), ih (fun x hx => h x (List.mem_cons_of_mem _ hx))⟩

theorem scanOk_of_good {kind : Nat} {m : KV} {r : Ref} (hinv : KVInv kind m) (hagr : Agree kind m r)
    (hri : RefInv r) (hrn : RefNodup r) (t : Bytes) :
    scanOk r kind t (if accepts t then some (scanKV m (scanPrefix t)) else none) = true := by
  cases ht : accepts t with
  | false => rfl
  | true =>
    simp only [if_true, scanOk, Bool.and_eq_true, List.all_eq_true, beq_iff_eq,
      List.contains_iff_mem]
    refine ⟨⟨?_, ?_⟩, nodupIds_scan hinv ht⟩
    · intro v hv
      exact ((mem_scan_iff hinv hagr ht v).mp hv).2
    · intro v hv
      obtain ⟨e, he, hk, hg⟩ := mem_ofTenant hv
      have hget := Ref.get_of_mem hrn he
      have hinvE := hri e he
      rw [hk] at hget hinvE
      simp only at hget hinvE
      exact (mem_scan_iff hinv hagr ht v).mpr ⟨hinvE.2.1, by rw [hget, hg]⟩

theorem getOk_of_good {kind : Nat} {m : KV} {r : Ref} (hagr : Agree kind m r) (t : Bytes) {id : Nat}
    (hi : idOk id) :
    getOk r kind t id (if accepts t then some (kvGet m (mkKey kind t id)) else none) = true := by
  cases ht : accepts t with
  | false => rfl
  | true =>
    simp only [if_true]
    rw [hagr t id ht hi]
    cases hr : r.get kind t id with
    | none => simp [getOk, hr]
    | some g => simp [getOk, hr]

theorem listOk_of_good {s : State} {r : Ref} (h : Good s r) : listOk r (listTenants s) = true := by
  simp only [listOk, Bool.and_eq_true, List.all_eq_true, List.any_eq_true, beq_iff_eq,
    Bool.or_eq_true, Bool.not_eq_true', beq_eq_false_iff_ne, List.contains_iff_mem]
  constructor
  · intro t ht
    obtain ⟨id, hsome⟩ := (mem_listTenants h t).mp ht
    cases hr : r.get chN t id with
    | none => rw [hr] at hsome; simp at hsome
    | some g => exact ⟨_, Ref.mem_of_get hr, rfl, rfl⟩
  · intro e he
    by_cases hk : e.1.1 = chN
    · refine Or.inr ((mem_listTenants h e.1.2.1).mpr ⟨e.1.2.2, ?_⟩)
      have := Ref.get_of_mem h.refN he
      rw [hk] at this
      rw [this]; rfl
    · exact Or.inl hk

end SgModel.TenantKV
