import SgModel.Lemmas.OehNearDesc
/-! The fuel of the near-tree frontier loop suffices: the loop always stops on an empty frontier. -/
namespace SgModel.Oeh

/-- upper bound on the pops caused by an entry `x` that sits `l` levels above the bottom -/
def popBound (N : Near) : Nat → Nat → Nat
  | 0, _ => 0
  | l + 1, x => 1 + ((N.exceptions.filter (fun e => N.lab.subsumes e.2 x)).map
      (fun e => popBound N l e.1)).sum

theorem sum_filter_and_le (g : (Nat × Nat) → Nat) (p q : (Nat × Nat) → Bool) :
    ∀ l : List (Nat × Nat),
      ((l.filter (fun e => p e && q e)).map g).sum ≤ ((l.filter p).map g).sum := by
  intro l
  induction l with
  | nil => simp
  | cons a l ih =>
    simp only [List.filter_cons]
    cases hp : p a <;> cases hq : q a <;> simp <;> omega

theorem sum_map_le_length (g : (Nat × Nat) → Nat) (b : Nat) : ∀ l : List (Nat × Nat),
    (∀ e ∈ l, g e ≤ b) → (l.map g).sum ≤ l.length * b := by
  intro l
  induction l with
  | nil => intro _; simp
  | cons a l ih =>
    intro h
    have h1 := h a (by simp)
    have h2 := ih (fun e he => h e (by simp [he]))
    simp only [List.map_cons, List.sum_cons, List.length_cons, Nat.add_mul, Nat.one_mul]
    omega

theorem popBound_le (N : Near) : ∀ (l x : Nat), popBound N l x ≤ (N.exceptions.length + 1) ^ l := by
  intro l
  induction l with
  | zero => intro x; simp [popBound]
  | succ l ih =>
    intro x
    simp only [popBound]
    have h1 := sum_map_le_length (fun e => popBound N l e.1) ((N.exceptions.length + 1) ^ l)
      (N.exceptions.filter (fun e => N.lab.subsumes e.2 x)) (fun e _ => ih e.1)
    have h2 : (N.exceptions.filter (fun e => N.lab.subsumes e.2 x)).length ≤ N.exceptions.length :=
      List.length_filter_le _ _
    have h3 : (N.exceptions.filter (fun e => N.lab.subsumes e.2 x)).length
        * (N.exceptions.length + 1) ^ l ≤ N.exceptions.length * (N.exceptions.length + 1) ^ l :=
      Nat.mul_le_mul_right _ h2
    have h4 : 0 < (N.exceptions.length + 1) ^ l := Nat.pow_pos (by omega)
    rw [Nat.pow_succ, Nat.mul_add, Nat.mul_one]
    have : (N.exceptions.length + 1) ^ l * N.exceptions.length
        = N.exceptions.length * (N.exceptions.length + 1) ^ l := Nat.mul_comm _ _
    omega

theorem sum_reverse_nat : ∀ l : List Nat, l.reverse.sum = l.sum := by
  intro l
  induction l with
  | nil => rfl
  | cons a l ih => simp [List.sum_append_nat, ih]; omega

/-- with enough fuel for the annotated frontier the loop stops on an empty frontier -/
theorem nearDescDone_of_fuel {P : Poset} {h : Nat → Nat} (D : IsDag P h) :
    ∀ (f : Nat) (FL : List (Nat × Nat)) (S : List Nat),
      (∀ a ∈ FL, a.1 < P.n ∧ h a.1 < a.2) →
      (FL.map (fun a => popBound (buildNear P) a.2 a.1)).sum ≤ f →
      nearDescDone (buildNear P) f (FL.map (·.1)) S = true := by
  intro f
  induction f with
  | zero =>
    intro FL S hF hs
    cases FL with
    | nil => rfl
    | cons a FL =>
      have ha := hF a (by simp)
      obtain ⟨l, hl⟩ : ∃ l, a.2 = l + 1 := ⟨a.2 - 1, by omega⟩
      simp only [List.map_cons, List.sum_cons, hl, popBound] at hs
      omega
  | succ f ih =>
    intro FL S hF hs
    cases FL with
    | nil => rfl
    | cons a FL =>
      have ha := hF a (by simp)
      obtain ⟨x, lv⟩ := a
      obtain ⟨l, hl⟩ : ∃ l, lv = l + 1 := ⟨lv - 1, by simp at ha; omega⟩
      subst hl
      simp only at ha
      let S1 := (((buildNear P).lab.descendants x).foldl (fun s d => insertSorted d s) S)
      let push := (buildNear P).exceptions.filter
        (fun e => (buildNear P).lab.subsumes e.2 x && !(S1.contains e.1))
      have hdone : nearDescDone (buildNear P) (f + 1) (((x, l + 1) :: FL).map (·.1)) S
          = nearDescDone (buildNear P) f ((push.map (·.1)).reverse ++ FL.map (·.1)) S1 := rfl
      rw [hdone]
      have hmap : (push.map (·.1)).reverse ++ FL.map (·.1)
          = (((push.map (fun e => (e.1, l))).reverse ++ FL).map (·.1)) := by
        simp [List.map_reverse, Function.comp_def]
      rw [hmap]
      apply ih
      · intro a ha'
        rcases List.mem_append.mp ha' with h1 | h1
        · simp only [List.mem_reverse, List.mem_map] at h1
          obtain ⟨e, he, rfl⟩ := h1
          have hf := List.mem_filter.mp he
          have hed := exc_sub (mem_exceptions.mp hf.1)
          have hr := D.inRange _ hed
          have hh := D.hEdge _ hed
          simp only [Bool.and_eq_true] at hf
          have hpx := (forest_sub_iff D e.2 x hr.2 ha.1).mp hf.2.1
          have hpx' : Reach P e.2 x := hpx.mono (fun e he => forest_edge_sub he)
          have := Reach.height D.toAcyclic hpx'
          simp only at hh ⊢
          refine ⟨hr.1, ?_⟩
          rcases this with e' | hlt
          · rw [e'] at hh; omega
          · omega
        · exact hF a (by simp [h1])
      · simp only [List.map_cons, List.sum_cons, popBound] at hs
        simp only [List.map_append, List.map_reverse, List.map_map, List.sum_append_nat,
          sum_reverse_nat]
        have hle := sum_filter_and_le (fun e => popBound (buildNear P) l e.1)
          (fun e => (buildNear P).lab.subsumes e.2 x) (fun e => !(S1.contains e.1))
          (buildNear P).exceptions
        have heq : (push.map ((fun a => popBound (buildNear P) a.2 a.1) ∘ fun e => (e.1, l))).sum
            = (push.map (fun e => popBound (buildNear P) l e.1)).sum := rfl
        rw [heq]
        simp only [push]
        omega

/-- the model's fuel always suffices -/
theorem near_desc_done {P : Poset} {h : Nat → Nat} (D : IsDag P h) (y : Nat) (hy : y < P.n) :
    nearDescDone (buildNear P) (nearFuel (buildNear P)) [y] [] = true := by
  have hb := D.hBound y hy
  have := nearDescDone_of_fuel D (nearFuel (buildNear P)) [(y, P.n)] [] (by
    intro a ha; simp at ha; subst ha; exact ⟨hy, hb⟩) (by
    simp only [List.map_cons, List.map_nil, List.sum_cons, List.sum_nil, Nat.add_zero]
    have := popBound_le (buildNear P) P.n y
    unfold nearFuel
    rw [near_tin_length]
    omega)
  simpa using this

/-- **near-tree `descendants` is the specification's list**, on every DAG -/
theorem near_desc_eq_spec {P : Poset} {h : Nat → Nat} (D : IsDag P h) (y : Nat) (hy : y < P.n) :
    (buildNear P).descendants y = specDesc P y := near_desc_eq D y hy (near_desc_done D y hy)

theorem near_fold_updates (P : Poset) : ∀ (us : List (Nat × Option Int)) (m : Measure),
    m.length = P.n →
    us.foldl Index.update (.near { P := P, N := buildNear P, measure := m })
      = .near { P := P, N := buildNear P, measure := us.foldl updMeasure m } := by
  intro us
  induction us with
  | nil => intro m _; rfl
  | cons u us ih =>
    intro m hm
    simp only [List.foldl_cons]
    by_cases hu : P.n ≤ u.1
    · have e1 : Index.update (.near { P := P, N := buildNear P, measure := m }) u
          = .near { P := P, N := buildNear P, measure := m } := by
        simp [Index.update, hu]
      have e2 : updMeasure m u = m := by
        unfold updMeasure; exact List.set_eq_of_length_le (by omega)
      rw [e1, e2]; exact ih m hm
    · have e1 : Index.update (.near { P := P, N := buildNear P, measure := m }) u
          = .near { P := P, N := buildNear P, measure := updMeasure m u } := by
        simp [Index.update, hu, updMeasure]
      rw [e1]; exact ih _ (by simp [updMeasure, hm])

/-- near-tree roll-ups (FoldSet) = the specification's fold over the descendant set -/
theorem near_rollup_eq {P : Poset} {h : Nat → Nat} (D : IsDag P h) (m : Measure) (op : Op)
    (y : Nat) (hy : y < P.n) :
    Index.rollup (.near { P := P, N := buildNear P, measure := m }) op y = specRollup P m op y := by
  simp only [Index.rollup, NearIdx.rollup, specRollup, near_desc_eq_spec D y hy]

end SgModel.Oeh
