import SgModel.Lemmas.SnapFS
/-!
C14 helpers: the case analyses over the nine crash points of `persist_snapshot` and the
prefixes of the pending directory operations, one committed shape at a time (payloads stay
symbolic; every case closes by evaluation).
-/
namespace SgModel.SnapFS

theorem take_steps_ge (b k : Nat) (hk : 8 ≤ k) :
    (persistSteps false b).take k = (persistSteps false b).take 8 := by
  rw [List.take_of_length_le (by simp [persistSteps] <;> omega),
    List.take_of_length_le (by simp [persistSteps])]

/-- case analysis over the nine crash points, one committed shape at a time -/
theorem crash_process_fs (fs : FS) (l : Restored) (b k : Nat) (hk : k ≤ 8)
    (hfs : (l = .nothing ∧ fs = {}) ∨ (∃ a, l = .ok a ∧ fs = committed1 a)
      ∨ (∃ a, l = .ok a ∧ fs = committed2 a) ∨ (∃ a, l = .ok a ∧ fs = committed3 a)) :
    restoreProcess (run ((persistSteps false b).take k) fs) = l
    ∨ restoreProcess (run ((persistSteps false b).take k) fs) = .ok b := by
  rcases hfs with ⟨rfl, rfl⟩ | ⟨a, rfl, rfl⟩ | ⟨a, rfl, rfl⟩ | ⟨a, rfl, rfl⟩
  · rcases k with _ | _ | _ | _ | _ | _ | _ | _ | _ | k
    · exact Or.inl rfl
    · exact Or.inl rfl
    · exact Or.inl rfl
    · exact Or.inl rfl
    · exact Or.inl rfl
    · exact Or.inl rfl
    · exact Or.inr rfl
    · exact Or.inr rfl
    · exact Or.inr rfl
    · exact absurd hk (by omega)
  all_goals
    rcases k with _ | _ | _ | _ | _ | _ | _ | _ | _ | k
    · exact Or.inl rfl
    · exact Or.inl rfl
    · exact Or.inl rfl
    · exact Or.inl rfl
    · exact Or.inl rfl
    · exact Or.inr rfl
    · exact Or.inr rfl
    · exact Or.inr rfl
    · exact Or.inr rfl
    · exact absurd hk (by omega)

theorem crash_process_bounded {l : Restored} {fs : FS} (h : Shape l fs) (b k : Nat) (hk : k ≤ 8) :
    restoreProcess (run ((persistSteps false b).take k) fs) = l
    ∨ restoreProcess (run ((persistSteps false b).take k) fs) = .ok b := by
  apply crash_process_fs fs l b k hk
  rcases h with ⟨h1, h2⟩ | ⟨a, h1, h2 | h2 | h2⟩
  · exact Or.inl ⟨h1, h2⟩
  · exact Or.inr (Or.inl ⟨a, h1, h2⟩)
  · exact Or.inr (Or.inr (Or.inl ⟨a, h1, h2⟩))
  · exact Or.inr (Or.inr (Or.inr ⟨a, h1, h2⟩))

theorem crash_process_shape {l : Restored} {fs : FS} (h : Shape l fs) (b k : Nat) :
    restoreProcess (run ((persistSteps false b).take k) fs) = l
    ∨ restoreProcess (run ((persistSteps false b).take k) fs) = .ok b := by
  by_cases hk : k ≤ 8
  · exact crash_process_bounded h b k hk
  · rw [take_steps_ge b k (by omega)]
    exact crash_process_bounded h b 8 (Nat.le_refl 8)

/-- at no crash point are more than three directory operations pending -/
theorem pending_le_three {l : Restored} {fs : FS} (h : Shape l fs) (b k : Nat) (hk : k ≤ 8) :
    (run ((persistSteps false b).take k) fs).pending.length ≤ 3 := by
  rcases h with ⟨rfl, rfl⟩ | ⟨a, rfl, rfl | rfl | rfl⟩ <;>
    rcases k with _ | _ | _ | _ | _ | _ | _ | _ | _ | k <;>
    first
      | exact absurd hk (by omega)
      | exact Nat.le_of_ble_eq_true rfl

/-- power loss from the empty file system: only once all three directory operations are on
disk (and the marker exists, `k ≥ 6`) is the new snapshot restored; otherwise nothing -/
theorem crash_power_empty (b k p : Nat) (hk : k ≤ 8) (hp : p ≤ 3) :
    restorePower p (run ((persistSteps false b).take k) {}) = .nothing
    ∨ restorePower p (run ((persistSteps false b).take k) {}) = .ok b := by
  rcases k with _ | _ | _ | _ | _ | _ | _ | _ | _ | k
  case succ.succ.succ.succ.succ.succ.succ.succ.succ => exact absurd hk (by omega)
  all_goals
    rcases p with _ | _ | _ | _ | p
    case succ.succ.succ.succ => exact absurd hp (by omega)
    all_goals first
      | exact Or.inl rfl
      | exact Or.inr rfl

theorem crash_power_c1 (a b k p : Nat) (hk : k ≤ 8) (hp : p ≤ 3) :
    restorePower p (run ((persistSteps false b).take k) (committed1 a)) = .ok a
    ∨ restorePower p (run ((persistSteps false b).take k) (committed1 a)) = .ok b := by
  rcases k with _ | _ | _ | _ | _ | _ | _ | _ | _ | k
  iterate 5
    (rcases p with _ | _ | _ | _ | p
     · exact Or.inl rfl
     · exact Or.inl rfl
     · exact Or.inl rfl
     · exact Or.inl rfl
     · exact absurd hp (by omega))
  iterate 3
    (rcases p with _ | _ | _ | _ | p
     · exact Or.inl rfl
     · exact Or.inl rfl
     · exact Or.inr rfl
     · exact Or.inr rfl
     · exact absurd hp (by omega))
  · rcases p with _ | _ | _ | _ | p
    · exact Or.inr rfl
    · exact Or.inr rfl
    · exact Or.inr rfl
    · exact Or.inr rfl
    · exact absurd hp (by omega)
  · exact absurd hk (by omega)

theorem crash_power_c2 (a b k p : Nat) (hk : k ≤ 8) (hp : p ≤ 3) :
    restorePower p (run ((persistSteps false b).take k) (committed2 a)) = .ok a
    ∨ restorePower p (run ((persistSteps false b).take k) (committed2 a)) = .ok b := by
  rcases k with _ | _ | _ | _ | _ | _ | _ | _ | _ | k
  iterate 5
    (rcases p with _ | _ | _ | _ | p
     · exact Or.inl rfl
     · exact Or.inl rfl
     · exact Or.inl rfl
     · exact Or.inl rfl
     · exact absurd hp (by omega))
  iterate 3
    (rcases p with _ | _ | _ | _ | p
     · exact Or.inl rfl
     · exact Or.inl rfl
     · exact Or.inr rfl
     · exact Or.inr rfl
     · exact absurd hp (by omega))
  · rcases p with _ | _ | _ | _ | p
    · exact Or.inr rfl
    · exact Or.inr rfl
    · exact Or.inr rfl
    · exact Or.inr rfl
    · exact absurd hp (by omega)
  · exact absurd hk (by omega)

theorem crash_power_c3 (a b k p : Nat) (hk : k ≤ 8) (hp : p ≤ 3) :
    restorePower p (run ((persistSteps false b).take k) (committed3 a)) = .ok a
    ∨ restorePower p (run ((persistSteps false b).take k) (committed3 a)) = .ok b := by
  rcases k with _ | _ | _ | _ | _ | _ | _ | _ | _ | k
  iterate 5
    (rcases p with _ | _ | _ | _ | p
     · exact Or.inl rfl
     · exact Or.inl rfl
     · exact Or.inl rfl
     · exact Or.inl rfl
     · exact absurd hp (by omega))
  iterate 3
    (rcases p with _ | _ | _ | _ | p
     · exact Or.inl rfl
     · exact Or.inl rfl
     · exact Or.inr rfl
     · exact Or.inr rfl
     · exact absurd hp (by omega))
  · rcases p with _ | _ | _ | _ | p
    · exact Or.inr rfl
    · exact Or.inr rfl
    · exact Or.inr rfl
    · exact Or.inr rfl
    · exact absurd hp (by omega)
  · exact absurd hk (by omega)

theorem crash_power_c (fs : FS) (a b k p : Nat) (hk : k ≤ 8) (hp : p ≤ 3)
    (hfs : fs = committed1 a ∨ fs = committed2 a ∨ fs = committed3 a) :
    restorePower p (run ((persistSteps false b).take k) fs) = .ok a
    ∨ restorePower p (run ((persistSteps false b).take k) fs) = .ok b := by
  rcases hfs with rfl | rfl | rfl
  · exact crash_power_c1 a b k p hk hp
  · exact crash_power_c2 a b k p hk hp
  · exact crash_power_c3 a b k p hk hp

theorem crash_power_bounded {l : Restored} {fs : FS} (h : Shape l fs) (b k p : Nat) (hk : k ≤ 8)
    (hp : p ≤ 3) :
    restorePower p (run ((persistSteps false b).take k) fs) = l
    ∨ restorePower p (run ((persistSteps false b).take k) fs) = .ok b := by
  rcases h with ⟨rfl, rfl⟩ | ⟨a, rfl, h2⟩
  · exact crash_power_empty b k p hk hp
  · exact crash_power_c fs a b k p hk hp h2

theorem restorePower_of_le (p q : Nat) (fs : FS) (h1 : fs.pending.length ≤ p)
    (h2 : fs.pending.length ≤ q) : restorePower p fs = restorePower q fs := by
  unfold restorePower
  rw [List.take_of_length_le h1, List.take_of_length_le h2]

theorem crash_power_shape {l : Restored} {fs : FS} (h : Shape l fs) (b k p : Nat) :
    restorePower p (run ((persistSteps false b).take k) fs) = l
    ∨ restorePower p (run ((persistSteps false b).take k) fs) = .ok b := by
  have key : ∀ k, k ≤ 8 → (restorePower p (run ((persistSteps false b).take k) fs) = l
      ∨ restorePower p (run ((persistSteps false b).take k) fs) = .ok b) := by
    intro k hk
    by_cases hp : p ≤ 3
    · exact crash_power_bounded h b k p hk hp
    · have hlen := pending_le_three h b k hk
      rw [restorePower_of_le p 3 _ (by omega) hlen]
      exact crash_power_bounded h b k 3 hk (Nat.le_refl 3)
  by_cases hk : k ≤ 8
  · exact key k hk
  · rw [take_steps_ge b k (by omega)]
    exact key 8 (Nat.le_refl 8)

theorem lastOf_ne_corrupt (hist : List Nat) : lastOf hist ≠ .corrupt := by
  have h := shape_persistAll hist
  rcases h with ⟨h, _⟩ | ⟨a, h, _⟩ <;> rw [h] <;> simp

end SgModel.SnapFS
