import SgModel.Lemmas.StoreSpecGen
/-!
Helper lemmas for the graph-store model (C06), part 19: the Boolean clauses of `specObs` that
package the index, `edges_between` and typed reads (`specIndexes`, `specBetween`, `specTyped`)
hold of the model's observation in every state satisfying the invariants.
-/
namespace SgModel.Store

theorem zip_map_map {α β γ : Type} (l : List α) (f : α → β) (g : α → γ) :
    (l.map f).zip (l.map g) = l.map (fun x => (f x, g x)) := by
  induction l with
  | nil => rfl
  | cons a as ih => simp [ih]

theorem all_zip_map_self {α β : Type} (l : List α) (f : α → β) (q : α × β → Bool) :
    (l.zip (l.map f)).all q = true ↔ ∀ x ∈ l, q (x, f x) = true := by
  rw [zip_map_self, List.all_eq_true]
  constructor
  · intro h x hx; exact h _ (List.mem_map.mpr ⟨x, hx, rfl⟩)
  · intro h y hy
    obtain ⟨x, hx, rfl⟩ := List.mem_map.mp hy
    exact h x hx

/-- `get_edge` in terms of the point reads -/
theorem getEdge_iff {s : State} (h : InvE s) (e a b t : Nat) (ps : Props) :
    getEdge s e = some (a, b, t, ps) ↔
      (endpOf s e = (a, b) ∧ endpOf s e ≠ (0, 0) ∧ edgeTypeOf s e = some t
        ∧ ps = (assocGet s.eprops e).getD []) := by
  constructor
  · intro hg
    obtain ⟨hk, hl⟩ := getEdge_some hg
    obtain ⟨t', hg', hty⟩ := getEdge_of_live h hl
    rw [hg] at hg'
    simp only [Option.some.injEq, Prod.mk.injEq] at hg'
    refine ⟨hk, hl, ?_, hg'.2.2.2⟩
    rw [hty, hg'.2.2.1]
  · rintro ⟨hk, hl, hty, hps⟩
    obtain ⟨t', hg', hty'⟩ := getEdge_of_live h hl
    rw [hty] at hty'
    simp only [Option.some.injEq] at hty'
    rw [hg', hk, hps, hty']

/-- an observed relationship with given id / endpoints / type exists iff the point reads say so -/
theorem exists_obsEdge_iff {s : State} (h : InvE s) (e a b t : Nat) :
    (∃ x ∈ obsEdges s, eId x = e ∧ eSrc x = a ∧ eTgt x = b ∧ eTy x = t)
      ↔ (endpOf s e = (a, b) ∧ endpOf s e ≠ (0, 0) ∧ edgeTypeOf s e = some t) := by
  constructor
  · rintro ⟨x, hx, rfl, rfl, rfl, rfl⟩
    have := (getEdge_iff h _ _ _ _ _).mp ((mem_obsEdges h x).mp hx)
    exact ⟨this.1, this.2.1, this.2.2.1⟩
  · rintro ⟨hk, hl, hty⟩
    refine ⟨(e, a, b, t, (assocGet s.eprops e).getD []), ?_, rfl, rfl, rfl, rfl⟩
    rw [mem_obsEdges h]
    exact (getEdge_iff h e a b t _).mpr ⟨hk, hl, hty, rfl⟩

theorem obsEdges_filter_map_nodup (s : State) (q : EdgeObs → Bool) :
    (((obsEdges s).filter q).map eId).Nodup := by
  have hsub : (((obsEdges s).filter q).map eId).Sublist ((obsEdges s).map eId) :=
    List.Sublist.map _ List.filter_sublist
  rw [obsEdges_ids] at hsub
  exact List.Nodup.sublist hsub (allEdges_nodup s)

/-! ### label and type indexes -/

theorem specIndexes_holds {s : State} (hI : Inv s) (hL : LblInv s) (hT : TyInv s) (p : Probe)
    (hcov : ∀ n, getNode s n ≠ none → n ∈ p.ids) :
    specIndexes p (obs s p) = true := by
  simp only [specIndexes, Bool.and_eq_true]
  constructor
  · show ((p.labels.zip (p.labels.map (nodesByLabel s))).all _) = true
    rw [all_zip_map_self]
    intro l _
    apply sameOnce_of
    · exact (hL.nodup l).filter _
    · intro n
      have hmem : n ∈ nodesByLabel s l ↔ ∃ r, getNode s n = some r ∧ l ∈ r.labels := by
        show n ∈ (idxGet s.labelIdx l).filter (liveN s) ↔ _
        rw [List.mem_filter, hL.exact l n]
        constructor
        · exact fun hh => hh.1
        · rintro ⟨r, hr, hl⟩; exact ⟨⟨r, hr, hl⟩, by simp [liveN, hr]⟩
      rw [hmem]
      simp only [List.mem_map, List.mem_filter, List.contains_iff_mem]
      constructor
      · rintro ⟨r, hr, hl⟩
        refine ⟨(n, r.labels, r.props), ⟨?_, hl⟩, rfl⟩
        rw [mem_obsNodes]
        exact ⟨hcov n (by rw [hr]; simp), hr⟩
      · rintro ⟨x, ⟨hx, hl⟩, rfl⟩
        exact ⟨_, ((mem_obsNodes s p x).mp hx).2, hl⟩
  · rw [Bool.or_eq_true]
    cases hp : s.stubPending with
    | true => left; exact hp
    | false =>
      right
      show ((p.types.zip (p.types.map (edgesByType s))).all _) = true
      rw [all_zip_map_self]
      intro ty _
      have hmem : ∀ e, e ∈ edgesByType s ty ↔ e ∈ idxGet s.typeIdx ty := by
        intro e
        show e ∈ (idxGet s.typeIdx ty).filter _ ↔ _
        rw [List.mem_filter]
        constructor
        · exact fun hh => hh.1
        · intro hm
          obtain ⟨t, hg, _⟩ := getEdge_of_live hI.toInvE (hT.sound ty e hm).1
          exact ⟨hm, by rw [hg]; rfl⟩
      apply sameOnce_of
      · exact (hT.nodup ty).filter _
      · intro e
        rw [hmem, obs_edges_eq]
        simp only [List.mem_map, List.mem_filter, beq_iff_eq]
        constructor
        · intro hm
          obtain ⟨hl, hty⟩ := hT.sound ty e hm
          obtain ⟨x, hx, h1, h2, h3, h4⟩ :=
            (exists_obsEdge_iff hI.toInvE e (endpOf s e).1 (endpOf s e).2 ty).mpr ⟨rfl, hl, hty⟩
          exact ⟨x, ⟨hx, h4⟩, h1⟩
        · rintro ⟨x, ⟨hx, hty⟩, rfl⟩
          have := (exists_obsEdge_iff hI.toInvE (eId x) (eSrc x) (eTgt x) (eTy x)).mp
            ⟨x, hx, rfl, rfl, rfl, rfl⟩
          exact hT.complete hp ty (eId x) this.2.1 (by rw [this.2.2, hty])

/-! ### edges_between -/

theorem specBetween_holds {s : State} (hI : Inv s) (hS : SortInv s) (p : Probe) :
    specBetween p (obs s p) = true := by
  simp only [specBetween, Bool.or_eq_true]
  cases hp : s.stubPending with
  | true => left; exact hp
  | false =>
    right
    show ((p.ids.zip (p.ids.map (fun a => p.ids.map (fun b =>
      (none :: p.types.map some).map (edgesBetween s a b))))).all _) = true
    rw [all_zip_map_self]
    intro a _
    simp only
    rw [all_zip_map_self]
    intro b _
    simp only
    rw [all_zip_map_self]
    intro ty _
    simp only
    rw [edgesBetween_eq_filter hI hS hp a b ty, obs_edges_eq]
    apply sameOnce_of
    · exact List.Nodup.sublist (List.Sublist.map _ List.filter_sublist) (hI.out.nodup a)
    · intro e
      -- left: the filter formulation, characterised from the invariant
      have hleft : e ∈ edgesBetweenF s a b ty ↔
          (endpOf s e = (a, b) ∧ endpOf s e ≠ (0, 0) ∧ ∀ want, ty = some want → edgeTypeOf s e = some want) := by
        simp only [edgesBetweenF, List.mem_map, List.mem_filter, Bool.and_eq_true, beq_iff_eq]
        constructor
        · rintro ⟨q, ⟨hq, hb, hc⟩, rfl⟩
          have hk := keyOut_some.mp (hI.out.sound a q.1 q.2 hq)
          obtain ⟨ty', hg, hty⟩ := getEdge_of_live hI.toInvE hk.2
          refine ⟨by rw [hk.1, hb], hk.2, ?_⟩
          intro want hw
          subst hw
          rw [hg] at hc
          simp only [beq_iff_eq] at hc
          rw [hty, hc]
        · rintro ⟨he, hl, hty⟩
          refine ⟨(b, e), ⟨hI.out.complete e a b (keyOut_some.mpr ⟨he, hl⟩), rfl, ?_⟩, rfl⟩
          obtain ⟨ty', hg, hty'⟩ := getEdge_of_live hI.toInvE hl
          rw [hg]
          cases ty with
          | none => rfl
          | some want =>
            have := hty want rfl
            rw [hty'] at this
            simp only [Option.some.injEq] at this
            simp [this]
      rw [hleft]
      simp only [List.mem_map, List.mem_filter, Bool.and_eq_true, beq_iff_eq]
      constructor
      · rintro ⟨he, hl, hty⟩
        obtain ⟨t, _, htt⟩ := getEdge_of_live hI.toInvE hl
        obtain ⟨x, hx, h1, h2, h3, h4⟩ := (exists_obsEdge_iff hI.toInvE e a b t).mpr ⟨he, hl, htt⟩
        refine ⟨x, ⟨hx, ⟨h2, h3⟩, ?_⟩, h1⟩
        cases ty with
        | none => rfl
        | some want =>
          have := hty want rfl
          rw [htt] at this
          simp only [Option.some.injEq] at this
          simp only [beq_iff_eq]; rw [h4, this]
      · rintro ⟨x, ⟨hx, ⟨h2, h3⟩, hc⟩, rfl⟩
        have := (exists_obsEdge_iff hI.toInvE (eId x) (eSrc x) (eTgt x) (eTy x)).mp
          ⟨x, hx, rfl, rfl, rfl, rfl⟩
        refine ⟨by rw [this.1, h2, h3], this.2.1, ?_⟩
        intro want hw
        subst hw
        simp only [beq_iff_eq] at hc
        rw [this.2.2, hc]

end SgModel.Store
