import SgModel.Model.TenantKV
/-! Helper lemmas for C17, part 1 (core Lean only): the key format, the bytewise order,
prefixes, and the ordered map. -/
namespace SgModel.TenantKV

/-! ### key format -/

theorem hexDigit_inj {a b : Nat} (ha : a < 16) (hb : b < 16) (h : hexDigit a = hexDigit b) : a = b := by
  unfold hexDigit at h
  split at h <;> split at h <;> omega

theorem hexN_length (w x : Nat) : (hexN w x).length = w := by
  induction w generalizing x with
  | zero => rfl
  | succ w ih => simp [hexN, ih]

theorem hexN_inj (w : Nat) {x y : Nat} (hx : x < 16 ^ w) (hy : y < 16 ^ w)
    (h : hexN w x = hexN w y) : x = y := by
  induction w generalizing x y with
  | zero => simp at hx hy; omega
  | succ w ih =>
    simp only [hexN] at h
    have hlen : (hexN w (x / 16)).length = (hexN w (y / 16)).length := by
      rw [hexN_length, hexN_length]
    have ⟨h1, h2⟩ := List.append_inj h hlen
    have hx' : x / 16 < 16 ^ w := by
      rw [Nat.pow_succ] at hx
      exact Nat.div_lt_of_lt_mul (by rw [Nat.mul_comm]; exact hx)
    have hy' : y / 16 < 16 ^ w := by
      rw [Nat.pow_succ] at hy
      exact Nat.div_lt_of_lt_mul (by rw [Nat.mul_comm]; exact hy)
    have hq := ih hx' hy' h1
    have hr : x % 16 = y % 16 :=
      hexDigit_inj (Nat.mod_lt _ (by decide)) (Nat.mod_lt _ (by decide)) (by simpa using h2)
    omega

def idOk (id : Nat) : Prop := id < 2 ^ 64

theorem hex16_inj {i j : Nat} (hi : idOk i) (hj : idOk j) (h : hex16 i = hex16 j) : i = j := by
  unfold hex16 at h
  unfold idOk at hi hj
  have e : (16 : Nat) ^ 16 = 2 ^ 64 := by decide
  exact hexN_inj 16 (by rw [e]; exact hi) (by rw [e]; exact hj) h

theorem mkKey_length (kind : Nat) (t : Bytes) (id : Nat) : (mkKey kind t id).length = t.length + 19 := by
  simp [mkKey, hex16, hexN_length]

/-- the key determines tenant and id (the id part has fixed width) -/
theorem mkKey_inj {kind : Nat} {t₁ t₂ : Bytes} {i j : Nat} (hi : idOk i) (hj : idOk j)
    (h : mkKey kind t₁ i = mkKey kind t₂ j) : t₁ = t₂ ∧ i = j := by
  have hl : t₁.length = t₂.length := by
    have := congrArg List.length h
    rw [mkKey_length, mkKey_length] at this
    omega
  unfold mkKey at h
  have ⟨h1, h2⟩ := List.append_inj h hl
  refine ⟨h1, hex16_inj hi hj ?_⟩
  simpa using h2

/-- the part before the first separator is determined -/
theorem first_colon {a b x y : Bytes} (ha : colon ∉ a) (hb : colon ∉ b)
    (h : a ++ colon :: x = b ++ colon :: y) : a = b := by
  induction a generalizing b with
  | nil =>
    cases b with
    | nil => rfl
    | cons b0 b' =>
      simp only [List.nil_append, List.cons_append, List.cons.injEq] at h
      exact absurd (by simp [h.1]) hb
  | cons a0 a' ih =>
    cases b with
    | nil =>
      simp only [List.nil_append, List.cons_append, List.cons.injEq] at h
      exact absurd (by simp [h.1]) ha
    | cons b0 b' =>
      simp only [List.cons_append, List.cons.injEq] at h
      simp only [List.mem_cons, not_or] at ha hb
      rw [h.1, ih ha.2 hb.2 h.2]

theorem hasPrefix_iff {p k : Bytes} : hasPrefix p k = true ↔ ∃ r, k = p ++ r := by
  induction p generalizing k with
  | nil => simp [hasPrefix]
  | cons a p ih =>
    cases k with
    | nil => simp [hasPrefix]
    | cons b k =>
      simp only [hasPrefix, Bool.and_eq_true, beq_iff_eq, ih, List.cons_append, List.cons.injEq]
      constructor
      · rintro ⟨rfl, r, rfl⟩; exact ⟨r, rfl, rfl⟩
      · rintro ⟨r, rfl, rfl⟩; exact ⟨rfl, r, rfl⟩

theorem accepts_iff {t : Bytes} : accepts t = true ↔ t ≠ [] ∧ colon ∉ t := by
  unfold accepts
  cases t <;> simp

theorem hasPrefix_own (kind : Nat) (t : Bytes) (id : Nat) :
    hasPrefix (scanPrefix t) (mkKey kind t id) = true := by
  rw [hasPrefix_iff]
  exact ⟨kind :: colon :: hex16 id, by simp [scanPrefix, mkKey]⟩

/-- prefix separation: the scan prefix of one accepted tenant never matches a key of another -/
theorem prefix_sep {kind : Nat} {t₁ t₂ : Bytes} {i : Nat} (h₁ : colon ∉ t₁) (h₂ : colon ∉ t₂)
    (h : hasPrefix (scanPrefix t₁) (mkKey kind t₂ i) = true) : t₁ = t₂ := by
  rw [hasPrefix_iff] at h
  obtain ⟨r, hr⟩ := h
  unfold scanPrefix mkKey at hr
  rw [List.append_assoc, List.singleton_append] at hr
  exact (first_colon h₂ h₁ hr).symm

theorem tenantOfKey_mkKey {kind : Nat} {t : Bytes} (h : colon ∉ t) (id : Nat) :
    tenantOfKey (mkKey kind t id) = t := by
  unfold tenantOfKey mkKey
  induction t with
  | nil => simp [List.takeWhile]
  | cons a t ih =>
    simp only [List.mem_cons, not_or] at h
    have : (a == colon) = false := by
      simp only [beq_eq_false_iff_ne, ne_eq]; exact fun e => h.1 e.symm
    simp only [List.cons_append, List.takeWhile_cons, this, Bool.not_false, if_true, ih h.2]

/-! ### the bytewise order -/

theorem bytesLt_irrefl (a : Bytes) : bytesLt a a = false := by
  induction a with
  | nil => rfl
  | cons x a ih => simp [bytesLt, ih]

theorem bytesLt_trans {a b c : Bytes} (h₁ : bytesLt a b = true) (h₂ : bytesLt b c = true) :
    bytesLt a c = true := by
  induction a generalizing b c with
  | nil =>
    cases b with
    | nil => simp [bytesLt] at h₁
    | cons y b => cases c with
      | nil => simp [bytesLt] at h₂
      | cons z c => simp [bytesLt]
  | cons x a ih =>
    cases b with
    | nil => simp [bytesLt] at h₁
    | cons y b =>
      cases c with
      | nil => simp [bytesLt] at h₂
      | cons z c =>
        simp only [bytesLt, Bool.or_eq_true, decide_eq_true_eq, Bool.and_eq_true, beq_iff_eq] at *
        rcases h₁ with h₁ | ⟨rfl, h₁⟩
        · rcases h₂ with h₂ | ⟨rfl, h₂⟩
          · exact Or.inl (by omega)
          · exact Or.inl h₁
        · rcases h₂ with h₂ | ⟨rfl, h₂⟩
          · exact Or.inl h₂
          · exact Or.inr ⟨rfl, ih h₁ h₂⟩

theorem bytesLt_total {a b : Bytes} (h₁ : bytesLt a b = false) (h₂ : a ≠ b) : bytesLt b a = true := by
  induction a generalizing b with
  | nil =>
    cases b with
    | nil => exact absurd rfl h₂
    | cons y b => simp [bytesLt] at h₁
  | cons x a ih =>
    cases b with
    | nil => simp [bytesLt]
    | cons y b =>
      simp only [bytesLt, Bool.or_eq_false_iff, decide_eq_false_iff_not, Bool.and_eq_false_iff,
        beq_eq_false_iff_ne, Bool.or_eq_true, decide_eq_true_eq, Bool.and_eq_true, beq_iff_eq] at *
      by_cases hxy : x = y
      · subst hxy
        refine Or.inr ⟨rfl, ih ?_ (fun e => h₂ (by rw [e]))⟩
        rcases h₁.2 with h | h
        · exact absurd rfl h
        · exact h
      · exact Or.inl (by omega)

theorem bytesLt_asymm {a b : Bytes} (h : bytesLt a b = true) : bytesLt b a = false := by
  cases hb : bytesLt b a
  · rfl
  · have := bytesLt_trans h hb
    rw [bytesLt_irrefl] at this
    exact absurd this (by simp)

/-- a key carrying the prefix is not below it -/
theorem not_lt_of_hasPrefix {p k : Bytes} (h : hasPrefix p k = true) : bytesLt k p = false := by
  induction p generalizing k with
  | nil => cases k <;> rfl
  | cons a p ih =>
    cases k with
    | nil => simp [hasPrefix] at h
    | cons b k =>
      simp only [hasPrefix, Bool.and_eq_true, beq_iff_eq] at h
      simp [bytesLt, h.1, ih h.2]

/-- the keys carrying a prefix form an interval: past the first key at-or-after the prefix
that lacks it, no key has it -/
theorem no_prefix_after {p k₁ k₂ : Bytes} (hge : bytesLt k₁ p = false)
    (hno : hasPrefix p k₁ = false) (hlt : bytesLt k₁ k₂ = true) : hasPrefix p k₂ = false := by
  induction p generalizing k₁ k₂ with
  | nil => simp [hasPrefix] at hno
  | cons a p ih =>
    cases k₂ with
    | nil => rfl
    | cons c k₂ =>
      cases k₁ with
      | nil => simp [bytesLt] at hge
      | cons b k₁ =>
        simp only [bytesLt, Bool.or_eq_false_iff, decide_eq_false_iff_not, Bool.and_eq_false_iff,
          beq_eq_false_iff_ne, Bool.or_eq_true, decide_eq_true_eq, Bool.and_eq_true, beq_iff_eq,
          hasPrefix] at *
        by_cases hac : a = c
        · subst hac
          refine Or.inr ?_
          rcases hlt with hlt | ⟨rfl, hlt⟩
          · -- b < a contradicts ¬ b < a
            exact absurd hlt hge.1
          · have hge' : bytesLt k₁ p = false := by
              rcases hge.2 with h | h
              · exact absurd rfl h
              · exact h
            have hno' : hasPrefix p k₁ = false := by
              rcases hno with h | h
              · exact absurd rfl h
              · exact h
            exact ih hge' hno' hlt
        · exact Or.inl hac

end SgModel.TenantKV
