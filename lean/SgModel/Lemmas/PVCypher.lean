import SgModel.Lemmas.PV
/-!
Helper lemmas for C10, part 2: `cypher_order` is a total preorder (class normal form of the
order, the `T4` algebra of one triple, mutual inductions through arrays).
-/
namespace SgModel.PV

/-! ## `cypher_order` is a total preorder -/

/-- the three-way results of one triple are consistent with a total preorder -/
def T4 (o1 o2 o3 : Ordering) : Prop :=
  (o1 = .lt → o2 = .lt → o3 = .lt) ∧ (o1 = .lt → o2 = .eq → o3 = .lt) ∧
  (o1 = .eq → o2 = .lt → o3 = .lt) ∧ (o1 = .eq → o2 = .eq → o3 = .eq)

theorem T4_then {o1 o2 o3 r1 r2 r3 : Ordering} (ho : T4 o1 o2 o3) (hr : T4 r1 r2 r3) :
    T4 (o1.then r1) (o2.then r2) (o3.then r3) := by
  obtain ⟨a, b, c, d⟩ := ho
  obtain ⟨e, f, g, h⟩ := hr
  cases o1 <;> cases o2 <;> cases o3 <;> simp_all [T4, Ordering.then]

theorem T4_of_lawful {α : Type} {c : α → α → Ordering} {x y z : α}
    (e12 : c x y = .eq ↔ x = y) (e23 : c y z = .eq ↔ y = z) (ezz : c z z = .eq)
    (t : c x y = .lt → c y z = .lt → c x z = .lt) : T4 (c x y) (c y z) (c x z) := by
  refine ⟨t, ?_, ?_, ?_⟩
  · intro a b; rw [← e23.1 b]; exact a
  · intro a b; rw [e12.1 a]; exact b
  · intro a b; rw [e12.1 a, e23.1 b]; exact ezz

/-- a consistent triple passes the executable transitivity law of the specification -/
theorem lawTrans_of_T4 {o1 o2 o3 : Ordering} (h : T4 o1 o2 o3) : lawTrans o1 o2 o3 = true := by
  obtain ⟨a, b, c, d⟩ := h
  cases o1 <;> cases o2 <;> cases o3 <;> simp_all [lawTrans]

/-- the class of a value in `cypher_order`: rank, refined so that distinct classes are ordered
by class alone (arrays before vectors; numbers, then NaN, then datetimes, then durations) -/
def cls : PV → Nat
  | .map _ => 0
  | .arr _ => 10
  | .vec _ => 11
  | .str _ => 20
  | .bool _ => 30
  | .int _ => 40
  | .flt b => if F64.isNaN b then 41 else 40
  | .dt _ => 42
  | .dur .. => 43
  | .null => 50

section
variable {nif : Int → Nat → Ordering} {nfi : Nat → Int → Ordering}

/-- `cypher_order` within one class -/
def cySame (nif : Int → Nat → Ordering) (nfi : Nat → Int → Ordering) (a b : PV) : Ordering :=
  match a, b with
  | .arr x, .arr y => cyArrG (cmpG nif nfi) true x y
  | .flt x, .flt _ => if F64.isNaN x then .eq else cmpG nif nfi a b
  | _, _ => cmpG nif nfi a b

theorem cy_form (a b : PV) :
    cyG (cmpG nif nfi) true a b =
      if cls a ≠ cls b then cmpNat (cls a) (cls b) else cySame nif nfi a b := by
  cases a <;> cases b <;>
    simp [cyG, rank, cls, cySame, cmpNat, cmpG, bucket] <;>
    (repeat' split) <;> simp_all


theorem cmpNat_eq_iff' (a b : Nat) : cmpNat a b = .eq ↔ a = b := cmpNat_lawful.eq_iff a b

theorem T4_classes (ka kb kc : Nat) (s1 s2 s3 : Ordering) (hc : ¬(ka = kb ∧ kb = kc)) :
    T4 (if ka ≠ kb then cmpNat ka kb else s1) (if kb ≠ kc then cmpNat kb kc else s2)
      (if ka ≠ kc then cmpNat ka kc else s3) := by
  by_cases h1 : ka = kb
  · subst h1
    have h2 : ka ≠ kc := fun h => hc ⟨rfl, h⟩
    simp only [ne_eq, not_true_eq_false, if_false, h2, not_false_eq_true, if_true, T4,
      cmpNat_lt_iff, cmpNat_eq_iff']
    exact ⟨fun _ h => h, fun _ h => h.elim, fun _ h => h, fun _ h => h.elim⟩
  · by_cases h2 : kb = kc
    · subst h2
      simp only [ne_eq, not_true_eq_false, if_false, h1, not_false_eq_true, if_true, T4,
        cmpNat_lt_iff, cmpNat_eq_iff']
      exact ⟨fun h _ => h, fun h _ => h, fun h _ => h.elim, fun h _ => h.elim⟩
    · simp only [ne_eq, h1, h2, not_false_eq_true, if_true, T4, cmpNat_lt_iff, cmpNat_eq_iff']
      refine ⟨fun x y => ?_, fun _ h => h.elim, fun h _ => h.elim, fun h _ => h.elim⟩
      have h3 : ka ≠ kc := by omega
      simp only [ne_eq, h3, not_false_eq_true, if_true, cmpNat_lt_iff]; omega

/-- a triple that does not lie in one class is decided by the classes alone -/
theorem cy_T4_classes (a b c : PV) (hc : ¬(cls a = cls b ∧ cls b = cls c)) :
    T4 (cyG (cmpG nif nfi) true a b) (cyG (cmpG nif nfi) true b c) (cyG (cmpG nif nfi) true a c) := by
  rw [cy_form a b, cy_form b c, cy_form a c]
  exact T4_classes _ _ _ _ _ _ hc

theorem T4_cmpG (h : NumOK nif nfi) (a b c : PV) :
    T4 (cmpG nif nfi a b) (cmpG nif nfi b c) (cmpG nif nfi a c) :=
  T4_of_lawful (cmpG_eq_iff h a b) (cmpG_eq_iff h b c) ((cmpG_eq_iff h c c).2 rfl) (cmpG_trans h a b c)

theorem T4_eq : T4 .eq .eq .eq := by simp [T4]

/-- a triple inside one class other than the arrays -/
theorem cy_T4_same (h : NumOK nif nfi) (a b c : PV) (h1 : cls a = cls b) (h2 : cls b = cls c)
    (ha : cls a ≠ 10) :
    T4 (cyG (cmpG nif nfi) true a b) (cyG (cmpG nif nfi) true b c) (cyG (cmpG nif nfi) true a c) := by
  rw [cy_form a b, cy_form b c, cy_form a c]
  have h3 : cls a = cls c := by omega
  simp only [h1, h2, ne_eq, not_true_eq_false, if_false]
  have key := T4_cmpG h a b c
  cases a <;> cases b <;> simp [cls] at h1 ha <;> cases c <;> simp [cls] at h2 h3 <;>
    simp only [cySame] <;> (try exact key) <;> (repeat' split) <;> simp_all [T4_eq]


/-- swap inside one class other than the arrays -/
theorem cy_swap_nonarr (h : NumOK nif nfi) (a b : PV) (ha : cls a ≠ 10) :
    cyG (cmpG nif nfi) true b a = (cyG (cmpG nif nfi) true a b).swap := by
  rw [cy_form a b, cy_form b a]
  by_cases h1 : cls a = cls b
  · have key := cmpG_swap h a b
    simp only [h1, ne_eq, not_true_eq_false, if_false]
    cases a <;> cases b <;> simp [cls] at h1 ha <;>
      simp only [cySame] <;> (try exact key) <;> (repeat' split) <;> simp_all [Ordering.swap]
  · have h2 : cls b ≠ cls a := fun h => h1 h.symm
    simp only [h1, h2, ne_eq, not_false_eq_true, if_true]
    exact cmpNat_lawful.swap _ _

theorem cy_refl_nonarr (h : NumOK nif nfi) (a : PV) (ha : cls a ≠ 10) :
    cyG (cmpG nif nfi) true a a = .eq := by
  rw [cy_form a a]
  have key := (cmpG_eq_iff h a a).2 rfl
  simp only [ne_eq, not_true_eq_false, if_false]
  cases a <;> simp [cls] at ha <;> simp only [cySame] <;> (try exact key) <;>
    (repeat' split) <;> simp_all

mutual
theorem cy_refl (h : NumOK nif nfi) : ∀ a : PV, cyG (cmpG nif nfi) true a a = .eq
  | .arr xs => by rw [cy_form]; simpa [cySame] using cyArr_refl h xs
  | .str x => cy_refl_nonarr h _ (by simp [cls])
  | .int x => cy_refl_nonarr h _ (by simp [cls])
  | .flt x => cy_refl_nonarr h _ (by simp [cls]; split <;> simp)
  | .bool x => cy_refl_nonarr h _ (by simp [cls])
  | .dt x => cy_refl_nonarr h _ (by simp [cls])
  | .map x => cy_refl_nonarr h _ (by simp [cls])
  | .vec x => cy_refl_nonarr h _ (by simp [cls])
  | .dur _ _ _ _ => cy_refl_nonarr h _ (by simp [cls])
  | .null => cy_refl_nonarr h _ (by simp [cls])
theorem cyArr_refl (h : NumOK nif nfi) : ∀ xs : PVs, cyArrG (cmpG nif nfi) true xs xs = .eq
  | .nil => by simp [cyArrG]
  | .cons x xs => by simp [cyArrG, cy_refl h x, cyArr_refl h xs]
end

mutual
theorem cy_swap (h : NumOK nif nfi) :
    ∀ a b : PV, cyG (cmpG nif nfi) true b a = (cyG (cmpG nif nfi) true a b).swap
  | .arr xs, b => by
    cases b with
    | arr ys => rw [cy_form, cy_form]; simpa [cySame, cls] using cyArr_swap h xs ys
    | flt y =>
      rw [cy_form, cy_form]; simp only [cls]; split <;> simp [cmpNat, Ordering.swap]
    | _ => rw [cy_form, cy_form]; simp [cls, cmpNat, Ordering.swap]
  | .str x, b => cy_swap_nonarr h _ b (by simp [cls])
  | .int x, b => cy_swap_nonarr h _ b (by simp [cls])
  | .flt x, b => cy_swap_nonarr h _ b (by simp [cls]; split <;> simp)
  | .bool x, b => cy_swap_nonarr h _ b (by simp [cls])
  | .dt x, b => cy_swap_nonarr h _ b (by simp [cls])
  | .map x, b => cy_swap_nonarr h _ b (by simp [cls])
  | .vec x, b => cy_swap_nonarr h _ b (by simp [cls])
  | .dur _ _ _ _, b => cy_swap_nonarr h _ b (by simp [cls])
  | .null, b => cy_swap_nonarr h _ b (by simp [cls])
theorem cyArr_swap (h : NumOK nif nfi) :
    ∀ xs ys : PVs, cyArrG (cmpG nif nfi) true ys xs = (cyArrG (cmpG nif nfi) true xs ys).swap
  | .nil, ys => by cases ys <;> simp [cyArrG, Ordering.swap]
  | .cons x xs, ys => by
    cases ys with
    | nil => simp [cyArrG, Ordering.swap]
    | cons y ys => simp only [cyArrG, then_swap, cy_swap h x y, cyArr_swap h xs ys]
end

theorem cy_T4_nonarr (h : NumOK nif nfi) (a b c : PV) (ha : cls a ≠ 10) :
    T4 (cyG (cmpG nif nfi) true a b) (cyG (cmpG nif nfi) true b c) (cyG (cmpG nif nfi) true a c) := by
  by_cases hc : cls a = cls b ∧ cls b = cls c
  · exact cy_T4_same h a b c hc.1 hc.2 ha
  · exact cy_T4_classes a b c hc

mutual
theorem cy_T4 (h : NumOK nif nfi) : ∀ a b c : PV,
    T4 (cyG (cmpG nif nfi) true a b) (cyG (cmpG nif nfi) true b c) (cyG (cmpG nif nfi) true a c)
  | .arr xs, b, c => by
    by_cases hc : cls (.arr xs) = cls b ∧ cls b = cls c
    · obtain ⟨h1, h2⟩ := hc
      cases b with
      | arr ys =>
        cases c with
        | arr zs =>
          rw [cy_form, cy_form, cy_form]
          simpa [cySame, cls] using cyArr_T4 h xs ys zs
        | flt z => simp only [cls] at h2; split at h2 <;> simp at h2
        | _ => simp [cls] at h2
      | flt y => simp only [cls] at h1; split at h1 <;> simp at h1
      | _ => simp [cls] at h1
    · exact cy_T4_classes _ b c hc
  | .str x, b, c => cy_T4_nonarr h _ b c (by simp [cls])
  | .int x, b, c => cy_T4_nonarr h _ b c (by simp [cls])
  | .flt x, b, c => cy_T4_nonarr h _ b c (by simp [cls]; split <;> simp)
  | .bool x, b, c => cy_T4_nonarr h _ b c (by simp [cls])
  | .dt x, b, c => cy_T4_nonarr h _ b c (by simp [cls])
  | .map x, b, c => cy_T4_nonarr h _ b c (by simp [cls])
  | .vec x, b, c => cy_T4_nonarr h _ b c (by simp [cls])
  | .dur _ _ _ _, b, c => cy_T4_nonarr h _ b c (by simp [cls])
  | .null, b, c => cy_T4_nonarr h _ b c (by simp [cls])
theorem cyArr_T4 (h : NumOK nif nfi) : ∀ xs ys zs : PVs,
    T4 (cyArrG (cmpG nif nfi) true xs ys) (cyArrG (cmpG nif nfi) true ys zs)
      (cyArrG (cmpG nif nfi) true xs zs)
  | .nil, ys, zs => by cases ys <;> cases zs <;> simp [cyArrG, T4]
  | .cons x xs, ys, zs => by
    cases ys with
    | nil => simp [cyArrG, T4]
    | cons y ys =>
      cases zs with
      | nil => simp [cyArrG, T4]
      | cons z zs =>
        simp only [cyArrG]
        exact T4_then (cy_T4 h x y z) (cyArr_T4 h xs ys zs)
end

end
end SgModel.PV
