import SgModel.Lemmas.Persist
/-! Helper lemmas for C32: the replica (a map tenant ↦ state) and the request loop. -/
namespace SgModel.Persist

theorem state_put (m : Replica) (t t' : Nat) (s : State) :
    Replica.state (put m t s) t' = if t' = t then s else Replica.state m t' := by
  unfold Replica.state
  by_cases h : t' = t
  · subst h; simp [get_put_self]
  · simp [h, get_put_other m t t' s h]

theorem respOf_ok_ne_error (r : Req) : respOf r .ok ≠ .error := by
  cases r <;> simp [respOf]

theorem respOf_err (r : Req) (e : Err) : respOf r (.err e) = .error := rfl

theorem applyAll_cons_eq (M : SM) (cfgs : Nat → Cfg) (r : Req) (rest : List Req) (m : Replica) :
    applyAll M cfgs (r :: rest) m
      = ((applyAll M cfgs rest (applyReq M cfgs m r).1).1,
         (applyReq M cfgs m r).2 :: (applyAll M cfgs rest (applyReq M cfgs m r).1).2) := by
  simp [applyAll]

/-- the request loop, projected on one registered tenant -/
theorem applyAll_proj (cfgs : Nat → Cfg) (t : Nat) (hreg : (cfgs t).registered = true) :
    ∀ (reqs : List Req) (m : Replica),
      ((applyAll smFixed cfgs reqs m).1.state t).kv
          = KV.applyAll (m.state t).kv (effective t reqs (applyAll smFixed cfgs reqs m).2)
      ∧ (applyAll smFixed cfgs reqs m).2.length = reqs.length
      ∧ (∀ rp ∈ reqs.zip (applyAll smFixed cfgs reqs m).2, respShape rp.1 rp.2 = true) := by
  intro reqs
  induction reqs with
  | nil => intro m; simp [applyAll, effective, KV.applyAll]
  | cons r rest ih =>
    intro m
    rw [applyAll_cons_eq]
    have ih' := ih (applyReq smFixed cfgs m r).1
    refine ⟨?_, by simp [ih'.2.1], ?_⟩
    · simp only
      rw [ih'.1]
      simp only [applyReq, smFixed, state_put]
      by_cases ht : r.tenant = t
      · have hkv := trace_kv (cfgs r.tenant) (by rw [ht]; exact hreg) r.toOp (m.state r.tenant)
        cases hr : (traceOp fixed (cfgs r.tenant) r.toOp (m.state r.tenant)).result with
        | ok =>
          have h1 := hkv.1 hr
          simp only [effective, ht, true_and, ne_eq, respOf_ok_ne_error, not_false_eq_true, if_true,
            applyAll_cons]
          rw [← ht, h1]
        | err e =>
          have hne : (traceOp fixed (cfgs r.tenant) r.toOp (m.state r.tenant)).result ≠ .ok := by
            rw [hr]; simp
          have h1 := (hkv.2.1 hne).1
          simp only [effective, ht, respOf_err, ne_eq, not_true_eq_false, and_false, if_false, if_true]
          rw [← ht, h1]
      · have ht' : ¬ t = r.tenant := fun h => ht h.symm
        simp only [effective, ht, ht', false_and, if_false]
    · intro rp hrp
      simp only [List.zip_cons_cons, List.mem_cons] at hrp
      rcases hrp with h | h
      · subst h
        simp only [applyReq, respShape, Bool.or_eq_true, beq_iff_eq]
        cases (traceOp smFixed.impl (cfgs r.tenant) (smFixed.toOp r) (m.state r.tenant)).result with
        | ok => exact Or.inr rfl
        | err e => exact Or.inl rfl
      · exact ih'.2.2 rp h

/-- requests of other tenants do not touch a tenant's state (any implementation) -/
theorem applyAll_other (M : SM) (cfgs : Nat → Cfg) (t : Nat) :
    ∀ (reqs : List Req) (m : Replica), (∀ r ∈ reqs, r.tenant ≠ t) →
      (applyAll M cfgs reqs m).1.state t = m.state t := by
  intro reqs
  induction reqs with
  | nil => intro m _; simp [applyAll]
  | cons r rest ih =>
    intro m h
    rw [applyAll_cons_eq]
    simp only
    rw [ih _ (fun r' hr' => h r' (List.mem_cons_of_mem _ hr'))]
    have : ¬ t = r.tenant := fun e => h r List.mem_cons_self e.symm
    simp [applyReq, state_put, this]

theorem replicaObs_eq (M : SM) (cfgs : Nat → Cfg) (reqs : List Req) (t : Nat) :
    replicaObs M cfgs reqs t
      = match M.impl.recover (cfgs t) (crash ((applyAll M cfgs reqs []).1.state t)) with
        | .ok (_, kv) => some ⟨(applyAll M cfgs reqs []).2, kv⟩
        | .error _ => none := by
  unfold replicaObs
  cases applyAll M cfgs reqs []
  rfl

end SgModel.Persist
