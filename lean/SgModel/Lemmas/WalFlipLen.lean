import SgModel.Lemmas.WalFlip
/-! C15 — image variants: one byte of a 4-byte frame-length prefix changed.  Needs the decoder
contract in its prefix-free form (a proper prefix of an entry's encoding does not decode).
Core Lean only. -/
namespace SgModel.Wal

/-- the decoder contract, prefix-free form: besides `WFRec`, no proper prefix of the entry's
encoding decodes (bincode runs out of bytes) -/
def PFRec (dec : Dec) (r : Rec) : Prop :=
  WFRec dec r ∧ ∀ m, m < r.entry.length → dec (r.entry.take m) = none

theorem locate_flip_len : ∀ (rs : List Rec) (p j : Nat), locate rs p = some (j, .len) →
    (∀ r ∈ rs, r.entry.length + 12 < 256 ^ 4) → ∀ (mask : UInt8), mask ≠ 0 →
    ∃ r lb, rs[j]? = some r ∧ lb.length = 4 ∧ fromLE lb ≠ r.entry.length + 12 ∧ ∀ tail,
      flipByte (frames rs ++ tail) p mask
        = frames (rs.take j) ++ (lb ++ (body r ++ (frames (rs.drop (j + 1)) ++ tail)))
  | [], _, _, h, _, _, _ => by simp [locate] at h
  | r :: rs, p, j, h, hb, mask, hm => by
    simp only [locate] at h
    by_cases h4 : p < 4
    · rw [if_pos h4] at h; simp at h; subst h
      obtain ⟨x, y, z, hsplit, hxl⟩ := split_at (l := le 4 (r.entry.length + 12)) (p := p)
        (by rw [le_length]; omega)
      have hl4 : (x ++ (y ^^^ mask) :: z).length = 4 := by
        have := congrArg List.length hsplit; simp [le_length] at this ⊢; omega
      refine ⟨r, x ++ (y ^^^ mask) :: z, by simp, hl4, ?_, ?_⟩
      · intro heq
        have h3 : fromLE (x ++ (y ^^^ mask) :: z) = fromLE (le 4 (r.entry.length + 12)) := by
          rw [heq, fromLE_le 4 _ (hb r (by simp))]
        have h4' := fromLE_inj _ _ (by rw [hl4, le_length]) h3
        rw [hsplit] at h4'
        have h5 := List.append_cancel_left h4'
        simp only [List.cons.injEq] at h5
        have h6 : y ^^^ (y ^^^ mask) = y ^^^ y := by rw [h5.1]
        rw [← UInt8.xor_assoc, UInt8.xor_self, UInt8.zero_xor] at h6
        exact hm h6
      · intro tail
        simp only [frames, List.take_zero, List.nil_append, Nat.zero_add, List.drop_succ_cons,
          List.drop_zero, frame, List.append_assoc]
        rw [flipByte_append_left _ _ _ _ (by rw [le_length]; omega)]
        conv => lhs; rw [hsplit, ← hxl]
        rw [flipByte_at]
        simp only [List.append_assoc, List.cons_append]
    rw [if_neg h4] at h
    by_cases h12 : p < 12
    · rw [if_pos h12] at h; simp at h
    rw [if_neg h12] at h
    by_cases he : p < 12 + r.entry.length
    · rw [if_pos he] at h; simp at h
    rw [if_neg he] at h
    by_cases hc : p < 16 + r.entry.length
    · rw [if_pos hc] at h; simp at h
    rw [if_neg hc] at h
    cases hl : locate rs (p - (16 + r.entry.length)) with
    | none => rw [hl] at h; simp at h
    | some jg =>
      rw [hl] at h
      obtain ⟨j', g'⟩ := jg
      simp at h
      obtain ⟨rfl, rfl⟩ := h
      obtain ⟨r', lb, hget, hl4, hne, hflip⟩ := locate_flip_len rs _ j' hl
        (fun x hx => hb x (by simp [hx])) mask hm
      refine ⟨r', lb, by simpa using hget, hl4, hne, ?_⟩
      intro tail
      simp only [frames, List.take_succ_cons, List.drop_succ_cons, List.append_assoc]
      have hsub : p - (r.entry.length + 16) = p - (16 + r.entry.length) := by omega
      rw [flipByte_append_right _ _ _ _ (by rw [frame_length]; omega), frame_length, hsub, hflip tail]

/-- a frame whose length prefix no longer says `entry + 12`: the read loop stops there —
with an error, or (prefix pointing past the end of the file) as if the record were torn -/
theorem replayFile_badlen {dec : Dec} {r : Rec} (h : PFRec dec r) (lb rest : Bytes) (fuel : Nat)
    (hl4 : lb.length = 4) (hne : fromLE lb ≠ r.entry.length + 12) :
    ∃ e, replayFile Mode.fixed dec (fuel + 1) (lb ++ (body r ++ rest)) = ([], e) := by
  obtain ⟨⟨_, _, hdec⟩, hpf⟩ := h
  have ht : (lb ++ (body r ++ rest)).take 4 = lb := List.take_left' hl4
  have hd : (lb ++ (body r ++ rest)).drop 4 = body r ++ rest := List.drop_left' hl4
  rw [replayFile]
  simp only [ht, hd]
  rw [if_neg (by simp [hl4])]
  by_cases hlong : (body r ++ rest).length < fromLE lb
  · rw [if_pos hlong]; exact ⟨_, rfl⟩
  rw [if_neg hlong]
  have hbl : ((body r ++ rest).take (fromLE lb)).length = fromLE lb := by
    rw [List.length_take]; omega
  unfold parseBody
  by_cases h8 : fromLE lb < 8
  · rw [if_pos (by omega)]; exact ⟨_, rfl⟩
  rw [if_neg (by omega)]
  have hdrop : ((body r ++ rest).take (fromLE lb)).drop 8
      = (r.entry ++ (le 4 (cksum r.entry) ++ rest)).take (fromLE lb - 8) := by
    rw [List.drop_take]
    congr 1
    simp only [body, List.append_assoc]
    exact List.drop_left' (le_length 8 _)
  rw [hdrop]
  by_cases hin : fromLE lb - 8 < r.entry.length
  · rw [List.take_append_of_le_length (Nat.le_of_lt hin), hpf _ hin]; exact ⟨_, rfl⟩
  · have : (r.entry ++ (le 4 (cksum r.entry) ++ rest)).take (fromLE lb - 8)
        = r.entry ++ (le 4 (cksum r.entry) ++ rest).take (fromLE lb - 8 - r.entry.length) := by
      rw [List.take_append, List.take_of_length_le (by omega)]
    rw [this, hdec]
    dsimp only
    by_cases hshort : ((body r ++ rest).take (fromLE lb)).length < 8 + r.entry.length + 4
    · rw [if_pos hshort]; exact ⟨_, rfl⟩
    · rw [if_neg hshort]
      dsimp only
      rw [if_pos (by
        simp only [Mode.fixed, Bool.true_and, Bool.or_eq_true, bne_iff_ne, ne_eq]
        left; omega)]
      exact ⟨_, rfl⟩

theorem replayDir_modify_ok {dec : Dec} (T : File → File) : ∀ (fs : List File) (i : Nat) (f : File)
    (pre : List Rec), (∀ g ∈ fs, Good dec g) → fs[i]? = some f →
    replay Mode.fixed dec (T f).data = (pre, End.ok) →
    replayDir Mode.fixed dec ((fs.modify i T).map (·.data))
      = (((fs.take i).map (recsOf dec)).flatten ++ (pre ++ ((fs.drop (i + 1)).map (recsOf dec)).flatten),
          End.ok)
  | [], _, _, _, _, h, _ => by simp at h
  | g :: fs, 0, f, pre, hgood, hget, hr => by
    simp at hget; subst hget
    simp [replayDir, hr, replayDir_good (m := Mode.fixed) rfl fs (fun x hx => hgood x (by simp [hx]))]
  | g :: fs, i + 1, f, pre, hgood, hget, hr => by
    have ih := replayDir_modify_ok T fs i f pre (fun x hx => hgood x (by simp [hx]))
      (by simpa using hget) hr
    simp only [List.modify_succ_cons, List.map_cons, replayDir,
      replay_good (m := Mode.fixed) rfl (hgood g (by simp)), if_true, ih, List.take_succ_cons,
      List.flatten_cons, List.append_assoc, List.drop_succ_cons]

theorem take_drop_flatten_sublist {dec : Dec} : ∀ (fs : List File) (i : Nat) (f : File) (j : Nat),
    fs[i]? = some f →
    List.Sublist (((fs.take i).map (recsOf dec)).flatten
        ++ ((recsOf dec f).take j ++ ((fs.drop (i + 1)).map (recsOf dec)).flatten))
      ((fs.map (recsOf dec)).flatten)
  | [], _, _, _, h => by simp at h
  | g :: fs, 0, f, j, h => by
    simp at h; subst h
    simp only [List.take_zero, List.map_nil, List.flatten_nil, List.nil_append, List.map_cons,
      List.flatten_cons, Nat.zero_add, List.drop_succ_cons, List.drop_zero]
    exact List.Sublist.append_right (List.take_sublist _ _) _
  | g :: fs, i + 1, f, j, h => by
    have ih := take_drop_flatten_sublist (dec := dec) fs i f j (by simpa using h)
    simp only [List.take_succ_cons, List.map_cons, List.flatten_cons, List.append_assoc,
      List.drop_succ_cons]
    exact List.Sublist.append_left ih _

/-- **one byte of a length prefix of a valid directory changed**: what the model observes
satisfies `specFlip` — the replay stops at that record with an error, or treats it as torn
(end of that file, later files follow); nothing altered is delivered -/
theorem specFlipLen_of_dirOK {dec : Dec} {fs : List File} {B : Nat} (h : DirOK dec fs B)
    (hnd : (((fs.map (recsOf dec)).flatten).map (·.entry)).Nodup)
    {i p j : Nat} {f : File} (hget : fs[i]? = some f)
    (hpf : ∀ r ∈ recsOf dec f, ∀ m, m < r.entry.length → dec (r.entry.take m) = none)
    (hloc : locate (recsOf dec f) p = some (j, .len))
    (mask : UInt8) (hm : mask ≠ 0) (top : Nat) :
    specFlip (fs.map (recsOf dec)) i p
      (observe Mode.fixed dec (fs.modify i (flipFile p mask)) top) = true := by
  have hf : f ∈ fs := List.mem_of_getElem? hget
  have hgood : ∀ g ∈ fs, Good dec g := fun g hg => (h.1 g hg).1
  obtain ⟨rs, t, hw, ht, hd⟩ := hgood f hf
  have hrf : recsOf dec f = rs := recsOf_eq hw ht hd
  obtain ⟨r, lb, hgetr, hl4, hne, hflip⟩ := locate_flip_len rs p j (hrf ▸ hloc)
    (fun x hx => (hw x hx).2.1) mask hm
  have hr : r ∈ rs := List.mem_of_getElem? hgetr
  -- the flipped file replays its first `j` records and stops
  obtain ⟨e, hrep⟩ : ∃ e, replay Mode.fixed dec (flipFile p mask f).data = (rs.take j, e) := by
    simp only [flipFile, hd, hflip t]
    apply replay_pre_then (rs.take j) (fun x hx => hw x (List.mem_of_mem_take hx)) _
      (fun q => ∃ e, q = (rs.take j, e))
    intro fuel
    obtain ⟨e, he⟩ := replayFile_badlen (dec := dec) ⟨hw r hr, hpf r (hrf ▸ hr)⟩ lb
      (frames (rs.drop (j + 1)) ++ t) fuel hl4 hne
    exact ⟨e, by rw [he]; simp⟩
  have hfr : (fs.map (recsOf dec))[i]? = some (recsOf dec f) := by simp [hget]
  have hbef' : ((fs.map (recsOf dec)).take i).flatten = ((fs.take i).map (recsOf dec)).flatten := by
    rw [← List.map_take]
  have hlat' : ((fs.map (recsOf dec)).drop (i + 1)).flatten
      = ((fs.drop (i + 1)).map (recsOf dec)).flatten := by rw [← List.map_drop]
  by_cases hok : e = End.ok
  · subst hok
    have hdir := replayDir_modify_ok (flipFile p mask) fs i f _ hgood hget hrep
    have hsub := take_drop_flatten_sublist (dec := dec) fs i f j hget
    rw [hrf] at hsub
    generalize hK : ((fs.take i).map (recsOf dec)).flatten
      ++ (rs.take j ++ ((fs.drop (i + 1)).map (recsOf dec)).flatten) = K at hdir hsub
    have hR : (observe Mode.fixed dec (fs.modify i (flipFile p mask)) top).runs
        = (List.range (top + 1)).map (fun frm => ((delivered frm K).map (·.entry), End.ok, lastSeq frm K)) := by
      simp only [observe, hdir, if_true]
    have hR0 : (List.range (top + 1)).map (fun frm => ((delivered frm K).map (·.entry), End.ok, lastSeq frm K))
        = (K.map (·.entry), End.ok, lastSeq 0 K)
          :: ((List.range top).map Nat.succ).map (fun frm =>
            ((delivered frm K).map (·.entry), End.ok, lastSeq frm K)) := by
      simp only [List.range_succ_eq_map, List.map_cons, delivered_zero]
    have hsubseq : isSubseq (K.map (·.entry)) (((fs.map (recsOf dec)).flatten).map (·.entry)) = true :=
      isSubseq_of_sublist (hsub.map _)
    unfold specFlip
    rw [hfr, hR, hR0]
    simp only
    rw [filter_of_sublist hsub hnd, ← hR0, hloc]
    simp only [hsubseq, beq_self_eq_true, Bool.true_and, Bool.and_eq_true]
    refine ⟨?_, ?_⟩
    · simp only [List.all_eq_true, List.mem_range, List.length_map, List.length_range]
      intro frm hfrm
      simp [List.getElem?_map, List.getElem?_range hfrm]
    · simp only [Bool.or_eq_true, beq_iff_eq]
      right
      rw [hbef', hlat', hrf, ← hK, List.append_assoc]
  · have hdir := replayDir_modify_bad (flipFile p mask) fs i f _ e hgood hget hrep hok
    have hsub := take_flatten_sublist (dec := dec) fs i f j hget
    rw [hrf] at hsub
    generalize hK : ((fs.take i).map (recsOf dec)).flatten ++ rs.take j = K at hdir hsub
    have hR : (observe Mode.fixed dec (fs.modify i (flipFile p mask)) top).runs
        = (List.range (top + 1)).map (fun frm => ((delivered frm K).map (·.entry), e, 0)) := by
      simp only [observe, hdir, if_neg hok]
    have hR0 : (List.range (top + 1)).map (fun frm => ((delivered frm K).map (·.entry), e, 0))
        = (K.map (·.entry), e, 0)
          :: ((List.range top).map Nat.succ).map (fun frm => ((delivered frm K).map (·.entry), e, 0)) := by
      simp only [List.range_succ_eq_map, List.map_cons, delivered_zero]
    have hsubseq : isSubseq (K.map (·.entry)) (((fs.map (recsOf dec)).flatten).map (·.entry)) = true :=
      isSubseq_of_sublist (hsub.map _)
    have herr' : (e != End.ok) = true := by simpa using hok
    unfold specFlip
    rw [hfr, hR, hR0]
    simp only
    rw [filter_of_sublist hsub hnd, ← hR0, hloc]
    simp only [hsubseq, beq_self_eq_true, Bool.true_and, Bool.and_eq_true]
    refine ⟨?_, ?_⟩
    · simp only [List.all_eq_true, List.mem_range, List.length_map, List.length_range]
      intro frm hfrm
      simp [List.getElem?_map, List.getElem?_range hfrm, herr']
    · simp only [Bool.or_eq_true, beq_iff_eq]
      left; left
      rw [hbef', hrf, ← hK]

end SgModel.Wal
