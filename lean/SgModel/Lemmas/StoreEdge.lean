import SgModel.Lemmas.StoreStep
/-!
Helper lemmas for the graph-store model (C06), part 4: the three relationship constructors.
-/
namespace SgModel.Store

theorem liveN_iff (s : State) (n : Nat) : liveN s n = true ↔ getNode s n ≠ none := by
  unfold liveN; cases getNode s n <;> simp

/-- the common part: allocate, link (sorted or pushed), then set columns / sparse props /
index / ghost flag in any way that only adds rows for the new id -/
theorem inv_link {s : State} (h : Inv s) (src tgt ty : Nat) (sorted : Bool)
    (hsrc : getNode s src ≠ none) (htgt : getNode s tgt ≠ none)
    (ec : List ((Nat × Nat) × Nat)) (ep : List (Nat × Props)) (ti : List (Nat × List Nat)) (sp : Bool)
    (hec : ∀ p ∈ ec, p ∈ s.ecols ∨ p.1.1 = (allocE s).1)
    (hep : ∀ p ∈ ep, p ∈ s.eprops ∨ p.1 = (allocE s).1) :
    Inv { linkEdge (allocE s).2 (allocE s).1 src tgt ty sorted with
            ecols := ec, eprops := ep, typeIdx := ti, stubPending := sp } := by
  have spec := allocE_spec h.toInvE
  generalize allocE s = a at spec hec hep ⊢
  obtain ⟨i, s1⟩ := a
  simp only at spec hec hep ⊢
  obtain ⟨hfresh, hfree, hfnd, hle, hlt, hs1⟩ := spec
  have e_endp : s1.endp = s.endp := by rw [hs1]
  have e_ty : s1.etypeIds = s.etypeIds := by rw [hs1]
  have e_tbl : s1.etypeTable = s.etypeTable := by rw [hs1]
  have e_nodes : s1.nodes = s.nodes := by rw [hs1]
  have e_out : s1.outT = s.outT := by rw [hs1]
  have e_in : s1.inT = s.inT := by rw [hs1]
  have e_fn : s1.freeN = s.freeN := by rw [hs1]
  have e_nn : s1.nextN = s.nextN := by rw [hs1]
  have e_nc : s1.ncols = s.ncols := by rw [hs1]
  have is := intern_spec s.etypeTable ty h.tbl
  rw [linkEdge_eq]
  have hko : keyOut s i = none := by simp [keyOut, hfresh]
  have hki : keyIn s i = none := by simp [keyIn, hfresh]
  refine Inv.edge_add h i src tgt (intern s.etypeTable ty).2 hfresh hsrc htgt ?_ ?_ ?_ ?_ ?_
    e_nodes e_fn e_nn ?_ ?_ hfree hfnd hle hlt hec hep e_nc
  · intro e
    show (setGrow s1.endp i (src, tgt) (0, 0)).getD e (0, 0) = _
    rw [getD_setGrow, e_endp]; rfl
  · intro e
    show (setGrow s1.etypeIds i (some (intern s1.etypeTable ty).2) none).getD e none = _
    rw [getD_setGrow, e_ty, e_tbl]; rfl
  · show _ < (intern s1.etypeTable ty).1.length
    rw [e_tbl]; exact is.2.1
  · show (intern s1.etypeTable ty).1.Nodup
    rw [e_tbl]; exact is.1
  · show _ ≤ (intern s1.etypeTable ty).1.length
    rw [e_tbl]; exact is.2.2.1
  · show TierInv (if sorted = true then s1.outT.insertSorted src tgt i else s1.outT.push src tgt i) _
    rw [e_out]
    cases sorted
    · exact h.out.push src tgt i hko
    · exact h.out.insertSorted src tgt i hko
  · show TierInv (if sorted = true then s1.inT.insertSorted tgt src i else s1.inT.push tgt src i) _
    rw [e_in]
    cases sorted
    · exact h.inn.push tgt src i hki
    · exact h.inn.insertSorted tgt src i hki

theorem allocE_ecols (s : State) : (allocE s).2.ecols = s.ecols := by
  unfold allocE; cases s.freeE <;> rfl
theorem allocE_eprops (s : State) : (allocE s).2.eprops = s.eprops := by
  unfold allocE; cases s.freeE <;> rfl

theorem inv_createEdge {s : State} (h : Inv s) (src tgt ty : Nat) (ps : Props) :
    Inv (createEdge s src tgt ty ps).1 := by
  unfold createEdge
  cases hs : liveN s src with
  | false => exact h
  | true =>
    cases ht : liveN s tgt with
    | false => exact h
    | true =>
      have hsrc := (liveN_iff s src).mp hs
      have htgt := (liveN_iff s tgt).mp ht
      simp only [Bool.not_true, Bool.false_eq_true, if_false]
      have key := inv_link h src tgt ty true hsrc htgt
      generalize hA : allocE s = a at key ⊢
      obtain ⟨i, s1⟩ := a
      have e_ec : s1.ecols = s.ecols := by
        have := allocE_ecols s; rw [hA] at this; exact this
      have e_ep : s1.eprops = s.eprops := by
        have := allocE_eprops s; rw [hA] at this; exact this
      simp only at key ⊢
      rw [linkEdge_eq]
      have := key (ps.foldl (fun c p => colSet c i p.1 p.2) s1.ecols)
        (if ps.isEmpty then s1.eprops else assocSet s1.eprops i ps)
        (idxInsert s1.typeIdx ty i) s1.stubPending
        (by
          intro p hp
          rcases mem_foldl_colSet ps _ i p hp with hp' | hp'
          · left; rw [← e_ec]; exact hp'
          · exact Or.inr hp')
        (by
          intro p hp
          split at hp
          · left; rw [← e_ep]; exact hp
          · rcases mem_assocSet hp with hp' | hp'
            · left; rw [← e_ep]; exact hp'
            · exact Or.inr hp')
      rw [linkEdge_eq] at this
      exact this

theorem inv_createEdgeStub {s : State} (h : Inv s) (src tgt ty : Nat) :
    Inv (createEdgeStub s src tgt ty).1 := by
  unfold createEdgeStub
  cases hs : liveN s src with
  | false => exact h
  | true =>
    cases ht : liveN s tgt with
    | false => exact h
    | true =>
      have hsrc := (liveN_iff s src).mp hs
      have htgt := (liveN_iff s tgt).mp ht
      simp only [Bool.not_true, Bool.or_self, Bool.false_eq_true, if_false]
      have key := inv_link h src tgt ty false hsrc htgt
      generalize hA : allocE s = a at key ⊢
      obtain ⟨i, s1⟩ := a
      have e_ec : s1.ecols = s.ecols := by
        have := allocE_ecols s; rw [hA] at this; exact this
      have e_ep : s1.eprops = s.eprops := by
        have := allocE_eprops s; rw [hA] at this; exact this
      simp only at key ⊢
      rw [linkEdge_eq]
      have := key s1.ecols s1.eprops s1.typeIdx true
        (by intro p hp; left; rw [← e_ec]; exact hp)
        (by intro p hp; left; rw [← e_ep]; exact hp)
      rw [linkEdge_eq] at this
      exact this

end SgModel.Store
