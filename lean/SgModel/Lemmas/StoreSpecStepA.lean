import SgModel.Lemmas.StoreSpecStep
/-!
Helper lemmas for the graph-store model (C06), part 16: `specStep` for creations and deletions.
-/
namespace SgModel.Store

theorem specStep_mkN {s : State} (hI : Inv s) (p : Probe) (l : Nat)
    (hcov : ∀ m, getNode s m ≠ none → m ∈ p.ids)
    (hcov' : ∀ m, getNode (step s (.mkN l)).1 m ≠ none → m ∈ p.ids)
    (hpre : Pre s (.mkN l)) :
    specStep (obs s p) (.mkN l) (step s (.mkN l)).2 (obs (step s (.mkN l)).1 p) = true := by
  have hI' := inv_step hI (.mkN l)
  have hE := hI.toInvE
  exact spec_newNode hI p l [] hcov hcov'

theorem specStep_mkNS {s : State} (hI : Inv s) (p : Probe) (l : Nat)
    (hcov : ∀ m, getNode s m ≠ none → m ∈ p.ids)
    (hcov' : ∀ m, getNode (step s (.mkNS l)).1 m ≠ none → m ∈ p.ids)
    (hpre : Pre s (.mkNS l)) :
    specStep (obs s p) (.mkNS l) (step s (.mkNS l)).2 (obs (step s (.mkNS l)).1 p) = true := by
  have hI' := inv_step hI (.mkNS l)
  have hE := hI.toInvE
  exact spec_newNode hI p l [] hcov hcov'

theorem specStep_mkNP {s : State} (hI : Inv s) (p : Probe) (l k v : Nat)
    (hcov : ∀ m, getNode s m ≠ none → m ∈ p.ids)
    (hcov' : ∀ m, getNode (step s (.mkNP l k v)).1 m ≠ none → m ∈ p.ids)
    (hpre : Pre s (.mkNP l k v)) :
    specStep (obs s p) (.mkNP l k v) (step s (.mkNP l k v)).2 (obs (step s (.mkNP l k v)).1 p) = true := by
  have hI' := inv_step hI (.mkNP l k v)
  have hE := hI.toInvE
  exact spec_newNode hI p l [(k, v)] hcov hcov'

theorem specStep_mkE {s : State} (hI : Inv s) (p : Probe) (a b ty : Nat)
    (hcov : ∀ m, getNode s m ≠ none → m ∈ p.ids)
    (hcov' : ∀ m, getNode (step s (.mkE a b ty)).1 m ≠ none → m ∈ p.ids)
    (hpre : Pre s (.mkE a b ty)) :
    specStep (obs s p) (.mkE a b ty) (step s (.mkE a b ty)).2 (obs (step s (.mkE a b ty)).1 p) = true := by
  have hI' := inv_step hI (.mkE a b ty)
  have hE := hI.toInvE
  exact spec_newEdge hI p a b ty [] hcov

theorem specStep_mkEP {s : State} (hI : Inv s) (p : Probe) (a b ty k v : Nat)
    (hcov : ∀ m, getNode s m ≠ none → m ∈ p.ids)
    (hcov' : ∀ m, getNode (step s (.mkEP a b ty k v)).1 m ≠ none → m ∈ p.ids)
    (hpre : Pre s (.mkEP a b ty k v)) :
    specStep (obs s p) (.mkEP a b ty k v) (step s (.mkEP a b ty k v)).2 (obs (step s (.mkEP a b ty k v)).1 p) = true := by
  have hI' := inv_step hI (.mkEP a b ty k v)
  have hE := hI.toInvE
  exact spec_newEdge hI p a b ty [(k, v)] hcov

theorem specStep_mkES {s : State} (hI : Inv s) (p : Probe) (a b ty : Nat)
    (hcov : ∀ m, getNode s m ≠ none → m ∈ p.ids)
    (hcov' : ∀ m, getNode (step s (.mkES a b ty)).1 m ≠ none → m ∈ p.ids)
    (hpre : Pre s (.mkES a b ty)) :
    specStep (obs s p) (.mkES a b ty) (step s (.mkES a b ty)).2 (obs (step s (.mkES a b ty)).1 p) = true := by
  have hI' := inv_step hI (.mkES a b ty)
  have hE := hI.toInvE
  exact spec_newEdgeStub hI p a b ty hcov hpre.1 hpre.2

theorem specStep_delE {s : State} (hI : Inv s) (p : Probe) (e : Nat)
    (hcov : ∀ m, getNode s m ≠ none → m ∈ p.ids)
    (hcov' : ∀ m, getNode (step s (.delE e)).1 m ≠ none → m ∈ p.ids)
    (hpre : Pre s (.delE e)) :
    specStep (obs s p) (.delE e) (step s (.delE e)).2 (obs (step s (.delE e)).1 p) = true := by
  have hI' := inv_step hI (.delE e)
  have hE := hI.toInvE
  obtain ⟨hn, hget, hret⟩ := deleteEdge_abs hE e
  show specStep (obs s p) (.delE e) (deleteEdge s e).2 (obs (deleteEdge s e).1 p) = true
  have hE' : InvE (deleteEdge s e).1 := hI'.toInvE
  simp only [specStep]
  rw [obs_edges_eq, obs_edges_eq, eid_contains hE, hret]
  cases hg : (getEdge s e).isSome with
  | true =>
    simp only [if_true, Bool.and_eq_true, beq_self_eq_true, true_and]
    refine ⟨nodes_same p hn, ?_⟩
    exact edges_del hE hE' (fun e' => e' = e) (fun x => eId x != e) hget
      (fun x _ => by simp)
  | false =>
    simp only [Bool.false_eq_true, if_false, Bool.and_eq_true, beq_self_eq_true, true_and]
    apply spec_same p hE hE' hn
    intro e'
    rw [hget]
    by_cases he : e' = e
    · subst he
      cases hge : getEdge s e' with
      | none => simp
      | some q => rw [hge] at hg; cases hg
    · simp [he]

theorem specStep_delN {s : State} (hI : Inv s) (p : Probe) (n : Nat)
    (hcov : ∀ m, getNode s m ≠ none → m ∈ p.ids)
    (hcov' : ∀ m, getNode (step s (.delN n)).1 m ≠ none → m ∈ p.ids)
    (hpre : Pre s (.delN n)) :
    specStep (obs s p) (.delN n) (step s (.delN n)).2 (obs (step s (.delN n)).1 p) = true := by
  have hI' := inv_step hI (.delN n)
  have hE := hI.toInvE
  show specStep (obs s p) (.delN n) (deleteNode s n).2 (obs (deleteNode s n).1 p) = true
  have hE' : InvE (deleteNode s n).1 := hI'.toInvE
  simp only [specStep]
  rw [nid_contains s p hcov]
  cases hgn : getNode s n with
  | none =>
    have : deleteNode s n = (s, .err 1) := by
      unfold deleteNode deleteNodeWith; rw [hgn]
    rw [this]
    have hl : liveN s n = false := by simp [liveN, hgn]
    simp [hl, spec_same_refl p hE]
  | some r =>
    obtain ⟨hn, hget, hret⟩ := deleteNode_abs hI n r hgn
    have hl : liveN s n = true := by simp [liveN, hgn]
    rw [hret]
    simp only [hl, if_true, Bool.and_eq_true, beq_self_eq_true, true_and]
    refine ⟨nodes_del p n hn, ?_⟩
    rw [obs_edges_eq, obs_edges_eq]
    refine edges_del hE hE'
      (fun e => endpOf s e ≠ (0, 0) ∧ ((endpOf s e).1 = n ∨ (endpOf s e).2 = n))
      (fun x => eSrc x != n && eTgt x != n) hget ?_
    intro x hx
    obtain ⟨hep, hlive⟩ := obsEdges_sound hx
    simp only [Bool.and_eq_true, bne_iff_ne, ne_eq, hep]
    constructor
    · rintro ⟨h1, h2⟩ ⟨_, h3 | h3⟩
      · exact h1 h3
      · exact h2 h3
    · intro hnot
      exact ⟨fun h1 => hnot ⟨by rw [← hep]; exact hlive, Or.inl h1⟩,
        fun h2 => hnot ⟨by rw [← hep]; exact hlive, Or.inr h2⟩⟩

end SgModel.Store
