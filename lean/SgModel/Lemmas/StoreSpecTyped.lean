import SgModel.Lemmas.StoreSpecObs
/-!
Helper lemmas for the graph-store model (C06), part 20: the Boolean clause `specTyped` (typed
neighbour reads and typed degrees, both directions) holds of the model's observation.
-/
namespace SgModel.Store

theorem all_zip4 {α β γ δ ε : Type} (l : List α) (f1 : α → β) (f2 : α → γ) (f3 : α → δ) (f4 : α → ε)
    (q : α × β × γ × δ × ε → Bool) :
    (l.zip ((l.map f1).zip ((l.map f2).zip ((l.map f3).zip (l.map f4))))).all q = true
      ↔ ∀ x ∈ l, q (x, f1 x, f2 x, f3 x, f4 x) = true := by
  rw [zip_map_map l f3 f4, zip_map_map l f2, zip_map_map l f1, all_zip_map_self]

theorem mem_typed_out {s : State} (h : Inv s) (n ty t e : Nat) :
    (t, e) ∈ neighbours s s.outT n (typeFilter s ty)
      ↔ (endpOf s e = (n, t) ∧ endpOf s e ≠ (0, 0) ∧ edgeTypeOf s e = some ty) := by
  simp only [neighbours, List.mem_filter]
  constructor
  · rintro ⟨hm, hf⟩
    have hk := keyOut_some.mp (h.out.sound n t e hm)
    exact ⟨hk.1, hk.2, (typeId_iff h.toInvE hk.2 ty).mp ((typeMatches_filter s e ty).mp hf)⟩
  · rintro ⟨he, hl, hty⟩
    exact ⟨h.out.complete e n t (keyOut_some.mpr ⟨he, hl⟩),
      (typeMatches_filter s e ty).mpr ((typeId_iff h.toInvE hl ty).mpr hty)⟩

theorem mem_typed_in {s : State} (h : Inv s) (n ty t e : Nat) :
    (t, e) ∈ neighbours s s.inT n (typeFilter s ty)
      ↔ (endpOf s e = (t, n) ∧ endpOf s e ≠ (0, 0) ∧ edgeTypeOf s e = some ty) := by
  simp only [neighbours, List.mem_filter]
  constructor
  · rintro ⟨hm, hf⟩
    have hk := keyIn_some.mp (h.inn.sound n t e hm)
    exact ⟨hk.1, hk.2, (typeId_iff h.toInvE hk.2 ty).mp ((typeMatches_filter s e ty).mp hf)⟩
  · rintro ⟨he, hl, hty⟩
    exact ⟨h.inn.complete e n t (keyIn_some.mpr ⟨he, hl⟩),
      (typeMatches_filter s e ty).mpr ((typeId_iff h.toInvE hl ty).mpr hty)⟩

theorem typed_nodup_out {s : State} (h : Inv s) (n ty : Nat) :
    (neighbours s s.outT n (typeFilter s ty)).Nodup :=
  nodup_of_map_snd (List.Nodup.sublist (List.Sublist.map _ List.filter_sublist) (h.out.nodup n))

theorem typed_nodup_in {s : State} (h : Inv s) (n ty : Nat) :
    (neighbours s s.inT n (typeFilter s ty)).Nodup :=
  nodup_of_map_snd (List.Nodup.sublist (List.Sublist.map _ List.filter_sublist) (h.inn.nodup n))

/-- the reference list of the specification for outgoing typed neighbours -/
def wantOut (s : State) (n ty : Nat) : Row :=
  ((obsEdges s).filter (fun e => eSrc e == n && eTy e == ty)).map (fun e => (eTgt e, eId e))

def wantIn (s : State) (n ty : Nat) : Row :=
  ((obsEdges s).filter (fun e => eTgt e == n && eTy e == ty)).map (fun e => (eSrc e, eId e))

theorem wantOut_nodup (s : State) (n ty : Nat) : (wantOut s n ty).Nodup := by
  apply nodup_of_map_snd
  have : (wantOut s n ty).map (·.2) = ((obsEdges s).filter (fun e => eSrc e == n && eTy e == ty)).map eId := by
    simp [wantOut, List.map_map, Function.comp_def]
  rw [this]; exact obsEdges_filter_map_nodup s _

theorem wantIn_nodup (s : State) (n ty : Nat) : (wantIn s n ty).Nodup := by
  apply nodup_of_map_snd
  have : (wantIn s n ty).map (·.2) = ((obsEdges s).filter (fun e => eTgt e == n && eTy e == ty)).map eId := by
    simp [wantIn, List.map_map, Function.comp_def]
  rw [this]; exact obsEdges_filter_map_nodup s _

theorem mem_wantOut {s : State} (h : Inv s) (n ty : Nat) (q : Nat × Nat) :
    q ∈ wantOut s n ty ↔ q ∈ neighbours s s.outT n (typeFilter s ty) := by
  obtain ⟨t, e⟩ := q
  rw [mem_typed_out h, ← exists_obsEdge_iff h.toInvE e n t ty]
  simp only [wantOut, List.mem_map, List.mem_filter, Bool.and_eq_true, beq_iff_eq, Prod.mk.injEq]
  constructor
  · rintro ⟨x, ⟨hx, h1, h2⟩, h3, h4⟩; exact ⟨x, hx, h4, h1, h3, h2⟩
  · rintro ⟨x, hx, h4, h1, h3, h2⟩; exact ⟨x, ⟨hx, h1, h2⟩, h3, h4⟩

theorem mem_wantIn {s : State} (h : Inv s) (n ty : Nat) (q : Nat × Nat) :
    q ∈ wantIn s n ty ↔ q ∈ neighbours s s.inT n (typeFilter s ty) := by
  obtain ⟨t, e⟩ := q
  rw [mem_typed_in h, ← exists_obsEdge_iff h.toInvE e t n ty]
  simp only [wantIn, List.mem_map, List.mem_filter, Bool.and_eq_true, beq_iff_eq, Prod.mk.injEq]
  constructor
  · rintro ⟨x, ⟨hx, h1, h2⟩, h3, h4⟩; exact ⟨x, hx, h4, h3, h1, h2⟩
  · rintro ⟨x, hx, h4, h3, h1, h2⟩; exact ⟨x, ⟨hx, h1, h2⟩, h3, h4⟩

theorem specTyped_holds {s : State} (hI : Inv s) (p : Probe) : specTyped p (obs s p) = true := by
  unfold specTyped
  show ((p.ids.zip ((p.ids.map _).zip ((p.ids.map _).zip ((p.ids.map _).zip (p.ids.map _))))).all _) = true
  rw [all_zip4]
  intro n _
  show ((p.types.zip ((p.types.map _).zip ((p.types.map _).zip ((p.types.map _).zip (p.types.map _))))).all _) = true
  rw [all_zip4]
  intro ty _
  show (sameOnce (neighbours s s.outT n (typeFilter s ty)) (wantOut s n ty)
      && sameOnce (neighbours s s.inT n (typeFilter s ty)) (wantIn s n ty)
      && degreeForType s s.outT n ty == (wantOut s n ty).length
      && degreeForType s s.inT n ty == (wantIn s n ty).length) = true
  have pO : (neighbours s s.outT n (typeFilter s ty)).Perm (wantOut s n ty) :=
    (List.perm_ext_iff_of_nodup (typed_nodup_out hI n ty) (wantOut_nodup s n ty)).mpr
      (fun q => (mem_wantOut hI n ty q).symm)
  have pI : (neighbours s s.inT n (typeFilter s ty)).Perm (wantIn s n ty) :=
    (List.perm_ext_iff_of_nodup (typed_nodup_in hI n ty) (wantIn_nodup s n ty)).mpr
      (fun q => (mem_wantIn hI n ty q).symm)
  simp only [Bool.and_eq_true, beq_iff_eq]
  refine ⟨⟨⟨?_, ?_⟩, ?_⟩, ?_⟩
  · exact sameOnce_of _ _ (typed_nodup_out hI n ty) (fun q => (mem_wantOut hI n ty q).symm)
  · exact sameOnce_of _ _ (typed_nodup_in hI n ty) (fun q => (mem_wantIn hI n ty q).symm)
  · rw [degree_eq_typed_length, pO.length_eq]
  · rw [degree_eq_typed_length, pI.length_eq]

end SgModel.Store
