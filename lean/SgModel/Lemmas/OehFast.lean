import SgModel.Lemmas.OehLca
/-! The frontier closures `descFast` / `ancFast` compute exactly the specification's sets. -/
namespace SgModel.Oeh

abbrev SSorted (l : List Nat) : Prop := l.Pairwise (· < ·)

theorem mem_insertSorted (a x : Nat) : ∀ l : List Nat, x ∈ insertSorted a l ↔ x = a ∨ x ∈ l := by
  intro l
  induction l with
  | nil => simp [insertSorted]
  | cons y r ih =>
    simp only [insertSorted]
    split
    · simp
    · split
      · next h => subst h; simp
      · simp only [List.mem_cons, ih]
        constructor
        · rintro (h | h | h)
          · exact Or.inr (Or.inl h)
          · exact Or.inl h
          · exact Or.inr (Or.inr h)
        · rintro (h | h | h)
          · exact Or.inr (Or.inl h)
          · exact Or.inl h
          · exact Or.inr (Or.inr h)

theorem insertSorted_sorted (a : Nat) : ∀ l : List Nat, SSorted l → SSorted (insertSorted a l) := by
  intro l
  induction l with
  | nil => intro _; simp [insertSorted, SSorted]
  | cons y r ih =>
    intro hs
    have hs' := List.pairwise_cons.mp hs
    simp only [insertSorted]
    split
    · next h =>
      refine List.pairwise_cons.mpr ⟨?_, hs⟩
      intro z hz
      rcases List.mem_cons.mp hz with e | e
      · rw [e]; exact h
      · have := hs'.1 z e; omega
    · split
      · exact hs
      · next h1 h2 =>
        refine List.pairwise_cons.mpr ⟨?_, ih hs'.2⟩
        intro z hz
        rcases (mem_insertSorted a z r).mp hz with e | e
        · rw [e]; omega
        · exact hs'.1 z e

theorem insertSorted_of_mem (a : Nat) : ∀ l : List Nat, SSorted l → a ∈ l → insertSorted a l = l := by
  intro l
  induction l with
  | nil => intro _ h; cases h
  | cons y r ih =>
    intro hs hm
    have hs' := List.pairwise_cons.mp hs
    simp only [insertSorted]
    rcases List.mem_cons.mp hm with e | e
    · subst e; simp
    · have hlt := hs'.1 a e
      have h1 : ¬ a < y := by omega
      have h2 : ¬ a = y := by omega
      simp only [h1, h2, if_false]
      rw [ih hs'.2 e]

theorem insertSorted_length (a : Nat) : ∀ l : List Nat,
    (insertSorted a l).length = l.length ∨ (insertSorted a l).length = l.length + 1 := by
  intro l
  induction l with
  | nil => right; rfl
  | cons y r ih =>
    simp only [insertSorted]
    split
    · right; simp
    · split
      · left; rfl
      · rcases ih with h | h
        · left; simp [h]
        · right; simp [h]

theorem insertSorted_length_eq (a : Nat) : ∀ l : List Nat, SSorted l →
    (insertSorted a l).length = l.length → a ∈ l := by
  intro l
  induction l with
  | nil => intro _ h; simp [insertSorted] at h
  | cons y r ih =>
    intro hs h
    have hs' := List.pairwise_cons.mp hs
    simp only [insertSorted] at h
    split at h
    · simp at h
    · split at h
      · next e => simp [e]
      · simp only [List.length_cons, Nat.add_right_cancel_iff] at h
        exact List.mem_cons_of_mem _ (ih hs'.2 h)

theorem mem_unionSorted (x : Nat) : ∀ (b a : List Nat), x ∈ unionSorted a b ↔ x ∈ a ∨ x ∈ b := by
  intro b
  induction b with
  | nil => intro a; simp [unionSorted]
  | cons y b ih =>
    intro a
    have := ih (insertSorted y a)
    simp only [unionSorted, List.foldl_cons] at this ⊢
    rw [this, mem_insertSorted]
    simp only [List.mem_cons]
    constructor
    · rintro ((h | h) | h)
      · exact Or.inr (Or.inl h)
      · exact Or.inl h
      · exact Or.inr (Or.inr h)
    · rintro (h | h | h)
      · exact Or.inl (Or.inr h)
      · exact Or.inl (Or.inl h)
      · exact Or.inr h

theorem unionSorted_sorted : ∀ (b a : List Nat), SSorted a → SSorted (unionSorted a b) := by
  intro b
  induction b with
  | nil => intro a h; exact h
  | cons y b ih =>
    intro a h
    have := ih (insertSorted y a) (insertSorted_sorted y a h)
    simpa [unionSorted] using this

theorem unionSorted_length_le : ∀ (b a : List Nat), a.length ≤ (unionSorted a b).length := by
  intro b
  induction b with
  | nil => intro a; exact Nat.le_refl _
  | cons y b ih =>
    intro a
    have h1 := ih (insertSorted y a)
    have h2 := insertSorted_length y a
    simp only [unionSorted, List.foldl_cons] at h1 ⊢
    omega

/-- nothing was added ⇒ every element of `b` was already there -/
theorem unionSorted_fix : ∀ (b a : List Nat), SSorted a →
    (unionSorted a b).length = a.length → ∀ x ∈ b, x ∈ a := by
  intro b
  induction b with
  | nil => intro a _ _ x hx; cases hx
  | cons y b ih =>
    intro a hs hl x hx
    have h1 := unionSorted_length_le b (insertSorted y a)
    have h2 := insertSorted_length y a
    simp only [unionSorted, List.foldl_cons] at hl h1
    have hya : y ∈ a := insertSorted_length_eq y a hs (by omega)
    have he := insertSorted_of_mem y a hs hya
    rw [he] at hl
    rcases List.mem_cons.mp hx with e | e
    · rw [e]; exact hya
    · exact ih a hs hl x e

theorem sorted_length_bound : ∀ (l : List Nat) (lo n : Nat), SSorted l →
    (∀ x ∈ l, lo ≤ x ∧ x < n) → l.length + lo ≤ n ∨ l = [] := by
  intro l
  induction l with
  | nil => intro _ _ _ _; right; rfl
  | cons a l ih =>
    intro lo n hs h
    left
    have hs' := List.pairwise_cons.mp hs
    have ha := h a (by simp)
    rcases ih (a + 1) n hs'.2 (fun x hx => ⟨by have := hs'.1 x hx; omega, (h x (by simp [hx])).2⟩)
      with h1 | h1
    · simp only [List.length_cons]; omega
    · subst h1; simp only [List.length_cons, List.length_nil]; omega

/-- a strictly increasing list inside `[lo, n)` that is long enough contains all of `[lo, n)` -/
theorem sorted_full : ∀ (l : List Nat) (lo n : Nat), SSorted l →
    (∀ x ∈ l, lo ≤ x ∧ x < n) → n ≤ l.length + lo → ∀ v, lo ≤ v → v < n → v ∈ l := by
  intro l
  induction l with
  | nil => intro lo n _ _ hl v h1 h2; simp at hl; omega
  | cons a l ih =>
    intro lo n hs h hl v hv1 hv2
    have hs' := List.pairwise_cons.mp hs
    have ha := h a (by simp)
    have hrest : ∀ x ∈ l, a + 1 ≤ x ∧ x < n :=
      fun x hx => ⟨by have := hs'.1 x hx; omega, (h x (by simp [hx])).2⟩
    have hb := sorted_length_bound l (a + 1) n hs'.2 hrest
    simp only [List.length_cons] at hl
    have hal : a = lo := by
      rcases hb with hb | hb
      · omega
      · subst hb; simp at hl; omega
    by_cases hva : v = a
    · simp [hva]
    · exact List.mem_cons_of_mem _ (ih (a + 1) n hs'.2 hrest (by omega) v (by omega) hv2)

/-- two strictly increasing lists with the same elements are equal -/
theorem sorted_ext : ∀ (l1 l2 : List Nat), SSorted l1 → SSorted l2 →
    (∀ x, x ∈ l1 ↔ x ∈ l2) → l1 = l2 := by
  intro l1
  induction l1 with
  | nil =>
    intro l2 _ _ h
    cases l2 with
    | nil => rfl
    | cons b l2 => exact absurd ((h b).mpr (by simp)) (by simp)
  | cons a l1 ih =>
    intro l2 h1 h2 h
    cases l2 with
    | nil => exact absurd ((h a).mp (by simp)) (by simp)
    | cons b l2 =>
      have p1 := List.pairwise_cons.mp h1
      have p2 := List.pairwise_cons.mp h2
      have hab : a = b := by
        have ha := (h a).mp (by simp)
        have hb := (h b).mpr (by simp)
        rcases List.mem_cons.mp ha with e | e
        · exact e
        · rcases List.mem_cons.mp hb with e' | e'
          · exact e'.symm
          · have := p2.1 a e; have := p1.1 b e'; omega
      subst hab
      congr 1
      apply ih l2 p1.2 p2.2
      intro x
      constructor
      · intro hx
        have := (h x).mp (by simp [hx])
        rcases List.mem_cons.mp this with e | e
        · have := p1.1 x hx; omega
        · exact e
      · intro hx
        have := (h x).mpr (by simp [hx])
        rcases List.mem_cons.mp this with e | e
        · have := p2.1 x hx; omega
        · exact e

/-- the closure loop: from a sorted seed inside an invariant set `D ⊆ [0, n)` that is closed
under `nbrs`, it returns a sorted list that contains the seed, stays inside `D`, and is closed
under `nbrs` -/
theorem closureLoop_spec (nbrs : Nat → List Nat) (D : Nat → Prop) (n : Nat)
    (hD : ∀ v, D v → v < n) (hstep : ∀ v, D v → ∀ w ∈ nbrs v, D w) :
    ∀ (f : Nat) (S : List Nat), SSorted S → (∀ v ∈ S, D v) → n ≤ S.length + f →
      SSorted (closureLoop nbrs f S) ∧ (∀ v ∈ S, v ∈ closureLoop nbrs f S)
      ∧ (∀ v ∈ closureLoop nbrs f S, D v)
      ∧ (∀ v ∈ closureLoop nbrs f S, ∀ w ∈ nbrs v, D w → w ∈ closureLoop nbrs f S) := by
  intro f
  induction f with
  | zero =>
    intro S hs hin hl
    refine ⟨hs, fun v hv => hv, hin, ?_⟩
    intro v _ w _ hw
    exact sorted_full S 0 n hs (fun x hx => ⟨Nat.zero_le _, hD x (hin x hx)⟩) (by omega) w
      (Nat.zero_le _) (hD w hw)
  | succ f ih =>
    intro S hs hin hl
    simp only [closureLoop]
    have hs' := unionSorted_sorted (S.flatMap nbrs) S hs
    have hle := unionSorted_length_le (S.flatMap nbrs) S
    split
    · next heq =>
      have heq' : (unionSorted S (S.flatMap nbrs)).length = S.length := by simpa using heq
      have hfix := unionSorted_fix (S.flatMap nbrs) S hs heq'
      refine ⟨hs, fun v hv => hv, hin, ?_⟩
      intro v hv w hw _
      exact hfix w (List.mem_flatMap.mpr ⟨v, hv, hw⟩)
    · next hne =>
      have hne' : (unionSorted S (S.flatMap nbrs)).length ≠ S.length := by simpa using hne
      have hin' : ∀ v ∈ unionSorted S (S.flatMap nbrs), D v := by
        intro v hv
        rcases (mem_unionSorted v _ _).mp hv with h | h
        · exact hin v h
        · obtain ⟨s, hs1, hs2⟩ := List.mem_flatMap.mp h
          exact hstep s (hin s hs1) v hs2
      obtain ⟨r1, r2, r3, r4⟩ := ih _ hs' hin' (by omega)
      exact ⟨r1, fun v hv => r2 v ((mem_unionSorted v _ _).mpr (Or.inl hv)), r3, r4⟩

/-! ### instantiation: descendants and ancestors -/

theorem Reach.src_lt {P : Poset} {h : Nat → Nat} (A : Acyclic P h) {v y : Nat} (r : Reach P v y)
    (hy : y < P.n) : v < P.n := by
  cases r with
  | refl _ => exact hy
  | step e _ => exact (A.inRange _ e).1

theorem Reach.dst_lt {P : Poset} {h : Nat → Nat} (A : Acyclic P h) {x c : Nat} (r : Reach P x c)
    (hx : x < P.n) : c < P.n := by
  induction r with
  | refl _ => exact hx
  | step e _ ih => exact ih (A.inRange _ e).2

theorem specDesc_sorted (P : Poset) (y : Nat) : SSorted (specDesc P y) :=
  List.Pairwise.filter _ List.pairwise_lt_range

theorem mem_specDesc {P : Poset} {h : Nat → Nat} (A : Acyclic P h) (v y : Nat) (hy : y < P.n) :
    v ∈ specDesc P y ↔ Reach P v y := by
  simp only [specDesc, List.mem_filter, List.mem_range]
  constructor
  · intro ⟨_, hr⟩; exact Reach.of_reach _ _ _ hr
  · intro r; exact ⟨r.src_lt A hy, (reach_iff_Reach A v y hy).mpr r⟩

/-- `descFast` is the specification's descendant list -/
theorem descFast_eq_specDesc {P : Poset} {h : Nat → Nat} (A : Acyclic P h) (y : Nat)
    (hy : y < P.n) : descFast P y = specDesc P y := by
  have spec := closureLoop_spec P.children (fun v => Reach P v y) P.n
    (fun v hv => hv.src_lt A hy)
    (fun v hv w hw => Reach.step (mem_children.mp hw) hv)
    P.n [y] (by simp [SSorted]) (fun v hv => by simp at hv; subst hv; exact Reach.refl _)
    (by simp)
  obtain ⟨r1, r2, r3, r4⟩ := spec
  apply sorted_ext _ _ r1 (specDesc_sorted P y)
  intro v
  rw [mem_specDesc A v y hy]
  constructor
  · exact r3 v
  · intro r
    induction r with
    | refl _ => exact r2 _ (by simp)
    | @step v p y' e r ih =>
      have hp := ih hy r1 r2 r3 r4
      exact r4 p hp v (mem_children.mpr e) (Reach.step e r)

/-- `ancFast` lists exactly the nodes above `x` -/
theorem mem_ancFast {P : Poset} {h : Nat → Nat} (A : Acyclic P h) (x c : Nat) (hx : x < P.n) :
    c ∈ ancFast P x ↔ Reach P x c := by
  have spec := closureLoop_spec P.parents (fun v => Reach P x v) P.n
    (fun v hv => hv.dst_lt A hx)
    (fun v hv w hw => hv.trans (Reach.step (mem_parents.mp hw) (Reach.refl _)))
    P.n [x] (by simp [SSorted]) (fun v hv => by simp at hv; subst hv; exact Reach.refl _)
    (by simp)
  obtain ⟨_, r2, r3, r4⟩ := spec
  constructor
  · exact r3 c
  · have key : ∀ a c', a ∈ ancFast P x → Reach P a c' → c' ∈ ancFast P x := by
      intro a c' ha rac
      induction rac with
      | refl _ => exact ha
      | @step a p c'' e _ ih =>
        have hda := r3 a ha
        exact ih (r4 a ha p (mem_parents.mpr e) (hda.trans (Reach.step e (Reach.refl _))))
    intro r
    exact key x c (r2 x (by simp)) r

theorem ancFast_sorted (P : Poset) (x : Nat) : SSorted (ancFast P x) := by
  have : ∀ (f : Nat) (S : List Nat), SSorted S → SSorted (closureLoop P.parents f S) := by
    intro f
    induction f with
    | zero => intro S h; exact h
    | succ f ih =>
      intro S h
      simp only [closureLoop]
      split
      · exact h
      · exact ih _ (unionSorted_sorted _ _ h)
  exact this P.n [x] (by simp [SSorted])

theorem ancFast_contains {P : Poset} {h : Nat → Nat} (A : Acyclic P h) (x c : Nat)
    (hx : x < P.n) (hc : c < P.n) : (ancFast P x).contains c = reach P P.n x c := by
  rw [Bool.eq_iff_iff, List.contains_iff_mem, mem_ancFast A x c hx, reach_iff_Reach A x c hc]

/-- the closure-based LCA is the specification's LCA -/
theorem specLcaFast_eq {P : Poset} {h : Nat → Nat} (A : Acyclic P h) (x y : Nat) (hx : x < P.n)
    (hy : y < P.n) : specLcaFast P x y = specLca P x y := by
  unfold specLcaFast specLca
  have hcommon : (ancFast P x).filter (ancFast P y).contains
      = (List.range P.n).filter (fun c => reach P P.n x c && reach P P.n y c) := by
    apply sorted_ext
    · exact List.Pairwise.filter _ (ancFast_sorted P x)
    · exact List.Pairwise.filter _ List.pairwise_lt_range
    · intro c
      simp only [List.mem_filter, List.mem_range, Bool.and_eq_true, List.contains_iff_mem]
      constructor
      · intro ⟨h1, h2⟩
        have r1 := (mem_ancFast A x c hx).mp h1
        have r2 := (mem_ancFast A y c hy).mp h2
        have hc := r1.dst_lt A hx
        exact ⟨hc, (reach_iff_Reach A x c hc).mpr r1, (reach_iff_Reach A y c hc).mpr r2⟩
      · intro ⟨hc, h1, h2⟩
        exact ⟨(mem_ancFast A x c hx).mpr ((reach_iff_Reach A x c hc).mp h1),
          (mem_ancFast A y c hy).mpr ((reach_iff_Reach A y c hc).mp h2)⟩
  simp only [hcommon]
  apply List.filter_congr
  intro c hc
  have hcn := List.mem_range.mp (List.mem_filter.mp hc).1
  congr 1
  apply any_congr_mem
  intro d hd
  have hdn := List.mem_range.mp (List.mem_filter.mp hd).1
  rw [ancFast_contains A d c hdn hcn]

end SgModel.Oeh
