import SgModel.Model.CyQuery
/-!
Grouping (`groupBy`) partitions its input: distinct key tuples, every row in one group
(core Lean only).
-/
namespace SgModel.Cy

/-- one step of `groupBy` -/
def groupStep (acc : List (List Val × List Row)) (kr : List Val × Row) : List (List Val × List Row) :=
  if acc.any (·.1 == kr.1) then acc.map (fun (k', rs) => if k' == kr.1 then (k', rs ++ [kr.2]) else (k', rs))
  else acc ++ [(kr.1, [kr.2])]

theorem groupBy_eq_foldl (keyed : List (List Val × Row)) : groupBy keyed = keyed.foldl groupStep [] := rfl

def sizes (acc : List (List Val × List Row)) : Nat := (acc.map (·.2.length)).sum

theorem map_noop (k : List Val) (r : Row) (acc : List (List Val × List Row))
    (h : ∀ x ∈ acc, x.1 ≠ k) :
    acc.map (fun (k', rs) => if k' == k then (k', rs ++ [r]) else (k', rs)) = acc := by
  induction acc with
  | nil => rfl
  | cons x xs ih =>
    have hx : x.1 ≠ k := h x (List.mem_cons_self ..)
    simp only [List.map_cons]
    rw [ih (fun y hy => h y (List.mem_cons_of_mem _ hy))]
    obtain ⟨k', rs⟩ := x
    simp at hx
    simp [hx]

theorem sizes_map (k : List Val) (r : Row) (acc : List (List Val × List Row))
    (hn : (acc.map (·.1)).Nodup) (hk : ∃ x ∈ acc, x.1 = k) :
    sizes (acc.map (fun (k', rs) => if k' == k then (k', rs ++ [r]) else (k', rs))) = sizes acc + 1 := by
  induction acc with
  | nil => obtain ⟨x, hx, _⟩ := hk; cases hx
  | cons x xs ih =>
    obtain ⟨k', rs⟩ := x
    simp only [List.map_cons, List.nodup_cons, List.mem_map, not_exists, not_and] at hn
    by_cases hkk : k' = k
    · subst hkk
      have hno : ∀ y ∈ xs, y.1 ≠ k' := fun y hy h => hn.1 y hy h
      simp only [List.map_cons, sizes] at *
      rw [map_noop k' r xs hno]
      simp; omega
    · obtain ⟨y, hy, hyk⟩ := hk
      have hy' : y ∈ xs := by
        rcases List.mem_cons.mp hy with h | h
        · subst h; exact absurd hyk hkk
        · exact h
      have := ih hn.2 ⟨y, hy', hyk⟩
      simp only [sizes] at this
      simp only [List.map_cons, sizes, List.sum_cons]
      rw [this]
      simp [hkk]; omega

theorem groupStep_inv (acc : List (List Val × List Row)) (kr : List Val × Row)
    (hn : (acc.map (·.1)).Nodup) :
    ((groupStep acc kr).map (·.1)).Nodup ∧ sizes (groupStep acc kr) = sizes acc + 1 := by
  unfold groupStep
  by_cases h : acc.any (·.1 == kr.1) = true
  · simp only [h, if_true]
    have hk : ∃ x ∈ acc, x.1 = kr.1 := by
      simpa [List.any_eq_true] using h
    refine ⟨?_, sizes_map kr.1 kr.2 acc hn hk⟩
    have : (acc.map (fun (k', rs) => if k' == kr.1 then (k', rs ++ [kr.2]) else (k', rs))).map (·.1)
        = acc.map (·.1) := by
      rw [List.map_map]
      apply List.map_congr_left
      intro x _
      obtain ⟨k', rs⟩ := x
      simp only [Function.comp]
      split <;> rfl
    rw [this]; exact hn
  · simp only [h, Bool.false_eq_true, if_false]
    have hno : ∀ x ∈ acc, x.1 ≠ kr.1 := by
      intro x hx hxe
      apply h
      simp only [List.any_eq_true]
      exact ⟨x, hx, by simp [hxe]⟩
    constructor
    · rw [List.map_append, List.nodup_append]
      refine ⟨hn, by simp, ?_⟩
      intro a ha b hb
      simp at hb
      obtain ⟨x, hx, hxa⟩ := List.mem_map.mp ha
      rw [hb, ← hxa]; exact hno x hx
    · simp [sizes]

theorem foldl_groupStep_inv (keyed : List (List Val × Row)) (acc : List (List Val × List Row))
    (hn : (acc.map (·.1)).Nodup) :
    ((keyed.foldl groupStep acc).map (·.1)).Nodup ∧ sizes (keyed.foldl groupStep acc) = sizes acc + keyed.length := by
  induction keyed generalizing acc with
  | nil => exact ⟨hn, rfl⟩
  | cons kr rest ih =>
    have h1 := groupStep_inv acc kr hn
    have h2 := ih (groupStep acc kr) h1.1
    simp only [List.foldl_cons, List.length_cons]
    exact ⟨h2.1, by rw [h2.2, h1.2]; omega⟩

end SgModel.Cy
