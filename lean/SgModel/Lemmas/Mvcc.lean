import SgModel.Model.Mvcc
import SgModel.Lemmas.TxnHist
/-!
Helper lemmas for C07/C08: `rposition`/drain (`gcList`) against "newest entry ≤ v" reads,
the state invariant (entries never newer than `current_version`, relationship logs sorted)
and its preservation by every operation.
-/
namespace SgModel.Mvcc

/-! ### `gc_versions` on one list -/

theorem rpos_some {α : Type} (p : α → Bool) : ∀ (l : List α) (i : Nat), rpos p l = some i →
    ∃ x rest, l.drop i = x :: rest ∧ p x = true
  | [], i, h => by simp [rpos] at h
  | x :: l, i, h => by
    simp only [rpos] at h
    cases hr : rpos p l with
    | some j =>
      simp only [hr, Option.some.injEq] at h
      subst h
      obtain ⟨y, rest, h1, h2⟩ := rpos_some p l j hr
      exact ⟨y, rest, by simpa using h1, h2⟩
    | none =>
      simp only [hr] at h
      by_cases hp : p x = true
      · simp only [hp, if_true, Option.some.injEq] at h
        subst h
        exact ⟨x, l, rfl, hp⟩
      · simp [hp] at h

theorem rpos_none {α : Type} (p : α → Bool) : ∀ (l : List α), rpos p l = none → ∀ x ∈ l, p x = false
  | [], _, x, hx => by simp at hx
  | y :: l, h, x, hx => by
    simp only [rpos] at h
    cases hr : rpos p l with
    | some j => simp [hr] at h
    | none =>
      simp only [hr] at h
      by_cases hp : p y = true
      · simp [hp] at h
      · rcases List.mem_cons.mp hx with rfl | hx
        · simpa using hp
        · exact rpos_none p l hr x hx

/-- a newest-first search that succeeds in the kept suffix ignores the drained prefix -/
theorem find_rev_drop {α : Type} (q : α → Bool) (l : List α) (i : Nat)
    (h : ∃ x ∈ l.drop i, q x = true) :
    l.reverse.find? q = (l.drop i).reverse.find? q := by
  conv => lhs; rw [← List.take_append_drop i l]
  rw [List.reverse_append, List.find?_append]
  obtain ⟨x, hx, hq⟩ := h
  have : ((l.drop i).reverse.find? q).isSome := by
    rw [List.find?_isSome]
    exact ⟨x, List.mem_reverse.mpr hx, hq⟩
  cases hf : (l.drop i).reverse.find? q with
  | none => rw [hf] at this; cases this
  | some y => rfl

/-- reads at `v ≥ w` of "the newest entry `≤ v`" survive `gc w` (no sortedness needed) -/
theorem gcList_find_rev {α : Type} (ver : α → Nat) (l : List α) (w v : Nat) (h : w ≤ v) :
    (gcList ver l w).reverse.find? (fun x => decide (ver x ≤ v))
      = l.reverse.find? (fun x => decide (ver x ≤ v)) := by
  unfold gcList
  split
  · rfl
  · cases hr : rpos (fun x => decide (ver x ≤ w)) l with
    | none => rfl
    | some i =>
      simp only
      obtain ⟨x, rest, h1, h2⟩ := rpos_some _ l i hr
      symm
      apply find_rev_drop
      refine ⟨x, by rw [h1]; exact List.mem_cons_self, ?_⟩
      simp only [decide_eq_true_eq] at h2 ⊢
      omega

/-- with a sorted list, nothing newer than `v ≥ w` is drained -/
theorem gcList_find_gt {α : Type} (ver : α → Nat) (l : List α) (w v : Nat) (h : w ≤ v)
    (hs : l.Pairwise (fun a b => ver a ≤ ver b)) :
    (gcList ver l w).find? (fun x => decide (v < ver x)) = l.find? (fun x => decide (v < ver x)) := by
  unfold gcList
  split
  · rfl
  · cases hr : rpos (fun x => decide (ver x ≤ w)) l with
    | none => rfl
    | some i =>
      simp only
      obtain ⟨x, rest, h1, h2⟩ := rpos_some _ l i hr
      conv => rhs; rw [← List.take_append_drop i l]
      rw [List.find?_append]
      have hnone : (l.take i).find? (fun x => decide (v < ver x)) = none := by
        rw [List.find?_eq_none]
        intro a ha
        rw [← List.take_append_drop i l, List.pairwise_append] at hs
        have := hs.2.2 a ha x (by rw [h1]; exact List.mem_cons_self)
        simp only [decide_eq_true_eq] at h2 ⊢
        omega
      rw [hnone]; rfl

theorem gcList_sublist {α : Type} (ver : α → Nat) (l : List α) (w : Nat) :
    (gcList ver l w).Sublist l := by
  unfold gcList
  split
  · exact List.Sublist.refl _
  · split
    · exact List.drop_sublist _ _
    · exact List.Sublist.refl _

/-! ### `get_edge_at_version` across `gc` -/

theorem edgeAt_gc (e : EdgeRec) (cur w v : Nat) (h : w ≤ v)
    (hs : e.log.Pairwise (fun a b => a.version ≤ b.version)) :
    edgeAt { e with log := gcList ELog.version e.log w } cur v = edgeAt e cur v := by
  unfold edgeAt
  simp only [EdgeRec.live]
  rw [gcList_find_rev ELog.version e.log w v h, gcList_find_gt ELog.version e.log w v h hs]
  rfl

theorem chainAt_gc (c : List NodeV) (w v : Nat) (h : w ≤ v) :
    chainAt (gcList NodeV.version c w) v = chainAt c v := by
  unfold chainAt
  exact gcList_find_rev NodeV.version c w v h

/-! ### the invariant of reachable states -/

def LogOk (cur : Nat) (log : List ELog) : Prop :=
  log.Pairwise (fun a b => a.version ≤ b.version) ∧ ∀ x ∈ log, x.version ≤ cur

structure Inv (s : State) : Prop where
  txn : ∃ a, Txn.Rel s.txn a
  chains : ∀ n, ∀ x ∈ s.nodes n, x.version ≤ s.cur
  logs : ∀ e, LogOk s.cur (s.edges e).log

theorem inv_init : Inv {} where
  txn := ⟨{}, Txn.rel_init⟩
  chains := by intro n x hx; simp at hx
  logs := by intro e; exact ⟨List.Pairwise.nil, by intro x hx; simp at hx⟩

theorem mem_dropLast {α : Type} {l : List α} {x : α} (h : x ∈ l.dropLast) : x ∈ l :=
  (List.dropLast_sublist l).subset h

theorem cow_bound {c : List NodeV} {cur : Nat} {f : NodeV → NodeV}
    (hf : ∀ x, (f x).version = x.version) (h : ∀ x ∈ c, x.version ≤ cur) :
    ∀ x ∈ cow c cur f, x.version ≤ cur := by
  intro x hx
  unfold cow at hx
  cases hl : c.getLast? with
  | none => rw [hl] at hx; exact h x hx
  | some last =>
    rw [hl] at hx
    simp only at hx
    split at hx
    · rcases List.mem_append.mp hx with hx | hx
      · exact h x hx
      · simp only [List.mem_singleton] at hx; subst hx; rw [hf]; exact Nat.le_refl _
    · rcases List.mem_append.mp hx with hx | hx
      · exact h x (mem_dropLast hx)
      · simp only [List.mem_singleton] at hx; subst hx; rw [hf]
        exact h last (List.mem_of_getLast? hl)

theorem inPlace_bound {c : List NodeV} {cur : Nat} {f : NodeV → NodeV}
    (hf : ∀ x, (f x).version = x.version) (h : ∀ x ∈ c, x.version ≤ cur) :
    ∀ x ∈ inPlace c f, x.version ≤ cur := by
  intro x hx
  unfold inPlace at hx
  cases hl : c.getLast? with
  | none => rw [hl] at hx; exact h x hx
  | some last =>
    rw [hl] at hx
    simp only at hx
    rcases List.mem_append.mp hx with hx | hx
    · exact h x (mem_dropLast hx)
    · simp only [List.mem_singleton] at hx; subst hx; rw [hf]
      exact h last (List.mem_of_getLast? hl)

theorem setEdge_logOk {e : EdgeRec} {cur k : Nat} {v : Int} (h : LogOk cur e.log) :
    LogOk cur (setEdge e cur k v).log := by
  obtain ⟨hs, hb⟩ := h
  unfold setEdge
  simp only
  have hpush : LogOk cur (e.log ++ [⟨cur, setKey e.props k v⟩]) := by
    refine ⟨?_, ?_⟩
    · rw [List.pairwise_append]
      refine ⟨hs, List.pairwise_singleton _ _, ?_⟩
      intro a ha b hb'
      simp only [List.mem_singleton] at hb'; subst hb'
      exact hb a ha
    · intro x hx
      rcases List.mem_append.mp hx with hx | hx
      · exact hb x hx
      · simp only [List.mem_singleton] at hx; subst hx; exact Nat.le_refl _
  cases hl : e.log.getLast? with
  | none => exact hpush
  | some last =>
    simp only
    split
    · rename_i heq
      have hlast : e.log = e.log.dropLast ++ [last] := by
        obtain ⟨ys, hys⟩ := List.getLast?_eq_some_iff.mp hl
        rw [hys]; simp
      refine ⟨?_, ?_⟩
      · rw [hlast, List.pairwise_append] at hs
        rw [List.pairwise_append]
        refine ⟨hs.1, List.pairwise_singleton _ _, ?_⟩
        intro a ha b hb'
        simp only [List.mem_singleton] at hb'; subst hb'
        exact hs.2.2 a ha last (List.mem_singleton.mpr rfl)
      · intro x hx
        rcases List.mem_append.mp hx with hx | hx
        · exact hb x (mem_dropLast hx)
        · simp only [List.mem_singleton] at hx; subst hx
          exact hb last (List.mem_of_getLast? hl)
    · exact hpush

theorem logOk_mono {cur cur' : Nat} {log : List ELog} (h : LogOk cur log) (hc : cur ≤ cur') :
    LogOk cur' log :=
  ⟨h.1, fun x hx => Nat.le_trans (h.2 x hx) hc⟩

theorem logOk_nil (cur : Nat) : LogOk cur [] := ⟨List.Pairwise.nil, by intro x hx; simp at hx⟩

theorem killEdge_props (s : State) (e : Nat) :
    (killEdge s e).txn = s.txn ∧ (killEdge s e).nodes = s.nodes
    ∧ ∀ i, (killEdge s e).edges i = s.edges i ∨ (killEdge s e).edges i = {} := by
  unfold killEdge
  split
  · refine ⟨rfl, rfl, ?_⟩
    intro i
    simp only [upd]
    by_cases h : i = e
    · simp [h]
    · simp [h]
  · exact ⟨rfl, rfl, fun i => Or.inl rfl⟩

theorem killEdges_props (l : List Nat) (s : State) :
    (l.foldl killEdge s).txn = s.txn ∧ (l.foldl killEdge s).nodes = s.nodes
    ∧ ∀ i, (l.foldl killEdge s).edges i = s.edges i ∨ (l.foldl killEdge s).edges i = {} := by
  induction l generalizing s with
  | nil => exact ⟨rfl, rfl, fun i => Or.inl rfl⟩
  | cons e l ih =>
    obtain ⟨h1, h2, h3⟩ := ih (killEdge s e)
    obtain ⟨k1, k2, k3⟩ := killEdge_props s e
    simp only [List.foldl_cons]
    refine ⟨by rw [h1, k1], by rw [h2, k2], ?_⟩
    intro i
    rcases h3 i with h | h
    · rcases k3 i with k | k
      · left; rw [h, k]
      · right; rw [h, k]
    · right; exact h

theorem inv_of_nodes {s : State} (i : Inv s) (nodes : Nat → List NodeV)
    (h : ∀ n, ∀ x ∈ nodes n, x.version ≤ s.cur) : Inv { s with nodes := nodes } :=
  ⟨i.txn, h, i.logs⟩

theorem upd_bound {s : State} (i : Inv s) (n : Nat) (c : List NodeV)
    (h : ∀ x ∈ c, x.version ≤ s.cur) : ∀ m, ∀ x ∈ upd s.nodes n c m, x.version ≤ s.cur := by
  intro m x hx
  simp only [upd] at hx
  split at hx
  · exact h x hx
  · exact i.chains m x hx

theorem inv_step (lg : Bool) {s : State} (i : Inv s) (op : Op) : Inv (stepG lg s op).1 := by
  cases op with
  | createNode l =>
    simp only [stepG]
    refine ⟨i.txn, ?_, i.logs⟩
    apply upd_bound i
    intro x hx
    rcases List.mem_append.mp hx with hx | hx
    · exact i.chains _ x hx
    · simp only [List.mem_singleton] at hx; subst hx; exact Nat.le_refl _
  | setProp n k v =>
    simp only [stepG]
    split
    · exact i
    · exact ⟨i.txn, upd_bound i n _ (cow_bound (fun _ => rfl) (i.chains n)), i.logs⟩
  | removeProp n k =>
    simp only [stepG]
    refine ⟨i.txn, upd_bound i n _ ?_, i.logs⟩
    cases lg
    · exact cow_bound (fun _ => rfl) (i.chains n)
    · exact inPlace_bound (fun _ => rfl) (i.chains n)
  | addLabel n l =>
    simp only [stepG]
    split
    · exact i
    · refine ⟨i.txn, upd_bound i n _ ?_, i.logs⟩
      cases lg
      · exact cow_bound (fun _ => rfl) (i.chains n)
      · exact inPlace_bound (fun _ => rfl) (i.chains n)
  | removeLabel n l =>
    simp only [stepG]
    split
    · exact i
    · split
      · exact i
      · refine ⟨i.txn, upd_bound i n _ ?_, i.logs⟩
        cases lg
        · exact cow_bound (fun _ => rfl) (i.chains n)
        · exact inPlace_bound (fun _ => rfl) (i.chains n)
  | deleteNode n =>
    simp only [stepG]
    split
    · exact i
    · obtain ⟨h1, h2, h3⟩ := killEdges_props (incident s n)
        { s with freeNodes := n :: s.freeNodes, nodes := upd s.nodes n (if lg = true then (s.nodes n).dropLast else []) }
      refine ⟨by rw [h1]; exact i.txn, ?_, ?_⟩
      · intro m x hx
        rw [h2] at hx
        show x.version ≤ (List.foldl killEdge _ (incident s n)).txn.core.cur
        rw [h1]
        refine upd_bound i n _ ?_ m x hx
        intro y hy
        split at hy
        · exact i.chains n y (mem_dropLast hy)
        · simp at hy
      · intro e
        show LogOk (List.foldl killEdge _ (incident s n)).txn.core.cur _
        rw [h1]
        rcases h3 e with h | h
        · rw [h]; exact i.logs e
        · rw [h]; exact logOk_nil _
  | createEdge src tgt props =>
    simp only [stepG]
    split
    · exact i
    · split
      · exact i
      · refine ⟨i.txn, i.chains, ?_⟩
        intro e
        simp only [upd]
        split
        · exact logOk_nil _
        · exact i.logs e
  | setEdgeProp e k v =>
    simp only [stepG]
    split
    · exact i
    · refine ⟨i.txn, i.chains, ?_⟩
      intro e'
      simp only [upd]
      split
      · exact setEdge_logOk (i.logs e)
      · exact i.logs e'
  | deleteEdge e =>
    simp only [stepG]
    split
    · exact i
    · obtain ⟨h1, h2, h3⟩ := killEdge_props s e
      refine ⟨by rw [h1]; exact i.txn, ?_, ?_⟩
      · intro m x hx
        rw [h2] at hx
        show x.version ≤ (killEdge s e).txn.core.cur
        rw [h1]; exact i.chains m x hx
      · intro e'
        show LogOk (killEdge s e).txn.core.cur _
        rw [h1]
        rcases h3 e' with h | h
        · rw [h]; exact i.logs e'
        · rw [h]; exact logOk_nil _
  | txn top =>
    obtain ⟨a, r⟩ := i.txn
    have hr := (Txn.rel_step r top).1
    have hle : s.cur ≤ (Txn.step s.txn top).1.core.cur := Txn.shape_cur_le (Txn.step_shape s.txn top)
    have base : Inv { s with txn := (Txn.step s.txn top).1 } :=
      ⟨⟨_, hr⟩, fun n x hx => Nat.le_trans (i.chains n x hx) hle, fun e => logOk_mono (i.logs e) hle⟩
    cases top with
    | gc w =>
      simp only [stepG]
      refine ⟨base.txn, ?_, ?_⟩
      · intro n x hx
        exact base.chains n x ((gcList_sublist NodeV.version _ _).subset hx)
      · intro e
        have := base.logs e
        exact ⟨this.1.sublist (gcList_sublist ELog.version _ _),
               fun x hx => this.2 x ((gcList_sublist ELog.version _ _).subset hx)⟩
    | _ => exact base

theorem inv_foldl (lg : Bool) {s : State} (i : Inv s) (ops : List Op) :
    Inv (ops.foldl (fun s op => (stepG lg s op).1) s) := by
  induction ops generalizing s with
  | nil => exact i
  | cons op ops ih => exact ih (inv_step lg i op)

theorem inv_exec (ops : List Op) : Inv (exec ops) := inv_foldl false inv_init ops

end SgModel.Mvcc
