import SgModel.Lemmas.RdfDoc
/-! C36 helper lemmas: the Turtle formatter model and the parser for the subset it emits. -/
namespace SgModel.Rdf

def notWsNl (c : Char) : Prop := c ≠ ' ' ∧ c ≠ '\t' ∧ c ≠ '\n' ∧ c ≠ '\r'

theorem skipWsNl_cons_of_ne (c : Char) (r : Str) (h : notWsNl c) : skipWsNl (c :: r) = c :: r := by
  obtain ⟨h1, h2, h3, h4⟩ := h
  simp [skipWsNl, h1, h2, h3, h4]

theorem skipWsNl_skipWs (r : Str) : skipWsNl (skipWs r) = skipWsNl r := by
  induction r with
  | nil => rfl
  | cons c t ih =>
    by_cases h : c = ' ' ∨ c = '\t'
    · have h' : c = ' ' ∨ c = '\t' ∨ c = '\n' ∨ c = '\r' := by
        rcases h with h | h
        · exact Or.inl h
        · exact Or.inr (Or.inl h)
      simp only [skipWs, h, if_true, skipWsNl, h', ih]
    · simp only [skipWs, h, if_false]

theorem skipWsNl_of_skipWs {r' rest : Str} {x : Char} (h : skipWs r' = x :: rest)
    (hx : notWsNl x) : skipWsNl r' = x :: rest := by
  rw [← skipWsNl_skipWs, h, skipWsNl_cons_of_ne x rest hx]

theorem skipWsNl_renderSubj (s : Subj) (rest : Str) :
    skipWsNl (renderSubj s ++ rest) = renderSubj s ++ rest := by
  obtain ⟨c, r, h, hc⟩ := renderSubj_head s rest
  rw [h]
  rcases hc with hc | hc <;> subst hc <;> exact skipWsNl_cons_of_ne _ _ (by unfold notWsNl; decide)

theorem skipWsNl_renderObj (o : Obj) (rest : Str) :
    skipWsNl (renderObj o ++ rest) = renderObj o ++ rest := by
  obtain ⟨c, r, h, hc⟩ := renderObj_head o rest
  rw [h]
  rcases hc with hc | hc | hc <;> subst hc <;>
    exact skipWsNl_cons_of_ne _ _ (by unfold notWsNl; decide)

theorem skipWsNl_renderIri (i : Str) (rest : Str) :
    skipWsNl (renderIri i ++ rest) = renderIri i ++ rest := by
  simp only [renderIri, List.cons_append]
  exact skipWsNl_cons_of_ne '<' _ (by unfold notWsNl; decide)

theorem skipWsNl_ws (c : Char) (r : Str) (h : c = ' ' ∨ c = '\t' ∨ c = '\n' ∨ c = '\r') :
    skipWsNl (c :: r) = skipWsNl r := by
  simp [skipWsNl, h]

/-- punctuation that follows an object in the formatter's output -/
def isPunct (x : Char) : Prop := x = ',' ∨ x = ';' ∨ x = '.'

theorem isPunct_facts {x : Char} (h : isPunct x) :
    x ≠ ' ' ∧ x ≠ '\t' ∧ x ≠ '@' ∧ x ≠ '^' ∧ notWsNl x := by
  rcases h with h | h | h <;> subst h <;> (unfold notWsNl; decide)

/-- what comes after an object always starts with a blank and a punctuation mark -/
theorem ttlRenderFrom_head (st : Subj × Str) (ts : List Triple) :
    ∃ x rest, ttlRenderFrom (some st) ts = ' ' :: x :: rest ∧ isPunct x := by
  cases ts with
  | nil => exact ⟨'.', ['\n'], rfl, Or.inr (Or.inr rfl)⟩
  | cons t ts =>
    obtain ⟨cs, cp⟩ := st
    simp only [ttlRenderFrom, ttlStep]
    by_cases h1 : cs = t.s
    · by_cases h2 : cp = t.p
      · refine ⟨',', ' ' :: (renderObj t.o ++ ttlRenderFrom (some (t.s, t.p)) ts), ?_, Or.inl rfl⟩
        simp [h1, h2]
      · refine ⟨';', '\n' :: '\t' :: (renderIri t.p ++ ' ' :: (renderObj t.o ++
          ttlRenderFrom (some (t.s, t.p)) ts)), ?_, Or.inr (Or.inl rfl)⟩
        simp [h1, h2]
    · refine ⟨'.', '\n' :: (renderSubj t.s ++ ' ' :: (renderIri t.p ++ ' ' :: (renderObj t.o ++
        ttlRenderFrom (some (t.s, t.p)) ts))), ?_, Or.inr (Or.inr rfl)⟩
      simp [h1]

/-- object followed by the rest of the output -/
theorem ttl_obj (o : Obj) (st : Subj × Str) (ts : List Triple) (ho : objOK o = true) :
    ∃ r', parseObj (renderObj o ++ ttlRenderFrom (some st) ts) = some (o, r')
      ∧ skipWsNl r' = skipWsNl (ttlRenderFrom (some st) ts) := by
  obtain ⟨x, rest, hrest, hx⟩ := ttlRenderFrom_head st ts
  obtain ⟨h1, h2, h3, h4, h5⟩ := isPunct_facts hx
  obtain ⟨r', hp, hs⟩ := parseObj_render o x rest ho h1 h2 h3 h4
  refine ⟨r', by rw [hrest]; exact hp, ?_⟩
  rw [hrest, skipWsNl_of_skipWs hs h5, skipWsNl_ws ' ' _ (Or.inl rfl), skipWsNl_cons_of_ne x rest h5]

/-- a whole `s p o` followed by the rest of the output -/
theorem ttl_stmt (k : Subj → Str → Str → Option (List Triple)) (t : Triple)
    (ts : List Triple) (ht : tripleOK t = true) :
    ∃ r', ttlStmt k (renderSubj t.s ++ ' ' :: (renderIri t.p ++ ' ' ::
              (renderObj t.o ++ ttlRenderFrom (some (t.s, t.p)) ts)))
            = consT t (k t.s t.p r')
      ∧ skipWsNl r' = skipWsNl (ttlRenderFrom (some (t.s, t.p)) ts) := by
  simp only [tripleOK, Bool.and_eq_true] at ht
  obtain ⟨⟨hs, hp⟩, ho⟩ := ht
  obtain ⟨r', hobj, hr'⟩ := ttl_obj t.o (t.s, t.p) ts ho
  refine ⟨r', ?_, hr'⟩
  unfold ttlStmt
  simp only [parseSubj_render t.s _ hs, skipWsNl_ws ' ' _ (Or.inl rfl), skipWsNl_renderIri,
    parseIri_render t.p _ hp, skipWsNl_renderObj, hobj]

theorem ttlTail_zero_lt (ts : List Triple) (h : ∀ t ∈ ts, tripleOK t = true) :
    ∀ (s : Subj) (p : Str) (fuel : Nat) (r' : Str), ts.length < fuel →
      skipWsNl r' = skipWsNl (ttlRenderFrom (some (s, p)) ts) →
      ttlTailFuel fuel s p r' = some ts := by
  induction ts with
  | nil =>
    intro s p fuel r' hf hr
    cases fuel with
    | zero => omega
    | succ n =>
      have : skipWsNl r' = ['.', '\n'] := by rw [hr]; simp [ttlRenderFrom, skipWsNl]
      rw [ttlTailFuel, this]
      simp [skipWsNl]
  | cons t ts ih =>
    intro s p fuel r' hf hr
    cases fuel with
    | zero => omega
    | succ n =>
      have ht : tripleOK t = true := h t (List.mem_cons_self ..)
      have hts : ∀ t' ∈ ts, tripleOK t' = true := fun t' ht' => h t' (List.mem_cons_of_mem _ ht')
      have hn : ts.length < n := by simp only [List.length_cons] at hf; omega
      have ht' := ht
      simp only [tripleOK, Bool.and_eq_true] at ht'
      obtain ⟨⟨_, hp⟩, ho⟩ := ht'
      simp only [ttlRenderFrom, ttlStep] at hr
      by_cases h1 : s = t.s
      · by_cases h2 : p = t.p
        · -- ` , o`
          obtain ⟨r1, hobj, hr1⟩ := ttl_obj t.o (t.s, t.p) ts ho
          simp only [h1, h2, if_true, List.cons_append, skipWsNl_ws ' ' _ (Or.inl rfl)] at hr
          rw [skipWsNl_cons_of_ne ',' _ (by unfold notWsNl; decide)] at hr
          rw [ttlTailFuel, hr]
          simp only [skipWsNl_ws ' ' _ (Or.inl rfl), skipWsNl_renderObj, hobj]
          rw [h1, h2, ih hts t.s t.p n r1 hn hr1]
          rfl
        · -- ` ;\n\tp o`
          obtain ⟨r1, hobj, hr1⟩ := ttl_obj t.o (t.s, t.p) ts ho
          simp only [h1, h2, if_true, if_false, List.cons_append, List.append_assoc,
            skipWsNl_ws ' ' _ (Or.inl rfl)] at hr
          rw [skipWsNl_cons_of_ne ';' _ (by unfold notWsNl; decide)] at hr
          rw [ttlTailFuel, hr]
          simp only [skipWsNl_ws '\n' _ (Or.inr (Or.inr (Or.inl rfl))),
            skipWsNl_ws '\t' _ (Or.inr (Or.inl rfl)), skipWsNl_renderIri,
            parseIri_render t.p _ hp, skipWsNl_ws ' ' _ (Or.inl rfl), skipWsNl_renderObj, hobj]
          rw [h1, ih hts t.s t.p n r1 hn hr1]
          rfl
      · -- ` .\ns p o`
        obtain ⟨r1, hstmt, hr1⟩ := ttl_stmt (ttlTailFuel n) t ts ht
        simp only [h1, if_false, List.cons_append, List.append_assoc,
          skipWsNl_ws ' ' _ (Or.inl rfl)] at hr
        rw [skipWsNl_cons_of_ne '.' _ (by unfold notWsNl; decide)] at hr
        rw [ttlTailFuel, hr]
        obtain ⟨c, r, hcr, _⟩ := renderSubj_head t.s
          (' ' :: (renderIri t.p ++ ' ' :: (renderObj t.o ++ ttlRenderFrom (some (t.s, t.p)) ts)))
        have hsk : skipWsNl ('\n' :: (renderSubj t.s ++ ' ' :: (renderIri t.p ++ ' ' ::
            (renderObj t.o ++ ttlRenderFrom (some (t.s, t.p)) ts)))) = c :: r := by
          rw [skipWsNl_ws '\n' _ (Or.inr (Or.inr (Or.inl rfl))), skipWsNl_renderSubj, hcr]
        rw [hcr] at hstmt
        simp only [hsk, hstmt, ih hts t.s t.p n r1 hn hr1]
        rfl

theorem ttlRenderFrom_length (st : Option (Subj × Str)) (ts : List Triple) :
    ts.length ≤ (ttlRenderFrom st ts).length := by
  induction ts generalizing st with
  | nil => simp
  | cons t ts ih =>
    have hstep : 0 < (ttlStep st t).length := by
      unfold ttlStep
      cases st with
      | none =>
        obtain ⟨c, r, h, _⟩ := renderSubj_head t.s (' ' :: (renderIri t.p ++ ' ' :: renderObj t.o))
        rw [h]; simp
      | some cp =>
        simp only
        split
        · split <;> simp
        · simp
    have := ih (some (t.s, t.p))
    simp only [ttlRenderFrom, List.length_cons, List.length_append]
    omega

theorem ttlParse_render (ts : List Triple) (h : ∀ t ∈ ts, tripleOK t = true) :
    ttlParse (ttlRender ts) = some ts := by
  cases ts with
  | nil => simp [ttlRender, ttlRenderFrom, ttlParse, skipWsNl]
  | cons t ts =>
    have ht : tripleOK t = true := h t (List.mem_cons_self ..)
    have hts : ∀ t' ∈ ts, tripleOK t' = true := fun t' ht' => h t' (List.mem_cons_of_mem _ ht')
    have hlen := ttlRenderFrom_length none (t :: ts)
    obtain ⟨r1, hstmt, hr1⟩ := ttl_stmt (ttlTailFuel ((ttlRender (t :: ts)).length + 1)) t ts ht
    have heq : ttlRender (t :: ts) = renderSubj t.s ++ ' ' :: (renderIri t.p ++ ' ' ::
        (renderObj t.o ++ ttlRenderFrom (some (t.s, t.p)) ts)) := by
      simp [ttlRender, ttlRenderFrom, ttlStep]
    obtain ⟨c, r, hcr, _⟩ := renderSubj_head t.s
      (' ' :: (renderIri t.p ++ ' ' :: (renderObj t.o ++ ttlRenderFrom (some (t.s, t.p)) ts)))
    have hfuel : ts.length < (ttlRender (t :: ts)).length + 1 := by
      simp only [ttlRender, List.length_cons] at hlen ⊢
      omega
    have htail := ttlTail_zero_lt ts hts t.s t.p _ r1 hfuel hr1
    unfold ttlParse
    rw [heq] at hstmt ⊢
    rw [skipWsNl_renderSubj]
    rw [hcr] at hstmt ⊢
    simp only [hstmt]
    rw [← hcr, ← heq, htail]
    rfl

end SgModel.Rdf
