import SgModel.Lemmas.SnapFS
/-!
C14 helper: a persist that starts from the directory a crash left behind, starting shape
`committed2 a`.  One lemma per first crash point, nine second crash points each; payloads symbolic.
-/
namespace SgModel.SnapFS

theorem chain_c2_k0 (a b1 b2 k2 : Nat) (h2 : k2 ≤ 8) :
    restoreProcess (run ((persistSteps false b2).take k2) (run ((persistSteps false b1).take 0) (committed2 a)))
      = restoreProcess (run ((persistSteps false b1).take 0) (committed2 a))
    ∨ restoreProcess (run ((persistSteps false b2).take k2) (run ((persistSteps false b1).take 0) (committed2 a)))
      = .ok b2 := by
  rcases k2 with _ | _ | _ | _ | _ | _ | _ | _ | _ | k2
  · exact Or.inl rfl
  · exact Or.inl rfl
  · exact Or.inl rfl
  · exact Or.inl rfl
  · exact Or.inl rfl
  · exact Or.inr rfl
  · exact Or.inr rfl
  · exact Or.inr rfl
  · exact Or.inr rfl
  · exact absurd h2 (by omega)

theorem chain_c2_k1 (a b1 b2 k2 : Nat) (h2 : k2 ≤ 8) :
    restoreProcess (run ((persistSteps false b2).take k2) (run ((persistSteps false b1).take 1) (committed2 a)))
      = restoreProcess (run ((persistSteps false b1).take 1) (committed2 a))
    ∨ restoreProcess (run ((persistSteps false b2).take k2) (run ((persistSteps false b1).take 1) (committed2 a)))
      = .ok b2 := by
  rcases k2 with _ | _ | _ | _ | _ | _ | _ | _ | _ | k2
  · exact Or.inl rfl
  · exact Or.inl rfl
  · exact Or.inl rfl
  · exact Or.inl rfl
  · exact Or.inl rfl
  · exact Or.inr rfl
  · exact Or.inr rfl
  · exact Or.inr rfl
  · exact Or.inr rfl
  · exact absurd h2 (by omega)

theorem chain_c2_k2 (a b1 b2 k2 : Nat) (h2 : k2 ≤ 8) :
    restoreProcess (run ((persistSteps false b2).take k2) (run ((persistSteps false b1).take 2) (committed2 a)))
      = restoreProcess (run ((persistSteps false b1).take 2) (committed2 a))
    ∨ restoreProcess (run ((persistSteps false b2).take k2) (run ((persistSteps false b1).take 2) (committed2 a)))
      = .ok b2 := by
  rcases k2 with _ | _ | _ | _ | _ | _ | _ | _ | _ | k2
  · exact Or.inl rfl
  · exact Or.inl rfl
  · exact Or.inl rfl
  · exact Or.inl rfl
  · exact Or.inl rfl
  · exact Or.inr rfl
  · exact Or.inr rfl
  · exact Or.inr rfl
  · exact Or.inr rfl
  · exact absurd h2 (by omega)

theorem chain_c2_k3 (a b1 b2 k2 : Nat) (h2 : k2 ≤ 8) :
    restoreProcess (run ((persistSteps false b2).take k2) (run ((persistSteps false b1).take 3) (committed2 a)))
      = restoreProcess (run ((persistSteps false b1).take 3) (committed2 a))
    ∨ restoreProcess (run ((persistSteps false b2).take k2) (run ((persistSteps false b1).take 3) (committed2 a)))
      = .ok b2 := by
  rcases k2 with _ | _ | _ | _ | _ | _ | _ | _ | _ | k2
  · exact Or.inl rfl
  · exact Or.inl rfl
  · exact Or.inl rfl
  · exact Or.inl rfl
  · exact Or.inl rfl
  · exact Or.inr rfl
  · exact Or.inr rfl
  · exact Or.inr rfl
  · exact Or.inr rfl
  · exact absurd h2 (by omega)

theorem chain_c2_k4 (a b1 b2 k2 : Nat) (h2 : k2 ≤ 8) :
    restoreProcess (run ((persistSteps false b2).take k2) (run ((persistSteps false b1).take 4) (committed2 a)))
      = restoreProcess (run ((persistSteps false b1).take 4) (committed2 a))
    ∨ restoreProcess (run ((persistSteps false b2).take k2) (run ((persistSteps false b1).take 4) (committed2 a)))
      = .ok b2 := by
  rcases k2 with _ | _ | _ | _ | _ | _ | _ | _ | _ | k2
  · exact Or.inl rfl
  · exact Or.inl rfl
  · exact Or.inl rfl
  · exact Or.inl rfl
  · exact Or.inl rfl
  · exact Or.inr rfl
  · exact Or.inr rfl
  · exact Or.inr rfl
  · exact Or.inr rfl
  · exact absurd h2 (by omega)

theorem chain_c2_k5 (a b1 b2 k2 : Nat) (h2 : k2 ≤ 8) :
    restoreProcess (run ((persistSteps false b2).take k2) (run ((persistSteps false b1).take 5) (committed2 a)))
      = restoreProcess (run ((persistSteps false b1).take 5) (committed2 a))
    ∨ restoreProcess (run ((persistSteps false b2).take k2) (run ((persistSteps false b1).take 5) (committed2 a)))
      = .ok b2 := by
  rcases k2 with _ | _ | _ | _ | _ | _ | _ | _ | _ | k2
  · exact Or.inl rfl
  · exact Or.inl rfl
  · exact Or.inl rfl
  · exact Or.inl rfl
  · exact Or.inl rfl
  · exact Or.inr rfl
  · exact Or.inr rfl
  · exact Or.inr rfl
  · exact Or.inr rfl
  · exact absurd h2 (by omega)

theorem chain_c2_k6 (a b1 b2 k2 : Nat) (h2 : k2 ≤ 8) :
    restoreProcess (run ((persistSteps false b2).take k2) (run ((persistSteps false b1).take 6) (committed2 a)))
      = restoreProcess (run ((persistSteps false b1).take 6) (committed2 a))
    ∨ restoreProcess (run ((persistSteps false b2).take k2) (run ((persistSteps false b1).take 6) (committed2 a)))
      = .ok b2 := by
  rcases k2 with _ | _ | _ | _ | _ | _ | _ | _ | _ | k2
  · exact Or.inl rfl
  · exact Or.inl rfl
  · exact Or.inl rfl
  · exact Or.inl rfl
  · exact Or.inl rfl
  · exact Or.inr rfl
  · exact Or.inr rfl
  · exact Or.inr rfl
  · exact Or.inr rfl
  · exact absurd h2 (by omega)

theorem chain_c2_k7 (a b1 b2 k2 : Nat) (h2 : k2 ≤ 8) :
    restoreProcess (run ((persistSteps false b2).take k2) (run ((persistSteps false b1).take 7) (committed2 a)))
      = restoreProcess (run ((persistSteps false b1).take 7) (committed2 a))
    ∨ restoreProcess (run ((persistSteps false b2).take k2) (run ((persistSteps false b1).take 7) (committed2 a)))
      = .ok b2 := by
  rcases k2 with _ | _ | _ | _ | _ | _ | _ | _ | _ | k2
  · exact Or.inl rfl
  · exact Or.inl rfl
  · exact Or.inl rfl
  · exact Or.inl rfl
  · exact Or.inl rfl
  · exact Or.inr rfl
  · exact Or.inr rfl
  · exact Or.inr rfl
  · exact Or.inr rfl
  · exact absurd h2 (by omega)

theorem chain_c2_k8 (a b1 b2 k2 : Nat) (h2 : k2 ≤ 8) :
    restoreProcess (run ((persistSteps false b2).take k2) (run ((persistSteps false b1).take 8) (committed2 a)))
      = restoreProcess (run ((persistSteps false b1).take 8) (committed2 a))
    ∨ restoreProcess (run ((persistSteps false b2).take k2) (run ((persistSteps false b1).take 8) (committed2 a)))
      = .ok b2 := by
  rcases k2 with _ | _ | _ | _ | _ | _ | _ | _ | _ | k2
  · exact Or.inl rfl
  · exact Or.inl rfl
  · exact Or.inl rfl
  · exact Or.inl rfl
  · exact Or.inl rfl
  · exact Or.inr rfl
  · exact Or.inr rfl
  · exact Or.inr rfl
  · exact Or.inr rfl
  · exact absurd h2 (by omega)

theorem chain_c2 (a b1 b2 k1 k2 : Nat) (h1 : k1 ≤ 8) (h2 : k2 ≤ 8) :
    restoreProcess (run ((persistSteps false b2).take k2) (run ((persistSteps false b1).take k1) (committed2 a)))
      = restoreProcess (run ((persistSteps false b1).take k1) (committed2 a))
    ∨ restoreProcess (run ((persistSteps false b2).take k2) (run ((persistSteps false b1).take k1) (committed2 a)))
      = .ok b2 := by
  rcases k1 with _ | _ | _ | _ | _ | _ | _ | _ | _ | k1
  · exact chain_c2_k0 a b1 b2 k2 h2
  · exact chain_c2_k1 a b1 b2 k2 h2
  · exact chain_c2_k2 a b1 b2 k2 h2
  · exact chain_c2_k3 a b1 b2 k2 h2
  · exact chain_c2_k4 a b1 b2 k2 h2
  · exact chain_c2_k5 a b1 b2 k2 h2
  · exact chain_c2_k6 a b1 b2 k2 h2
  · exact chain_c2_k7 a b1 b2 k2 h2
  · exact chain_c2_k8 a b1 b2 k2 h2
  · exact absurd h1 (by omega)

end SgModel.SnapFS
