import SgModel.Lemmas.UniqSpec
/-!
Refinement of the reference semantics `sStep` (live values only, no index) by the model
`step` under the invariant: same verdict, same observation.
-/
namespace SgModel.Uniq

def toS (x : Node) : SNode := { id := x.id, labels := x.labels, props := x.props }

theorem obs_eq (s : State) : obs s = { nodes := s.nodes.map toS, cons := lks s, next := s.next } := rfl

/-- every declared constraint holds on the node list -/
def ValidL (nodes : List Node) (L : List (Nat × Nat)) : Prop := ∀ lk ∈ L, UniqL nodes lk.1 lk.2

theorem sHolders_map (nodes : List Node) (l key : Nat) :
    sHolders (nodes.map toS) l key = holdersOf nodes l key := by
  simp only [sHolders, holdersOf, List.filterMap_map]
  rfl

theorem sValid_iff {nodes : List Node} (hi : IdsNodup nodes) (L : List (Nat × Nat)) (nx : Nat) :
    sValid { nodes := nodes.map toS, cons := L, next := nx } = true ↔ ValidL nodes L := by
  simp only [sValid, List.all_eq_true, Bool.not_eq_eq_eq_not, Bool.not_true, sViolates, sHolders_map, ValidL]
  constructor
  · intro h lk hlk; exact (hasDupVal_holdersOf hi _ _).mp (h lk hlk)
  · intro h lk hlk; exact (hasDupVal_holdersOf hi _ _).mpr (h lk hlk)

theorem validL_of_inv {s : State} (hi : Inv s) : ValidL s.nodes (lks s) := by
  intro lk hlk
  simp only [lks, List.mem_map] at hlk
  obtain ⟨c, hc, rfl⟩ := hlk
  exact hi.uniq c hc

theorem sValid_obs {s : State} (hi : Inv s) : sValid (obs s) = true :=
  (sValid_iff hi.ids _ _).mpr (validL_of_inv hi)

theorem sStep_valid {o : Obs} {op : Op} (h : sValid (sApply o op) = true) :
    sStep o op = (sApply o op, true) := by simp [sStep, h]

theorem sStep_invalid {o : Obs} {op : Op} (h : ¬ sValid (sApply o op) = true) :
    sStep o op = (sRefused o op, false) := by simp [sStep, h]

/-! ### list correspondences -/

theorem map_mapNode (f : Node → Node) (g : SNode → SNode) (hfg : ∀ x, toS (f x) = g (toS x))
    (l : List Node) (n : Nat) : (mapNode f l n).map toS = sMap g (l.map toS) n := by
  induction l with
  | nil => rfl
  | cons z rest ih =>
    by_cases hz : z.id = n
    · rw [mapNode, if_pos hz, List.map_cons, List.map_cons, sMap, if_pos (show (toS z).id = n from hz), hfg]
    · rw [mapNode, if_neg hz, List.map_cons, List.map_cons, sMap, if_neg (show ¬ (toS z).id = n from hz), ih]

theorem map_dropNode (l : List Node) (n : Nat) : (dropNode l n).map toS = sDrop (l.map toS) n := by
  induction l with
  | nil => rfl
  | cons z rest ih =>
    by_cases hz : z.id = n
    · simp [dropNode, sDrop, hz, toS]
    · simp [dropNode, sDrop, hz, toS, ← ih]

theorem sMap_absent (g : SNode → SNode) {l : List Node} {n : Nat} (h : findNode l n = none) :
    sMap g (l.map toS) n = l.map toS := by
  induction l with
  | nil => rfl
  | cons z rest ih =>
    by_cases hz : z.id = n
    · simp [findNode, hz] at h
    · simp only [findNode, hz, if_false] at h
      rw [List.map_cons, sMap, if_neg (show ¬ (toS z).id = n from hz), ih h]

theorem sDrop_absent {l : List Node} {n : Nat} (h : findNode l n = none) :
    sDrop (l.map toS) n = l.map toS := by
  induction l with
  | nil => rfl
  | cons z rest ih =>
    by_cases hz : z.id = n
    · simp [findNode, hz] at h
    · simp only [findNode, hz, if_false] at h
      rw [List.map_cons, sDrop, if_neg (show ¬ (toS z).id = n from hz), ih h]

theorem sMap_fix (g : SNode → SNode) {l : List Node} {n : Nat} {node : Node}
    (hf : findNode l n = some node) (hg : g (toS node) = toS node) :
    sMap g (l.map toS) n = l.map toS := by
  induction l with
  | nil => rfl
  | cons z rest ih =>
    by_cases hz : z.id = n
    · simp only [findNode, hz, if_true, Option.some.injEq] at hf
      subst hf
      simp only [List.map_cons, sMap]
      have : (toS z).id = n := hz
      simp [this, hg]
    · simp only [findNode, hz, if_false] at hf
      have : ¬ (toS z).id = n := hz
      simp [sMap, this, ih hf]

/-! ### one statement -/

theorem lks_map_idx (cons : List Cons) (f : Cons → Cons) (hf : ∀ c, (f c).label = c.label ∧ (f c).key = c.key) :
    (cons.map f).map (fun c => (c.label, c.key)) = cons.map (fun c => (c.label, c.key)) := by
  simp only [List.map_map]
  apply List.map_congr_left
  intro c _
  simp [Function.comp, (hf c).1, (hf c).2]

theorem not_valid_of_dup {nodes : List Node} {L : List (Nat × Nat)}
    (h : ∃ lk ∈ L, ¬ UniqL nodes lk.1 lk.2) : ¬ ValidL nodes L := by
  obtain ⟨lk, hlk, hn⟩ := h
  intro hv; exact hn (hv lk hlk)

theorem dup_lks {s : State} {nodes : List Node} (h : ∃ c ∈ s.cons, ¬ UniqL nodes c.label c.key) :
    ∃ lk ∈ lks s, ¬ UniqL nodes lk.1 lk.2 := by
  obtain ⟨c, hc, hn⟩ := h
  exact ⟨(c.label, c.key), by simp only [lks, List.mem_map]; exact ⟨c, hc, rfl⟩, hn⟩

theorem obs_writeProp (s : State) (node : Node) (key : Nat) (v : Option Val) :
    obs (writeProp s node key v) = sApply (obs s) (.set node.id key v) := by
  rw [obs_eq, lks_writeProp]
  simp only [sApply, obs_eq, writeProp]
  congr 1
  exact map_mapNode _ _ (fun _ => rfl) _ _

theorem refine_set {s : State} (hi : Inv s) (h key : Nat) (v : Option Val) :
    (obs (step s (.set h key v)).1, (step s (.set h key v)).2) = sStep (obs s) (.set h key v) := by
  simp only [step]
  rw [setProp_eq]
  cases hf : findNode s.nodes h with
  | none =>
    have hap : sApply (obs s) (.set h key v) = obs s := by
      simp only [sApply, obs_eq]; rw [sMap_absent _ hf]
    rw [sStep_valid (by rw [hap]; exact sValid_obs hi), hap]
  | some node =>
    obtain ⟨hn, hid⟩ := findNode_some hf
    subst hid
    simp only
    by_cases hb : s.cons.any (fun c => watches c node key && blocked c v node.id) = true
    · simp only [hb, if_true]
      have hd := dup_lks (dup_of_blocked_writeProp hi hn key v hb)
      have : ¬ sValid (sApply (obs s) (.set node.id key v)) = true := by
        rw [← obs_writeProp, obs_eq, lks_writeProp,
          sValid_iff (inv_writeProp_pre hi hn key v).1]
        exact not_valid_of_dup hd
      rw [sStep_invalid this]; rfl
    · have hb' : s.cons.any (fun c => watches c node key && blocked c v node.id) = false := by simpa using hb
      simp only [hb', Bool.false_eq_true, if_false]
      have hi' := inv_writeProp hi hn key v hb'
      rw [sStep_valid (by rw [← obs_writeProp]; exact sValid_obs hi'), obs_writeProp]

theorem refine_remove {s : State} (hi : Inv s) (h key : Nat) :
    (obs (step s (.remove h key)).1, (step s (.remove h key)).2) = sStep (obs s) (.remove h key) := by
  simp only [step, removeProp]
  cases hf : findNode s.nodes h with
  | none =>
    have hap : sApply (obs s) (.remove h key) = obs s := by
      simp only [sApply, obs_eq]; rw [sMap_absent _ hf]
    rw [sStep_valid (by rw [hap]; exact sValid_obs hi), hap]
  | some node =>
    obtain ⟨hn, hid⟩ := findNode_some hf
    subst hid
    simp only
    have hb' : s.cons.any (fun c => watches c node key && blocked c none node.id) = false := by
      simp [blocked]
    have hi' := inv_writeProp hi hn key none hb'
    have hap : sApply (obs s) (.remove node.id key) = obs (writeProp s node key none) := by
      rw [obs_writeProp]; rfl
    rw [sStep_valid (by rw [hap]; exact sValid_obs hi'), hap]

theorem refine_delete {s : State} (hi : Inv s) (h : Nat) :
    (obs (step s (.delete h)).1, (step s (.delete h)).2) = sStep (obs s) (.delete h) := by
  have hi' := inv_deleteNode hi h
  have hap : sApply (obs s) (.delete h) = obs (deleteNode s h) := by
    unfold deleteNode
    cases hf : findNode s.nodes h with
    | none => simp only [sApply, obs_eq]; rw [sDrop_absent hf]
    | some node =>
      simp only [sApply, obs_eq, lks]
      rw [map_dropNode, lks_map_idx]
      intro c; split <;> simp
  simp only [step]
  rw [sStep_valid (by rw [hap]; exact sValid_obs hi'), hap]

theorem obs_addLabelRaw (s : State) (node : Node) (l : Nat) :
    obs (addLabelRaw s node l) = sApply (obs s) (.addLabel node.id l) := by
  simp only [sApply, obs_eq, addLabelRaw, lks]
  rw [lks_map_idx _ _ (by intro c; split <;> simp)]
  congr 1
  exact map_mapNode _ _ (fun _ => rfl) _ _

theorem refine_addLabel {s : State} (hi : Inv s) (h l : Nat) :
    (obs (step s (.addLabel h l)).1, (step s (.addLabel h l)).2) = sStep (obs s) (.addLabel h l) := by
  simp only [step]
  rw [addLabel_eq]
  cases hf : findNode s.nodes h with
  | none =>
    have hap : sApply (obs s) (.addLabel h l) = obs s := by
      simp only [sApply, obs_eq]; rw [sMap_absent _ hf]
    rw [sStep_valid (by rw [hap]; exact sValid_obs hi), hap]
  | some node =>
    obtain ⟨hn, hid⟩ := findNode_some hf
    subst hid
    simp only
    by_cases hb : s.cons.any (fun c => c.label = l && blocked c (pget node.props c.key) node.id) = true
    · simp only [hb, if_true]
      have hd := dup_lks (dup_of_blocked_addLabel hi hn l hb)
      have hl : lks (addLabelRaw s node l) = lks s := by
        simp only [lks, addLabelRaw]; exact lks_map_idx _ _ (by intro c; split <;> simp)
      have : ¬ sValid (sApply (obs s) (.addLabel node.id l)) = true := by
        rw [← obs_addLabelRaw, obs_eq, hl, sValid_iff (inv_addLabelRaw_pre hi hn l).1]
        exact not_valid_of_dup hd
      rw [sStep_invalid this]; rfl
    · have hb' : s.cons.any (fun c => c.label = l && blocked c (pget node.props c.key) node.id) = false := by
        simpa using hb
      simp only [hb', Bool.false_eq_true, if_false]
      have hi' := inv_addLabelRaw hi hn l hb'
      rw [sStep_valid (by rw [← obs_addLabelRaw]; exact sValid_obs hi'), obs_addLabelRaw]

theorem filter_ne_of_not_mem {ls : List Nat} {l : Nat} (h : ¬ l ∈ ls) : ls.filter (· ≠ l) = ls := by
  rw [List.filter_eq_self]
  intro a ha
  simp only [ne_eq, decide_not, Bool.not_eq_eq_eq_not, Bool.not_true, decide_eq_false_iff_not]
  intro e; exact h (e ▸ ha)

theorem refine_removeLabel {s : State} (hi : Inv s) (h l : Nat) :
    (obs (step s (.removeLabel h l)).1, (step s (.removeLabel h l)).2) = sStep (obs s) (.removeLabel h l) := by
  have hi' := inv_removeLabel hi h l
  have hap : sApply (obs s) (.removeLabel h l) = obs (removeLabel s h l) := by
    unfold removeLabel
    cases hf : findNode s.nodes h with
    | none => simp only [sApply, obs_eq]; rw [sMap_absent _ hf]
    | some node =>
      simp only
      by_cases hl : node.labels.contains l = true
      · simp only [hl, if_true, sApply, obs_eq, lks]
        rw [lks_map_idx _ _ (by intro c; split <;> simp)]
        congr 1
        exact (map_mapNode _ _ (fun _ => rfl) _ _).symm
      · simp only [hl, Bool.false_eq_true, if_false, sApply, obs_eq]
        have hl' : ¬ l ∈ node.labels := fun hm => hl (contains_iff.mpr hm)
        have hg : (fun x : SNode => { x with labels := x.labels.filter (· ≠ l) }) (toS node) = toS node := by
          show ({ id := node.id, labels := node.labels.filter (· ≠ l), props := node.props } : SNode) = _
          rw [filter_ne_of_not_mem hl']; rfl
        rw [sMap_fix _ hf hg]
  simp only [step]
  rw [sStep_valid (by rw [hap]; exact sValid_obs hi'), hap]

end SgModel.Uniq
