import SgModel.Lemmas.OehNear
/-! LCA = minimal common upper bounds, for any index whose subsumption test is correct. -/
namespace SgModel.Oeh

theorem any_congr_mem {l : List Nat} {p q : Nat → Bool} (h : ∀ a ∈ l, p a = q a) :
    l.any p = l.any q := by
  induction l with
  | nil => rfl
  | cons a l ih =>
    simp only [List.any_cons]
    rw [h a (by simp), ih (fun b hb => h b (by simp [hb]))]

/-- `lowest_common_ancestors` of the DAG encodings: filtering by a correct subsumption test
yields exactly the minimal common upper bounds of the specification -/
theorem lcaBy_eq_specLca (P : Poset) (sub : Nat → Nat → Bool)
    (hs : ∀ a b, a < P.n → b < P.n → sub a b = reach P P.n a b) (x y : Nat)
    (hx : x < P.n) (hy : y < P.n) : lcaBy P.n sub x y = specLca P x y := by
  unfold lcaBy specLca
  have hc : (List.range P.n).filter (fun c => sub x c && sub y c)
      = (List.range P.n).filter (fun c => reach P P.n x c && reach P P.n y c) := by
    apply List.filter_congr
    intro c hc
    have hcn := List.mem_range.mp hc
    rw [hs x c hx hcn, hs y c hy hcn]
  simp only [hc]
  apply List.filter_congr
  intro c hc
  have hcn := List.mem_range.mp (List.mem_filter.mp hc).1
  congr 1
  apply any_congr_mem
  intro d hd
  have hdn := List.mem_range.mp (List.mem_filter.mp hd).1
  rw [hs d c hdn hcn]

end SgModel.Oeh
