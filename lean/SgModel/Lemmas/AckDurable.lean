import SgModel.Model.AckDurable
/-!
Helper lemmas for C19: table algebra, and the invariant
"an entity without blame is stored exactly as it is in memory".
-/
namespace SgModel.AckDurable

/-! ### tables -/

theorem get_erase {α : Type} (t : Tab α) (k k' : Nat) :
    (t.erase k).get k' = if k = k' then none else t.get k' := by
  induction t with
  | nil => simp [Tab.erase, Tab.get]
  | cons p r ih =>
    obtain ⟨a, v⟩ := p
    by_cases h1 : a = k
    · subst h1
      by_cases h2 : a = k'
      · subst h2; simp [Tab.erase, ih]
      · simp [Tab.erase, Tab.get, ih, h2]
    · by_cases h2 : a = k'
      · subst h2
        have : ¬ k = a := fun h => h1 h.symm
        simp [Tab.erase, Tab.get, h1, this]
      · simp [Tab.erase, Tab.get, h1, h2, ih]

theorem get_put {α : Type} (t : Tab α) (k k' : Nat) (v : α) :
    (t.put k v).get k' = if k = k' then some v else t.get k' := by
  by_cases h : k = k'
  · subst h; simp [Tab.put, Tab.get]
  · simp [Tab.put, Tab.get, h, get_erase]

theorem get_none_of_not_mem {α : Type} (t : Tab α) (k : Nat) (h : k ∉ t.map (·.1)) :
    t.get k = none := by
  induction t with
  | nil => rfl
  | cons p r ih =>
    obtain ⟨a, v⟩ := p
    simp only [List.map_cons, List.mem_cons, not_or] at h
    have : ¬ a = k := fun e => h.1 e.symm
    simp [Tab.get, this, ih h.2]

theorem get_blameAll (ids : List Nat) (c : Cause) (t : Tab Cause) (k : Nat) :
    (blameAll ids c t).get k = if k ∈ ids then some c else t.get k := by
  induction ids generalizing t with
  | nil => simp [blameAll]
  | cons a r ih =>
    have : blameAll (a :: r) c t = blameAll r c (t.put a c) := rfl
    rw [this, ih, get_put]
    by_cases h1 : k ∈ r
    · simp [h1]
    · by_cases h2 : a = k
      · subst h2; simp
      · have : ¬ k = a := fun e => h2 e.symm
        simp [h1, h2, this]

/-! ### what a statement does to memory, and to the blame tables, entity by entity -/

/-- the fold over the mutations keeps: an unblamed node is either stored as in memory, or it is
in memory and will be stored by the pass over the returned entities -/
theorem muts_inv_nodes (s : Stmt) (disk : G) (muts : List Mut) :
    ∀ (g : G) (b : Tab Cause × Tab Cause),
      (∀ id, b.1.get id = none →
        (s.front = .resp ∧ id ∈ s.retN ∧ (g.nodes.get id).isSome = true) ∨ disk.nodes.get id = g.nodes.get id) →
      ∀ id, (muts.foldl (blameMut s) b).1.get id = none →
        (s.front = .resp ∧ id ∈ s.retN ∧ ((muts.foldl applyMut g).nodes.get id).isSome = true)
          ∨ disk.nodes.get id = (muts.foldl applyMut g).nodes.get id := by
  induction muts with
  | nil => intro g b h id hb; exact h id hb
  | cons m r ih =>
    intro g b h
    apply ih (applyMut g m) (blameMut s b m)
    intro id hb
    cases m with
    | putNode k d =>
      by_cases hk : k = id
      · subst hk
        by_cases hr : s.front = Front.resp ∧ k ∈ s.retN
        · left
          exact ⟨hr.1, hr.2, by simp [applyMut, get_put]⟩
        · simp [blameMut, hr, get_put] at hb
      · have hb' : b.1.get id = none := by
          by_cases hr : s.front = Front.resp ∧ k ∈ s.retN
          · simpa [blameMut, hr, get_erase, hk] using hb
          · simpa [blameMut, hr, get_put, hk] using hb
        simpa [applyMut, get_put, hk] using h id hb'
    | delNode k =>
      by_cases hk : k = id
      · subst hk; simp [blameMut, get_put] at hb
      · have hb' : b.1.get id = none := by simpa [blameMut, get_put, hk] using hb
        simpa [applyMut, get_erase, hk] using h id hb'
    | putEdge k e =>
      have hb' : b.1.get id = none := by
        by_cases hr : s.front = Front.resp ∧ k ∈ s.retE
        · simpa [blameMut, hr] using hb
        · simpa [blameMut, hr] using hb
      simpa [applyMut] using h id hb'
    | delEdge k =>
      have hb' : b.1.get id = none := by simpa [blameMut] using hb
      simpa [applyMut] using h id hb'

theorem muts_inv_edges (s : Stmt) (disk : G) (muts : List Mut) :
    ∀ (g : G) (b : Tab Cause × Tab Cause),
      (∀ id, b.2.get id = none →
        (s.front = .resp ∧ id ∈ s.retE ∧ (g.edges.get id).isSome = true) ∨ disk.edges.get id = g.edges.get id) →
      ∀ id, (muts.foldl (blameMut s) b).2.get id = none →
        (s.front = .resp ∧ id ∈ s.retE ∧ ((muts.foldl applyMut g).edges.get id).isSome = true)
          ∨ disk.edges.get id = (muts.foldl applyMut g).edges.get id := by
  induction muts with
  | nil => intro g b h id hb; exact h id hb
  | cons m r ih =>
    intro g b h
    apply ih (applyMut g m) (blameMut s b m)
    intro id hb
    cases m with
    | putEdge k d =>
      by_cases hk : k = id
      · subst hk
        by_cases hr : s.front = Front.resp ∧ k ∈ s.retE
        · left
          exact ⟨hr.1, hr.2, by simp [applyMut, get_put]⟩
        · simp [blameMut, hr, get_put] at hb
      · have hb' : b.2.get id = none := by
          by_cases hr : s.front = Front.resp ∧ k ∈ s.retE
          · simpa [blameMut, hr, get_erase, hk] using hb
          · simpa [blameMut, hr, get_put, hk] using hb
        simpa [applyMut, get_put, hk] using h id hb'
    | delEdge k =>
      by_cases hk : k = id
      · subst hk; simp [blameMut, get_put] at hb
      · have hb' : b.2.get id = none := by simpa [blameMut, get_put, hk] using hb
        simpa [applyMut, get_erase, hk] using h id hb'
    | putNode k e =>
      have hb' : b.2.get id = none := by
        by_cases hr : s.front = Front.resp ∧ k ∈ s.retN
        · simpa [blameMut, hr] using hb
        · simpa [blameMut, hr] using hb
      simpa [applyMut] using h id hb'
    | delNode k =>
      have hb' : b.2.get id = none := by simpa [blameMut] using hb
      simpa [applyMut] using h id hb'

/-! ### the pass over the returned entities -/

theorem persistNode_nodes (mem : G) (ids : List Nat) :
    ∀ disk : G, ∀ id,
      (ids.foldl (persistNode mem) disk).nodes.get id
        = if id ∈ ids ∧ (mem.nodes.get id).isSome = true then mem.nodes.get id else disk.nodes.get id := by
  induction ids with
  | nil => intro disk id; simp
  | cons a r ih =>
    intro disk id
    simp only [List.foldl_cons]
    rw [ih]
    by_cases h1 : id ∈ r ∧ (mem.nodes.get id).isSome = true
    · simp [h1]
    · simp only [h1, if_false, List.mem_cons]
      by_cases h2 : id = a
      · subst h2
        cases hm : mem.nodes.get id with
        | none => simp [persistNode, hm]
        | some d => simp [persistNode, hm, get_put]
      · have h3 : ¬ a = id := fun e => h2 e.symm
        have h4 : ¬ ((id = a ∨ id ∈ r) ∧ (mem.nodes.get id).isSome = true) := by
          intro ⟨h5, h6⟩
          rcases h5 with h5 | h5
          · exact h2 h5
          · exact h1 ⟨h5, h6⟩
        simp only [h4, if_false]
        cases hm : mem.nodes.get a with
        | none => simp [persistNode, hm]
        | some d => simp [persistNode, hm, get_put, h3]

theorem persistNode_edges (mem : G) (ids : List Nat) :
    ∀ disk : G, (ids.foldl (persistNode mem) disk).edges = disk.edges := by
  induction ids with
  | nil => intro disk; rfl
  | cons a r ih =>
    intro disk
    simp only [List.foldl_cons]
    rw [ih]
    cases hm : mem.nodes.get a <;> simp [persistNode, hm]

theorem persistEdge_nodes (mem : G) (ids : List Nat) :
    ∀ disk : G, (ids.foldl (persistEdge mem) disk).nodes = disk.nodes := by
  induction ids with
  | nil => intro disk; rfl
  | cons a r ih =>
    intro disk
    simp only [List.foldl_cons]
    rw [ih]
    cases hm : mem.edges.get a <;> simp [persistEdge, hm]

theorem persistEdge_edges (mem : G) (ids : List Nat) :
    ∀ disk : G, ∀ id,
      (ids.foldl (persistEdge mem) disk).edges.get id
        = if id ∈ ids ∧ (mem.edges.get id).isSome = true then mem.edges.get id else disk.edges.get id := by
  induction ids with
  | nil => intro disk id; simp
  | cons a r ih =>
    intro disk id
    simp only [List.foldl_cons]
    rw [ih]
    by_cases h1 : id ∈ r ∧ (mem.edges.get id).isSome = true
    · simp [h1]
    · simp only [h1, if_false, List.mem_cons]
      by_cases h2 : id = a
      · subst h2
        cases hm : mem.edges.get id with
        | none => simp [persistEdge, hm]
        | some d => simp [persistEdge, hm, get_put]
      · have h3 : ¬ a = id := fun e => h2 e.symm
        have h4 : ¬ ((id = a ∨ id ∈ r) ∧ (mem.edges.get id).isSome = true) := by
          intro ⟨h5, h6⟩
          rcases h5 with h5 | h5
          · exact h2 h5
          · exact h1 ⟨h5, h6⟩
        simp only [h4, if_false]
        cases hm : mem.edges.get a with
        | none => simp [persistEdge, hm]
        | some d => simp [persistEdge, hm, get_put, h3]

/-- clearing the blame of the returned entities that exist -/
theorem clear_get {α : Type} (m : Tab α) (ids : List Nat) :
    ∀ t : Tab Cause, ∀ id,
      (ids.foldl (fun t id => if (m.get id).isSome then t.erase id else t) t).get id
        = if id ∈ ids ∧ (m.get id).isSome = true then none else t.get id := by
  induction ids with
  | nil => intro t id; simp
  | cons a r ih =>
    intro t id
    simp only [List.foldl_cons]
    rw [ih]
    by_cases h1 : id ∈ r ∧ (m.get id).isSome = true
    · simp [h1]
    · simp only [h1, if_false, List.mem_cons]
      by_cases h2 : id = a
      · subst h2
        cases hm : (m.get id).isSome <;> simp [hm, get_erase]
      · have h3 : ¬ a = id := fun e => h2 e.symm
        have h4 : ¬ ((id = a ∨ id ∈ r) ∧ (m.get id).isSome = true) := by
          intro ⟨h5, h6⟩
          rcases h5 with h5 | h5
          · exact h2 h5
          · exact h1 ⟨h5, h6⟩
        simp only [h4, if_false]
        cases hm : (m.get a).isSome <;> simp [get_erase, h3]

/-- row by row, the last write wins -/
theorem persistOcc_last (occ post : List (Nat × Nat)) (t : Tab Nat) (id d : Nat)
    (hpost : ∀ p ∈ post, p.1 ≠ id) :
    (persistOcc t (occ ++ (id, d) :: post)).get id = some d := by
  unfold persistOcc
  rw [List.foldl_append, List.foldl_cons]
  generalize (List.foldl (fun t p => Tab.put t p.1 p.2) t occ) = t0
  have key : ∀ (post : List (Nat × Nat)) (t1 : Tab Nat), (∀ p ∈ post, p.1 ≠ id) → t1.get id = some d →
      (List.foldl (fun t p => Tab.put t p.1 p.2) t1 post).get id = some d := by
    intro post
    induction post with
    | nil => intro t1 _ h; exact h
    | cons a r ih =>
      intro t1 hp h
      simp only [List.foldl_cons]
      apply ih
      · intro p hp'; exact hp p (List.mem_cons_of_mem _ hp')
      · have : a.1 ≠ id := hp a (List.mem_cons_self ..)
        rw [get_put]; simp [this, h]
  exact key post _ hpost (by rw [get_put]; simp)

/-- ids that do not occur are untouched -/
theorem persistOcc_other (occ : List (Nat × Nat)) (t : Tab Nat) (id : Nat)
    (h : ∀ p ∈ occ, p.1 ≠ id) : (persistOcc t occ).get id = t.get id := by
  unfold persistOcc
  induction occ generalizing t with
  | nil => rfl
  | cons a r ih =>
    simp only [List.foldl_cons]
    rw [ih _ (fun p hp => h p (List.mem_cons_of_mem _ hp)), get_put]
    have : a.1 ≠ id := h a (List.mem_cons_self ..)
    simp [this]

/-! ### the invariant -/

/-- an entity without blame is stored exactly as it is in memory -/
def Inv (st : State) : Prop :=
  (∀ id, st.blameN.get id = none → st.disk.nodes.get id = st.mem.nodes.get id)
  ∧ (∀ id, st.blameE.get id = none → st.disk.edges.get id = st.mem.edges.get id)

theorem inv_init : Inv {} := by
  constructor <;> intro id _ <;> rfl

theorem inv_stepQuery (st : State) (s : Stmt) (h : Inv st) : Inv (stepQuery st s) := by
  obtain ⟨hN, hE⟩ := h
  have mN := muts_inv_nodes s st.disk s.muts st.mem (st.blameN, st.blameE)
    (fun id hb => Or.inr (hN id hb))
  have mE := muts_inv_edges s st.disk s.muts st.mem (st.blameN, st.blameE)
    (fun id hb => Or.inr (hE id hb))
  cases hf : s.front with
  | http =>
    constructor
    · intro id hb
      have hb' : (s.muts.foldl (blameMut s) (st.blameN, st.blameE)).1.get id = none := by
        simpa [stepQuery, hf] using hb
      rcases mN id hb' with ⟨h1, _⟩ | h1
      · rw [hf] at h1; cases h1
      · simpa [stepQuery, hf] using h1
    · intro id hb
      have hb' : (s.muts.foldl (blameMut s) (st.blameN, st.blameE)).2.get id = none := by
        simpa [stepQuery, hf] using hb
      rcases mE id hb' with ⟨h1, _⟩ | h1
      · rw [hf] at h1; cases h1
      · simpa [stepQuery, hf] using h1
  | resp =>
    constructor
    · intro id hb
      simp only [stepQuery, hf] at hb ⊢
      rw [clear_get] at hb
      simp only [persistReturned]
      rw [persistEdge_nodes, persistNode_nodes]
      by_cases hc : id ∈ s.retN ∧ ((s.muts.foldl applyMut st.mem).nodes.get id).isSome = true
      · simp [hc]
      · simp only [hc, if_false] at hb ⊢
        rcases mN id hb with ⟨_, h2, h3⟩ | h1
        · exact absurd ⟨h2, h3⟩ hc
        · exact h1
    · intro id hb
      simp only [stepQuery, hf] at hb ⊢
      rw [clear_get] at hb
      simp only [persistReturned]
      rw [persistEdge_edges, persistNode_edges]
      by_cases hc : id ∈ s.retE ∧ ((s.muts.foldl applyMut st.mem).edges.get id).isSome = true
      · simp [hc]
      · simp only [hc, if_false] at hb ⊢
        rcases mE id hb with ⟨_, h2, h3⟩ | h1
        · exact absurd ⟨h2, h3⟩ hc
        · exact h1

theorem inv_step (st : State) (r : Req) (h : Inv st) : Inv (step st r) := by
  cases r with
  | query s => exact inv_stepQuery st s h
  | graphDelete =>
    obtain ⟨hN, hE⟩ := h
    constructor
    · intro id hb
      simp only [step] at hb ⊢
      rw [get_blameAll] at hb
      by_cases hm : id ∈ st.mem.nodes.map (·.1)
      · simp [hm] at hb
      · simp only [hm, if_false] at hb
        rw [hN id hb, get_none_of_not_mem _ _ hm]; rfl
    · intro id hb
      simp only [step] at hb ⊢
      rw [get_blameAll] at hb
      by_cases hm : id ∈ st.mem.edges.map (·.1)
      · simp [hm] at hb
      · simp only [hm, if_false] at hb
        rw [hE id hb, get_none_of_not_mem _ _ hm]; rfl

theorem inv_foldl (rs : List Req) : ∀ st, Inv st → Inv (rs.foldl step st) := by
  induction rs with
  | nil => intro st h; exact h
  | cons r t ih => intro st h; exact ih _ (inv_step st r h)

theorem inv_run (rs : List Req) : Inv (run rs) := inv_foldl rs {} inv_init

/-! ### histories that return everything they change keep the blame tables empty -/

def NoBlame (st : State) : Prop := (∀ id, st.blameN.get id = none) ∧ (∀ id, st.blameE.get id = none)

theorem noBlame_muts (s : Stmt) (muts : List Mut)
    (hall : ∀ m ∈ muts, m.isPut = true ∧ m.returnedBy s = true) (hf : s.front = .resp) :
    ∀ b : Tab Cause × Tab Cause, ((∀ id, b.1.get id = none) ∧ (∀ id, b.2.get id = none)) →
      (∀ id, (muts.foldl (blameMut s) b).1.get id = none)
        ∧ (∀ id, (muts.foldl (blameMut s) b).2.get id = none) := by
  induction muts with
  | nil => intro b h; exact h
  | cons m r ih =>
    intro b h
    apply ih (fun m' hm' => hall m' (List.mem_cons_of_mem _ hm'))
    have hm := hall m (List.mem_cons_self ..)
    cases m with
    | putNode k d =>
      have hr : k ∈ s.retN := by simpa [Mut.returnedBy] using hm.2
      constructor
      · intro id; simp [blameMut, hf, hr, get_erase, h.1 id]
      · intro id; simp [blameMut, hf, hr, h.2 id]
    | putEdge k d =>
      have hr : k ∈ s.retE := by simpa [Mut.returnedBy] using hm.2
      constructor
      · intro id; simp [blameMut, hf, hr, h.1 id]
      · intro id; simp [blameMut, hf, hr, get_erase, h.2 id]
    | delNode k => simp [Mut.isPut] at hm
    | delEdge k => simp [Mut.isPut] at hm

theorem noBlame_step (st : State) (r : Req) (hr : r.returnsAll = true) (h : NoBlame st) :
    NoBlame (step st r) := by
  cases r with
  | graphDelete => simp [Req.returnsAll] at hr
  | query s =>
    simp only [Req.returnsAll, Stmt.returnsAll, Bool.and_eq_true, beq_iff_eq, List.all_eq_true] at hr
    obtain ⟨hf, hall⟩ := hr
    have hb := noBlame_muts s s.muts hall hf (st.blameN, st.blameE) h
    constructor
    · intro id
      simp only [step, stepQuery, hf]
      rw [clear_get]
      split
      · rfl
      · exact hb.1 id
    · intro id
      simp only [step, stepQuery, hf]
      rw [clear_get]
      split
      · rfl
      · exact hb.2 id

theorem noBlame_foldl (rs : List Req) (hr : ∀ r ∈ rs, r.returnsAll = true) :
    ∀ st, NoBlame st → NoBlame (rs.foldl step st) := by
  induction rs with
  | nil => intro st h; exact h
  | cons r t ih =>
    intro st h
    exact ih (fun r' hr' => hr r' (List.mem_cons_of_mem _ hr')) _
      (noBlame_step st r (hr r (List.mem_cons_self ..)) h)

end SgModel.AckDurable
