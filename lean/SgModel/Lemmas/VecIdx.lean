import SgModel.Model.VecIdx
/-!
Helper lemmas for C29 (vector index): the exact rank order, the stable insertion sort, the
entry list as a node-keyed map.  Core Lean only.
-/
namespace SgModel.VecIdx

/-! ### ranks: a total preorder -/

def RLe (a b : Rank) : Prop := a.num * ((b.denPred : Int) + 1) ≤ b.num * ((a.denPred : Int) + 1)

theorem le_iff (a b : Rank) : a.le b = true ↔ RLe a b := by simp [Rank.le, RLe]

theorem rle_refl (a : Rank) : RLe a a := Int.le_refl _

theorem rle_total (a b : Rank) : RLe a b ∨ RLe b a := by
  unfold RLe; omega

theorem rle_trans {a b c : Rank} (h1 : RLe a b) (h2 : RLe b c) : RLe a c := by
  unfold RLe at *
  have hx : (0 : Int) ≤ (a.denPred : Int) + 1 := by omega
  have hy : (0 : Int) < (b.denPred : Int) + 1 := by omega
  have hz : (0 : Int) ≤ (c.denPred : Int) + 1 := by omega
  have h1' := Int.mul_le_mul_of_nonneg_right h1 hz
  have h2' := Int.mul_le_mul_of_nonneg_right h2 hx
  have e1 : a.num * ((c.denPred : Int) + 1) * ((b.denPred : Int) + 1)
      = a.num * ((b.denPred : Int) + 1) * ((c.denPred : Int) + 1) := Int.mul_right_comm _ _ _
  have e2 : b.num * ((a.denPred : Int) + 1) * ((c.denPred : Int) + 1)
      = b.num * ((c.denPred : Int) + 1) * ((a.denPred : Int) + 1) := Int.mul_right_comm _ _ _
  have e3 : c.num * ((b.denPred : Int) + 1) * ((a.denPred : Int) + 1)
      = c.num * ((a.denPred : Int) + 1) * ((b.denPred : Int) + 1) := Int.mul_right_comm _ _ _
  have : a.num * ((c.denPred : Int) + 1) * ((b.denPred : Int) + 1)
      ≤ c.num * ((a.denPred : Int) + 1) * ((b.denPred : Int) + 1) := by
    rw [e1, ← e3]
    exact Int.le_trans h1' (e2 ▸ h2')
  exact Int.le_of_mul_le_mul_right this hy

/-! ### the stable insertion sort -/

/-- `a` is at least as near to `q` as `b` -/
def Nearer (m : Metric) (q : Vec) (a b : Entry) : Prop := RLe (rank m q a.vec) (rank m q b.vec)

def Srt (m : Metric) (q : Vec) (l : List Entry) : Prop := l.Pairwise (Nearer m q)

theorem insertBy_perm (m : Metric) (q : Vec) (x : Entry) (l : List Entry) :
    (insertBy m q x l).Perm (x :: l) := by
  induction l with
  | nil => exact List.Perm.refl _
  | cons y rest ih =>
    unfold insertBy
    split
    · exact ((List.Perm.cons y ih).trans (List.Perm.swap x y rest))
    · exact List.Perm.refl _

theorem sortBy_perm (m : Metric) (q : Vec) (l : List Entry) : (sortBy m q l).Perm l := by
  induction l with
  | nil => exact List.Perm.refl _
  | cons x rest ih =>
    show (insertBy m q x (sortBy m q rest)).Perm (x :: rest)
    exact (insertBy_perm m q x _).trans (List.Perm.cons x ih)

theorem insertBy_sorted (m : Metric) (q : Vec) (x : Entry) {l : List Entry} (h : Srt m q l) :
    Srt m q (insertBy m q x l) := by
  induction l with
  | nil => simp [insertBy, Srt]
  | cons y rest ih =>
    unfold Srt at h ih ⊢
    rw [List.pairwise_cons] at h
    unfold insertBy
    split
    · rename_i hle
      rw [List.pairwise_cons]
      refine ⟨?_, ih h.2⟩
      intro z hz
      rcases List.mem_cons.mp ((insertBy_perm m q x rest).mem_iff.mp hz) with rfl | hz'
      · exact (le_iff _ _).mp hle
      · exact h.1 z hz'
    · rename_i hle
      have hxy : Nearer m q x y := by
        rcases rle_total (rank m q x.vec) (rank m q y.vec) with h1 | h1
        · exact h1
        · exact absurd ((le_iff _ _).mpr h1) hle
      rw [List.pairwise_cons]
      refine ⟨?_, List.pairwise_cons.mpr h⟩
      intro z hz
      rcases List.mem_cons.mp hz with rfl | hz'
      · exact hxy
      · exact rle_trans hxy (h.1 z hz')

theorem sortBy_sorted (m : Metric) (q : Vec) (l : List Entry) : Srt m q (sortBy m q l) := by
  induction l with
  | nil => simp [sortBy, Srt]
  | cons x rest ih => exact insertBy_sorted m q x ih

/-! ### the entry list as a map keyed by node -/

def NodesNodup (es : List Entry) : Prop := es.Pairwise (fun a b => a.node ≠ b.node)

theorem mem_remove {es : List Entry} {n : Nat} {e : Entry} : e ∈ remove es n ↔ e ∈ es ∧ e.node ≠ n := by
  simp [remove, List.mem_filter]

theorem nodup_remove {es : List Entry} (n : Nat) (h : NodesNodup es) : NodesNodup (remove es n) :=
  List.Pairwise.sublist List.filter_sublist h

theorem mem_upsert {es : List Entry} (hnd : NodesNodup es) {n : Nat} {v : Vec} {e : Entry} :
    e ∈ upsert es n v ↔ e = ⟨n, v⟩ ∨ (e ∈ es ∧ e.node ≠ n) := by
  induction es with
  | nil => simp [upsert]
  | cons e0 rest ih =>
    unfold NodesNodup at hnd
    rw [List.pairwise_cons] at hnd
    by_cases h0 : e0.node = n
    · simp only [upsert, h0, if_true, List.mem_cons]
      constructor
      · rintro (h | h)
        · exact Or.inl h
        · exact Or.inr ⟨Or.inr h, fun hn => hnd.1 e h (h0.trans hn.symm)⟩
      · rintro (h | ⟨h | h, hne⟩)
        · exact Or.inl h
        · exact absurd (h ▸ h0) hne
        · exact Or.inr h
    · simp only [upsert, h0, if_false, List.mem_cons, ih hnd.2]
      constructor
      · rintro (h | h | ⟨h, hne⟩)
        · exact Or.inr ⟨Or.inl h, h ▸ h0⟩
        · exact Or.inl h
        · exact Or.inr ⟨Or.inr h, hne⟩
      · rintro (h | ⟨h | h, hne⟩)
        · exact Or.inr (Or.inl h)
        · exact Or.inl h
        · exact Or.inr (Or.inr ⟨h, hne⟩)

theorem nodup_upsert {es : List Entry} (hnd : NodesNodup es) (n : Nat) (v : Vec) :
    NodesNodup (upsert es n v) := by
  induction es with
  | nil => simp [upsert, NodesNodup]
  | cons e0 rest ih =>
    unfold NodesNodup at hnd ⊢
    rw [List.pairwise_cons] at hnd
    by_cases h0 : e0.node = n
    · simp only [upsert, h0, if_true]
      rw [List.pairwise_cons]
      exact ⟨fun b hb => h0 ▸ hnd.1 b hb, hnd.2⟩
    · simp only [upsert, h0, if_false]
      rw [List.pairwise_cons]
      refine ⟨?_, ih hnd.2⟩
      intro b hb
      rcases (mem_upsert hnd.2).mp hb with rfl | ⟨hb', _⟩
      · exact h0
      · exact hnd.1 b hb'

theorem findEntry_some {es : List Entry} {n : Nat} {e : Entry} (h : findEntry es n = some e) :
    e ∈ es ∧ e.node = n := by
  induction es with
  | nil => simp [findEntry] at h
  | cons e0 rest ih =>
    by_cases h0 : e0.node = n
    · simp [findEntry, h0] at h; subst h; simp [h0]
    · simp [findEntry, h0] at h
      exact ⟨List.mem_cons_of_mem _ (ih h).1, (ih h).2⟩

theorem dedupNodes_sublist (es : List Entry) : (dedupNodes es).Sublist es := by
  induction es with
  | nil => exact List.Sublist.refl _
  | cons e rest ih =>
    unfold dedupNodes
    split
    · exact List.Sublist.cons _ ih
    · exact List.Sublist.cons₂ _ ih

theorem dedupNodes_nodup (es : List Entry) : NodesNodup (dedupNodes es) := by
  induction es with
  | nil => simp [dedupNodes, NodesNodup]
  | cons e rest ih =>
    unfold dedupNodes
    split
    · exact ih
    · rename_i h
      unfold NodesNodup
      rw [List.pairwise_cons]
      refine ⟨?_, ih⟩
      intro b hb hne
      apply h
      rw [List.any_eq_true]
      exact ⟨b, (dedupNodes_sublist rest).subset hb, by simp [hne]⟩

theorem nodup_perm {a b : List Entry} (p : a.Perm b) (h : NodesNodup b) : NodesNodup a := by
  unfold NodesNodup at *
  exact (List.Perm.pairwise_iff (fun {x y} (hxy : x.node ≠ y.node) => fun e => hxy e.symm) p.symm).mp h

end SgModel.VecIdx
