import SgModel.Lemmas.AlgoMstCount
/-!
Lemmas for the MST minimality theorem of C26, part 1b: edges up to orientation.  Core Lean only.
-/
namespace SgModel.Algo

/-! ### edges up to orientation -/

theorem canonE_eq {a b : Edge} (h : canonE a = canonE b) :
    a.2.2 = b.2.2 ∧ ((a.1 = b.1 ∧ a.2.1 = b.2.1) ∨ (a.1 = b.2.1 ∧ a.2.1 = b.1)) := by
  simp only [canonE, Prod.mk.injEq] at h
  obtain ⟨h1, h2, h3⟩ := h
  exact ⟨h3, by omega⟩

theorem canonE_idem (e : Edge) : canonE (canonE e) = canonE e := by
  simp only [canonE, Prod.mk.injEq, and_true]
  constructor <;> omega

theorem wsum_map_canonE (L : List Edge) : wsum (L.map canonE) = wsum L := by
  simp [wsum, List.map_map, Function.comp_def, canonE]

theorem mem_pairs {L : List Edge} {a b : Nat} : (a, b) ∈ pairs L ↔ ∃ w, (a, b, w) ∈ L := by
  simp only [pairs, List.mem_map]
  constructor
  · rintro ⟨⟨x, y, w⟩, h, heq⟩
    simp only [Prod.mk.injEq] at heq
    obtain ⟨rfl, rfl⟩ := heq
    exact ⟨w, h⟩
  · rintro ⟨w, h⟩; exact ⟨(a, b, w), h, rfl⟩

/-- an edge that occurs in `L` up to orientation joins its endpoints in `L` -/
theorem pair_mem_sym_of_canon {g : Edge} {L : List Edge} (h : canonE g ∈ L.map canonE) :
    (g.1, g.2.1) ∈ sym (pairs L) ∧ (g.2.1, g.1) ∈ sym (pairs L) := by
  obtain ⟨e, he, heq⟩ := List.mem_map.mp h
  obtain ⟨_, hor⟩ := canonE_eq heq
  have h1 : (e.1, e.2.1) ∈ pairs L := mem_pairs.mpr ⟨e.2.2, he⟩
  rcases hor with ⟨h1', h2'⟩ | ⟨h1', h2'⟩
  · rw [h1', h2'] at h1
    exact ⟨mem_sym.mpr (Or.inl h1), mem_sym.mpr (Or.inr h1)⟩
  · rw [h1', h2'] at h1
    exact ⟨mem_sym.mpr (Or.inr h1), mem_sym.mpr (Or.inl h1)⟩

theorem sym_pairs_subset {A B : List Edge} (h : ∀ g ∈ A, canonE g ∈ B.map canonE) :
    ∀ p, p ∈ sym (pairs A) → p ∈ sym (pairs B) := by
  rintro ⟨a, b⟩ hp
  rcases mem_sym.mp hp with hp | hp
  · obtain ⟨w, hw⟩ := mem_pairs.mp hp
    exact (pair_mem_sym_of_canon (h _ hw)).1
  · obtain ⟨w, hw⟩ := mem_pairs.mp hp
    exact (pair_mem_sym_of_canon (h _ hw)).2

end SgModel.Algo
