import SgModel.Lemmas.OehChain
/-! Kahn's sort (`topoLoop`) on a DAG: the order lists every node exactly once, every child
before its parents (`topoOkB`). -/
namespace SgModel.Oeh

/-- pigeonhole: a duplicate-free list of naturals below `n` has at most `n` elements -/
theorem nodup_length_le : ∀ (n : Nat) (l : List Nat), l.Nodup → (∀ x ∈ l, x < n) → l.length ≤ n := by
  intro n
  induction n with
  | zero =>
    intro l _ h
    cases l with
    | nil => simp
    | cons a l => exact absurd (h a (by simp)) (by omega)
  | succ n ih =>
    intro l nd h
    by_cases hm : n ∈ l
    · have h1 := ih (l.erase n) (nd.erase n) (by
        intro x hx
        have := (nd.mem_erase_iff).mp hx
        have := h x this.2
        omega)
      rw [List.length_erase_of_mem hm] at h1
      have : 0 < l.length := List.length_pos_of_mem hm
      omega
    · have := ih l nd (by
        intro x hx
        have := h x hx
        have : x ≠ n := fun e => hm (e ▸ hx)
        omega)
      omega

/-- number of children of `p` not yet emitted -/
def cnt (P : Poset) (acc : List Nat) (p : Nat) : Nat :=
  ((P.children p).filter (fun c => !acc.contains c)).length

theorem filter_length_cons_step (u : Nat) (acc : List Nat) (hu : u ∉ acc) : ∀ (l : List Nat),
    l.Nodup →
    (l.filter (fun c => !(u :: acc).contains c)).length + (if u ∈ l then 1 else 0)
      = (l.filter (fun c => !acc.contains c)).length := by
  intro l
  induction l with
  | nil => intro _; simp
  | cons a l ih =>
    intro nd
    rw [List.nodup_cons] at nd
    have ih' := ih nd.2
    by_cases hau : a = u
    · subst hau
      have hnl : a ∉ l := nd.1
      have h1 : (!(a :: acc).contains a) = false := by simp
      have h2 : (!acc.contains a) = true := by simp [hu]
      simp only [List.filter_cons, h1, h2, if_true, List.length_cons, List.mem_cons, true_or]
      simp only [hnl, if_false] at ih'
      simp at ih' ⊢
      omega
    · have hmem : (u ∈ a :: l) ↔ u ∈ l := by
        simp [List.mem_cons, Ne.symm hau]
      have hc : (u :: acc).contains a = acc.contains a := by
        simp [List.contains_cons, hau]
      simp only [List.filter_cons, hc]
      by_cases hin : u ∈ l
      · have : u ∈ a :: l := hmem.mpr hin
        simp only [hin, this, if_true] at ih' ⊢
        split <;> simp_all <;> omega
      · have : u ∉ a :: l := fun h => hin (hmem.mp h)
        simp only [hin, this, if_false] at ih' ⊢
        split <;> simp_all

theorem cnt_step {P : Poset} (hnd : ∀ p, (P.children p).Nodup) (u : Nat) (acc : List Nat)
    (hu : u ∉ acc) (p : Nat) :
    cnt P (u :: acc) p + (if (u, p) ∈ P.edges then 1 else 0) = cnt P acc p := by
  have := filter_length_cons_step u acc hu (P.children p) (hnd p)
  unfold cnt
  by_cases he : (u, p) ∈ P.edges
  · have : u ∈ P.children p := mem_children.mpr he
    simp_all
  · have : u ∉ P.children p := fun h => he (mem_children.mp h)
    simp_all

theorem cnt_zero_iff {P : Poset} (acc : List Nat) (p : Nat) :
    cnt P acc p = 0 ↔ ∀ c, (c, p) ∈ P.edges → c ∈ acc := by
  unfold cnt
  rw [List.length_eq_zero_iff, List.filter_eq_nil_iff]
  constructor
  · intro h c hc
    have := h c (mem_children.mpr hc)
    simpa using this
  · intro h c hc
    simp [h c (mem_children.mp hc)]

/-- the `for &p in &parents[u]` loop -/
def relax (ps : List Nat) (st : List Nat × List Nat) : List Nat × List Nat :=
  ps.foldl (fun (st : List Nat × List Nat) p =>
    let d := st.1.getD p 0 - 1
    (st.1.set p d, if d == 0 then st.2 ++ [p] else st.2)) st

theorem relax_spec : ∀ (ps : List Nat) (st : List Nat × List Nat), ps.Nodup →
    (∀ p ∈ ps, p < st.1.length) →
    (relax ps st).1.length = st.1.length
    ∧ (∀ x, (relax ps st).1.getD x 0 = st.1.getD x 0 - (if x ∈ ps then 1 else 0))
    ∧ (relax ps st).2 = st.2 ++ ps.filter (fun p => st.1.getD p 0 - 1 == 0) := by
  intro ps
  induction ps with
  | nil => intro st _ _; simp [relax]
  | cons p ps ih =>
    intro st nd hlen
    rw [List.nodup_cons] at nd
    have hp := hlen p (by simp)
    let st1 : List Nat × List Nat :=
      (st.1.set p (st.1.getD p 0 - 1), if st.1.getD p 0 - 1 == 0 then st.2 ++ [p] else st.2)
    have hstep : relax (p :: ps) st = relax ps st1 := rfl
    obtain ⟨i1, i2, i3⟩ := ih st1 nd.2 (by intro q hq; simp [st1]; exact hlen q (by simp [hq]))
    have hget : ∀ x, st1.1.getD x 0 = if x = p then st.1.getD p 0 - 1 else st.1.getD x 0 := by
      intro x
      by_cases hx : x = p
      · subst hx; simp [st1, List.getD_eq_getElem?_getD, hp]
      · simp [st1, List.getD_eq_getElem?_getD, hx, List.getElem?_set_ne (Ne.symm hx)]
    rw [hstep]
    refine ⟨by rw [i1]; simp [st1], ?_, ?_⟩
    · intro x
      rw [i2 x, hget x]
      by_cases hx : x = p
      · subst hx; simp [nd.1]
      · simp [hx]
    · rw [i3]
      have hf : ps.filter (fun q => st1.1.getD q 0 - 1 == 0)
          = ps.filter (fun q => st.1.getD q 0 - 1 == 0) := by
        apply List.filter_congr
        intro q hq
        have : q ≠ p := fun e => nd.1 (e ▸ hq)
        rw [hget q]; simp [this]
      rw [hf]
      simp only [List.filter_cons, st1]
      split <;> simp

theorem nodup_parents_aux (v : Nat) : ∀ (es : List (Nat × Nat)), es.Nodup →
    ((es.filter (fun e => e.1 == v)).map (·.2)).Nodup := by
  intro es
  induction es with
  | nil => intro _; simp
  | cons e es ih =>
    intro hnd
    rw [List.nodup_cons] at hnd
    by_cases he : e.1 = v
    · have : (e.1 == v) = true := by simp [he]
      simp only [List.filter_cons, this, if_true, List.map_cons, List.nodup_cons]
      refine ⟨?_, ih hnd.2⟩
      intro hmem
      simp only [List.mem_map, List.mem_filter, beq_iff_eq] at hmem
      obtain ⟨⟨a, b⟩, ⟨hin, ha⟩, hb⟩ := hmem
      simp only at ha hb
      apply hnd.1
      have : e = (a, b) := by
        cases e with
        | mk e1 e2 => simp only at he hb; subst he; subst hb; rw [ha]
      rw [this]; exact hin
    · have : (e.1 == v) = false := by simp [he]
      simp only [List.filter_cons, this]
      exact ih hnd.2

/-- newest first: every node's children were emitted before it -/
def GoodRev (P : Poset) : List Nat → Prop
  | [] => True
  | u :: rest => (∀ c, (c, u) ∈ P.edges → c ∈ rest) ∧ GoodRev P rest

structure KInv (P : Poset) (q indeg acc : List Nat) : Prop where
  nd : (acc ++ q).Nodup
  rng : ∀ v ∈ acc ++ q, v < P.n
  len : indeg.length = P.n
  deg : ∀ p, p < P.n → indeg.getD p 0 = cnt P acc p
  ready : ∀ v, v < P.n → ((v ∈ acc ∨ v ∈ q) ↔ cnt P acc v = 0)
  good : GoodRev P acc

theorem kinv_step {P : Poset} {h : Nat → Nat} (D : IsDag P h) (u : Nat) (q indeg acc : List Nat)
    (I : KInv P (u :: q) indeg acc) :
    KInv P (q ++ (relax (P.parents u) (indeg, [])).2) (relax (P.parents u) (indeg, [])).1
      (u :: acc) := by
  have hchild : ∀ p, (P.children p).Nodup := fun p => nodup_children_aux p P.edges D.edgesNodup
  have hpar : (P.parents u).Nodup := nodup_parents_aux u P.edges D.edgesNodup
  have hprange : ∀ p ∈ P.parents u, p < P.n := fun p hp => (D.inRange _ (mem_parents.mp hp)).2
  obtain ⟨r1, r2, r3⟩ := relax_spec (P.parents u) (indeg, []) hpar
    (fun p hp => by simp [I.len]; exact hprange p hp)
  simp only [List.nil_append] at r3
  have hnd := I.nd
  rw [List.nodup_append] at hnd
  have hu_acc : u ∉ acc := fun hm => hnd.2.2 u hm u (by simp) rfl
  have hu_q : u ∉ q := (List.nodup_cons.mp hnd.2.1).1
  have hun : u < P.n := I.rng u (by simp)
  have hcu : cnt P acc u = 0 := (I.ready u hun).mp (Or.inr (by simp))
  have hstep := cnt_step hchild u acc hu_acc
  have hmono : ∀ p, cnt P (u :: acc) p ≤ cnt P acc p := fun p => by have := hstep p; omega
  -- new indegrees
  have hdeg : ∀ p, p < P.n → (relax (P.parents u) (indeg, [])).1.getD p 0 = cnt P (u :: acc) p := by
    intro p hp
    rw [r2 p]
    have h1 := I.deg p hp
    have h2 := hstep p
    simp only at h1 ⊢
    by_cases he : (u, p) ∈ P.edges
    · have : p ∈ P.parents u := mem_parents.mpr he
      simp only [he, this, if_true] at h2 ⊢
      omega
    · have : p ∉ P.parents u := fun hm => he (mem_parents.mp hm)
      simp only [he, this, if_false] at h2 ⊢
      omega
  -- membership in the newly queued nodes
  have hnew : ∀ p, p ∈ (relax (P.parents u) (indeg, [])).2 ↔
      ((u, p) ∈ P.edges ∧ cnt P (u :: acc) p = 0) := by
    intro p
    rw [r3]
    simp only [List.mem_filter, beq_iff_eq]
    constructor
    · intro ⟨hm, hz⟩
      have he := mem_parents.mp hm
      have hp := (D.inRange _ he).2
      have h1 := I.deg p hp
      have h2 := hstep p
      simp only [he, if_true] at h2
      exact ⟨he, by omega⟩
    · intro ⟨he, hz⟩
      have hp := (D.inRange _ he).2
      have h1 := I.deg p hp
      have h2 := hstep p
      simp only [he, if_true] at h2
      exact ⟨mem_parents.mpr he, by omega⟩
  have hnewfresh : ∀ p, p ∈ (relax (P.parents u) (indeg, [])).2 → p ∉ acc ∧ p ∉ q ∧ p ≠ u := by
    intro p hp
    obtain ⟨he, _⟩ := (hnew p).mp hp
    have hpn := (D.inRange _ he).2
    have h2 := hstep p
    simp only [he, if_true] at h2
    have hpos : cnt P acc p ≠ 0 := by omega
    have hnot : ¬ (p ∈ acc ∨ p ∈ u :: q) := fun hh => hpos ((I.ready p hpn).mp hh)
    have hh := D.hEdge _ he
    simp only at hh
    refine ⟨fun hm => hnot (Or.inl hm), fun hm => hnot (Or.inr (by simp [hm])), ?_⟩
    intro e; subst e; omega
  refine ⟨?_, ?_, by rw [r1]; exact I.len, hdeg, ?_, ?_⟩
  · -- nodup
    have hq_nd : q.Nodup := (List.nodup_cons.mp hnd.2.1).2
    have hnew_nd : (relax (P.parents u) (indeg, [])).2.Nodup := by
      rw [r3]; exact List.Pairwise.filter _ hpar
    rw [List.nodup_append]
    refine ⟨List.nodup_cons.mpr ⟨hu_acc, hnd.1⟩, ?_, ?_⟩
    · rw [List.nodup_append]
      exact ⟨hq_nd, hnew_nd, fun a ha b hb e => (hnewfresh b hb).2.1 (e ▸ ha)⟩
    · intro a ha b hb e
      subst e
      rcases List.mem_append.mp hb with hbq | hbn
      · rcases List.mem_cons.mp ha with e | e
        · subst e; exact hu_q hbq
        · exact hnd.2.2 a e a (by simp [hbq]) rfl
      · rcases List.mem_cons.mp ha with e | e
        · exact (hnewfresh a hbn).2.2 e
        · exact (hnewfresh a hbn).1 e
  · intro v hv
    rcases List.mem_append.mp hv with h1 | h1
    · rcases List.mem_cons.mp h1 with e | e
      · subst e; exact hun
      · exact I.rng v (by simp [e])
    · rcases List.mem_append.mp h1 with h2 | h2
      · exact I.rng v (by simp [h2])
      · exact (D.inRange _ ((hnew v).mp h2).1).2
  · intro v hv
    constructor
    · rintro (h1 | h1)
      · rcases List.mem_cons.mp h1 with e | e
        · subst e; have := hmono v; omega
        · have := (I.ready v hv).mp (Or.inl e); have := hmono v; omega
      · rcases List.mem_append.mp h1 with h2 | h2
        · have := (I.ready v hv).mp (Or.inr (by simp [h2])); have := hmono v; omega
        · exact ((hnew v).mp h2).2
    · intro hz
      by_cases hz0 : cnt P acc v = 0
      · rcases (I.ready v hv).mpr hz0 with h1 | h1
        · exact Or.inl (by simp [h1])
        · rcases List.mem_cons.mp h1 with e | e
          · exact Or.inl (by simp [e])
          · exact Or.inr (by simp [e])
      · have h2 := hstep v
        have he : (u, v) ∈ P.edges := by
          by_cases he : (u, v) ∈ P.edges
          · exact he
          · simp only [he, if_false] at h2; omega
        exact Or.inr (List.mem_append.mpr (Or.inr ((hnew v).mpr ⟨he, hz⟩)))
  · exact ⟨(cnt_zero_iff acc u).mp hcu, I.good⟩

theorem topoLoop_succ_cons (P : Poset) (f u : Nat) (q indeg acc : List Nat) :
    topoLoop P (f + 1) (u :: q) indeg acc
      = topoLoop P f (q ++ (relax (P.parents u) (indeg, [])).2)
          (relax (P.parents u) (indeg, [])).1 (u :: acc) := rfl

theorem topoLoop_spec {P : Poset} {h : Nat → Nat} (D : IsDag P h) :
    ∀ (f : Nat) (q indeg acc : List Nat), KInv P q indeg acc → acc.length + f = P.n →
      ∃ acc' indeg', topoLoop P f q indeg acc = acc'.reverse ∧ KInv P [] indeg' acc' := by
  intro f
  induction f with
  | zero =>
    intro q indeg acc I hl
    have hle := nodup_length_le P.n (acc ++ q) I.nd I.rng
    have hq : q = [] := by
      cases q with
      | nil => rfl
      | cons a q => simp at hle; omega
    subst hq
    exact ⟨acc, indeg, rfl, I⟩
  | succ f ih =>
    intro q indeg acc I hl
    cases q with
    | nil => exact ⟨acc, indeg, rfl, I⟩
    | cons u q =>
      rw [topoLoop_succ_cons]
      exact ih _ _ _ (kinv_step D u q indeg acc I) (by simp; omega)

theorem nodup_nodupNat : ∀ (l : List Nat), l.Nodup → nodupNat l = true := by
  intro l
  induction l with
  | nil => intro _; rfl
  | cons a l ih =>
    intro h
    rw [List.nodup_cons] at h
    simp [nodupNat, h.1, ih h.2]

theorem goodRev_split (P : Poset) : ∀ (A B : List Nat) (p : Nat), GoodRev P (A ++ p :: B) →
    ∀ c, (c, p) ∈ P.edges → c ∈ B := by
  intro A
  induction A with
  | nil => intro B p h c hc; exact h.1 c hc
  | cons a A ih => intro B p h c hc; exact ih B p h.2 c hc

theorem kinv_init {P : Poset} :
    KInv P ((List.range P.n).filter (fun i =>
        ((List.range P.n).map (fun i => (P.children i).length)).getD i 0 == 0))
      ((List.range P.n).map (fun i => (P.children i).length)) [] := by
  have hget : ∀ p, p < P.n →
      ((List.range P.n).map (fun i => (P.children i).length)).getD p 0 = (P.children p).length := by
    intro p hp
    simp [List.getD_eq_getElem?_getD, List.getElem?_map, List.getElem?_range, hp]
  have hcnt : ∀ p, cnt P [] p = (P.children p).length := by
    intro p; simp [cnt]
  refine ⟨?_, ?_, by simp, ?_, ?_, trivial⟩
  · simp only [List.nil_append]
    exact List.Pairwise.filter _ List.nodup_range
  · intro v hv
    simp only [List.nil_append, List.mem_filter, List.mem_range] at hv
    exact hv.1
  · intro p hp; rw [hget p hp, hcnt]
  · intro v hv
    simp only [List.mem_filter, List.mem_range, hv, true_and, beq_iff_eq, hget v hv, hcnt]
    constructor
    · rintro (h | h)
      · cases h
      · exact h
    · intro h; exact Or.inr h

/-- once the queue is empty on a DAG, every node has been emitted -/
theorem kinv_all {P : Poset} {h : Nat → Nat} (D : IsDag P h) (indeg acc : List Nat)
    (I : KInv P [] indeg acc) : ∀ v, v < P.n → v ∈ acc := by
  have key : ∀ k v, v < P.n → h v ≤ k → v ∈ acc := by
    intro k
    induction k with
    | zero =>
      intro v hv hk
      have : cnt P acc v = 0 := by
        rw [cnt_zero_iff]
        intro c hc
        have := D.hEdge _ hc
        simp only at this; omega
      rcases (I.ready v hv).mpr this with h1 | h1
      · exact h1
      · cases h1
    | succ k ih =>
      intro v hv hk
      have : cnt P acc v = 0 := by
        rw [cnt_zero_iff]
        intro c hc
        have hh := D.hEdge _ hc
        have hcn := (D.inRange _ hc).1
        simp only at hh hcn
        exact ih c hcn (by omega)
      rcases (I.ready v hv).mpr this with h1 | h1
      · exact h1
      · cases h1
  intro v hv
  exact key (h v) v hv (Nat.le_refl _)

/-- **Kahn's order is well-formed** on every DAG -/
theorem topoUp_ok {P : Poset} {h : Nat → Nat} (D : IsDag P h) : topoOkB P P.topoUp = true := by
  obtain ⟨acc, indeg, hout, I⟩ := topoLoop_spec D P.n _ _ [] kinv_init (by simp)
  have hall := kinv_all D indeg acc I
  have hnd : acc.Nodup := by simpa using I.nd
  have houtu : P.topoUp = acc.reverse := hout
  rw [houtu]
  simp only [topoOkB, Bool.and_eq_true, List.all_eq_true, List.mem_range, decide_eq_true_eq,
    List.contains_iff_mem, List.mem_reverse]
  refine ⟨⟨⟨nodup_nodupNat _ (List.pairwise_reverse.mpr (List.Pairwise.imp (fun hab => Ne.symm hab) hnd)), hall⟩, ?_⟩,
    fun v hv => I.rng v (by simp [hv])⟩
  intro e he
  obtain ⟨c, p⟩ := e
  have hp := hall p (D.inRange _ he).2
  obtain ⟨A, B, hAB⟩ := List.append_of_mem hp
  have hcB : c ∈ B := goodRev_split P A B p (hAB ▸ I.good) c he
  have hpB : p ∉ B := by
    rw [hAB, List.nodup_append] at hnd
    exact (List.nodup_cons.mp hnd.2.1).1
  have hrev : acc.reverse = B.reverse ++ (p :: A.reverse) := by
    rw [hAB]; simp
  simp only [hrev, List.idxOf_append, List.mem_reverse, hcB, hpB, if_true, if_false,
    List.idxOf_cons_self, Nat.zero_add]
  have := List.idxOf_lt_length_of_mem (List.mem_reverse.mpr hcB)
  simpa using this

end SgModel.Oeh
