import SgModel.Lemmas.WalDurable
/-! C15 — image variants of a directory that satisfies the invariant: a file cut at a byte
offset (this file); core Lean only. -/
namespace SgModel.Wal

/-- any directory satisfying the invariant shows an intact log of the records it holds -/
theorem specIntact_of_dirOK {dec : Dec} {fs : List File} {B : Nat} (h : DirOK dec fs B) (top : Nat) :
    specIntact ((fs.map (recsOf dec)).flatten) (observe Mode.fixed dec fs top) = true := by
  have hp : replayDir Mode.fixed dec (fs.map (·.data)) = ((fs.map (recsOf dec)).flatten, End.ok) :=
    replayDir_good (m := Mode.fixed) rfl fs (fun f hf => (h.1 f hf).1)
  have hsorted := seqs_sorted _ _ h
  have hle := seqs_le (dirOK_findLatest h).1
  simp only [hp, specIntact, observe, Bool.and_eq_true]
  refine ⟨⟨⟨(strictIncr_iff _).mpr hsorted, by simp⟩, ?_⟩, ?_⟩
  · cases hl : ((fs.map (recsOf dec)).flatten).getLast? with
    | none => rfl
    | some r => simpa using hle r (List.mem_of_getLast? hl)
  · simp only [List.all_eq_true, List.mem_range, List.length_map, List.length_range]
    intro frm hfrm
    simp [List.getElem?_map, List.getElem?_range hfrm]

theorem torn_take {t : Bytes} (h : Torn t) (j : Nat) : Torn (t.take j) := by
  rcases h with rfl | ⟨r, k, hb, hk, rfl⟩
  · exact Or.inl (by simp)
  · refine Or.inr ⟨r, min j k, hb, by omega, ?_⟩
    rw [List.take_take]

theorem fit_all : ∀ (rs : List Rec) (k : Nat), (frames rs).length ≤ k → fitCount rs k = rs.length
  | [], _, _ => by simp [fitCount]
  | r :: rs, k, h => by
    rw [frames_length_cons] at h
    simp only [fitCount]
    rw [if_pos (by omega), fit_all rs _ (by omega)]; simp

/-- the cut used by the `t.<file>.<k>` variants -/
def cutFile (k : Nat) (f : File) : File := { f with data := f.data.take k }

theorem good_cut {dec : Dec} {f : File} (k : Nat) (h : Good dec f) :
    Good dec (cutFile k f)
      ∧ recsOf dec (cutFile k f) = (recsOf dec f).take (fitCount (recsOf dec f) k) := by
  obtain ⟨rs, t, hw, ht, hd⟩ := h
  have hrf : recsOf dec f = rs := recsOf_eq hw ht hd
  rw [hrf]
  have hw' : ∀ r ∈ rs.take (fitCount rs k), WFRec dec r := fun r hr => hw r (List.mem_of_mem_take hr)
  by_cases hk : k ≤ (frames rs).length
  · have hd' : (cutFile k f).data = frames (rs.take (fitCount rs k)) ++ (cutRecs rs k).2 := by
      simp only [cutFile, hd, List.take_append_of_le_length hk, take_frames, cutRecs_fst]
    have ht' := cutRecs_torn rs k (fun r hr => (hw r hr).2.1)
    exact ⟨⟨_, _, hw', ht', hd'⟩, recsOf_eq hw' ht' hd'⟩
  · have hfit : fitCount rs k = rs.length := fit_all rs k (by omega)
    have hd' : (cutFile k f).data = frames (rs.take (fitCount rs k)) ++ t.take (k - (frames rs).length) := by
      simp only [cutFile, hd, hfit, List.take_length, List.take_append,
        List.take_of_length_le (Nat.le_of_lt (Nat.lt_of_not_le hk))]
    exact ⟨⟨_, _, hw', torn_take ht _, hd'⟩, recsOf_eq hw' (torn_take ht _) hd'⟩

theorem fileOK_cut {dec : Dec} {f : File} {B : Nat} (k : Nat) (h : FileOK dec f B) :
    FileOK dec (cutFile k f) B ∧ ∀ q ∈ seqsOf dec (cutFile k f), q ∈ seqsOf dec f := by
  obtain ⟨hg, hr⟩ := good_cut k h.1
  have hsub : ∀ q ∈ seqsOf dec (cutFile k f), q ∈ seqsOf dec f := by
    intro q hq
    simp only [seqsOf, hr, List.mem_map] at hq ⊢
    obtain ⟨r, hr', rfl⟩ := hq
    exact ⟨r, List.mem_of_mem_take hr', rfl⟩
  refine ⟨⟨hg, h.2.1, ?_, fun q hq => h.2.2.2 q (hsub q hq)⟩, hsub⟩
  have := h.2.2.1
  simp only [seqsOf, hr] at this ⊢
  rw [List.map_take]
  exact List.Pairwise.sublist (List.take_sublist _ _) this

theorem mem_modify_name (T : File → File) (hname : ∀ f, (T f).name = f.name) :
    ∀ (fs : List File) (i : Nat) (g : File), g ∈ fs.modify i T → ∃ g0 ∈ fs, g.name = g0.name
  | [], _, g, h => by simp at h
  | f :: fs, 0, g, h => by
    simp only [List.modify_zero_cons, List.mem_cons] at h
    rcases h with rfl | h
    · exact ⟨f, by simp, hname f⟩
    · exact ⟨g, by simp [h], rfl⟩
  | f :: fs, i + 1, g, h => by
    simp only [List.modify_succ_cons, List.mem_cons] at h
    rcases h with rfl | h
    · exact ⟨g, by simp, rfl⟩
    · obtain ⟨g0, hg0, hn⟩ := mem_modify_name T hname fs i g h
      exact ⟨g0, by simp [hg0], hn⟩

/-- replacing one file by one with the same name, valid records and no new sequences keeps
the directory invariant -/
theorem dirOK_modify {dec : Dec} {B : Nat} (T : File → File) (hname : ∀ f, (T f).name = f.name)
    (hok : ∀ f, FileOK dec f B → FileOK dec (T f) B ∧ ∀ q ∈ seqsOf dec (T f), q ∈ seqsOf dec f) :
    ∀ (fs : List File) (i : Nat), DirOK dec fs B → DirOK dec (fs.modify i T) B
  | [], _, h => by simpa using h
  | f :: fs, 0, h => by
    have hp := h.2; rw [List.pairwise_cons] at hp
    have hf := hok f (h.1 f (by simp))
    refine ⟨?_, ?_⟩
    · intro g hg
      simp only [List.modify_zero_cons, List.mem_cons] at hg
      rcases hg with rfl | hg
      · exact hf.1
      · exact h.1 g (by simp [hg])
    · simp only [List.modify_zero_cons, List.pairwise_cons]
      exact ⟨fun g hg => ⟨by rw [hname]; exact (hp.1 g hg).1,
        fun q hq => (hp.1 g hg).2 q (hf.2 q hq)⟩, hp.2⟩
  | f :: fs, i + 1, h => by
    have hp := h.2; rw [List.pairwise_cons] at hp
    have ih := dirOK_modify T hname hok fs i ⟨fun g hg => h.1 g (by simp [hg]), hp.2⟩
    refine ⟨?_, ?_⟩
    · intro g hg
      simp only [List.modify_succ_cons, List.mem_cons] at hg
      rcases hg with rfl | hg
      · exact h.1 g (by simp)
      · exact ih.1 g hg
    · simp only [List.modify_succ_cons, List.pairwise_cons]
      refine ⟨fun g hg => ?_, ih.2⟩
      obtain ⟨g0, hg0, hn⟩ := mem_modify_name T hname fs i g hg
      have := hp.1 g0 hg0
      exact ⟨by rw [hn]; exact this.1, fun q hq => by rw [hn]; exact this.2 q hq⟩

theorem map_recsOf_modify {dec : Dec} (T : File → File) (U : List Rec → List Rec)
    (hTU : ∀ f, Good dec f → recsOf dec (T f) = U (recsOf dec f)) :
    ∀ (fs : List File) (i : Nat), (∀ f ∈ fs, Good dec f) →
      (fs.modify i T).map (recsOf dec) = (fs.map (recsOf dec)).modify i U
  | [], _, _ => by simp
  | f :: fs, 0, h => by simp [hTU f (h f (by simp))]
  | f :: fs, i + 1, h => by
    simp [map_recsOf_modify T U hTU fs i (fun g hg => h g (by simp [hg]))]

/-- **a file of a valid directory cut at any byte offset**: what the model observes satisfies
`specTrunc` for the records the files held -/
theorem specTrunc_of_dirOK {dec : Dec} {fs : List File} {B : Nat} (h : DirOK dec fs B) (i k top : Nat) :
    specTrunc (fs.map (recsOf dec)) i k
      (observe Mode.fixed dec (fs.modify i (cutFile k)) top) = true := by
  unfold specTrunc
  have hm := map_recsOf_modify (dec := dec) (cutFile k) (fun rs => rs.take (fitCount rs k))
    (fun f hf => (good_cut k hf).2) fs i (fun f hf => (h.1 f hf).1)
  simp only
  rw [← hm]
  exact specIntact_of_dirOK (dirOK_modify (cutFile k) (fun _ => rfl) (fun f hf => fileOK_cut k hf) fs i h) top

end SgModel.Wal
