import SgModel.Lemmas.OehSeg
/-! `SegmentTree::set`: the leaf changes, the path to the root is refolded, the invariant holds
for the updated leaf vector. -/
namespace SgModel.Oeh

/-- `j` is a proper ancestor of cell `i` -/
def OnPath (j i : Nat) : Prop := ∃ k, 0 < k ∧ j = i / 2 ^ k

theorem onPath_half {j i : Nat} (h : OnPath j i) (hne : j ≠ i / 2) : OnPath j (i / 2) := by
  obtain ⟨k, hk, hj⟩ := h
  obtain ⟨k', rfl⟩ : ∃ k', k = k' + 1 := ⟨k - 1, by omega⟩
  cases k' with
  | zero => simp at hj; exact absurd hj hne
  | succ k'' =>
    refine ⟨k'' + 1, by omega, ?_⟩
    rw [hj, Nat.div_div_eq_div_mul]
    congr 1
    rw [Nat.pow_succ]; exact Nat.mul_comm _ _

theorem onPath_parent (i : Nat) : OnPath (i / 2) i := ⟨1, by omega, by simp⟩

theorem segSetLoop_spec (op : Op) (size : Nat) : ∀ (fuel : Nat) (t : List RV) (i : Nat),
    i ≤ fuel → i < 2 * size → t.length = 2 * size →
    (∀ j, 1 ≤ j → j < size → RecAt op.combine t j ∨ OnPath j i) →
    (segSetLoop op fuel t i).length = t.length
    ∧ (∀ x, size ≤ x → (segSetLoop op fuel t i).getD x .null = t.getD x .null)
    ∧ SegRec op.combine (segSetLoop op fuel t i) size := by
  intro fuel
  induction fuel with
  | zero =>
    intro t i hi _ _ h
    refine ⟨rfl, fun _ _ => rfl, ?_⟩
    intro j h1 h2
    rcases h j h1 h2 with hr | ⟨k, _, hj⟩
    · exact hr
    · have : i = 0 := by omega
      subst this; simp at hj; omega
  | succ fuel ih =>
    intro t i hi hi2 hlen h
    simp only [segSetLoop]
    by_cases h1i : 1 < i
    · simp only [h1i, if_true]
      have hp1 : 1 ≤ i / 2 := by omega
      have hps : i / 2 < size := by omega
      have hset := recAt_after_set op.combine t (i / 2) hp1 (by omega)
      obtain ⟨r1, r2, r3⟩ := ih (t.set (i / 2) _) (i / 2) (by omega) (by omega) (by simp [hlen]) (by
        intro j hj1 hj2
        by_cases hjp : j = i / 2
        · left; rw [hjp]; exact hset.1
        · rcases h j hj1 hj2 with hr | hon
          · by_cases hc : 2 * j = i / 2 ∨ 2 * j + 1 = i / 2
            · right
              have : j = i / 2 / 2 := by omega
              rw [this]; exact onPath_parent _
            · left; exact hset.2 j hjp (by omega) (by omega) hr
          · right; exact onPath_half hon hjp)
      refine ⟨by rw [r1]; simp, ?_, r3⟩
      intro x hx
      rw [r2 x hx, getD_set_ne t (i / 2) x _ (by omega)]
    · rw [if_neg h1i]
      refine ⟨rfl, fun _ _ => rfl, ?_⟩
      intro j hj1 hj2
      rcases h j hj1 hj2 with hr | ⟨k, hk, hj⟩
      · exact hr
      · have hpow : 2 ≤ 2 ^ k := by
          obtain ⟨k', rfl⟩ : ∃ k', k = k' + 1 := ⟨k - 1, by omega⟩
          rw [Nat.pow_succ]; have := Nat.one_le_two_pow (n := k'); omega
        have : i / 2 ^ k = 0 := Nat.div_eq_of_lt (by omega)
        omega

/-- `SegmentTree::set(pos, v)` keeps the invariant for the leaf vector with `v` at `pos` -/
theorem seg_set_inv {s : Seg} {leaf : Nat → RV} (I : SegInv s leaf) (pos : Nat) (v : RV)
    (hpos : pos < s.n) :
    SegInv (s.set pos v) (fun j => if j = pos then v else leaf j)
    ∧ (s.set pos v).op = s.op ∧ (s.set pos v).n = s.n := by
  have hn := I.nle
  have c : ¬ s.n ≤ pos := by omega
  let t' := segSetLoop s.op (2 * s.size) (s.tree.set (pos + s.size) v) (pos + s.size)
  have hs : s.set pos v = { s with tree := t' } := by
    unfold Seg.set; simp [c, t']
  have spec := segSetLoop_spec s.op s.size (2 * s.size) (s.tree.set (pos + s.size) v)
    (pos + s.size) (by omega) (by omega) (by simp [I.len]) (by
      intro j hj1 hj2
      by_cases hc : 2 * j = pos + s.size ∨ 2 * j + 1 = pos + s.size
      · right
        have : j = (pos + s.size) / 2 := by omega
        rw [this]; exact onPath_parent _
      · left
        have hr := I.hrec j hj1 hj2
        unfold RecAt
        rw [getD_set_ne _ _ j _ (by omega), getD_set_ne _ _ (2 * j) _ (by omega),
          getD_set_ne _ _ (2 * j + 1) _ (by omega)]
        exact hr)
  rw [hs]
  refine ⟨⟨?_, I.pos, I.nle, spec.2.2, ?_⟩, rfl, rfl⟩
  · show (segSetLoop s.op (2 * s.size) (s.tree.set (pos + s.size) v) (pos + s.size)).length
      = 2 * s.size
    rw [spec.1]; simp [I.len]
  · intro j hj
    show (segSetLoop s.op (2 * s.size) (s.tree.set (pos + s.size) v) (pos + s.size)).getD
      (s.size + j) .null = _
    have hj' : j < s.size := hj
    rw [spec.2.1 (s.size + j) (by omega)]
    by_cases hjp : j = pos
    · subst hjp
      have : s.size + j = j + s.size := by omega
      rw [this, getD_set_self _ _ _ (by rw [I.len]; omega)]; simp
    · rw [getD_set_ne _ _ _ _ (by omega), I.leaves j hj']; simp [hjp]

end SgModel.Oeh
