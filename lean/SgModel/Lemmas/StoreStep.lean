import SgModel.Lemmas.StoreInv
/-!
Helper lemmas for the graph-store model (C06), part 3: the relationship-side writes, node
creation / deletion, compaction, and `Inv` for every step and every history.
-/
namespace SgModel.Store

/-- a write that leaves every point read alone (tiers may be rearranged, columns / sparse
properties may shrink or change on live rows) -/
theorem Inv.frame {s s' : State} (h : Inv s)
    (hendp : s'.endp = s.endp) (hty : s'.etypeIds = s.etypeIds) (htbl : s'.etypeTable = s.etypeTable)
    (hnodes : s'.nodes = s.nodes) (hfe : s'.freeE = s.freeE) (hne : s'.nextE = s.nextE)
    (hfn : s'.freeN = s.freeN) (hnn : s'.nextN = s.nextN)
    (hout : TierInv s'.outT (keyOut s)) (hin : TierInv s'.inT (keyIn s))
    (hec : ∀ p ∈ s'.ecols, endpOf s p.1.1 ≠ (0, 0)) (hep : ∀ p ∈ s'.eprops, endpOf s p.1 ≠ (0, 0))
    (hnc : ∀ p ∈ s'.ncols, getNode s p.1.1 ≠ none) : Inv s' := by
  have he : ∀ e, endpOf s' e = endpOf s e := fun e => by simp [endpOf, hendp]
  have ht : ∀ e, typeIdOf s' e = typeIdOf s e := fun e => by simp [typeIdOf, hty]
  have hg : ∀ n, getNode s' n = getNode s n := fun n => by simp [getNode, hnodes]
  refine { out := ?_, inn := ?_, typed := ?_, untyped := ?_, node0 := ?_,
           freeE_dead := ?_, freeE_nodup := ?_, freeE_lt := ?_, nextE_dead := ?_, freeN_dead := ?_,
           freeN_pos := ?_, freeN_nodup := ?_, freeN_lt := ?_, nextN_dead := ?_, nextN_pos := ?_, tbl := ?_,
           ecols_live := ?_, eprops_live := ?_, ncols_live := ?_, ends := ?_ }
  · rw [keyOut_congr he]; exact hout
  · rw [keyIn_congr he]; exact hin
  · intro e hl; rw [he] at hl; rw [ht, htbl]; exact h.typed e hl
  · intro e hl; rw [he] at hl; rw [ht]; exact h.untyped e hl
  · rw [hg]; exact h.node0
  · intro e hm; rw [hfe] at hm; rw [he]; exact h.freeE_dead e hm
  · rw [hfe]; exact h.freeE_nodup
  · intro e hm; rw [hfe] at hm; rw [hne]; exact h.freeE_lt e hm
  · intro e hle; rw [hne] at hle; rw [he]; exact h.nextE_dead e hle
  · intro n hm; rw [hfn] at hm; rw [hg]; exact h.freeN_dead n hm
  · intro n hm; rw [hfn] at hm; exact h.freeN_pos n hm
  · rw [hfn]; exact h.freeN_nodup
  · intro n hm; rw [hfn] at hm; rw [hnn]; exact h.freeN_lt n hm
  · intro n hle; rw [hnn] at hle; rw [hg]; exact h.nextN_dead n hle
  · rw [hnn]; exact h.nextN_pos
  · rw [htbl]; exact h.tbl
  · intro p hp; rw [he]; exact hec p hp
  · intro p hp; rw [he]; exact hep p hp
  · intro p hp; rw [hg]; exact hnc p hp
  · intro e hl; rw [he] at hl ⊢; rw [hg, hg]; exact h.ends e hl

theorem inv_compact {s : State} (h : Inv s) : Inv (compact s) := by
  unfold compact
  split
  · exact h
  · exact h.frame rfl rfl rfl rfl rfl rfl rfl rfl h.out.compact h.inn.compact
      h.ecols_live h.eprops_live h.ncols_live

theorem inv_finish {s : State} (h : Inv s) : Inv (finish s) := by
  have hc := inv_compact h
  exact hc.frame rfl rfl rfl rfl rfl rfl rfl rfl hc.out hc.inn
    hc.ecols_live hc.eprops_live hc.ncols_live

theorem inv_setEdgeProp {s : State} (h : Inv s) (e k v : Nat) : Inv (setEdgeProp s e k v).1 := by
  unfold setEdgeProp
  cases hl : liveE s e with
  | false => exact h
  | true =>
    have hlive : endpOf s e ≠ (0, 0) := by simpa [liveE] using hl
    refine h.frame rfl rfl rfl rfl rfl rfl rfl rfl h.out h.inn ?_ ?_ h.ncols_live
    · intro p hp
      rcases mem_colSet hp with hp' | hp'
      · exact h.ecols_live p hp'
      · rw [hp']; exact hlive
    · intro p hp
      rcases mem_assocSet hp with hp' | hp'
      · exact h.eprops_live p hp'
      · rw [hp']; exact hlive

theorem inv_removeEdgeProp {s : State} (h : Inv s) (e k : Nat) : Inv (removeEdgeProp s e k).1 := by
  unfold removeEdgeProp
  cases hl : liveE s e with
  | false =>
    exact h.frame rfl rfl rfl rfl rfl rfl rfl rfl h.out h.inn
      (fun p hp => h.ecols_live p (mem_colRemove hp)) h.eprops_live h.ncols_live
  | true =>
    have hlive : endpOf s e ≠ (0, 0) := by simpa [liveE] using hl
    refine h.frame rfl rfl rfl rfl rfl rfl rfl rfl h.out h.inn
      (fun p hp => h.ecols_live p (mem_colRemove hp)) ?_ h.ncols_live
    intro p hp
    rcases mem_assocSet hp with hp' | hp'
    · exact h.eprops_live p hp'
    · rw [hp']; exact hlive

/-! ### node creation -/

theorem Inv.node_grow {s s' : State} (h : Inv s) (i : Nat) (r : NodeRec)
    (hendp : s'.endp = s.endp) (hty : s'.etypeIds = s.etypeIds) (htbl : s'.etypeTable = s.etypeTable)
    (hfe : s'.freeE = s.freeE) (hne : s'.nextE = s.nextE)
    (hec : s'.ecols = s.ecols) (hep : s'.eprops = s.eprops)
    (hout : s'.outT = s.outT.ensure i) (hin : s'.inT = s.inT.ensure i)
    (hg : ∀ n, getNode s' n = if n = i then some r else getNode s n)
    (hi0 : i ≠ 0)
    (hfree : ∀ n ∈ s'.freeN, n ∈ s.freeN ∧ n ≠ i) (hfnd : s'.freeN.Nodup)
    (hle : s.nextN ≤ s'.nextN) (hlt : i < s'.nextN)
    (hnc : ∀ p ∈ s'.ncols, p ∈ s.ncols ∨ p.1.1 = i) : Inv s' := by
  have he : ∀ e, endpOf s' e = endpOf s e := fun e => by simp [endpOf, hendp]
  have ht : ∀ e, typeIdOf s' e = typeIdOf s e := fun e => by simp [typeIdOf, hty]
  have hmono : ∀ n, getNode s n ≠ none → getNode s' n ≠ none := by
    intro n hn; rw [hg]; split
    · simp
    · exact hn
  refine { out := ?_, inn := ?_, typed := ?_, untyped := ?_, node0 := ?_,
           freeE_dead := ?_, freeE_nodup := ?_, freeE_lt := ?_, nextE_dead := ?_, freeN_dead := ?_,
           freeN_pos := ?_, freeN_nodup := ?_, freeN_lt := ?_, nextN_dead := ?_, nextN_pos := ?_, tbl := ?_,
           ecols_live := ?_, eprops_live := ?_, ncols_live := ?_, ends := ?_ }
  · rw [keyOut_congr he, hout]; exact h.out.ensure i
  · rw [keyIn_congr he, hin]; exact h.inn.ensure i
  · intro e hl; rw [he] at hl; rw [ht, htbl]; exact h.typed e hl
  · intro e hl; rw [he] at hl; rw [ht]; exact h.untyped e hl
  · rw [hg]
    have : ¬ (0 = i) := fun hh => hi0 hh.symm
    simp only [this, if_false]; exact h.node0
  · intro e hm; rw [hfe] at hm; rw [he]; exact h.freeE_dead e hm
  · rw [hfe]; exact h.freeE_nodup
  · intro e hm; rw [hfe] at hm; rw [hne]; exact h.freeE_lt e hm
  · intro e hle'; rw [hne] at hle'; rw [he]; exact h.nextE_dead e hle'
  · intro n hm
    rw [hg]
    have := hfree n hm
    simp only [this.2, if_false]
    exact h.freeN_dead n this.1
  · intro n hm; exact h.freeN_pos n (hfree n hm).1
  · exact hfnd
  · intro n hm
    exact Nat.lt_of_lt_of_le (h.freeN_lt n (hfree n hm).1) hle
  · intro n hn
    rw [hg]
    have hni : n ≠ i := by
      intro hh; subst hh
      exact absurd hlt (Nat.not_lt.mpr hn)
    simp only [hni, if_false]
    exact h.nextN_dead n (Nat.le_trans hle hn)
  · exact Nat.le_trans h.nextN_pos hle
  · rw [htbl]; exact h.tbl
  · intro p hp; rw [hec] at hp; rw [he]; exact h.ecols_live p hp
  · intro p hp; rw [hep] at hp; rw [he]; exact h.eprops_live p hp
  · intro p hp
    rcases hnc p hp with hp' | hp'
    · exact hmono _ (h.ncols_live p hp')
    · rw [hg, hp']; simp
  · intro e hl
    rw [he] at hl ⊢
    have := h.ends e hl
    exact ⟨hmono _ this.1, hmono _ this.2⟩

theorem inv_createNode {s : State} (h : Inv s) (l : Nat) (ps : Props) :
    Inv (createNode s l ps).1 := by
  have sp := allocN_spec h
  unfold createNode
  generalize allocN s = a at sp ⊢
  obtain ⟨i, s1⟩ := a
  simp only at sp ⊢
  obtain ⟨hdead, hi0, hfree, hfnd, hle, hlt, hs1⟩ := sp
  have e_endp : s1.endp = s.endp := by rw [hs1]
  have e_ty : s1.etypeIds = s.etypeIds := by rw [hs1]
  have e_tbl : s1.etypeTable = s.etypeTable := by rw [hs1]
  have e_nodes : s1.nodes = s.nodes := by rw [hs1]
  have e_out : s1.outT = s.outT := by rw [hs1]
  have e_in : s1.inT = s.inT := by rw [hs1]
  have e_fe : s1.freeE = s.freeE := by rw [hs1]
  have e_ne : s1.nextE = s.nextE := by rw [hs1]
  have e_ec : s1.ecols = s.ecols := by rw [hs1]
  have e_ep : s1.eprops = s.eprops := by rw [hs1]
  have e_nc : s1.ncols = s.ncols := by rw [hs1]
  simp only [ensureRows]
  refine Inv.node_grow h i { labels := [l], props := ps } e_endp e_ty e_tbl e_fe e_ne e_ec e_ep
    (by rw [← e_out]) (by rw [← e_in]) ?_ hi0 hfree hfnd hle hlt ?_
  · intro n
    show (setGrow s1.nodes i _ none).getD n none = _
    rw [e_nodes]; exact getNode_setGrow s i n _
  · intro p hp
    rcases mem_foldl_colSet ps _ i p hp with hp' | hp'
    · left; rw [← e_nc]; exact hp'
    · exact Or.inr hp'

/-! ### relationship creation -/

theorem allocE_spec {s : State} (h : InvE s) :
    endpOf s (allocE s).1 = (0, 0)
    ∧ (∀ e ∈ (allocE s).2.freeE, e ∈ s.freeE ∧ e ≠ (allocE s).1)
    ∧ (allocE s).2.freeE.Nodup
    ∧ s.nextE ≤ (allocE s).2.nextE ∧ (allocE s).1 < (allocE s).2.nextE
    ∧ (allocE s).2 = { s with freeE := (allocE s).2.freeE, nextE := (allocE s).2.nextE } := by
  unfold allocE
  cases hf : s.freeE with
  | nil =>
    refine ⟨h.nextE_dead _ (Nat.le_refl _), ?_, List.nodup_nil, ?_, ?_, rfl⟩
    · intro n hn; cases hn
    · simp only; omega
    · simp only; omega
  | cons i rest =>
    have hnd : (i :: rest).Nodup := hf ▸ h.freeE_nodup
    have hi : i ∈ s.freeE := by rw [hf]; exact List.mem_cons_self ..
    refine ⟨h.freeE_dead i hi, ?_, (List.nodup_cons.mp hnd).2, Nat.le_refl _, h.freeE_lt i hi, rfl⟩
    intro n hn
    refine ⟨List.mem_cons_of_mem _ hn, ?_⟩
    intro hni; subst hni
    exact (List.nodup_cons.mp hnd).1 hn

theorem intern_spec (tbl : List Nat) (ty : Nat) (hnd : tbl.Nodup) :
    (intern tbl ty).1.Nodup ∧ (intern tbl ty).2 < (intern tbl ty).1.length
    ∧ tbl.length ≤ (intern tbl ty).1.length
    ∧ (intern tbl ty).1[(intern tbl ty).2]? = some ty
    ∧ (∀ k, k < tbl.length → (intern tbl ty).1[k]? = tbl[k]?) := by
  unfold intern
  by_cases hc : tbl.contains ty = true
  · rw [if_pos hc]
    have hm : ty ∈ tbl := by simpa using hc
    refine ⟨hnd, List.idxOf_lt_length_of_mem hm, Nat.le_refl _, ?_, fun _ _ => True.intro |> fun _ => rfl⟩
    show tbl[tbl.idxOf ty]? = some ty
    rw [List.getElem?_eq_getElem (List.idxOf_lt_length_of_mem hm)]
    simp
  · rw [if_neg hc]
    have hm : ty ∉ tbl := by simpa using hc
    refine ⟨?_, ?_, ?_, ?_, ?_⟩
    · show (tbl ++ [ty]).Nodup
      rw [List.nodup_append]
      refine ⟨hnd, by simp, ?_⟩
      intro a ha b hb
      simp only [List.mem_singleton] at hb
      subst hb
      intro hab; subst hab; exact hm ha
    · show tbl.length < (tbl ++ [ty]).length
      simp
    · show tbl.length ≤ (tbl ++ [ty]).length
      simp
    · show (tbl ++ [ty])[tbl.length]? = some ty
      simp
    · intro k hk
      show (tbl ++ [ty])[k]? = tbl[k]?
      rw [List.getElem?_append_left hk]

theorem linkEdge_eq (s : State) (i src tgt ty : Nat) (sorted : Bool) :
    linkEdge s i src tgt ty sorted =
      { s with outT := if sorted then s.outT.insertSorted src tgt i else s.outT.push src tgt i
               inT := if sorted then s.inT.insertSorted tgt src i else s.inT.push tgt src i
               endp := setGrow s.endp i (src, tgt) (0, 0)
               etypeTable := (intern s.etypeTable ty).1
               etypeIds := setGrow s.etypeIds i (some (intern s.etypeTable ty).2) none } := by
  unfold linkEdge
  cases intern s.etypeTable ty
  rfl

theorem Inv.edge_add {s s' : State} (h : Inv s) (i src tgt ti : Nat)
    (hfresh : endpOf s i = (0, 0))
    (hsrc : getNode s src ≠ none) (htgt : getNode s tgt ≠ none)
    (hendp : ∀ e, endpOf s' e = if e = i then (src, tgt) else endpOf s e)
    (hty : ∀ e, typeIdOf s' e = if e = i then some ti else typeIdOf s e)
    (hti : ti < s'.etypeTable.length) (htbl : s'.etypeTable.Nodup)
    (hlen : s.etypeTable.length ≤ s'.etypeTable.length)
    (hnodes : s'.nodes = s.nodes) (hfn : s'.freeN = s.freeN) (hnn : s'.nextN = s.nextN)
    (hout : TierInv s'.outT (fun e' => if e' = i then some (src, tgt) else keyOut s e'))
    (hin : TierInv s'.inT (fun e' => if e' = i then some (tgt, src) else keyIn s e'))
    (hfree : ∀ e ∈ s'.freeE, e ∈ s.freeE ∧ e ≠ i) (hfnd : s'.freeE.Nodup)
    (hle : s.nextE ≤ s'.nextE) (hlt : i < s'.nextE)
    (hec : ∀ p ∈ s'.ecols, p ∈ s.ecols ∨ p.1.1 = i) (hep : ∀ p ∈ s'.eprops, p ∈ s.eprops ∨ p.1 = i)
    (hnc : s'.ncols = s.ncols) : Inv s' := by
  have hg : ∀ n, getNode s' n = getNode s n := fun n => by simp [getNode, hnodes]
  have hsrc0 : src ≠ 0 := by intro h0; subst h0; exact hsrc h.node0
  have hpair : ((src, tgt) : Nat × Nat) ≠ (0, 0) := by
    intro hp; exact hsrc0 (Prod.mk.inj hp).1
  have hko : keyOut s' = fun e' => if e' = i then some (src, tgt) else keyOut s e' := by
    funext e'; unfold keyOut; rw [hendp]
    by_cases he : e' = i
    · simp [he, hpair]
    · simp [he]
  have hki : keyIn s' = fun e' => if e' = i then some (tgt, src) else keyIn s e' := by
    funext e'; unfold keyIn; rw [hendp]
    by_cases he : e' = i
    · simp [he, hpair]
    · simp [he]
  refine { out := ?_, inn := ?_, typed := ?_, untyped := ?_, node0 := ?_,
           freeE_dead := ?_, freeE_nodup := ?_, freeE_lt := ?_, nextE_dead := ?_, freeN_dead := ?_,
           freeN_pos := ?_, freeN_nodup := ?_, freeN_lt := ?_, nextN_dead := ?_, nextN_pos := ?_, tbl := ?_,
           ecols_live := ?_, eprops_live := ?_, ncols_live := ?_, ends := ?_ }
  · rw [hko]; exact hout
  · rw [hki]; exact hin
  · intro e hl
    rw [hendp] at hl; rw [hty]
    by_cases he : e = i
    · simp only [he, if_true]; exact ⟨ti, rfl, hti⟩
    · simp only [he, if_false] at hl ⊢
      obtain ⟨t, h1, h2⟩ := h.typed e hl
      exact ⟨t, h1, Nat.lt_of_lt_of_le h2 hlen⟩
  · intro e hl
    rw [hendp] at hl; rw [hty]
    by_cases he : e = i
    · simp only [he, if_true] at hl; exact absurd hl hpair
    · simp only [he, if_false] at hl ⊢; exact h.untyped e hl
  · rw [hg]; exact h.node0
  · intro e hm
    have := hfree e hm
    rw [hendp]; simp only [this.2, if_false]; exact h.freeE_dead e this.1
  · exact hfnd
  · intro e hm; exact Nat.lt_of_lt_of_le (h.freeE_lt e (hfree e hm).1) hle
  · intro e hn
    rw [hendp]
    have hni : e ≠ i := by
      intro hh; subst hh; exact absurd hlt (Nat.not_lt.mpr hn)
    simp only [hni, if_false]
    exact h.nextE_dead e (Nat.le_trans hle hn)
  · intro n hm; rw [hfn] at hm; rw [hg]; exact h.freeN_dead n hm
  · intro n hm; rw [hfn] at hm; exact h.freeN_pos n hm
  · rw [hfn]; exact h.freeN_nodup
  · intro n hm; rw [hfn] at hm; rw [hnn]; exact h.freeN_lt n hm
  · intro n hle'; rw [hnn] at hle'; rw [hg]; exact h.nextN_dead n hle'
  · rw [hnn]; exact h.nextN_pos
  · exact htbl
  · intro p hp
    rw [hendp]
    rcases hec p hp with hp' | hp'
    · by_cases he : p.1.1 = i
      · simp only [he, if_true]; exact hpair
      · simp only [he, if_false]; exact h.ecols_live p hp'
    · simp only [hp', if_true]; exact hpair
  · intro p hp
    rw [hendp]
    rcases hep p hp with hp' | hp'
    · by_cases he : p.1 = i
      · simp only [he, if_true]; exact hpair
      · simp only [he, if_false]; exact h.eprops_live p hp'
    · simp only [hp', if_true]; exact hpair
  · intro p hp; rw [hnc] at hp; rw [hg]; exact h.ncols_live p hp
  · intro e hl
    rw [hendp] at hl ⊢
    by_cases he : e = i
    · simp only [he, if_true]; rw [hg, hg]; exact ⟨hsrc, htgt⟩
    · simp only [he, if_false] at hl ⊢; rw [hg, hg]; exact h.ends e hl

end SgModel.Store
