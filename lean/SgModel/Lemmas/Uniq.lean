import SgModel.Model.Uniq
/-!
Helper lemmas for C11 (unique constraints): property maps, the node list, the constraint
index as a set, and the invariant `Inv` with its preservation by every store function.
Core Lean only.
-/
namespace SgModel.Uniq

/-! ### property maps -/

theorem pget_perase (p : Props) (k k' : Nat) :
    pget (perase p k) k' = if k = k' then none else pget p k' := by
  induction p with
  | nil => simp [perase, pget]
  | cons e rest ih =>
    obtain ⟨a, b⟩ := e
    by_cases h1 : a = k <;> by_cases h2 : k = k' <;> simp_all [perase, pget] <;> omega

theorem pget_pput (p : Props) (k : Nat) (v : Option Val) (k' : Nat) :
    pget (pput p k v) k' = if k = k' then v else pget p k' := by
  cases v with
  | none => simp [pput, pget_perase]
  | some x =>
    by_cases h : k = k' <;> simp [pput, pget, pget_perase, h]

/-! ### the index as a set -/

theorem holder_some {idx : Index} {v : Val} {h : Nat} (hh : holder idx v = some h) : (v, h) ∈ idx := by
  induction idx with
  | nil => simp [holder] at hh
  | cons e rest ih =>
    obtain ⟨x, n⟩ := e
    by_cases hx : x = v
    · simp [holder, hx] at hh; simp [hx, hh]
    · simp [holder, hx] at hh; simp [ih hh]

theorem holder_none {idx : Index} {v : Val} (hh : holder idx v = none) : ∀ h, (v, h) ∉ idx := by
  induction idx with
  | nil => simp
  | cons e rest ih =>
    obtain ⟨x, n⟩ := e
    by_cases hx : x = v
    · simp [holder, hx] at hh
    · simp [holder, hx] at hh
      intro h hm
      simp only [List.mem_cons, Prod.mk.injEq] at hm
      rcases hm with ⟨h1, _⟩ | hm
      · exact hx h1.symm
      · exact ih hh h hm

theorem mem_ins {idx : Index} {v : Option Val} {n : Nat} {e : Val × Nat} :
    e ∈ ins idx v n ↔ e ∈ idx ∨ (v = some e.1 ∧ e.2 = n) := by
  obtain ⟨a, b⟩ := e
  cases v with
  | none => simp [ins]
  | some x =>
    by_cases h : (x, n) ∈ idx
    · simp only [ins, h, if_true]
      constructor
      · exact Or.inl
      · rintro (h1 | ⟨h1, h2⟩)
        · exact h1
        · simp at h1 h2; subst h1; subst h2; exact h
    · simp only [ins, h, if_false, List.mem_append, List.mem_singleton, Prod.mk.injEq, Option.some.injEq]
      constructor
      · rintro (h1 | ⟨h1, h2⟩)
        · exact Or.inl h1
        · exact Or.inr ⟨h1.symm, h2⟩
      · rintro (h1 | ⟨h1, h2⟩)
        · exact Or.inl h1
        · exact Or.inr ⟨h1.symm, h2⟩

theorem mem_rem {idx : Index} {v : Option Val} {n : Nat} {e : Val × Nat} :
    e ∈ rem idx v n ↔ e ∈ idx ∧ ¬ (v = some e.1 ∧ e.2 = n) := by
  obtain ⟨a, b⟩ := e
  cases v with
  | none => simp [rem]
  | some x =>
    simp only [rem, List.mem_filter, decide_eq_true_eq, ne_eq, Prod.mk.injEq, Option.some.injEq]
    constructor
    · rintro ⟨h1, h2⟩; exact ⟨h1, fun ⟨h3, h4⟩ => h2 ⟨h3.symm, h4⟩⟩
    · rintro ⟨h1, h2⟩; exact ⟨h1, fun ⟨h3, h4⟩ => h2 ⟨h3.symm, h4⟩⟩

/-! ### the node list -/

def IdsNodup (l : List Node) : Prop := l.Pairwise (fun a b => a.id ≠ b.id)

theorem findNode_some {l : List Node} {n : Nat} {x : Node} (h : findNode l n = some x) :
    x ∈ l ∧ x.id = n := by
  induction l with
  | nil => simp [findNode] at h
  | cons y rest ih =>
    by_cases hy : y.id = n
    · simp [findNode, hy] at h; subst h; simp [hy]
    · simp [findNode, hy] at h
      have := ih h
      exact ⟨List.mem_cons_of_mem _ this.1, this.2⟩

theorem findNode_none {l : List Node} {n : Nat} (h : findNode l n = none) : ∀ x ∈ l, x.id ≠ n := by
  induction l with
  | nil => simp
  | cons y rest ih =>
    by_cases hy : y.id = n
    · simp [findNode, hy] at h
    · simp [findNode, hy] at h
      intro x hx
      simp only [List.mem_cons] at hx
      rcases hx with rfl | hx
      · exact hy
      · exact ih h x hx

theorem findNode_of_mem {l : List Node} (hl : IdsNodup l) {x : Node} (hx : x ∈ l) :
    findNode l x.id = some x := by
  induction l with
  | nil => simp at hx
  | cons y rest ih =>
    simp only [IdsNodup, List.pairwise_cons] at hl
    simp only [List.mem_cons] at hx
    rcases hx with rfl | hx
    · simp [findNode]
    · have : y.id ≠ x.id := hl.1 x hx
      simp [findNode, this, ih hl.2 hx]

theorem mem_mapNode {f : Node → Node} {l : List Node} (hl : IdsNodup l) {n : Nat} {y : Node} :
    y ∈ mapNode f l n ↔ (∃ x ∈ l, x.id = n ∧ y = f x) ∨ (y ∈ l ∧ y.id ≠ n) := by
  induction l with
  | nil => simp [mapNode]
  | cons z rest ih =>
    simp only [IdsNodup, List.pairwise_cons] at hl
    by_cases hz : z.id = n
    · simp only [mapNode, hz, if_true, List.mem_cons]
      constructor
      · rintro (h | h)
        · exact Or.inl ⟨z, Or.inl rfl, hz, h⟩
        · refine Or.inr ⟨Or.inr h, ?_⟩
          have := hl.1 y h
          omega
      · rintro (⟨x, hx, hxn, rfl⟩ | ⟨hy, hyn⟩)
        · rcases hx with rfl | hx
          · exact Or.inl rfl
          · have := hl.1 x hx; omega
        · rcases hy with rfl | hy
          · exact absurd hz hyn
          · exact Or.inr hy
    · simp only [mapNode, hz, if_false, List.mem_cons, ih hl.2]
      constructor
      · rintro (rfl | ⟨x, hx, hxn, rfl⟩ | ⟨hy, hyn⟩)
        · exact Or.inr ⟨Or.inl rfl, hz⟩
        · exact Or.inl ⟨x, Or.inr hx, hxn, rfl⟩
        · exact Or.inr ⟨Or.inr hy, hyn⟩
      · rintro (⟨x, hx, hxn, rfl⟩ | ⟨hy, hyn⟩)
        · rcases hx with rfl | hx
          · exact absurd hxn hz
          · exact Or.inr (Or.inl ⟨x, hx, hxn, rfl⟩)
        · rcases hy with rfl | hy
          · exact Or.inl rfl
          · exact Or.inr (Or.inr ⟨hy, hyn⟩)

theorem map_id_mapNode {f : Node → Node} (hf : ∀ x, (f x).id = x.id) (l : List Node) (n : Nat) :
    (mapNode f l n).map (·.id) = l.map (·.id) := by
  induction l with
  | nil => simp [mapNode]
  | cons z rest ih =>
    by_cases hz : z.id = n <;> simp [mapNode, hz, hf, ih]

theorem idsNodup_iff (l : List Node) : IdsNodup l ↔ (l.map (·.id)).Nodup := by
  simp [IdsNodup, List.Nodup, List.pairwise_map]

theorem idsNodup_mapNode {f : Node → Node} (hf : ∀ x, (f x).id = x.id) {l : List Node} (n : Nat)
    (hl : IdsNodup l) : IdsNodup (mapNode f l n) := by
  rw [idsNodup_iff] at *
  rw [map_id_mapNode hf]; exact hl

theorem mem_dropNode {l : List Node} (hl : IdsNodup l) {n : Nat} {y : Node} :
    y ∈ dropNode l n ↔ y ∈ l ∧ y.id ≠ n := by
  induction l with
  | nil => simp [dropNode]
  | cons z rest ih =>
    simp only [IdsNodup, List.pairwise_cons] at hl
    by_cases hz : z.id = n
    · simp only [dropNode, hz, if_true, List.mem_cons]
      constructor
      · intro h
        have := hl.1 y h
        exact ⟨Or.inr h, by omega⟩
      · rintro ⟨rfl | h, hn⟩
        · exact absurd hz hn
        · exact h
    · simp only [dropNode, hz, if_false, List.mem_cons, ih hl.2]
      constructor
      · rintro (rfl | ⟨h, hn⟩)
        · exact ⟨Or.inl rfl, hz⟩
        · exact ⟨Or.inr h, hn⟩
      · rintro ⟨rfl | h, hn⟩
        · exact Or.inl rfl
        · exact Or.inr ⟨h, hn⟩

theorem dropNode_sublist (l : List Node) (n : Nat) : (dropNode l n).Sublist l := by
  induction l with
  | nil => simp [dropNode]
  | cons z rest ih =>
    by_cases hz : z.id = n
    · simp [dropNode, hz]
    · simp [dropNode, hz, ih]

theorem idsNodup_dropNode {l : List Node} (n : Nat) (hl : IdsNodup l) : IdsNodup (dropNode l n) :=
  List.Pairwise.sublist (dropNode_sublist l n) hl

end SgModel.Uniq
