import SgModel.Model.RaftLog
/-! Helper lemmas for C31 (core Lean only). -/
namespace SgModel.RaftLog

def Sorted (l : List Entry) : Prop := l.Pairwise (fun a b => a.index < b.index)

theorem sorted_filter {l : List Entry} (p : Entry → Bool) (h : Sorted l) : Sorted (l.filter p) :=
  List.Pairwise.filter p h

theorem sorted_append1 (s : State) (e : Entry) (h : Sorted s.log) : Sorted (append1 s e).log := by
  unfold append1 Sorted
  simp only
  rw [List.pairwise_append]
  refine ⟨List.Pairwise.filter _ h, List.pairwise_singleton _ _, ?_⟩
  intro a ha b hb
  simp only [List.mem_filter, decide_eq_true_eq] at ha
  simp only [List.mem_singleton] at hb
  subst hb; exact ha.2

theorem sorted_foldl_append1 (es : List Entry) (s : State) (h : Sorted s.log) :
    Sorted (es.foldl append1 s).log := by
  induction es generalizing s with
  | nil => simpa
  | cons e es ih => exact ih _ (sorted_append1 s e h)

theorem sorted_step (s : State) (op : Op) (h : Sorted s.log) : Sorted (step s op).log := by
  cases op with
  | append es => exact sorted_foldl_append1 es s h
  | truncate i => exact sorted_filter _ h
  | snapshot i t => exact sorted_filter _ h

theorem sorted_foldl_step (ops : List Op) (s : State) (h : Sorted s.log) :
    Sorted (ops.foldl step s).log := by
  induction ops generalizing s with
  | nil => simpa
  | cons o ops ih => exact ih _ (sorted_step s o h)

theorem sorted_run (ops : List Op) : Sorted (run ops).log :=
  sorted_foldl_step ops {} List.Pairwise.nil

theorem sorted_nodup_index {l : List Entry} (h : Sorted l) : (l.map (·.index)).Nodup := by
  unfold Sorted at h
  rw [List.Nodup, List.pairwise_map]
  exact h.imp (fun hab => Nat.ne_of_lt hab)

/-- in a sorted log every entry is at or below the last one -/
theorem sorted_le_getLast {l : List Entry} (h : Sorted l) {m : Entry}
    (hm : l.getLast? = some m) : ∀ e ∈ l, e.index ≤ m.index := by
  induction l with
  | nil => simp at hm
  | cons a t ih =>
    cases t with
    | nil =>
      simp at hm; subst hm
      intro e he; simp at he; subst he; exact Nat.le_refl _
    | cons b t' =>
      have hm' : (b :: t').getLast? = some m := by simpa [List.getLast?_cons_cons] using hm
      have hs : Sorted (b :: t') := (List.pairwise_cons.mp h).2
      have hmem : m ∈ (b :: t') := List.mem_of_getLast? hm'
      intro e he
      rcases List.mem_cons.mp he with rfl | he'
      · exact Nat.le_of_lt ((List.pairwise_cons.mp h).1 m hmem)
      · exact ih hs hm' e he'

theorem nodupIdx_of_sorted {l : List Entry} (h : Sorted l) : nodupIdx l = true := by
  induction l with
  | nil => rfl
  | cons a t ih =>
    have ⟨h1, h2⟩ := List.pairwise_cons.mp h
    simp only [nodupIdx, Bool.and_eq_true, List.all_eq_true, bne_iff_ne, ne_eq]
    exact ⟨fun x hx => Nat.ne_of_gt (h1 x hx), ih h2⟩

theorem maxIdxEntry_sorted {l : List Entry} (h : Sorted l) : maxIdxEntry l = l.getLast? := by
  induction l with
  | nil => rfl
  | cons a t ih =>
    have ⟨h1, h2⟩ := List.pairwise_cons.mp h
    cases t with
    | nil => simp [maxIdxEntry]
    | cons b t' =>
      rw [maxIdxEntry, ih h2, List.getLast?_cons_cons]
      cases hm : (b :: t').getLast? with
      | none => simp at hm
      | some m =>
        have : a.index < m.index := h1 m (List.mem_of_getLast? hm)
        simp [Nat.lt_asymm this]

end SgModel.RaftLog
