import SgModel.Lemmas.VecIdx
/-!
The node list (same shape as in the C11 model), the invariant of the vector index — the
entry list is exactly the live, labelled nodes with a vector of the index dimension, one
entry per node, holding the node's current vector — and its preservation by every statement.
-/
namespace SgModel.VecIdx

/-! ### the node list -/

def IdsNodup (l : List Node) : Prop := l.Pairwise (fun a b => a.id ≠ b.id)

theorem findNode_some {l : List Node} {n : Nat} {x : Node} (h : findNode l n = some x) :
    x ∈ l ∧ x.id = n := by
  induction l with
  | nil => simp [findNode] at h
  | cons y rest ih =>
    by_cases hy : y.id = n
    · simp [findNode, hy] at h; subst h; simp [hy]
    · simp [findNode, hy] at h
      have := ih h
      exact ⟨List.mem_cons_of_mem _ this.1, this.2⟩

theorem findNode_none {l : List Node} {n : Nat} (h : findNode l n = none) : ∀ x ∈ l, x.id ≠ n := by
  induction l with
  | nil => simp
  | cons y rest ih =>
    by_cases hy : y.id = n
    · simp [findNode, hy] at h
    · simp [findNode, hy] at h
      intro x hx
      simp only [List.mem_cons] at hx
      rcases hx with rfl | hx
      · exact hy
      · exact ih h x hx

theorem findNode_of_mem {l : List Node} (hl : IdsNodup l) {x : Node} (hx : x ∈ l) :
    findNode l x.id = some x := by
  induction l with
  | nil => simp at hx
  | cons y rest ih =>
    simp only [IdsNodup, List.pairwise_cons] at hl
    simp only [List.mem_cons] at hx
    rcases hx with rfl | hx
    · simp [findNode]
    · have : y.id ≠ x.id := hl.1 x hx
      simp [findNode, this, ih hl.2 hx]

theorem mem_mapNode {f : Node → Node} {l : List Node} (hl : IdsNodup l) {n : Nat} {y : Node} :
    y ∈ mapNode f l n ↔ (∃ x ∈ l, x.id = n ∧ y = f x) ∨ (y ∈ l ∧ y.id ≠ n) := by
  induction l with
  | nil => simp [mapNode]
  | cons z rest ih =>
    simp only [IdsNodup, List.pairwise_cons] at hl
    by_cases hz : z.id = n
    · simp only [mapNode, hz, if_true, List.mem_cons]
      constructor
      · rintro (h | h)
        · exact Or.inl ⟨z, Or.inl rfl, hz, h⟩
        · refine Or.inr ⟨Or.inr h, ?_⟩
          have := hl.1 y h
          omega
      · rintro (⟨x, hx, hxn, rfl⟩ | ⟨hy, hyn⟩)
        · rcases hx with rfl | hx
          · exact Or.inl rfl
          · have := hl.1 x hx; omega
        · rcases hy with rfl | hy
          · exact absurd hz hyn
          · exact Or.inr hy
    · simp only [mapNode, hz, if_false, List.mem_cons, ih hl.2]
      constructor
      · rintro (rfl | ⟨x, hx, hxn, rfl⟩ | ⟨hy, hyn⟩)
        · exact Or.inr ⟨Or.inl rfl, hz⟩
        · exact Or.inl ⟨x, Or.inr hx, hxn, rfl⟩
        · exact Or.inr ⟨Or.inr hy, hyn⟩
      · rintro (⟨x, hx, hxn, rfl⟩ | ⟨hy, hyn⟩)
        · rcases hx with rfl | hx
          · exact absurd hxn hz
          · exact Or.inr (Or.inl ⟨x, hx, hxn, rfl⟩)
        · rcases hy with rfl | hy
          · exact Or.inl rfl
          · exact Or.inr (Or.inr ⟨hy, hyn⟩)

theorem map_id_mapNode {f : Node → Node} (hf : ∀ x, (f x).id = x.id) (l : List Node) (n : Nat) :
    (mapNode f l n).map (·.id) = l.map (·.id) := by
  induction l with
  | nil => simp [mapNode]
  | cons z rest ih =>
    by_cases hz : z.id = n <;> simp [mapNode, hz, hf, ih]

theorem idsNodup_iff (l : List Node) : IdsNodup l ↔ (l.map (·.id)).Nodup := by
  simp [IdsNodup, List.Nodup, List.pairwise_map]

theorem idsNodup_mapNode {f : Node → Node} (hf : ∀ x, (f x).id = x.id) {l : List Node} (n : Nat)
    (hl : IdsNodup l) : IdsNodup (mapNode f l n) := by
  rw [idsNodup_iff] at *
  rw [map_id_mapNode hf]; exact hl

theorem mem_dropNode {l : List Node} (hl : IdsNodup l) {n : Nat} {y : Node} :
    y ∈ dropNode l n ↔ y ∈ l ∧ y.id ≠ n := by
  induction l with
  | nil => simp [dropNode]
  | cons z rest ih =>
    simp only [IdsNodup, List.pairwise_cons] at hl
    by_cases hz : z.id = n
    · simp only [dropNode, hz, if_true, List.mem_cons]
      constructor
      · intro h
        have := hl.1 y h
        exact ⟨Or.inr h, by omega⟩
      · rintro ⟨rfl | h, hn⟩
        · exact absurd hz hn
        · exact h
    · simp only [dropNode, hz, if_false, List.mem_cons, ih hl.2]
      constructor
      · rintro (rfl | ⟨h, hn⟩)
        · exact ⟨Or.inl rfl, hz⟩
        · exact ⟨Or.inr h, hn⟩
      · rintro ⟨rfl | h, hn⟩
        · exact Or.inl rfl
        · exact Or.inr ⟨h, hn⟩

theorem dropNode_sublist (l : List Node) (n : Nat) : (dropNode l n).Sublist l := by
  induction l with
  | nil => simp [dropNode]
  | cons z rest ih =>
    by_cases hz : z.id = n
    · simp [dropNode, hz]
    · simp [dropNode, hz, ih]

theorem idsNodup_dropNode {l : List Node} (n : Nat) (hl : IdsNodup l) : IdsNodup (dropNode l n) :=
  List.Pairwise.sublist (dropNode_sublist l n) hl

theorem mem_unique {l : List Node} (hl : IdsNodup l) {x y : Node} (hx : x ∈ l) (hy : y ∈ l)
    (h : x.id = y.id) : x = y := by
  have h1 := findNode_of_mem hl hx
  have h2 := findNode_of_mem hl hy
  rw [h] at h1; rw [h1] at h2; exact Option.some.inj h2

theorem mem_mapNode_at {nodes : List Node} (hi : IdsNodup nodes) {node : Node} (hn : node ∈ nodes)
    (f : Node → Node) {y : Node} :
    y ∈ mapNode f nodes node.id ↔ y = f node ∨ (y ∈ nodes ∧ y.id ≠ node.id) := by
  rw [mem_mapNode hi]
  constructor
  · rintro (⟨x, hx, hxn, rfl⟩ | h)
    · have := mem_unique hi hx hn hxn; subst this; exact Or.inl rfl
    · exact Or.inr h
  · rintro (rfl | h)
    · exact Or.inl ⟨node, hn, rfl, rfl⟩
    · exact Or.inr h


/-! ### the invariant -/

/-- entry `e` describes a live labelled node and its current vector, of dimension `dim` -/
def Live (nodes : List Node) (dim : Nat) (e : Entry) : Prop :=
  ∃ x ∈ nodes, x.id = e.node ∧ x.inL = true ∧ x.vec = some e.vec ∧ e.vec.length = dim

structure IxOk (nodes : List Node) (ix : Index) : Prop where
  exact : ∀ e, e ∈ ix.entries ↔ Live nodes ix.dim e
  nodup : NodesNodup ix.entries

structure Inv (s : State) : Prop where
  ids : IdsNodup s.nodes
  lt : ∀ x ∈ s.nodes, x.id < s.next
  ix : ∀ ix, s.idx = some ix → IxOk s.nodes ix

theorem live_self {nodes : List Node} (hi : IdsNodup nodes) {node : Node} (hn : node ∈ nodes)
    (dim : Nat) {e : Entry} (he : e.node = node.id) :
    Live nodes dim e ↔ node.inL = true ∧ node.vec = some e.vec ∧ e.vec.length = dim := by
  constructor
  · rintro ⟨x, hx, hxi, h1, h2, h3⟩
    have := mem_unique hi hx hn (hxi.trans he); subst this; exact ⟨h1, h2, h3⟩
  · rintro ⟨h1, h2, h3⟩; exact ⟨node, hn, he.symm, h1, h2, h3⟩

theorem live_mapNode {nodes : List Node} (hi : IdsNodup nodes) {node : Node} (hn : node ∈ nodes)
    (f : Node → Node) (hf : (f node).id = node.id) (dim : Nat) (e : Entry) :
    Live (mapNode f nodes node.id) dim e ↔
      if e.node = node.id then (f node).inL = true ∧ (f node).vec = some e.vec ∧ e.vec.length = dim
      else Live nodes dim e := by
  unfold Live
  by_cases hm : e.node = node.id
  · simp only [hm, if_true]
    constructor
    · rintro ⟨x, hx, hxi, h1, h2, h3⟩
      rcases (mem_mapNode_at hi hn f).mp hx with rfl | ⟨_, hne⟩
      · exact ⟨h1, h2, h3⟩
      · exact absurd hxi hne
    · rintro ⟨h1, h2, h3⟩
      exact ⟨f node, (mem_mapNode_at hi hn f).mpr (Or.inl rfl), hf, h1, h2, h3⟩
  · simp only [hm, if_false]
    constructor
    · rintro ⟨x, hx, hxi, h1, h2, h3⟩
      rcases (mem_mapNode_at hi hn f).mp hx with rfl | ⟨hx', _⟩
      · exact absurd (hxi.symm.trans hf) hm
      · exact ⟨x, hx', hxi, h1, h2, h3⟩
    · rintro ⟨x, hx, hxi, h1, h2, h3⟩
      exact ⟨x, (mem_mapNode_at hi hn f).mpr (Or.inr ⟨hx, by omega⟩), hxi, h1, h2, h3⟩

/-- a node is rewritten by `f` and the entry list is brought in line with it -/
theorem ixOk_update {nodes : List Node} (hi : IdsNodup nodes) {node : Node} (hn : node ∈ nodes)
    (f : Node → Node) (hf : (f node).id = node.id) {ix ix' : Index} (hok : IxOk nodes ix)
    (hdim : ix'.dim = ix.dim) (hnd : NodesNodup ix'.entries)
    (hmem : ∀ e, e ∈ ix'.entries ↔
      (e.node = node.id ∧ (f node).inL = true ∧ (f node).vec = some e.vec ∧ e.vec.length = ix.dim)
      ∨ (e ∈ ix.entries ∧ e.node ≠ node.id)) :
    IxOk (mapNode f nodes node.id) ix' := by
  refine ⟨?_, hnd⟩
  intro e
  rw [hmem, live_mapNode hi hn f hf, hdim]
  by_cases hm : e.node = node.id
  · simp [hm]
  · simp only [hm, false_and, false_or, if_false, ne_eq, not_false_eq_true, and_true]
    exact hok.exact e

theorem entry_eq {e : Entry} {n : Nat} {v : Vec} : e = ⟨n, v⟩ ↔ e.node = n ∧ e.vec = v := by
  cases e; simp

theorem mem_addVector {ix : Index} (hnd : NodesNodup ix.entries) (n : Nat) (v : Vec) (e : Entry) :
    e ∈ (addVector ix n v).entries ↔
      (e.node = n ∧ e.vec = v ∧ v.length = ix.dim) ∨ (e ∈ ix.entries ∧ e.node ≠ n) := by
  unfold addVector
  by_cases hl : v.length = ix.dim
  · simp only [hl, if_true, mem_upsert hnd, entry_eq, and_true]
  · simp only [hl, if_false, mem_remove, and_false, false_or]

theorem nodup_addVector {ix : Index} (hnd : NodesNodup ix.entries) (n : Nat) (v : Vec) :
    NodesNodup (addVector ix n v).entries := by
  unfold addVector
  split
  · exact nodup_upsert hnd n v
  · exact nodup_remove n hnd

theorem dim_addVector (ix : Index) (n : Nat) (v : Vec) : (addVector ix n v).dim = ix.dim := by
  unfold addVector; split <;> rfl

/-- the entry list needs no change: the rewritten node offers the index what the old one did -/
theorem ixOk_same {nodes : List Node} (hi : IdsNodup nodes) {node : Node} (hn : node ∈ nodes)
    (f : Node → Node) (hf : (f node).id = node.id) {ix : Index} (hok : IxOk nodes ix)
    (hsame : ∀ v : Vec, v.length = ix.dim →
      (((f node).inL = true ∧ (f node).vec = some v) ↔ (node.inL = true ∧ node.vec = some v))) :
    IxOk (mapNode f nodes node.id) ix := by
  refine ixOk_update hi hn f hf hok rfl hok.nodup ?_
  intro e
  by_cases hm : e.node = node.id
  · simp only [hm, true_and, ne_eq, not_true_eq_false, and_false, or_false]
    rw [hok.exact e, live_self hi hn ix.dim hm]
    constructor
    · rintro ⟨h1, h2, h3⟩
      have := (hsame e.vec h3).mpr ⟨h1, h2⟩
      exact ⟨this.1, this.2, h3⟩
    · rintro ⟨h1, h2, h3⟩
      have := (hsame e.vec h3).mp ⟨h1, h2⟩
      exact ⟨this.1, this.2, h3⟩
  · simp [hm]

/-- `add_vector` for the node's new vector -/
theorem ixOk_add {nodes : List Node} (hi : IdsNodup nodes) {node : Node} (hn : node ∈ nodes)
    (f : Node → Node) (hf : (f node).id = node.id) {ix : Index} (hok : IxOk nodes ix) (v : Vec)
    (hL : (f node).inL = true) (hv : (f node).vec = some v) :
    IxOk (mapNode f nodes node.id) (addVector ix node.id v) := by
  refine ixOk_update hi hn f hf hok (dim_addVector _ _ _) (nodup_addVector hok.nodup _ _) ?_
  intro e
  rw [mem_addVector hok.nodup]
  simp only [hL, hv, Option.some.injEq, true_and]
  constructor
  · rintro (⟨h1, h2, h3⟩ | h)
    · exact Or.inl ⟨h1, h2.symm, h2 ▸ h3⟩
    · exact Or.inr h
  · rintro (⟨h1, h2, h3⟩ | h)
    · exact Or.inl ⟨h1, h2.symm, h2 ▸ h3⟩
    · exact Or.inr h

/-- `remove_vector` when the rewritten node offers nothing -/
theorem ixOk_remove {nodes : List Node} (hi : IdsNodup nodes) {node : Node} (hn : node ∈ nodes)
    (f : Node → Node) (hf : (f node).id = node.id) {ix : Index} (hok : IxOk nodes ix)
    (hno : (f node).inL = false ∨ (f node).vec = none) :
    IxOk (mapNode f nodes node.id) (removeVector ix node.id) := by
  refine ixOk_update hi hn f hf hok rfl (nodup_remove _ hok.nodup) ?_
  intro e
  simp only [removeVector, mem_remove]
  constructor
  · intro h; exact Or.inr h
  · rintro (⟨_, h1, h2, _⟩ | h)
    · rcases hno with h | h
      · rw [h] at h1; exact absurd h1 (by decide)
      · rw [h] at h2; exact absurd h2 (by simp)
    · exact h

theorem idsNodup_map {nodes : List Node} (hi : IdsNodup nodes) (f : Node → Node) (hf : ∀ x, (f x).id = x.id)
    (n : Nat) : IdsNodup (mapNode f nodes n) := idsNodup_mapNode hf n hi

theorem lt_map {nodes : List Node} {nx : Nat} (hlt : ∀ x ∈ nodes, x.id < nx) (hi : IdsNodup nodes)
    (f : Node → Node) (hf : ∀ x, (f x).id = x.id) (n : Nat) : ∀ x ∈ mapNode f nodes n, x.id < nx := by
  intro x hx
  rcases (mem_mapNode hi).mp hx with ⟨y, hy, _, rfl⟩ | ⟨hx', _⟩
  · rw [hf]; exact hlt y hy
  · exact hlt x hx'

end SgModel.VecIdx
