import SgModel.Lemmas.StoreReads
/-!
Helper lemmas for the graph-store model (C06), part 7: association lists, and the label index
invariant (I5): `n ∈ labelIdx[ℓ] ↔ node n exists ∧ ℓ ∈ labels n`, preserved by every step.
-/
namespace SgModel.Store

/-! ### association lists (hash maps) -/

theorem assocGet_nil {β : Type} (k : Nat) : assocGet ([] : List (Nat × β)) k = none := rfl

theorem assocGet_cons {β : Type} (p : Nat × β) (m : List (Nat × β)) (k : Nat) :
    assocGet (p :: m) k = if p.1 = k then some p.2 else assocGet m k := by
  unfold assocGet
  by_cases h : p.1 = k
  · simp [List.find?_cons, h]
  · have : (p.1 == k) = false := by simpa using h
    simp [List.find?_cons, this, h]

theorem assocGet_none_of_not_any {β : Type} (m : List (Nat × β)) (k : Nat)
    (h : m.any (fun p => p.1 == k) = false) : assocGet m k = none := by
  induction m with
  | nil => rfl
  | cons p ps ih =>
    simp only [List.any_cons, Bool.or_eq_false_iff, beq_eq_false_iff_ne, ne_eq] at h
    rw [assocGet_cons, if_neg h.1, ih h.2]

theorem assocGet_map_set {β : Type} (m : List (Nat × β)) (k k' : Nat) (v : β) :
    assocGet (m.map (fun p => if p.1 == k then (k, v) else p)) k'
      = if k' = k then (if m.any (fun p => p.1 == k) then some v else none) else assocGet m k' := by
  induction m with
  | nil => by_cases h : k' = k <;> simp [assocGet_nil, h]
  | cons p ps ih =>
    simp only [List.map_cons, List.any_cons, assocGet_cons, ih]
    by_cases hp : p.1 = k
    · have hb : (p.1 == k) = true := by simpa using hp
      simp only [hb, if_true, Bool.true_or]
      by_cases h : k' = k
      · simp [h]
      · have : ¬ k = k' := fun hh => h hh.symm
        have hpk : ¬ p.1 = k' := by rw [hp]; exact this
        simp [h, this, hpk]
    · have hb : (p.1 == k) = false := by simpa using hp
      simp only [hb, Bool.false_or]
      by_cases h : k' = k
      · subst h
        simp [hp]
      · simp [h]

theorem assocGet_append_single {β : Type} (m : List (Nat × β)) (k k' : Nat) (v : β) :
    assocGet (m ++ [(k, v)]) k'
      = match assocGet m k' with
        | some x => some x
        | none => if k' = k then some v else none := by
  induction m with
  | nil =>
    simp only [List.nil_append, assocGet_cons, assocGet_nil]
    by_cases h : k = k'
    · simp [h]
    · have : ¬ k' = k := fun hh => h hh.symm
      simp [h, this]
  | cons p ps ih =>
    simp only [List.cons_append, assocGet_cons, ih]
    by_cases hp : p.1 = k' <;> simp [hp]

theorem assocGet_assocSet {β : Type} (m : List (Nat × β)) (k k' : Nat) (v : β) :
    assocGet (assocSet m k v) k' = if k' = k then some v else assocGet m k' := by
  unfold assocSet
  cases ha : m.any (fun p => p.1 == k) with
  | true =>
    simp only [if_true]
    rw [assocGet_map_set, ha]
    simp
  | false =>
    simp only [Bool.false_eq_true, if_false]
    rw [assocGet_append_single]
    by_cases h : k' = k
    · subst h
      rw [assocGet_none_of_not_any m k' ha]
    · simp only [h, if_false]
      cases assocGet m k' <;> rfl

theorem assocGet_assocErase {β : Type} (m : List (Nat × β)) (k k' : Nat) :
    assocGet (assocErase m k) k' = if k' = k then none else assocGet m k' := by
  unfold assocErase
  induction m with
  | nil => by_cases h : k' = k <;> simp [assocGet_nil, h]
  | cons p ps ih =>
    by_cases hp : p.1 = k
    · have hb : (p.1 != k) = false := by simp [hp]
      rw [List.filter_cons, hb]
      simp only [Bool.false_eq_true, if_false, ih, assocGet_cons]
      by_cases h : k' = k
      · simp [h]
      · have : ¬ p.1 = k' := by rw [hp]; exact fun hh => h hh.symm
        simp [h, this]
    · have hb : (p.1 != k) = true := by simp [hp]
      rw [List.filter_cons, hb]
      simp only [if_true, assocGet_cons, ih]
      by_cases h : k' = k
      · subst h; simp [hp]
      · simp [h]

/-- the id set stored under a key (`HashMap<_, HashSet<_>>::get`, absent = empty) -/
def idxGet (m : List (Nat × List Nat)) (k : Nat) : List Nat := (assocGet m k).getD []

theorem mem_setInsert (l : List Nat) (x y : Nat) : y ∈ setInsert l x ↔ y = x ∨ y ∈ l := by
  unfold setInsert
  by_cases h : l.contains x = true
  · have hm : x ∈ l := by simpa using h
    simp only [h, if_true]
    constructor
    · exact Or.inr
    · rintro (rfl | h') <;> assumption
  · simp only [h]
    simp only [Bool.false_eq_true, if_false, List.mem_append, List.mem_singleton]
    constructor
    · rintro (h' | h'); exact Or.inr h'; exact Or.inl h'
    · rintro (h' | h'); exact Or.inr h'; exact Or.inl h'

theorem nodup_setInsert (l : List Nat) (x : Nat) (h : l.Nodup) : (setInsert l x).Nodup := by
  unfold setInsert
  by_cases hc : l.contains x = true
  · simp only [hc, if_true]; exact h
  · have hm : x ∉ l := by simpa using hc
    simp only [hc]
    simp only [Bool.false_eq_true, if_false]
    rw [List.nodup_append]
    refine ⟨h, by simp, ?_⟩
    intro a ha b hb
    simp only [List.mem_singleton] at hb
    subst hb
    intro hab; subst hab; exact hm ha

theorem idxGet_idxInsert (m : List (Nat × List Nat)) (k x k' : Nat) :
    idxGet (idxInsert m k x) k' = if k' = k then setInsert (idxGet m k) x else idxGet m k' := by
  unfold idxGet idxInsert
  rw [assocGet_assocSet]
  by_cases h : k' = k <;> simp [h]

theorem idxGet_idxRemove (m : List (Nat × List Nat)) (k x k' : Nat) :
    idxGet (idxRemove m k x) k' = if k' = k then (idxGet m k).filter (· != x) else idxGet m k' := by
  unfold idxGet idxRemove
  cases hg : assocGet m k with
  | none =>
    by_cases h : k' = k
    · subst h; simp [hg]
    · simp [h]
  | some ids =>
    simp only [assocGet_assocSet]
    by_cases h : k' = k <;> simp [h]

theorem idxGet_assocErase_empty (m : List (Nat × List Nat)) (k k' : Nat) (h : idxGet m k = []) :
    idxGet (assocErase m k) k' = idxGet m k' := by
  unfold idxGet at h ⊢
  rw [assocGet_assocErase]
  by_cases hk : k' = k
  · subst hk; simp [h]
  · simp [hk]

/-! ### I5: the label index is exact -/

structure LblInv (s : State) : Prop where
  exact : ∀ l n, n ∈ idxGet s.labelIdx l ↔ ∃ r, getNode s n = some r ∧ l ∈ r.labels
  nodup : ∀ l, (idxGet s.labelIdx l).Nodup

theorem lblInv_init : LblInv init := by
  refine ⟨fun l n => ?_, fun l => ?_⟩
  · have hg : getNode init n = none := getNode_init n
    constructor
    · intro hm; simp [idxGet, assocGet, init] at hm
    · rintro ⟨r, hr, _⟩; rw [hg] at hr; cases hr
  · simp [idxGet, assocGet, init]

/-- writes that touch neither the label index nor any node record -/
theorem LblInv.frame {s s' : State} (h : LblInv s) (hl : s'.labelIdx = s.labelIdx)
    (hn : s'.nodes = s.nodes) : LblInv s' := by
  have hg : ∀ n, getNode s' n = getNode s n := fun n => by simp [getNode, hn]
  refine ⟨fun l n => ?_, fun l => ?_⟩
  · rw [hl, hg]; exact h.exact l n
  · rw [hl]; exact h.nodup l

end SgModel.Store
