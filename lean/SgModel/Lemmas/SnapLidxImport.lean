import SgModel.Lemmas.SnapLidxExact
import SgModel.Lemmas.SnapSpec
/-!
Every line of an import keeps `LidxExact`; `LidxExact` implies the executable `lidxOk`;
hence the label-index clause (and with it the whole executable specification) of the failure
half of C13.
-/
namespace SgModel.SnapJson

theorem exact_ite_upd {id : Nat} {f : NodeS → NodeS} (hid : ∀ n, (f n).id = n.id)
    (hl : ∀ n, (f n).labels = n.labels) (b : Bool) {s0 : St} (h : LidxExact s0) :
    LidxExact (if b then updNode id f s0 else s0) := by
  cases b
  · exact h
  · exact exact_updNode_keepLabels h id f hid hl

theorem exact_mergeProp (jr : Bool) (id : Nat) (st : St) (j : List Undo) (kv : Str × PV)
    (h : LidxExact st) : LidxExact (mergeProp jr id (st, j) kv).1 := by
  unfold mergeProp
  cases getNode id st with
  | none => exact h
  | some n =>
    simp only
    exact exact_ite_upd (id := id) (f := fun m => { m with row := m.row ++ [kv] }) (fun _ => rfl) (fun _ => rfl) _
      (exact_ite_upd (id := id) (f := fun m => { m with col := m.col ++ [kv] }) (fun _ => rfl) (fun _ => rfl) _ h)

theorem mem_of_getNode {id : Nat} {st : St} {n : NodeS} (h : getNode id st = some n) :
    n ∈ st.nodes ∧ n.id = id := by
  unfold getNode at h
  exact ⟨List.mem_of_find?_eq_some h, by simpa using List.find?_some h⟩

theorem exact_mergeLabel (jr : Bool) (id : Nat) (st : St) (j : List Undo) (l' : Str)
    (h : LidxExact st) : LidxExact (mergeLabel false jr id (st, j) l').1 := by
  unfold mergeLabel
  cases hg : getNode id st with
  | none => exact h
  | some n =>
    obtain ⟨hn, hnid⟩ := mem_of_getNode hg
    by_cases hc : n.labels.contains l' = true
    · simp only [hc, ↓reduceIte]; exact h
    · have hc' : n.labels.contains l' = false := by simpa using hc
      simp only [hc', Bool.false_eq_true, ↓reduceIte]
      refine ⟨?_, ixwf_insert l' id h.wf⟩
      intro l x
      show x ∈ lk l (lidxInsert l' id st.lidx) ↔ Has (st.nodes.map _) l x
      rw [mem_lk_insert, h.ext]
      unfold Has
      constructor
      · rintro (⟨m, hm, h1, h2⟩ | ⟨e1, e2⟩)
        · refine ⟨_, List.mem_map_of_mem hm, (ite_id (m.id == id) { m with labels := m.labels ++ [l'] } m rfl).trans h1, ?_⟩
          by_cases q : (m.id == id) = true
          · simp [q, h2]
          · have q' : (m.id == id) = false := by simpa using q
            simp [q', h2]
        · subst e1; subst e2
          refine ⟨_, List.mem_map_of_mem hn, (ite_id (n.id == x) { n with labels := n.labels ++ [l] } n rfl).trans hnid, ?_⟩
          have : (n.id == x) = true := by simp [hnid]
          simp [this]
      · rintro ⟨m', hm', h1, h2⟩
        obtain ⟨m, hm, rfl⟩ := List.mem_map.mp hm'
        by_cases q : (m.id == id) = true
        · have hq : m.id = id := by simpa using q
          simp only [q, ↓reduceIte, List.mem_append, List.mem_singleton] at h1 h2
          rcases h2 with h2 | h2
          · exact Or.inl ⟨m, hm, h1, h2⟩
          · exact Or.inr ⟨h2, h1.symm.trans hq⟩
        · have q' : (m.id == id) = false := by simpa using q
          simp only [q', Bool.false_eq_true, ↓reduceIte] at h1 h2
          exact Or.inl ⟨m, hm, h1, h2⟩

theorem exact_foldl_mergeProp (jr : Bool) (id : Nat) (pvs : List (Str × PV)) :
    ∀ (st : St) (j : List Undo), LidxExact st → LidxExact (pvs.foldl (mergeProp jr id) (st, j)).1 := by
  induction pvs with
  | nil => intro st j h; exact h
  | cons kv r ih =>
    intro st j h
    simp only [List.foldl_cons]
    obtain ⟨st1, j1, e1⟩ : ∃ st1 j1, mergeProp jr id (st, j) kv = (st1, j1) := ⟨_, _, rfl⟩
    have h1 := exact_mergeProp jr id st j kv h
    rw [e1] at h1 ⊢
    exact ih st1 j1 h1

theorem exact_foldl_mergeLabel (jr : Bool) (id : Nat) (ls : List Str) :
    ∀ (st : St) (j : List Undo), LidxExact st →
      LidxExact (ls.foldl (mergeLabel false jr id) (st, j)).1 := by
  induction ls with
  | nil => intro st j h; exact h
  | cons l r ih =>
    intro st j h
    simp only [List.foldl_cons]
    obtain ⟨st1, j1, e1⟩ : ∃ st1 j1, mergeLabel false jr id (st, j) l = (st1, j1) := ⟨_, _, rfl⟩
    have h1 := exact_mergeLabel jr id st j l h
    rw [e1] at h1 ⊢
    exact ih st1 j1 h1

theorem ixwf_foldInsert (k : Nat) (ls : List Str) : ∀ {ix : Ix}, IxWF ix →
    IxWF (ls.foldl (fun ix l => lidxInsert l k ix) ix) := by
  induction ls with
  | nil => intro ix h; exact h
  | cons a r ih => intro ix h; exact ih (ixwf_insert a k h)

theorem exact_createNode (labels : List Str) (props : List (Str × PV)) {st : St} (h : LidxExact st) :
    LidxExact (createNode false labels props st).1 := by
  refine ⟨?_, ?_⟩
  · intro l x
    simp only [createNode, Bool.false_and, Bool.false_eq_true, ↓reduceIte]
    show x ∈ (lookup l _).getD [] ↔ _
    rw [mem_lookup_foldInsert]
    have := h.ext l x
    unfold lk at this
    rw [this]
    unfold Has
    constructor
    · rintro (⟨m, hm, h1, h2⟩ | ⟨e1, e2⟩)
      · exact ⟨m, List.mem_append_left _ hm, h1, h2⟩
      · exact ⟨_, List.mem_append_right _ List.mem_cons_self, e2.symm, e1⟩
    · rintro ⟨m, hm, h1, h2⟩
      rcases List.mem_append.mp hm with q | q
      · exact Or.inl ⟨m, q, h1, h2⟩
      · simp only [List.mem_singleton] at q
        subst q
        exact Or.inr ⟨h2, h1.symm⟩
  · simp only [createNode, Bool.false_and, Bool.false_eq_true, ↓reduceIte]
    exact ixwf_foldInsert _ labels h.wf

theorem exact_step {jr : Bool} {ks : List Str} {s s' : Imp} (h : LidxExact s.st) (l : Line)
    (hs : stepLine false jr ks s l = some s') : LidxExact s'.st := by
  cases l with
  | bad => simp [stepLine] at hs
  | skip => simp only [stepLine, Option.some.injEq] at hs; subst hs; exact h
  | hier hd => simp only [stepLine, Option.some.injEq] at hs; subst hs; exact h
  | node id labels props =>
    simp only [stepLine] at hs
    cases hf : findExisting s.dedup labels props ks with
    | some eid =>
      simp only [hf, Option.some.injEq] at hs
      subst hs
      exact exact_foldl_mergeLabel _ eid labels _ _ (exact_foldl_mergeProp _ eid _ s.st s.journal h)
    | none =>
      simp only [hf, Option.some.injEq] at hs
      subst hs
      exact exact_createNode labels _ h
  | edge eid src tgt ty props =>
    simp only [stepLine] at hs
    cases ha : lookupNat src s.remap with
    | none => simp [ha] at hs
    | some a =>
      cases hb : lookupNat tgt s.remap with
      | none => simp [ha, hb] at hs
      | some b =>
        simp only [ha, hb, Option.some.injEq] at hs
        subst hs
        exact exact_of_same (st' := (createEdge a b ty (decKV false props) s.st).1) h rfl (fun _ _ => Iff.rfl)

theorem exact_fold {jr : Bool} (ks : List Str) (ls : List Line) : ∀ (s : Imp), LidxExact s.st →
    LidxExact (foldLines false jr ks s ls).1.st := by
  induction ls with
  | nil => intro s h; exact h
  | cons l r ih =>
    intro s h
    simp only [foldLines]
    cases hs : stepLine false jr ks s l with
    | none => exact h
    | some s' => exact ih s' (exact_step h l hs)

end SgModel.SnapJson
