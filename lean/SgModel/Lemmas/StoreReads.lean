import SgModel.Lemmas.StoreDel
import SgModel.Model.StoreObs
/-!
Helper lemmas for the graph-store model (C06), part 6: what the reads return in a state that
satisfies the invariant, and the Boolean specification helpers.
-/
namespace SgModel.Store

/-! ### Boolean helpers of the executable specification -/

theorem nodupB_iff {α : Type} [BEq α] [LawfulBEq α] (l : List α) : nodupB l = true ↔ l.Nodup := by
  induction l with
  | nil => simp [nodupB]
  | cons a as ih =>
    simp only [nodupB, Bool.and_eq_true, Bool.not_eq_true', List.nodup_cons, ih]
    constructor
    · rintro ⟨h1, h2⟩
      refine ⟨?_, h2⟩
      intro hm
      have : as.contains a = true := List.contains_iff_mem.mpr hm
      rw [h1] at this; cases this
    · rintro ⟨h1, h2⟩
      refine ⟨?_, h2⟩
      cases hc : as.contains a with
      | false => rfl
      | true => exact absurd (List.contains_iff_mem.mp hc) h1

theorem sameSet_iff {α : Type} [BEq α] [LawfulBEq α] (a b : List α) :
    sameSet a b = true ↔ ∀ x, x ∈ a ↔ x ∈ b := by
  simp only [sameSet, Bool.and_eq_true, List.all_eq_true, List.contains_iff_mem]
  constructor
  · rintro ⟨h1, h2⟩ x; exact ⟨h1 x, h2 x⟩
  · intro h; exact ⟨fun x hx => (h x).mp hx, fun x hx => (h x).mpr hx⟩

theorem sameOnce_of {α : Type} [BEq α] [LawfulBEq α] (got want : List α)
    (hnd : got.Nodup) (h : ∀ x, x ∈ got ↔ x ∈ want) : sameOnce got want = true := by
  simp only [sameOnce, Bool.and_eq_true]
  exact ⟨(nodupB_iff got).mpr hnd, (sameSet_iff got want).mpr h⟩

theorem zip_map_self {α β : Type} (l : List α) (f : α → β) :
    l.zip (l.map f) = l.map (fun x => (x, f x)) := by
  induction l with
  | nil => rfl
  | cons a as ih => simp [ih]

theorem filterMap_map_id {α β : Type} (l : List α) (f : α → Option β) (g : β → α)
    (h : ∀ e ∈ l, ∃ y, f e = some y ∧ g y = e) : (l.filterMap f).map g = l := by
  induction l with
  | nil => rfl
  | cons a as ih =>
    obtain ⟨y, hy, hg⟩ := h a (List.mem_cons_self ..)
    rw [List.filterMap_cons_some hy, List.map_cons, hg,
      ih (fun e he => h e (List.mem_cons_of_mem _ he))]

/-! ### relationships that exist -/

theorem endpOf_lt_of_live {s : State} {e : Nat} (h : endpOf s e ≠ (0, 0)) : e < s.endp.length := by
  apply Nat.lt_of_not_le
  intro hle
  apply h
  simp [endpOf, List.getD_eq_getElem?_getD, List.getElem?_eq_none hle]

theorem mem_allEdges {s : State} (h : InvE s) (e : Nat) : e ∈ allEdges s ↔ endpOf s e ≠ (0, 0) := by
  simp only [allEdges, List.mem_filter, List.mem_range, Bool.and_eq_true, liveE, bne_iff_ne, ne_eq]
  constructor
  · rintro ⟨_, h1, _⟩; exact h1
  · intro hl
    obtain ⟨ty, hg, _⟩ := getEdge_of_live h hl
    exact ⟨endpOf_lt_of_live hl, hl, by rw [hg]; rfl⟩

theorem allEdges_nodup (s : State) : (allEdges s).Nodup :=
  (List.nodup_range).filter _

theorem edgeObs_of_mem_allEdges {s : State} {e : Nat} (he : e ∈ allEdges s) :
    ∃ y, edgeObs s e = some y ∧ eId y = e := by
  simp only [allEdges, List.mem_filter, Bool.and_eq_true] at he
  cases hg : getEdge s e with
  | none => rw [hg] at he; simp at he
  | some q => exact ⟨(e, q.1, q.2.1, q.2.2.1, q.2.2.2), by simp [edgeObs, hg], rfl⟩

def obsEdges (s : State) : List EdgeObs := (allEdges s).filterMap (edgeObs s)

theorem obsEdges_ids (s : State) : (obsEdges s).map eId = allEdges s :=
  filterMap_map_id _ _ _ (fun _ he => edgeObs_of_mem_allEdges he)

theorem obsEdges_length (s : State) : (obsEdges s).length = (allEdges s).length := by
  rw [← obsEdges_ids s, List.length_map]

/-- an observed relationship is live and its observed endpoints are the stored ones -/
theorem obsEdges_sound {s : State} {x : EdgeObs} (hx : x ∈ obsEdges s) :
    endpOf s (eId x) = (eSrc x, eTgt x) ∧ endpOf s (eId x) ≠ (0, 0) := by
  simp only [obsEdges, List.mem_filterMap] at hx
  obtain ⟨e, _, hx⟩ := hx
  simp only [edgeObs, Option.map_eq_some_iff] at hx
  obtain ⟨q, hq, rfl⟩ := hx
  obtain ⟨a, b, ty, ps⟩ := q
  exact getEdge_some hq

/-- every live relationship is observed, with its stored endpoints -/
theorem obsEdges_complete {s : State} (h : InvE s) {e : Nat} (hl : endpOf s e ≠ (0, 0)) :
    ∃ x ∈ obsEdges s, eId x = e ∧ eSrc x = (endpOf s e).1 ∧ eTgt x = (endpOf s e).2 := by
  obtain ⟨ty, hg, _⟩ := getEdge_of_live h hl
  refine ⟨(e, (endpOf s e).1, (endpOf s e).2, ty, (assocGet s.eprops e).getD []), ?_, rfl, rfl, rfl⟩
  simp only [obsEdges, List.mem_filterMap]
  exact ⟨e, (mem_allEdges h e).mpr hl, by simp [edgeObs, hg]⟩

/-! ### adjacency reads -/

theorem keyOut_some {s : State} {e n x : Nat} :
    keyOut s e = some (n, x) ↔ endpOf s e = (n, x) ∧ endpOf s e ≠ (0, 0) := by
  unfold keyOut
  by_cases h0 : endpOf s e = (0, 0)
  · simp [h0]
  · simp only [h0, if_false, Option.some.injEq, ne_eq, not_false_eq_true, and_true]

theorem keyIn_some {s : State} {e n x : Nat} :
    keyIn s e = some (n, x) ↔ endpOf s e = (x, n) ∧ endpOf s e ≠ (0, 0) := by
  unfold keyIn
  by_cases h0 : endpOf s e = (0, 0)
  · simp [h0]
  · simp only [h0, if_false, Option.some.injEq, ne_eq, not_false_eq_true, and_true]
    constructor
    · intro h
      have h1 := congrArg Prod.fst h
      have h2 := congrArg Prod.snd h
      simp only at h1 h2
      rw [← h1, ← h2]
    · intro h; rw [h]

/-- with the invariant, the "does this id still resolve" filters of the readers drop nothing -/
theorem neighbours_none_out {s : State} (h : Inv s) (n : Nat) :
    neighbours s s.outT n none = s.outT.row n := by
  unfold neighbours
  apply List.filter_eq_self.mpr
  intro p hp
  have hk := h.out.sound n p.1 p.2 hp
  obtain ⟨ti, h1, _⟩ := h.typed p.2 (keyOut_some.mp hk).2
  simp [typeMatches, h1]

theorem neighbours_none_in {s : State} (h : Inv s) (n : Nat) :
    neighbours s s.inT n none = s.inT.row n := by
  unfold neighbours
  apply List.filter_eq_self.mpr
  intro p hp
  have hk := h.inn.sound n p.1 p.2 hp
  obtain ⟨ti, h1, _⟩ := h.typed p.2 (keyIn_some.mp hk).2
  simp [typeMatches, h1]

theorem edgesOf_out {s : State} (h : Inv s) (n : Nat) :
    edgesOf s s.outT n = (s.outT.row n).map (·.2) := by
  unfold edgesOf
  congr 1
  apply List.filter_eq_self.mpr
  intro p hp
  have hk := h.out.sound n p.1 p.2 hp
  obtain ⟨ty, hg, _⟩ := getEdge_of_live h.toInvE (keyOut_some.mp hk).2
  rw [hg]; rfl

theorem edgesOf_in {s : State} (h : Inv s) (n : Nat) :
    edgesOf s s.inT n = (s.inT.row n).map (·.2) := by
  unfold edgesOf
  congr 1
  apply List.filter_eq_self.mpr
  intro p hp
  have hk := h.inn.sound n p.1 p.2 hp
  obtain ⟨ty, hg, _⟩ := getEdge_of_live h.toInvE (keyIn_some.mp hk).2
  rw [hg]; rfl

theorem nodup_of_map_snd {r : Row} (h : (r.map (·.2)).Nodup) : r.Nodup := by
  induction r with
  | nil => exact List.nodup_nil
  | cons a as ih =>
    simp only [List.map_cons, List.nodup_cons] at h ⊢
    exact ⟨fun hm => h.1 (List.mem_map_of_mem hm), ih h.2⟩

/-- `edge_count` = number of relationships that exist -/
theorem edgeCount_eq {s : State} (h : Inv s) : edgeCount s = (allEdges s).length := by
  unfold edgeCount
  apply h.out.count (allEdges s) (allEdges_nodup s)
  intro e
  rw [mem_allEdges h.toInvE]
  unfold keyOut
  by_cases h0 : endpOf s e = (0, 0) <;> simp [h0]

/-- a row of the outgoing tier, as a set, in terms of the observed relationships -/
theorem row_out_iff {s : State} (h : Inv s) (n : Nat) (p : Nat × Nat) :
    p ∈ s.outT.row n ↔ p ∈ ((obsEdges s).filter (fun e => eSrc e == n)).map (fun e => (eTgt e, eId e)) := by
  simp only [List.mem_map, List.mem_filter, beq_iff_eq]
  constructor
  · intro hp
    have hk := keyOut_some.mp (h.out.sound n p.1 p.2 hp)
    obtain ⟨x, hx, h1, h2, h3⟩ := obsEdges_complete h.toInvE hk.2
    refine ⟨x, ⟨hx, ?_⟩, ?_⟩
    · rw [h2, hk.1]
    · rw [h3, h1, hk.1]
  · rintro ⟨x, ⟨hx, hs⟩, rfl⟩
    obtain ⟨he, hl⟩ := obsEdges_sound hx
    apply h.out.complete (eId x) n (eTgt x)
    rw [keyOut_some, he, hs]
    exact ⟨rfl, by rw [← hs, ← he]; exact hl⟩

theorem row_in_iff {s : State} (h : Inv s) (n : Nat) (p : Nat × Nat) :
    p ∈ s.inT.row n ↔ p ∈ ((obsEdges s).filter (fun e => eTgt e == n)).map (fun e => (eSrc e, eId e)) := by
  simp only [List.mem_map, List.mem_filter, beq_iff_eq]
  constructor
  · intro hp
    have hk := keyIn_some.mp (h.inn.sound n p.1 p.2 hp)
    obtain ⟨x, hx, h1, h2, h3⟩ := obsEdges_complete h.toInvE hk.2
    refine ⟨x, ⟨hx, ?_⟩, ?_⟩
    · rw [h3, hk.1]
    · rw [h2, h1, hk.1]
  · rintro ⟨x, ⟨hx, hs⟩, rfl⟩
    obtain ⟨he, hl⟩ := obsEdges_sound hx
    apply h.inn.complete (eId x) n (eSrc x)
    rw [keyIn_some, he, hs]
    exact ⟨rfl, by rw [← hs, ← he]; exact hl⟩

/-! ### typed reads -/

theorem idxOf_getElem_nodup (l : List Nat) (hnd : l.Nodup) (i : Nat) (hi : i < l.length) :
    l.idxOf l[i] = i := by
  induction l generalizing i with
  | nil => simp at hi
  | cons a as ih =>
    cases i with
    | zero => simp
    | succ k =>
      have hk : k < as.length := by simpa using hi
      have hne : a ≠ as[k] := by
        intro h
        exact (List.nodup_cons.mp hnd).1 (h ▸ List.getElem_mem hk)
      simp only [List.getElem_cons_succ, List.idxOf_cons]
      have : (a == as[k]) = false := by simpa using hne
      simp [this, ih (List.nodup_cons.mp hnd).2 k hk]

/-- for an existing relationship: its interned id is the id of `ty` iff its type is `ty` -/
theorem typeId_iff {s : State} (h : InvE s) {e : Nat} (hl : endpOf s e ≠ (0, 0)) (ty : Nat) :
    (∃ tid, typeIdFor s ty = some tid ∧ typeIdOf s e = some tid) ↔ edgeTypeOf s e = some ty := by
  obtain ⟨ti, h1, h2⟩ := h.typed e hl
  have hty : edgeTypeOf s e = some (s.etypeTable[ti]'h2) := by
    unfold edgeTypeOf; rw [h1]; simp [List.getElem?_eq_getElem h2]
  rw [hty]
  unfold typeIdFor
  by_cases hc : s.etypeTable.contains ty = true
  · have hm : ty ∈ s.etypeTable := by simpa using hc
    simp only [hc, if_true, Option.some.injEq, h1]
    constructor
    · rintro ⟨tid, rfl, h3⟩
      subst h3
      simp
    · intro heq
      refine ⟨_, rfl, ?_⟩
      rw [← heq]
      exact (idxOf_getElem_nodup _ h.tbl ti h2).symm
  · have hm : ty ∉ s.etypeTable := by simpa using hc
    simp only [hc]
    constructor
    · rintro ⟨tid, h3, _⟩; cases h3
    · intro heq
      simp only [Option.some.injEq] at heq
      exact absurd (heq ▸ List.getElem_mem h2) hm

/-- the typed visitor's filter accepts `e` iff `e`'s interned id is the id of `ty` -/
theorem typeMatches_filter (s : State) (e ty : Nat) :
    typeMatches s e (typeFilter s ty) = true
      ↔ ∃ tid, typeIdFor s ty = some tid ∧ typeIdOf s e = some tid := by
  unfold typeMatches typeFilter
  cases h1 : typeIdOf s e with
  | none => simp
  | some id =>
    cases h2 : typeIdFor s ty with
    | none => simp
    | some tid =>
      simp only [List.contains_cons, List.contains_nil, Bool.or_false, beq_iff_eq,
        Option.some.injEq, exists_eq_left']

/-- `*_degree_for_type` counts exactly what the typed visitor visits (no invariant needed) -/
theorem degree_eq_typed_length (s : State) (T : Tier) (n ty : Nat) :
    degreeForType s T n ty = (neighbours s T n (typeFilter s ty)).length := by
  unfold degreeForType neighbours
  cases h2 : typeIdFor s ty with
  | none =>
    have : ∀ p ∈ T.row n, typeMatches s p.2 (typeFilter s ty) = false := by
      intro p _
      cases hb : typeMatches s p.2 (typeFilter s ty) with
      | false => rfl
      | true =>
        obtain ⟨tid, h3, _⟩ := (typeMatches_filter s p.2 ty).mp hb
        rw [h2] at h3; cases h3
    rw [List.filter_eq_nil_iff.mpr (fun p hp => by rw [this p hp]; simp)]
    rfl
  | some tid =>
    simp only
    rw [List.countP_eq_length_filter]
    congr 1
    apply List.filter_congr
    intro p _
    cases hb : typeMatches s p.2 (typeFilter s ty) with
    | true =>
      obtain ⟨tid', h3, h4⟩ := (typeMatches_filter s p.2 ty).mp hb
      rw [h2] at h3
      simp only [Option.some.injEq] at h3
      subst h3
      simp [h4]
    | false =>
      cases hc : (typeIdOf s p.2 == some tid) with
      | false => rfl
      | true =>
        have : typeMatches s p.2 (typeFilter s ty) = true :=
          (typeMatches_filter s p.2 ty).mpr ⟨tid, h2, by simpa using hc⟩
        rw [hb] at this; cases this

/-! ### lookups that find nothing; what node creation does to the point reads -/

theorem colGet_none {c : List ((Nat × Nat) × Nat)} {r k : Nat} (h : ∀ p ∈ c, p.1.1 ≠ r) :
    colGet c r k = none := by
  unfold colGet
  rw [List.find?_eq_none.mpr]
  · rfl
  · intro p hp hb
    simp only [beq_iff_eq] at hb
    exact h p hp (by rw [hb])

theorem assocGet_none {β : Type} {m : List (Nat × β)} {k : Nat} (h : ∀ p ∈ m, p.1 ≠ k) :
    assocGet m k = none := by
  unfold assocGet
  rw [List.find?_eq_none.mpr]
  · rfl
  · intro p hp hb
    simp only [beq_iff_eq] at hb
    exact h p hp hb

theorem createNode_reads (s : State) (l : Nat) (ps : Props) :
    (∀ n, getNode (createNode s l ps).1 n
        = if n = (allocN s).1 then some { labels := [l], props := ps } else getNode s n)
    ∧ (createNode s l ps).2 = .id (allocN s).1
    ∧ (∀ e, endpOf (createNode s l ps).1 e = endpOf s e) := by
  unfold createNode allocN
  cases s.freeN with
  | nil =>
    refine ⟨fun n => ?_, rfl, fun e => rfl⟩
    show (setGrow s.nodes s.nextN _ none).getD n none = _
    rw [getD_setGrow]; rfl
  | cons i rest =>
    refine ⟨fun n => ?_, rfl, fun e => rfl⟩
    show (setGrow s.nodes i _ none).getD n none = _
    rw [getD_setGrow]; rfl

end SgModel.Store
