import SgModel.Lemmas.OehNested
namespace SgModel.Oeh
example (P : Poset) (y : Nat) (L : List Nat) (s : List Nat)
  (htin : (buildNested P).tinOf y = L.length)
  (htout : (buildNested P).toutOf y + 1 = L.length + (pre P P.n y).length)
  (hl : (pre P P.n y).length = s.length) :
  (buildNested P).toutOf y - (buildNested P).tinOf y + 1 = s.length := by
  omega
end SgModel.Oeh
