import SgModel.Model.Oeh
namespace SgModel.Oeh

theorem lowbit_zero : lowbit 0 = 0 := by rw [lowbit]; simp

theorem lowbit_even (m : Nat) (h : 0 < m) : lowbit (2 * m) = 2 * lowbit m := by
  rw [lowbit]
  have h1 : ¬ (2 * m = 0) := by omega
  have h2 : ¬ (2 * m % 2 = 1) := by omega
  have h3 : 2 * m / 2 = m := by omega
  simp [h1, h3]

theorem lowbit_odd (m : Nat) : lowbit (2 * m + 1) = 1 := by
  rw [lowbit]
  have h1 : ¬ (2 * m + 1 = 0) := by omega
  have h2 : (2 * m + 1) % 2 = 1 := by omega
  simp [h2]

theorem even_or_odd' (n : Nat) : ∃ m, n = 2 * m ∨ n = 2 * m + 1 :=
  ⟨n / 2, by omega⟩

theorem lowbit_add_even (j : Nat) (h : 0 < j) : (j + lowbit j) % 2 = 0 := by
  rcases even_or_odd' j with ⟨m, hm | hm⟩
  · subst hm
    have hm0 : 0 < m := by omega
    rw [lowbit_even m hm0]; omega
  · subst hm
    rw [lowbit_odd]; omega

theorem cover_step : ∀ k j : Nat, 0 < j → j < k →
    ((k - lowbit k < j ∧ j ≤ k) ↔ (k - lowbit k < j + lowbit j ∧ j + lowbit j ≤ k)) := by
  intro k
  induction k using Nat.strongRecOn with
  | _ k ih =>
    intro j hj hjk
    rcases even_or_odd' k with ⟨k', hk | hk⟩
    · subst hk
      have hk0 : 0 < k' := by omega
      rw [lowbit_even k' hk0]
      have hle := lowbit_le k'
      rcases even_or_odd' j with ⟨j', hj' | hj'⟩
      · subst hj'
        have hj0 : 0 < j' := by omega
        rw [lowbit_even j' hj0]
        have := ih k' (by omega) j' hj0 (by omega)
        omega
      · subst hj'
        rw [lowbit_odd]
        omega
    · subst hk
      rw [lowbit_odd]
      have := lowbit_add_even j hj
      omega
end SgModel.Oeh
