import SgModel.Lemmas.Oeh
namespace SgModel.Oeh

def runLegacy (n : Nat) (ops : List MOp) : MState :=
  ops.foldl (fun s op => (mstepWith true s op).1) (MState.init n)

def wMulti : List MOp := [.addEdge 1 0 0, .addEdge 2 0 1, .create { types := [0, 1], reverse := false }]
def qMulti : Query := { kind := .count, ty := 0, pinnedIsTarget := true, root := 0 }

theorem cx1 : answerWith true (runLegacy 3 wMulti) qMulti = (true, .val (.int 3))
    ∧ bruteAnswer (runLegacy 3 wMulti).g qMulti = .val (.int 2) := by decide

example : answer (mrun 3 wMulti) qMulti = (false, .val (.int 2)) := by decide

def wRev : List MOp := [.addEdge 0 1 0, .addEdge 1 2 0, .create { types := [0], reverse := true }]
def qRev : Query := { kind := .count, ty := 0, pinnedIsTarget := true, root := 2 }
theorem cx2 : answerWith true (runLegacy 3 wRev) qRev = (true, .val (.int 1))
    ∧ bruteAnswer (runLegacy 3 wRev).g qRev = .val (.int 3) := by decide

def wRem : List MOp := [.addEdge 1 0 0, .setMeas 0 (some 1), .setMeas 1 (some 2),
  .create { types := [0], reverse := false }, .removeMeas 1]
def qRem : Query := { kind := .max, ty := 0, pinnedIsTarget := true, root := 0 }
theorem cx3 : answerWith true (runLegacy 2 wRem) qRem = (true, .val (.int 2))
    ∧ bruteAnswer (runLegacy 2 wRem).g qRem = .val (.int 1) := by decide
example : answer (mrun 2 wRem) qRem = (true, .val (.int 1)) := by decide
end SgModel.Oeh
