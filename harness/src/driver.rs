//! The compiled Lean model (`lean_exe drv_*`) behind the line protocol.
use std::io::{BufRead, BufReader, Write};
use std::path::Path;
use std::process::{Child, ChildStdin, ChildStdout, Command, Stdio};

/// Batch: write all request lines, read all reply lines (no per-line flush on the Lean side).
pub fn batch(exe: &Path, lines: &[String]) -> Vec<String> {
    let mut child = Command::new(exe)
        .stdin(Stdio::piped())
        .stdout(Stdio::piped())
        .spawn()
        .unwrap_or_else(|e| panic!("cannot start driver {}: {}", exe.display(), e));
    let mut stdin = child.stdin.take().unwrap();
    let payload: String = lines.iter().map(|l| format!("{}\n", l)).collect();
    let w = std::thread::spawn(move || {
        let _ = stdin.write_all(payload.as_bytes());
    });
    let out = BufReader::new(child.stdout.take().unwrap());
    let replies: Vec<String> = out.lines().map(|l| l.unwrap()).collect();
    w.join().unwrap();
    let st = child.wait().unwrap();
    assert!(st.success(), "driver {} exited with {:?}", exe.display(), st);
    assert_eq!(
        replies.len(),
        lines.len(),
        "driver {} answered {} lines for {} requests",
        exe.display(),
        replies.len(),
        lines.len()
    );
    replies
}

/// Interactive: one request, one reply (the driver is started with SG_FLUSH=1).
pub struct Driver {
    child: Child,
    stdin: ChildStdin,
    stdout: BufReader<ChildStdout>,
}

impl Driver {
    pub fn spawn(exe: &Path) -> Driver {
        let mut child = Command::new(exe)
            .env("SG_FLUSH", "1")
            .stdin(Stdio::piped())
            .stdout(Stdio::piped())
            .spawn()
            .unwrap_or_else(|e| panic!("cannot start driver {}: {}", exe.display(), e));
        let stdin = child.stdin.take().unwrap();
        let stdout = BufReader::new(child.stdout.take().unwrap());
        Driver { child, stdin, stdout }
    }
    pub fn ask(&mut self, line: &str) -> String {
        self.stdin.write_all(line.as_bytes()).unwrap();
        self.stdin.write_all(b"\n").unwrap();
        self.stdin.flush().unwrap();
        let mut s = String::new();
        self.stdout.read_line(&mut s).unwrap();
        s.trim_end_matches('\n').to_string()
    }
}

impl Drop for Driver {
    fn drop(&mut self) {
        let _ = self.child.kill();
        let _ = self.child.wait();
    }
}

/// Batch over `n` driver processes in parallel (order of replies preserved).
pub fn par_batch(exe: &Path, lines: &[String], n: usize) -> Vec<String> {
    if lines.len() < 2000 || n <= 1 {
        return batch(exe, lines);
    }
    let chunk = (lines.len() + n - 1) / n;
    let mut out: Vec<Vec<String>> = Vec::new();
    std::thread::scope(|sc| {
        let hs: Vec<_> = lines.chunks(chunk).map(|c| sc.spawn(move || batch(exe, c))).collect();
        for h in hs {
            out.push(h.join().expect("driver thread"));
        }
    });
    out.into_iter().flatten().collect()
}
