//! Shared plumbing of the correspondence harness: one PRNG, the Lean driver processes,
//! command-line conventions, known-findings lookup, and the result file that `/verif/check`
//! merges into `evidence/<id>.json`.
//!
//! Every property has its own binary (`src/bin/cXX.rs`) so that a property under
//! construction cannot break the build of another one.

pub mod args;
pub mod driver;
pub mod known;
pub mod report;
pub mod rng;
pub mod util;

pub use args::Args;
pub use driver::Driver;
pub use known::Known;
pub use report::Report;
pub use rng::Rng;
