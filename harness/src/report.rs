//! What one correspondence run found; written as JSON for `/verif/check`.
use crate::known::Known;
use crate::util::fnv;
use serde_json::{json, Map, Value};
use std::collections::{BTreeMap, HashSet};
use std::path::{Path, PathBuf};
use std::time::Instant;

pub struct Report {
    pub property: String,
    pub rule: String,
    pub evaluations: u64,
    nontrivial: HashSet<u64>,
    pub samples: Vec<Value>,
    pub max_samples: usize,
    pub histogram: BTreeMap<String, u64>,
    pub exhaustive: bool,
    pub exhaustive_note: String,
    /// S ⊭ R: the implementation's own observations violate the specification
    pub spec_violations: Vec<Value>,
    /// R ≠ M: implementation and model disagree (by default a defect of the model)
    pub correspondence_breaks: Vec<Value>,
    pub known_hit: BTreeMap<String, (String, u64)>,
    pub notes: Vec<String>,
    pub extra: Map<String, Value>,
    start: Instant,
    replays: PathBuf,
    seed: u64,
}

impl Report {
    pub fn new(property: &str, rule: &str, replays: &Path, seed: u64) -> Report {
        Report {
            property: property.into(),
            rule: rule.into(),
            evaluations: 0,
            nontrivial: HashSet::new(),
            samples: vec![],
            max_samples: 6,
            histogram: BTreeMap::new(),
            exhaustive: false,
            exhaustive_note: String::new(),
            spec_violations: vec![],
            correspondence_breaks: vec![],
            known_hit: BTreeMap::new(),
            notes: vec![],
            extra: Map::new(),
            start: Instant::now(),
            replays: replays.to_path_buf(),
            seed,
        }
    }
    pub fn elapsed_s(&self) -> f64 {
        self.start.elapsed().as_secs_f64()
    }
    /// one explored case; `canon` identifies it for distinctness, `nontrivial` by the stated rule
    pub fn case(&mut self, canon: &str, nontrivial: bool) {
        self.evaluations += 1;
        if nontrivial {
            self.nontrivial.insert(fnv(canon));
        }
    }
    pub fn sample(&mut self, v: Value) {
        if self.samples.len() < self.max_samples {
            self.samples.push(v);
        }
    }
    pub fn count(&mut self, key: &str) {
        *self.histogram.entry(key.to_string()).or_insert(0) += 1;
    }
    pub fn count_n(&mut self, key: &str, n: u64) {
        *self.histogram.entry(key.to_string()).or_insert(0) += n;
    }
    pub fn distinct_nontrivial(&self) -> u64 {
        self.nontrivial.len() as u64
    }
    pub fn n_unknown_violations(&self) -> usize {
        self.spec_violations.len() + self.correspondence_breaks.len()
    }

    fn write_replay(&self, kind: &str, tag: &str, header: &str, body: &str) -> String {
        std::fs::create_dir_all(&self.replays).ok();
        let n = self.spec_violations.len() + self.correspondence_breaks.len();
        let p = self.replays.join(format!("{}-{}-seed{}-{}.replay", self.property, tag, self.seed, n));
        let txt = format!(
            "# property={} seed={} kind={} {}\n{}\n",
            self.property, self.seed, kind, header, body
        );
        std::fs::write(&p, txt).expect("write replay");
        p.display().to_string()
    }

    /// The implementation's observations violate the specification on a concrete case.
    /// Known findings (by signature) are tallied, anything else becomes a VIOLATION.
    pub fn spec_violation(&mut self, known: &Known, signature: &str, what: &str, replay_body: &str) {
        if let Some(w) = known.is_known(signature) {
            let e = self.known_hit.entry(signature.to_string()).or_insert((w.to_string(), 0));
            e.1 += 1;
            return;
        }
        if self.spec_violations.len() >= 5 {
            return;
        }
        let path = self.write_replay("spec-violation", "spec", &format!("signature={}", signature), replay_body);
        self.spec_violations.push(json!({"signature": signature, "what": what, "replay": path}));
    }

    /// Implementation and model disagree although the specification is satisfied: the
    /// correspondence named `name` no longer checks.
    pub fn correspondence_break(&mut self, name: &str, what: &str, replay_body: &str) {
        if self.correspondence_breaks.len() >= 5 {
            return;
        }
        let path = self.write_replay("correspondence", "corr", &format!("correspondence={}", name), replay_body);
        self.correspondence_breaks.push(json!({"correspondence": name, "what": what, "replay": path}));
    }

    pub fn write(&self, out: &Path) {
        let known: Vec<Value> = self
            .known_hit
            .iter()
            .map(|(s, (w, n))| json!({"signature": s, "what": w, "cases": n}))
            .collect();
        let mut v = json!({
            "property": self.property,
            "evaluations": self.evaluations,
            "distinct_nontrivial": self.distinct_nontrivial(),
            "rule": self.rule,
            "samples": self.samples,
            "histogram": self.histogram,
            "exhaustive": self.exhaustive,
            "exhaustive_note": self.exhaustive_note,
            "spec_violations": self.spec_violations,
            "correspondence_breaks": self.correspondence_breaks,
            "known_findings_hit": known,
            "notes": self.notes,
            "wall_s": self.elapsed_s(),
        });
        for (k, x) in &self.extra {
            v[k] = x.clone();
        }
        if let Some(d) = out.parent() {
            std::fs::create_dir_all(d).ok();
        }
        std::fs::write(out, serde_json::to_string_pretty(&v).unwrap()).expect("write result");
    }
}
