//! C14 — imported snapshots survive restart and crashes during persistence.
//! Real `persist_snapshot` stopped at each of its file-system steps (the `snap.*` hook points:
//! a process crash leaves the directory exactly as it is at that moment, so the directory is
//! copied at the point), real `restore_persisted_snapshots` from every such directory, vs the
//! Lean model `SgModel.SnapFS` and the executable specification `specCrash`.
//! Power-loss states cannot be produced on a running OS: they are **constructed** from the
//! model's durable view (labelled `power:` in the evidence) and then restored by the real code.
#[path = "snap/mod.rs"]
mod snap;
use samyama::graph::GraphStore;
use samyama::snapshot::persist::{persist_snapshot, restore_persisted_snapshots};
use samyama::snapshot::{export_tenant, import_tenant};
use serde_json::json;
use snap::ops::{build, gen_program, parse_ops, render_ops, Op};
use snap::*;
use std::path::{Path, PathBuf};
use std::sync::{Arc, Mutex};
use vharness::{driver::Driver, Args, Known, Report, Rng};

const FINAL: &str = "default.sgsnap";
const TMP: &str = "default.sgsnap.tmp";
const MARKER: &str = "default.sgsnap.committed";

struct Payload {
    bytes: Vec<u8>,
    /// dump of an empty store after importing these bytes
    dump: String,
}

fn copy_dir(src: &Path, dst: &Path) {
    std::fs::create_dir_all(dst).unwrap();
    if let Ok(rd) = std::fs::read_dir(src) {
        for e in rd.flatten() {
            let _ = std::fs::copy(e.path(), dst.join(e.file_name()));
        }
    }
}

fn classify_file(path: &Path, payloads: &[Payload]) -> String {
    let Ok(b) = std::fs::read(path) else { return "-".into() };
    if b.is_empty() {
        return "e".into();
    }
    for (j, p) in payloads.iter().enumerate() {
        if p.bytes == b {
            return format!("f{}", j + 1);
        }
    }
    for (j, p) in payloads.iter().enumerate() {
        if p.bytes.len() > b.len() && p.bytes[..b.len()] == b[..] {
            return format!("p{}", j + 1);
        }
    }
    "?".into()
}

fn dir_view(snapdir: &Path, payloads: &[Payload]) -> String {
    format!(
        "{};{};{}",
        classify_file(&snapdir.join(FINAL), payloads),
        classify_file(&snapdir.join(TMP), payloads),
        classify_file(&snapdir.join(MARKER), payloads)
    )
}

/// restart: real `restore_persisted_snapshots` from `<data>/snapshots` into a fresh store
fn restart(data: &Path, payloads: &[Payload]) -> (String, String) {
    let mut store = GraphStore::new();
    let r = std::panic::catch_unwind(std::panic::AssertUnwindSafe(|| {
        restore_persisted_snapshots(&data.to_string_lossy(), &mut store).map(|o| o.is_some()).map_err(|e| e.to_string())
    }));
    match r {
        Ok(Ok(false)) => ("nothing".into(), dump_store(&store).text),
        Ok(Ok(true)) => {
            let d = dump_store(&store).text;
            for (j, p) in payloads.iter().enumerate() {
                if p.dump == d {
                    return (format!("ok:{}", j + 1), d);
                }
            }
            ("corrupt".into(), d)
        }
        _ => ("corrupt".into(), dump_store(&store).text),
    }
}

/// write the directory a (model) view describes
fn materialise(view: &str, data: &Path, payloads: &[Payload]) -> bool {
    let dir = data.join("snapshots");
    std::fs::create_dir_all(&dir).unwrap();
    let f: Vec<&str> = view.split(';').collect();
    if f.len() != 3 {
        return false;
    }
    for (name, c) in [(FINAL, f[0]), (TMP, f[1]), (MARKER, f[2])] {
        let bytes: Option<Vec<u8>> = match c.chars().next() {
            Some('-') => None,
            Some('e') => Some(vec![]),
            Some('f') => c[1..].parse::<usize>().ok().and_then(|j| payloads.get(j - 1)).map(|p| p.bytes.clone()),
            Some('p') => c[1..]
                .parse::<usize>()
                .ok()
                .and_then(|j| payloads.get(j - 1))
                .map(|p| p.bytes[..(p.bytes.len() / 2).max(1)].to_vec()),
            _ => return false,
        };
        if let Some(b) = bytes {
            std::fs::write(dir.join(name), b).unwrap();
        }
    }
    true
}

/// run the real `persist_snapshot` with the directory captured (copied) at every `snap.*` point;
/// returns the states in order, the first one being "before"
fn persist_captured(data: &Path, bytes: &[u8], out: &Path) -> Option<Vec<(String, PathBuf)>> {
    let events: Arc<Mutex<Vec<(String, PathBuf)>>> = Arc::new(Mutex::new(vec![]));
    let before = out.join("s0");
    copy_dir(&data.join("snapshots"), &before.join("snapshots"));
    events.lock().unwrap().push(("before".to_string(), before));
    {
        let ev = Arc::clone(&events);
        let snapdir = data.join("snapshots");
        let out2 = out.to_path_buf();
        samyama::verif_hook::install(Arc::new(move |name: &'static str| {
            if !name.starts_with("snap.") {
                return;
            }
            let mut g = ev.lock().unwrap();
            let d = out2.join(format!("s{}", g.len()));
            copy_dir(&snapdir, &d.join("snapshots"));
            g.push((name.to_string(), d));
        }));
    }
    let res = persist_snapshot(&data.to_string_lossy(), bytes);
    samyama::verif_hook::clear();
    res.ok()?;
    let v = events.lock().unwrap().clone();
    Some(v)
}

// ---------------------------------------------------------------------------------------------
// the HTTP import path: ordering of import, persist and acknowledgement
// ---------------------------------------------------------------------------------------------

#[derive(Clone, Debug, PartialEq)]
enum Body {
    /// a complete export of payload j
    Good(usize),
    /// not a gzip stream at all
    Garbage,
    /// valid gzip, header with an unsupported format version
    WrongVersion(usize),
    /// valid gzip, valid header, the body cut in the middle of a record (re-compressed)
    TruncatedBody(usize),
    /// the gzip stream itself cut at 60 % (an interrupted upload)
    TruncatedUpload(usize),
    /// complete body, one byte of the gzip trailer (CRC / length) flipped
    CorruptTrailer(usize),
    /// complete body plus a relationship to an unknown node id
    Dangling(usize),
    /// the same, posted with `?dedup_key=seq` (fails on the dedup path)
    DanglingDedup(usize),
}

fn body_name(b: &Body) -> String {
    match b {
        Body::Good(j) => format!("good{}", j + 1),
        Body::Garbage => "garbage".into(),
        Body::WrongVersion(j) => format!("wrongversion{}", j + 1),
        Body::TruncatedBody(j) => format!("truncatedbody{}", j + 1),
        Body::TruncatedUpload(j) => format!("truncatedupload{}", j + 1),
        Body::CorruptTrailer(j) => format!("corrupttrailer{}", j + 1),
        Body::Dangling(j) => format!("dangling{}", j + 1),
        Body::DanglingDedup(j) => format!("danglingdedup{}", j + 1),
    }
}

fn parse_body(s: &str) -> Option<Body> {
    let split = s.find(|c: char| c.is_ascii_digit());
    let (name, j) = match split {
        Some(i) => (&s[..i], s[i..].parse::<usize>().ok()?.checked_sub(1)?),
        None => (s, 0),
    };
    Some(match name {
        "good" => Body::Good(j),
        "garbage" => Body::Garbage,
        "wrongversion" => Body::WrongVersion(j),
        "truncatedbody" => Body::TruncatedBody(j),
        "truncatedupload" => Body::TruncatedUpload(j),
        "corrupttrailer" => Body::CorruptTrailer(j),
        "dangling" => Body::Dangling(j),
        "danglingdedup" => Body::DanglingDedup(j),
        _ => return None,
    })
}

fn gunzip_text(b: &[u8]) -> String {
    use std::io::Read;
    let mut s = String::new();
    let _ = flate2::read::MultiGzDecoder::new(b).read_to_string(&mut s);
    s
}

fn gzip_text(t: &[u8]) -> Vec<u8> {
    use std::io::Write;
    let mut e = flate2::write::GzEncoder::new(Vec::new(), flate2::Compression::new(3));
    e.write_all(t).unwrap();
    e.finish().unwrap()
}

fn body_bytes(b: &Body, payloads: &[Payload]) -> Vec<u8> {
    let of = |j: &usize| payloads[*j % payloads.len()].bytes.clone();
    match b {
        Body::Good(j) => of(j),
        Body::Garbage => b"this is not a snapshot \x00\x01\x02".to_vec(),
        Body::WrongVersion(j) => gzip_text(gunzip_text(&of(j)).replacen("\"version\":2", "\"version\":9", 1).as_bytes()),
        Body::TruncatedBody(j) => {
            let t = gunzip_text(&of(j));
            let lines: Vec<&str> = t.lines().collect();
            let keep = 1 + (lines.len() - 1) / 2;
            let mut out = lines[..keep].join("\n");
            out.push_str("\n{\"t\":\"n\",\"id\":");
            gzip_text(out.as_bytes())
        }
        Body::TruncatedUpload(j) => {
            let v = of(j);
            v[..v.len() * 6 / 10].to_vec()
        }
        Body::CorruptTrailer(j) => {
            let mut v = of(j);
            let n = v.len();
            v[n - 6] ^= 0x5a;
            v
        }
        Body::Dangling(j) | Body::DanglingDedup(j) => {
            let mut t = gunzip_text(&of(j));
            t.push_str("{\"t\":\"e\",\"id\":999999,\"src\":424242,\"tgt\":424243,\"type\":\"R\",\"props\":{}}\n");
            gzip_text(t.as_bytes())
        }
    }
}

fn multipart_request(bytes: &[u8], query: &str) -> axum::http::Request<axum::body::Body> {
    let boundary = "XVERIFBOUNDARYX";
    let mut body: Vec<u8> = vec![];
    body.extend_from_slice(
        format!(
            "--{}\r\nContent-Disposition: form-data; name=\"file\"; filename=\"s.sgsnap\"\r\nContent-Type: application/octet-stream\r\n\r\n",
            boundary
        )
        .as_bytes(),
    );
    body.extend_from_slice(bytes);
    body.extend_from_slice(format!("\r\n--{}--\r\n", boundary).as_bytes());
    axum::http::Request::builder()
        .method("POST")
        .uri(format!("/api/snapshot/import{}", query))
        .header("content-type", format!("multipart/form-data; boundary={}", boundary))
        .body(axum::body::Body::from(body))
        .unwrap()
}

struct HttpStep {
    body: Body,
    status: u16,
    memory_changed: bool,
    restored: String,
}

/// One history through the shipped router (`HttpServer::router()` with a data directory): after
/// every request the in-memory store is dumped and a restart is simulated
/// (`restore_persisted_snapshots` from the data directory into a fresh store).
fn run_http_history(bodies: &[Body], payloads: &[Payload], data: &Path) -> Option<Vec<HttpStep>> {
    use http_body_util::BodyExt;
    use tower::ServiceExt;
    std::fs::create_dir_all(data).ok()?;
    let store = Arc::new(tokio::sync::RwLock::new(GraphStore::new()));
    let server = samyama::http::server::HttpServer::new(Arc::clone(&store), 0).with_data_path(Some(data.to_string_lossy().to_string()));
    let rt = tokio::runtime::Builder::new_current_thread().enable_all().build().ok()?;
    let mut out = vec![];
    for b in bodies {
        let bytes = body_bytes(b, payloads);
        let query = if matches!(b, Body::DanglingDedup(_)) { "?dedup_key=seq" } else { "" };
        let (before, status, after) = rt.block_on(async {
            let before = {
                let g = store.read().await;
                let d = dump_store(&g);
                format!("{}#{}", d.text, d.aux)
            };
            let resp = server.router().oneshot(multipart_request(&bytes, query)).await.ok()?;
            let status = resp.status().as_u16();
            let _ = resp.into_body().collect().await;
            let after = {
                let g = store.read().await;
                let d = dump_store(&g);
                format!("{}#{}", d.text, d.aux)
            };
            Some((before, status, after))
        })?;
        let (restored, _) = restart(data, payloads);
        out.push(HttpStep { body: b.clone(), status, memory_changed: before != after, restored });
    }
    Some(out)
}

fn hist_txt(n: usize) -> String {
    if n == 0 {
        "-".into()
    } else {
        (1..=n).map(|i| i.to_string()).collect::<Vec<_>>().join(",")
    }
}

/// HTTP ack when persisting fails (data_path below a regular file): status code of the reply
fn ack_on_failed_persist(work: &Path, bytes: &[u8]) -> Option<(u16, String)> {
    use axum::body::Body;
    use axum::http::Request;
    use axum::routing::post;
    use axum::Router;
    use http_body_util::BodyExt;
    use samyama::http::handler::restore_snapshot_handler;
    use samyama::http::server::AppState;
    use tower::ServiceExt;
    let blocker = work.join("not-a-dir");
    std::fs::write(&blocker, b"x").ok()?;
    let state = AppState {
        store: Arc::new(tokio::sync::RwLock::new(GraphStore::new())),
        engine: Arc::new(samyama::query::QueryEngine::new()),
        data_path: Some(blocker.join("data").to_string_lossy().to_string()),
        tenant_manager: None,
        embed_pipeline: None,
        embed_cache: Arc::new(tokio::sync::RwLock::new(std::collections::HashMap::new())),
    };
    let app: Router = Router::new().route("/api/snapshot/import", post(restore_snapshot_handler)).with_state(state);
    let boundary = "XVERIFBOUNDARYX";
    let mut body: Vec<u8> = vec![];
    body.extend_from_slice(
        format!(
            "--{}\r\nContent-Disposition: form-data; name=\"file\"; filename=\"s.sgsnap\"\r\nContent-Type: application/octet-stream\r\n\r\n",
            boundary
        )
        .as_bytes(),
    );
    body.extend_from_slice(bytes);
    body.extend_from_slice(format!("\r\n--{}--\r\n", boundary).as_bytes());
    let req = Request::builder()
        .method("POST")
        .uri("/api/snapshot/import")
        .header("content-type", format!("multipart/form-data; boundary={}", boundary))
        .body(Body::from(body))
        .ok()?;
    let rt = tokio::runtime::Builder::new_current_thread().enable_all().build().ok()?;
    rt.block_on(async {
        let resp = app.oneshot(req).await.ok()?;
        let status = resp.status().as_u16();
        let b = resp.into_body().collect().await.ok()?.to_bytes();
        Some((status, String::from_utf8_lossy(&b).to_string()))
    })
}

fn main() {
    let args = Args::parse();
    let known = Known::load(&args.known, "C14");
    let mut rep = Report::new(
        "C14",
        "histories of 1-3 snapshot imports of distinct small graphs; the last persist_snapshot is stopped at every \
         file-system step (process crash: the directory is captured at the snap.* hook point; the mid-write state and all \
         power-loss states are constructed from the model), then restore_persisted_snapshots into a fresh store; \
         non-trivial = the crash point lies strictly inside the persist (not before its first or after its last step); \
         distinct = distinct (history, crash point, power-loss prefix) with distinct programs",
        &args.replays,
        args.seed,
    );
    let mut drv = Driver::spawn(&args.driver_exe("drv_snapfs"));
    let steps_reply = drv.ask("steps 0");
    let model_points: Vec<String> = steps_reply.strip_prefix("ok ").unwrap_or("").split(',').map(|s| s.to_string()).collect();
    let n_steps = model_points.len();

    // histories: lists of graph-building programs
    let mut histories: Vec<Vec<Vec<Op>>> = vec![];
    let mut http_histories: Vec<(Vec<Vec<Op>>, Vec<Body>)> = vec![];
    let mut files: Vec<PathBuf> = vec![];
    if let Some(r) = &args.replay {
        files.push(r.clone());
    } else if let Ok(rd) = std::fs::read_dir(args.corpus.join("C14")) {
        files = rd.filter_map(|e| e.ok().map(|e| e.path())).collect();
        files.sort();
    }
    let mut n_corpus = 0;
    for f in &files {
        for line in std::fs::read_to_string(f).unwrap_or_default().lines() {
            if let Some(rest) = line.trim().strip_prefix("httphist ") {
                let mut it = rest.split(' ');
                let bodies: Option<Vec<Body>> = it.next().map(|b| b.split(',').map(parse_body).collect()).flatten();
                let progs: Option<Vec<Vec<Op>>> = it.map(parse_ops).collect();
                if let (Some(b), Some(p)) = (bodies, progs) {
                    if !p.is_empty() {
                        http_histories.push((p, b));
                        n_corpus += 1;
                    }
                }
                continue;
            }
            if let Some(rest) = line.trim().strip_prefix("hist ") {
                let progs: Option<Vec<Vec<Op>>> = rest.split(' ').map(parse_ops).collect();
                if let Some(p) = progs {
                    histories.push(p);
                    n_corpus += 1;
                }
            }
        }
    }
    rep.count_n("corpus_histories", n_corpus);
    if args.replay.is_none() {
        let mut rng = Rng::new(args.seed);
        let n = if args.thorough() { 300 } else { 40 };
        for i in 0..n {
            let mut r = rng.fork();
            let len = 1 + (i % 3);
            let mut h = vec![];
            for j in 0..len {
                // distinct graphs: each carries a marker node naming its position
                let size = 2 + r.usize(6);
                let mut p = gen_program(&mut r, size, false);
                p.insert(
                    0,
                    Op::Node {
                        method: "api".into(),
                        labels: vec![format!("Snap{}", j + 1)],
                        props: vec![("seq".into(), samyama::graph::PropertyValue::Integer((i * 10 + j) as i64))],
                    },
                );
                h.push(p);
            }
            histories.push(h);
        }
    }

    if args.replay.is_none() {
        // HTTP histories: 1-3 requests mixing good snapshots and bodies failing at different stages
        let mut hr = Rng::new(args.seed ^ 0x4774_9001);
        let per = if args.thorough() { 4 } else { 1 };
        for h in histories.clone().iter() {
            for _ in 0..per {
                let len = 1 + hr.usize(3);
                let mut bodies = vec![];
                for i in 0..len {
                    let j = i % h.len();
                    bodies.push(match hr.usize(14) {
                        0..=5 => Body::Good(j),
                        6 => Body::Garbage,
                        7 => Body::WrongVersion(j),
                        8 | 9 => Body::TruncatedBody(j),
                        10 => Body::TruncatedUpload(j),
                        11 => Body::CorruptTrailer(j),
                        12 => Body::Dangling(j),
                        _ => Body::DanglingDedup(j),
                    });
                }
                // the shape that matters most: an acknowledged import, then a refused one
                if hr.chance(1, 3) && len >= 2 {
                    bodies[0] = Body::Good(0);
                    bodies[1] = match hr.usize(4) {
                        0 => Body::TruncatedBody(1 % h.len()),
                        1 => Body::TruncatedUpload(1 % h.len()),
                        2 => Body::CorruptTrailer(1 % h.len()),
                        _ => Body::Dangling(1 % h.len()),
                    };
                }
                http_histories.push((h.clone(), bodies));
            }
        }
    }
    let events: Arc<Mutex<Vec<(String, PathBuf)>>> = Arc::new(Mutex::new(vec![]));
    let mut chain_rng = Rng::new(args.seed ^ 0x5eed_c14);
    let mut case_no = 0usize;
    let mut first_break: Option<(String, String)> = None;
    let mut handler_checked = false;

    for hist in &histories {
        case_no += 1;
        let n = hist.len();
        let hist_text = format!("hist {}", hist.iter().map(|p| render_ops(p)).collect::<Vec<_>>().join(" "));
        // payloads
        let mut payloads: Vec<Payload> = vec![];
        let mut all = GraphStore::new();
        let mut importable = true;
        for p in hist {
            let b = build(p);
            let mut bytes = vec![];
            export_tenant(&b.store, &mut bytes).expect("export");
            let mut st = GraphStore::new();
            // that an export can be imported at all is C12's subject, not this property's
            if import_tenant(&mut st, &bytes[..]).is_err() || import_tenant(&mut all, &bytes[..]).is_err() {
                importable = false;
                break;
            }
            payloads.push(Payload { bytes, dump: dump_store(&st).text });
        }
        if !importable {
            rep.count("skipped:export-not-importable(C12)");
            continue;
        }
        let union_dump = dump_store(&all).text;
        let distinct = {
            let mut d: Vec<&String> = payloads.iter().map(|p| &p.dump).collect();
            d.sort();
            d.dedup();
            d.len() == payloads.len()
        };
        if !distinct {
            rep.count("skipped:indistinguishable-payloads");
            continue;
        }
        let base = args.work.join(format!("c14-{}", case_no));
        let data = base.join("data");
        std::fs::create_dir_all(&data).unwrap();
        let data_s = data.to_string_lossy().to_string();
        // (d) once: the HTTP acknowledgement when persisting fails
        if !handler_checked {
            handler_checked = true;
            match ack_on_failed_persist(&base, &payloads[0].bytes) {
                Some((status, body)) => {
                    rep.count(&format!("http-ack-on-failed-persist:{}", status));
                    let acked = status == 200 && body.contains("\"status\":\"ok\"");
                    if acked {
                        rep.spec_violation(
                            &known,
                            "ack:persist-failed-acknowledged",
                            "POST /api/snapshot/import answered status ok although persist_snapshot failed",
                            &format!("{}\ndata_path below a regular file (persist_snapshot fails)\nHTTP {} {}", hist_text, status, body),
                        );
                    }
                }
                None => rep.count("http-ack-check-unavailable"),
            }
        }
        // acknowledged prefix
        for p in &payloads[..n - 1] {
            persist_snapshot(&data_s, &p.bytes).expect("persist");
        }
        // the persist under test, captured at every hook point
        events.lock().unwrap().clear();
        let before = base.join("crash-0");
        copy_dir(&data.join("snapshots"), &before.join("snapshots"));
        {
            let ev = Arc::clone(&events);
            let snapdir = data.join("snapshots");
            let base2 = base.clone();
            samyama::verif_hook::install(Arc::new(move |name: &'static str| {
                if !name.starts_with("snap.") {
                    return;
                }
                let mut g = ev.lock().unwrap();
                let d = base2.join(format!("crash-{}", g.len() + 1));
                copy_dir(&snapdir, &d.join("snapshots"));
                g.push((name.to_string(), d));
            }));
        }
        let res = persist_snapshot(&data_s, &payloads[n - 1].bytes);
        samyama::verif_hook::clear();
        if res.is_err() {
            rep.count("persist-error");
            continue;
        }
        let evs: Vec<(String, PathBuf)> = events.lock().unwrap().clone();
        let real_points: Vec<String> = evs.iter().map(|e| e.0.clone()).collect();
        let want_points: Vec<String> = model_points.iter().filter(|p| *p != "-").cloned().collect();
        if real_points != want_points {
            rep.count("model_mismatch:step-sequence");
            if first_break.is_none() {
                first_break = Some((
                    "SgModel.SnapFS.persistSteps = persist_snapshot (sequence of snap.* points)".into(),
                    format!("{}\nimpl points  {:?}\nmodel points {:?}", hist_text, real_points, want_points),
                ));
            }
        }
        let prev = hist_txt(n - 1);
        // (a) process crash at every point
        let mut states: Vec<(String, PathBuf, Option<usize>, bool)> = vec![("before".into(), before.clone(), Some(0), false)];
        for (name, d) in &evs {
            let k = model_points.iter().position(|p| p == name).map(|i| i + 1);
            states.push((name.clone(), d.clone(), k, false));
        }
        // the mid-write state is constructed: the directory at create_tmp with half the payload in tmp
        if let Some((_, d)) = evs.iter().find(|e| e.0 == "snap.create_tmp") {
            let mid = base.join("crash-mid-write");
            copy_dir(&d.join("snapshots"), &mid.join("snapshots"));
            let half = &payloads[n - 1].bytes[..(payloads[n - 1].bytes.len() / 2).max(1)];
            std::fs::write(mid.join("snapshots").join(TMP), half).unwrap();
            let k = model_points.iter().position(|p| p == "-").map(|i| i + 1);
            states.push(("mid-write(constructed)".into(), mid, k, true));
        }
        for (name, d, k, constructed) in &states {
            let view = dir_view(&d.join("snapshots"), &payloads);
            let (restored, dump) = restart(d, &payloads);
            let inside = matches!(k, Some(x) if *x > 0 && *x < n_steps);
            let canon = format!("{} crash {} {}", hist_text, name, n);
            rep.case(&canon, inside);
            rep.count(&format!("process:{}", name));
            rep.count(&format!("restored:{}", restored.split(':').next().unwrap_or("")));
            let spec = drv.ask(&format!("spec {} {} {}", prev, n, restored));
            let body = format!(
                "{}\ncrash-point {} (constructed={})\ndirectory {}\nrestored {}\nspec {}",
                hist_text, name, constructed, view, restored, spec
            );
            if spec != "ok" {
                let sig = if restored == "corrupt" {
                    "crash:partial-or-corrupt-restored".to_string()
                } else if view.ends_with(";-") && !view.starts_with('-') {
                    "crash:committed-marker-missing".to_string()
                } else {
                    format!("crash:{}", restored)
                };
                rep.count(&format!("spec_violation:{}", sig));
                rep.spec_violation(
                    &known,
                    &sig,
                    &format!("a crash at {} during import {} restores `{}` (neither import {} nor {})", name, n, restored, n - 1, n),
                    &body,
                );
                continue;
            }
            // full-strength clause: the restored graph should be that of imports 1..n-1 or 1..n
            if n >= 2 {
                let all_prev = {
                    let mut s = GraphStore::new();
                    for p in &payloads[..n - 1] {
                        import_tenant(&mut s, &p.bytes[..]).unwrap();
                    }
                    dump_store(&s).text
                };
                if dump != all_prev && dump != union_dump {
                    rep.spec_violation(
                        &known,
                        "overwrite:earlier-import-lost",
                        "the restart restores one snapshot, not the graph of all acknowledged imports",
                        &body,
                    );
                }
            }
            if let Some(k) = k {
                let m = drv.ask(&format!("view 0 {} {} {}", prev, n, k));
                let f: Vec<&str> = m.split(' ').collect();
                if f.len() == 4 && (f[1] != view || f[2] != restored) {
                    rep.count("model_mismatch:process-crash");
                    if first_break.is_none() {
                        first_break = Some((
                            "SgModel.SnapFS.step / restoreProcess = persist_snapshot / restore_persisted_snapshots (directory view, restart)".into(),
                            format!("{}\nmodel {}", body, m),
                        ));
                    }
                }
            }
        }
        // (b) power loss: every step, every prefix of the pending directory operations (constructed)
        for k in 0..=n_steps {
            let m = drv.ask(&format!("view 0 {} {} {}", prev, n, k));
            let npend: usize = m.split(' ').nth(3).and_then(|x| x.parse().ok()).unwrap_or(0);
            for p in 0..=npend {
                let m = drv.ask(&format!("power 0 {} {} {} {}", prev, n, k, p));
                let f: Vec<&str> = m.split(' ').collect();
                if f.len() != 3 {
                    continue;
                }
                let d = base.join(format!("power-{}-{}", k, p));
                if !materialise(f[1], &d, &payloads) {
                    continue;
                }
                let (restored, _) = restart(&d, &payloads);
                let inside = k > 0 && k < n_steps;
                rep.case(&format!("{} power {} {} {}", hist_text, k, p, n), inside);
                rep.count("power:constructed-state");
                let spec = drv.ask(&format!("spec {} {} {}", prev, n, restored));
                let body = format!("{}\npower-loss after step {} with {} pending directory ops on disk (constructed)\ndirectory {}\nrestored {}\nmodel {}\nspec {}", hist_text, k, p, f[1], restored, f[2], spec);
                if spec != "ok" {
                    rep.spec_violation(&known, "power:neither-previous-nor-new", &format!("power loss at step {} prefix {} restores `{}`", k, p, restored), &body);
                } else if restored != f[2] {
                    rep.count("model_mismatch:power");
                    if first_break.is_none() {
                        first_break = Some(("SgModel.SnapFS.restorePower = restore_persisted_snapshots on the constructed directory".into(), body));
                    }
                }
            }
        }
        // (c) clean restart after the whole history
        let (restored, dump) = restart(&data, &payloads);
        rep.case(&format!("{} clean {}", hist_text, n), false);
        rep.count("clean-restart");
        let m = drv.ask(&format!("clean 0 {}", hist_txt(n)));
        let body = format!("{}\nclean restart after {} acknowledged imports\nrestored {}\nmodel {}", hist_text, n, restored, m);
        if restored != format!("ok:{}", n) {
            rep.spec_violation(&known, "clean:last-import-missing", &format!("clean restart restores `{}`", restored), &body);
        } else if dump != union_dump {
            rep.spec_violation(
                &known,
                "overwrite:earlier-import-lost",
                "after a clean restart only the last acknowledged import is present",
                &body,
            );
        }
        if m.split(' ').nth(2) != Some(restored.as_str()) {
            rep.count("model_mismatch:clean");
        }
        if rep.samples.len() < 3 {
            rep.sample(json!({"history": hist_text, "points": real_points, "clean_restart": restored}));
        }
        // (e) crash, restart, import again, crash again: the second persist starts from a directory a
        //     crash left behind (left-over tmp file, new final file under the old marker, …)
        if n >= 2 {
            let cdata = base.join("chain-data");
            std::fs::create_dir_all(&cdata).unwrap();
            for p in &payloads[..n - 2] {
                persist_snapshot(&cdata.to_string_lossy(), &p.bytes).expect("persist");
            }
            if let Some(s1) = persist_captured(&cdata, &payloads[n - 2].bytes, &base.join("chain-1")) {
                let picks: Vec<usize> = if args.thorough() {
                    (0..s1.len()).collect()
                } else {
                    let mut v = vec![];
                    for _ in 0..3 {
                        let i = chain_rng.usize(s1.len());
                        if !v.contains(&i) {
                            v.push(i);
                        }
                    }
                    v
                };
                for i1 in picks {
                    let (name1, d1) = &s1[i1];
                    let k1 = if i1 == 0 { Some(0) } else { model_points.iter().position(|p| p == name1).map(|i| i + 1) };
                    let cd = base.join(format!("chain-2-{}", i1));
                    copy_dir(&d1.join("snapshots"), &cd.join("snapshots"));
                    let (baseline, _) = restart(&cd, &payloads);
                    if drv.ask(&format!("spec {} {} {}", hist_txt(n - 2), n - 1, baseline)) != "ok" {
                        rep.spec_violation(
                            &known,
                            "chain:baseline",
                            &format!("a crash at {} during import {} restores `{}`", name1, n - 1, baseline),
                            &format!("{}\ncrash at {} during import {}: restart restores {}", hist_text, name1, n - 1, baseline),
                        );
                        continue;
                    }
                    let Some(s2) = persist_captured(&cd, &payloads[n - 1].bytes, &base.join(format!("chain-3-{}", i1))) else { continue };
                    for (i2, (name2, d2)) in s2.iter().enumerate() {
                        let k2 = if i2 == 0 { Some(0) } else { model_points.iter().position(|p| p == name2).map(|i| i + 1) };
                        let view = dir_view(&d2.join("snapshots"), &payloads);
                        let (restored, _) = restart(d2, &payloads);
                        let inside = i1 > 0 && i1 + 1 < s1.len() && i2 > 0 && i2 + 1 < s2.len();
                        rep.case(&format!("{} chain {}@{} {}@{}", hist_text, n - 1, name1, n, name2), inside);
                        rep.count("chain:crash-restart-persist-crash");
                        let body = format!(
                            "{}\nimport {} crashed at {}; restart restores {}; import {} crashed at {}\ndirectory {}\nrestored {}",
                            hist_text, n - 1, name1, baseline, n, name2, view, restored
                        );
                        if restored != baseline && restored != format!("ok:{}", n) {
                            let sig = if restored == "corrupt" { "chain:partial-or-corrupt-restored" } else { "chain:neither-baseline-nor-new" };
                            rep.count(&format!("spec_violation:{}", sig));
                            rep.spec_violation(
                                &known,
                                sig,
                                &format!("after a crash at {} and a restart (restoring {}), a crash at {} of the next import restores `{}`", name1, baseline, name2, restored),
                                &body,
                            );
                            continue;
                        }
                        if let (Some(k1), Some(k2)) = (k1, k2) {
                            let m = drv.ask(&format!("chain 0 {} {} {} {} {}", hist_txt(n - 2), n - 1, k1, n, k2));
                            let f: Vec<&str> = m.split(' ').collect();
                            if f.len() == 3 && (f[1] != view || f[2] != restored) {
                                rep.count("model_mismatch:chain");
                                if first_break.is_none() {
                                    first_break = Some((
                                        "SgModel.SnapFS.step from a crashed directory = persist_snapshot from a crashed directory".into(),
                                        format!("{}\nmodel {}", body, m),
                                    ));
                                }
                            }
                        }
                    }
                }
            }
        }
        let _ = std::fs::remove_dir_all(&base);
    }
    // (f) the HTTP import path through the shipped router
    for (k, (progs, bodies)) in http_histories.iter().enumerate() {
        let mut payloads: Vec<Payload> = vec![];
        let mut ok = true;
        for p in progs {
            let b = build(p);
            let mut bytes = vec![];
            export_tenant(&b.store, &mut bytes).expect("export");
            let mut st = GraphStore::new();
            if import_tenant(&mut st, &bytes[..]).is_err() {
                ok = false;
                break;
            }
            payloads.push(Payload { bytes, dump: dump_store(&st).text });
        }
        let distinct = {
            let mut d: Vec<&String> = payloads.iter().map(|p| &p.dump).collect();
            d.sort();
            d.dedup();
            d.len() == payloads.len()
        };
        if !ok || !distinct {
            rep.count("skipped:http-history");
            continue;
        }
        let txt = format!(
            "httphist {} {}",
            bodies.iter().map(body_name).collect::<Vec<_>>().join(","),
            progs.iter().map(|p| render_ops(p)).collect::<Vec<_>>().join(" ")
        );
        let data = args.work.join(format!("c14-http-{}", k));
        let Some(steps) = run_http_history(bodies, &payloads, &data) else {
            rep.count("http-history-unavailable");
            continue;
        };
        let mut expected = "nothing".to_string();
        let mut model_reqs: Vec<String> = vec![];
        let mut seen_ack = false;
        for (i, st) in steps.iter().enumerate() {
            let after_ack_refused = seen_ack && st.status != 200;
            rep.case(&format!("{} @{}", txt, i), after_ack_refused);
            rep.count(&format!("http:{}:{}", body_name(&st.body).trim_end_matches(|c: char| c.is_ascii_digit()), st.status));
            let body = format!(
                "{}\nrequest {} = {} -> HTTP {}; in-memory store changed: {}; a restart restores {}; last acknowledged before: {}",
                txt, i, body_name(&st.body), st.status, st.memory_changed, st.restored, expected
            );
            let good = matches!(st.body, Body::Good(_));
            let mut sig: Option<&str> = None;
            if st.status == 200 {
                if !good {
                    sig = Some("http:broken-body-acknowledged");
                } else if let Body::Good(j) = &st.body {
                    expected = format!("ok:{}", (j % payloads.len()) + 1);
                    seen_ack = true;
                    if st.restored != expected {
                        sig = Some("http:acknowledged-import-not-restored");
                    }
                }
                model_reqs.push(format!("{}:1", expected.trim_start_matches("ok:")));
            } else {
                if good {
                    sig = Some("http:good-import-refused");
                } else if st.restored != expected {
                    sig = Some("http:refused-import-changed-what-a-restart-restores");
                } else if st.memory_changed {
                    sig = Some("http:refused-import-changed-memory");
                }
                model_reqs.push(format!("{}:0", 90 + i));
            }
            if let Some(sig) = sig {
                rep.count(&format!("spec_violation:{}", sig));
                rep.spec_violation(
                    &known,
                    sig,
                    &format!("POST /api/snapshot/import #{} ({}) answered {}; a restart now restores `{}`, the last acknowledged import is `{}`", i, body_name(&st.body), st.status, st.restored, expected),
                    &body,
                );
                break;
            }
            let m = drv.ask(&format!("http {}", model_reqs.join(",")));
            if m.split(' ').nth(2) != Some(st.restored.as_str()) {
                rep.count("model_mismatch:http");
                if first_break.is_none() {
                    first_break = Some(("SgModel.SnapFS.handleAll / restoreProcess = the HTTP import handler followed by a restart".into(), format!("{}\nmodel {}", body, m)));
                }
            }
        }
        let _ = std::fs::remove_dir_all(&data);
    }
    if let Some((name, body)) = first_break {
        if rep.spec_violations.is_empty() {
            rep.correspondence_break(&name, "model and implementation differ although the specification holds on every explored case", &body);
        }
    }
    rep.write(&args.out);
}
