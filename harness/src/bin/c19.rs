//! C19 — writes acknowledged by the server survive a restart.
//!
//! One case = one history of write requests sent to **one** store through the real
//! `CommandHandler::handle_command` (RESP values built in-process) and the shipped axum router
//! (`tower::ServiceExt::oneshot`), with persistence enabled in a fresh directory under
//! `args.work`; then a restart: everything is dropped, a new `PersistenceManager` is opened on
//! the same directory and the store is rebuilt by the recovery loop of
//! `src/main.rs::start_server`.  `start_server` itself is not callable (it parses argv and
//! binds sockets), so `recover_like_main` below is a **trusted, verbatim transcription** of
//! that loop (main.rs "Recover persisted data from RocksDB" + the HA-08 snapshot fallback).
//!
//! The harness reads off the real store, after every acknowledged request, the entity-level
//! difference (created / changed / deleted nodes and relationships, by id) and the ids the
//! reply returned; that history of effects is what the Lean model (`drv_ackdurable`) replays
//! to predict the recovered graph and, per lost entity, its cause.
//!   * S (specification, evaluated by the Lean driver on the real observations): recovered = memory.
//!   * loss predicted by the model  → the model's cause is the signature (known findings);
//!   * loss **not** predicted by the model → signature `unexplained:…` → VIOLATION;
//!   * model predicts a loss that does not happen → correspondence break.
#[path = "front/mod.rs"]
mod front;
use front::*;
use samyama::graph::{EdgeId, GraphStore, NodeId, PropertyValue};
use samyama::http::HttpServer;
use samyama::persistence::PersistenceManager;
use samyama::protocol::{CommandHandler, RespValue};
use serde_json::json;
use std::collections::{BTreeMap, BTreeSet, HashMap};
use std::path::Path;
use std::sync::Arc;
use tokio::sync::RwLock;
use vharness::{driver, Args, Known, Report, Rng};

// ---------------------------------------------------------------- id-keyed snapshot of a store

#[derive(Clone, Debug, PartialEq, Eq, Default)]
struct Snap {
    nodes: BTreeMap<u64, String>,
    /// id -> (src, tgt, type+props)
    edges: BTreeMap<u64, (u64, u64, String)>,
}

fn snap(store: &GraphStore) -> Snap {
    let mut s = Snap::default();
    let ids: BTreeSet<u64> = store.all_nodes().iter().map(|n| n.id.as_u64()).collect();
    for i in ids {
        if let Some(d) = node_desc(store, NodeId::new(i)) {
            s.nodes.insert(i, d);
        }
    }
    for e in store.all_edges() {
        let props: HashMap<String, PropertyValue> = e.properties.iter().map(|(k, v)| (k.clone(), v.clone())).collect();
        let mut ps: Vec<String> = props.iter().filter(|(_, v)| !matches!(v, PropertyValue::Null)).map(|(k, v)| format!("{}={}", esc(k), pv_text(v))).collect();
        ps.sort();
        s.edges.insert(e.id.as_u64(), (e.source.as_u64(), e.target.as_u64(), format!("[{}|{}]", esc(e.edge_type.as_str()), ps.join(","))));
    }
    let _ = EdgeId::new(0);
    s
}

// ---------------------------------------------------------------- trusted transcription of main.rs

/// `src/main.rs::start_server`, from "Initialize persistence FIRST" to "Graph Statistics",
/// verbatim except that `println!`/`eprintln!` lines are dropped, `--data-path` is `path`, and the
/// relationships refused by `insert_recovered_edge` are also collected for the harness.
/// Returns the store the restarted server would serve, and the persistence manager (kept
/// alive by the caller like `start_server` does).
fn recover_like_main(path: &str) -> (GraphStore, Option<Arc<PersistenceManager>>, Vec<samyama::graph::Edge>) {
    // not in main.rs: the stored relationships which recovery refuses (side channel for the harness)
    let mut refused_edges = vec![];
    let (mut graph, _rx) = GraphStore::with_async_indexing();

    let persistence = match samyama::PersistenceManager::new(path) {
        Ok(pm) => Some(Arc::new(pm)),
        Err(_e) => None,
    };

    // Recover persisted data from RocksDB
    let mut recovered = false;
    if let Some(ref pm) = persistence {
        match pm.list_persisted_tenants() {
            Ok(tenants) if !tenants.is_empty() => {
                for tenant in &tenants {
                    match pm.recover(tenant) {
                        Ok((nodes, edges)) => {
                            for node in nodes {
                                graph.insert_recovered_node(node);
                            }
                            for edge in edges {
                                let copy = edge.clone();
                                if let Err(_e) = graph.insert_recovered_edge(edge) {
                                    refused_edges.push(copy);
                                }
                            }
                            recovered = true;
                        }
                        Err(_e) => {}
                    }
                }
            }
            Ok(_) => {}
            Err(_e) => {}
        }
    }

    // (demo data: `--demo` is not given)

    // HA-08: If no RocksDB recovery happened, replay the last committed .sgsnap
    // snapshot from <data_path>/snapshots/ so imports survive restart.
    if !recovered {
        match samyama::snapshot::persist::restore_persisted_snapshots(path, &mut graph) {
            Ok(Some(_stats)) => {}
            Ok(None) => {}
            Err(_e) => {}
        }
    }
    (graph, persistence, refused_edges)
}

// ---------------------------------------------------------------- requests

#[derive(Clone, Debug, PartialEq)]
enum Fe {
    Resp,
    Http,
}

#[derive(Clone, Debug)]
enum Rq {
    Query(Fe, String),
    GraphDelete,
    /// the server is stopped and started again on the same data directory
    Restart,
    /// `CREATE (n:Other {k: -1}) RETURN n` addressed to the graph name `other`: both front ends
    /// refuse it (this build serves one graph); it must leave memory and disk alone
    OtherGraph(Fe),
}

fn show_rq(r: &Rq) -> String {
    match r {
        Rq::Query(Fe::Resp, q) => format!("R {}", escape(q)),
        Rq::Query(Fe::Http, q) => format!("H {}", escape(q)),
        Rq::GraphDelete => "GD".into(),
        Rq::Restart => "RS".into(),
        Rq::OtherGraph(Fe::Resp) => "OG R".into(),
        Rq::OtherGraph(Fe::Http) => "OG H".into(),
    }
}

fn parse_hist(line: &str) -> Vec<Rq> {
    line.split(" ;; ")
        .filter_map(|p| {
            let p = p.trim();
            if p == "GD" {
                Some(Rq::GraphDelete)
            } else if p == "RS" {
                Some(Rq::Restart)
            } else if p == "OG R" {
                Some(Rq::OtherGraph(Fe::Resp))
            } else if p == "OG H" {
                Some(Rq::OtherGraph(Fe::Http))
            } else if let Some(q) = p.strip_prefix("R ") {
                Some(Rq::Query(Fe::Resp, unescape(q)))
            } else if let Some(q) = p.strip_prefix("H ") {
                Some(Rq::Query(Fe::Http, unescape(q)))
            } else {
                None
            }
        })
        .collect()
}

/// clause kind of a statement (names the finding): the first of these that occurs
fn kind_of(q: &str) -> char {
    let u = q.to_uppercase();
    let has = |w: &str| u.split(|c: char| !c.is_ascii_alphanumeric()).any(|x| x == w);
    if has("DELETE") {
        'd'
    } else if has("REMOVE") {
        'r'
    } else if has("MERGE") {
        'm'
    } else if has("SET") {
        // `SET n:Label`
        let after: String = u.split("SET").nth(1).unwrap_or("").chars().take_while(|c| *c != '=').collect();
        if after.contains(':') && !after.contains('.') && !u.split("SET").nth(1).unwrap_or("").contains('=') {
            'l'
        } else {
            's'
        }
    } else {
        'c'
    }
}

fn lead_is_write(q: &str) -> bool {
    let first = q.trim().split(|c: char| !c.is_ascii_alphanumeric()).next().unwrap_or("").to_uppercase();
    ["CREATE", "MERGE", "SET", "DELETE", "DETACH", "REMOVE", "FOREACH"].contains(&first.as_str())
}

// ---------------------------------------------------------------- one history on the real server

struct Step {
    rq: Rq,
    acked: bool,
    /// model request text, None when the request was not acknowledged
    model: Option<String>,
    muts_n: Vec<u64>,
    muts_e: Vec<u64>,
    ret_n: Vec<u64>,
    ret_e: Vec<u64>,
}

struct Real {
    steps: Vec<Step>,
    mem: Snap,
    rec: Snap,
    /// an unacknowledged request changed memory: the history is not usable
    tainted: bool,
    /// synthetic model requests that establish the state the epoch starts from
    prefix: Vec<String>,
    /// relationships stored on disk but absent from the store the epoch starts from
    dangling: Vec<u64>,
}

/// ids of the entities a RESP reply returns as **whole-entity cells** (`[header, row, row, …]`,
/// a cell `Node(NodeId(3))` / `Edge(EdgeId(1), 1 -> 2)`).  An entity inside a list cell
/// (`RETURN collect(n)`) is not a `Value::Node` of the row and is not persisted by the handler.
fn ids_in_resp(v: &RespValue, ns: &mut Vec<u64>, es: &mut Vec<u64>) {
    let RespValue::Array(rows) = v else { return };
    for row in rows.iter().skip(1) {
        let RespValue::Array(cells) = row else { continue };
        for c in cells {
            if let RespValue::BulkString(Some(b)) = c {
                let s = String::from_utf8_lossy(b);
                if let Some(r) = s.strip_prefix("Node(NodeId(") {
                    if let Ok(i) = r.trim_end_matches(')').parse() {
                        ns.push(i);
                    }
                } else if let Some(r) = s.strip_prefix("Edge(EdgeId(") {
                    if let Ok(i) = r.split(')').next().unwrap_or("").parse() {
                        es.push(i);
                    }
                }
            }
        }
    }
}

fn ids_in_json(v: &serde_json::Value, ns: &mut Vec<u64>, es: &mut Vec<u64>) {
    for r in v["records"].as_array().cloned().unwrap_or_default() {
        for c in r.as_array().cloned().unwrap_or_default() {
            if let Some(o) = c.as_object() {
                let id = o.get("id").and_then(|i| i.as_str()).and_then(|i| i.parse().ok());
                if let Some(id) = id {
                    if o.contains_key("labels") {
                        ns.push(id);
                    } else if o.contains_key("source") {
                        es.push(id);
                    }
                }
            }
        }
    }
}

struct Interner(HashMap<String, u64>);
impl Interner {
    fn code(&mut self, s: &str) -> u64 {
        let n = self.0.len() as u64 + 1;
        *self.0.entry(s.to_string()).or_insert(n)
    }
}

fn edge_entry(e: &samyama::graph::Edge) -> (u64, (u64, u64, String)) {
    let props: HashMap<String, PropertyValue> = e.properties.iter().map(|(k, v)| (k.clone(), v.clone())).collect();
    let mut ps: Vec<String> = props.iter().filter(|(_, v)| !matches!(v, PropertyValue::Null)).map(|(k, v)| format!("{}={}", esc(k), pv_text(v))).collect();
    ps.sort();
    (e.id.as_u64(), (e.source.as_u64(), e.target.as_u64(), format!("[{}|{}]", esc(e.edge_type.as_str()), ps.join(","))))
}

/// One history = one or more epochs separated by `RS` (restart).  Every epoch is evaluated
/// against the restart that ends it; the epoch after a restart starts from the recovered store.
/// For the model, an epoch that starts from a non-empty data directory is prefixed with
/// synthetic requests that put the model in that state: one RESP create that returns
/// everything stored (memory = disk), then a RESP delete of the relationships recovery refused
/// (they stay on disk, they are not in memory).
fn run_history(rt: &tokio::runtime::Runtime, dir: &Path, hist: &[Rq], codes: &mut Interner) -> Vec<Real> {
    let path = dir.to_str().unwrap().to_string();
    let mut out = vec![];
    // first boot on an empty data directory: the same code path as any boot
    let mut boot = recover_like_main(&path);
    for epoch in hist.split(|r| matches!(r, Rq::Restart)) {
        let (graph, persistence, refused) = boot;
        let mut steps = vec![];
        let mut tainted = false;
        let mem;
        let mut prefix: Vec<String> = vec![];
        let dangling: Vec<u64>;
        {
            let pm = persistence.expect("persistence manager");
            let store: Shared = Arc::new(RwLock::new(graph));
            let tenants = pm.tenants_arc();
            let handler = CommandHandler::new_with_tenants(Some(Arc::clone(&pm)), Arc::clone(&tenants));
            let http = HttpServer::new(Arc::clone(&store), 0).with_data_path(Some(path.clone())).with_tenant_manager(Arc::clone(&tenants));
            let mut before = rt.block_on(async { snap(&*store.read().await) });
            // Stored relationships that are not in the recovered store.  Read straight from the
            // storage layer (read-only) and not only from the refusals of `insert_recovered_edge`:
            // when no node is stored, `list_persisted_tenants` lists nothing and recovery does
            // not even look at the stored relationships — they are still on disk.
            let mut refused = refused;
            if let Ok(stored) = pm.storage().scan_edges("default") {
                for e in stored {
                    if !before.edges.contains_key(&e.id.as_u64()) && !refused.iter().any(|r| r.id == e.id) {
                        refused.push(e);
                    }
                }
            }
            dangling = refused.iter().map(|e| e.id.as_u64()).collect();
            if !before.nodes.is_empty() || !before.edges.is_empty() || !refused.is_empty() {
                let mut muts: Vec<String> = before.nodes.iter().map(|(i, d)| format!("n{}={}", i, codes.code(d))).collect();
                let mut eids: Vec<u64> = vec![];
                let stored: Vec<(u64, (u64, u64, String))> = before.edges.iter().map(|(i, v)| (*i, v.clone())).chain(refused.iter().map(edge_entry)).collect();
                for (i, (s, t, d)) in &stored {
                    muts.push(format!("e{}={}.{}.{}", i, s, t, codes.code(d)));
                    eids.push(*i);
                }
                let join = |v: Vec<String>| if v.is_empty() { "-".to_string() } else { v.join(".") };
                prefix.push(format!(
                    "Qrc/{}/{}/{}",
                    muts.join(","),
                    join(before.nodes.keys().map(|i| i.to_string()).collect()),
                    join(eids.iter().map(|i| i.to_string()).collect())
                ));
                if !refused.is_empty() {
                    prefix.push(format!("Qrd/{}/-/-", refused.iter().map(|e| format!("e{}x", e.id.as_u64())).collect::<Vec<_>>().join(",")));
                }
            }
            for rq in epoch {
                let (acked, ret_n, ret_e) = rt.block_on(async {
                    let mut ns = vec![];
                    let mut es = vec![];
                    match rq {
                        Rq::Query(Fe::Resp, q) => {
                            let r = run_resp(&handler, &store, q).await;
                            ids_in_resp(&r, &mut ns, &mut es);
                            (!matches!(r, RespValue::Error(_)), ns, es)
                        }
                        Rq::Query(Fe::Http, q) => {
                            use http_body_util::BodyExt;
                            use tower::ServiceExt;
                            let body = json!({ "query": q }).to_string();
                            let req = axum::http::Request::builder().method("POST").uri("/api/query").header("content-type", "application/json").body(axum::body::Body::from(body)).unwrap();
                            let resp = http.router().oneshot(req).await.unwrap();
                            let ok = resp.status().as_u16() == 200;
                            let bytes = resp.into_body().collect().await.unwrap().to_bytes();
                            let j: serde_json::Value = serde_json::from_slice(&bytes).unwrap_or(json!({}));
                            ids_in_json(&j, &mut ns, &mut es);
                            (ok && j.get("error").is_none(), ns, es)
                        }
                        Rq::GraphDelete => {
                            let r = run_resp_cmd(&handler, &store, &["GRAPH.DELETE", "default"]).await;
                            (matches!(r, RespValue::SimpleString(_)), ns, es)
                        }
                        Rq::OtherGraph(Fe::Resp) => {
                            let r = run_resp_cmd(&handler, &store, &["GRAPH.QUERY", "other", "CREATE (n:Other {k: -1}) RETURN n"]).await;
                            ids_in_resp(&r, &mut ns, &mut es);
                            (!matches!(r, RespValue::Error(_)), ns, es)
                        }
                        Rq::OtherGraph(Fe::Http) => {
                            use http_body_util::BodyExt;
                            use tower::ServiceExt;
                            let body = json!({ "query": "CREATE (n:Other {k: -1}) RETURN n", "graph": "other" }).to_string();
                            let req = axum::http::Request::builder().method("POST").uri("/api/query").header("content-type", "application/json").body(axum::body::Body::from(body)).unwrap();
                            let resp = http.router().oneshot(req).await.unwrap();
                            let ok = resp.status().as_u16() == 200;
                            let bytes = resp.into_body().collect().await.unwrap().to_bytes();
                            let j: serde_json::Value = serde_json::from_slice(&bytes).unwrap_or(json!({}));
                            ids_in_json(&j, &mut ns, &mut es);
                            (ok && j.get("error").is_none(), ns, es)
                        }
                        Rq::Restart => unreachable!(),
                    }
                });
                let after = rt.block_on(async { snap(&*store.read().await) });
                // entity-level difference
                let mut muts: Vec<String> = vec![];
                let mut muts_n = vec![];
                let mut muts_e = vec![];
                for i in before.edges.keys() {
                    if !after.edges.contains_key(i) {
                        muts.push(format!("e{}x", i));
                        muts_e.push(*i);
                    }
                }
                for i in before.nodes.keys() {
                    if !after.nodes.contains_key(i) {
                        muts.push(format!("n{}x", i));
                        muts_n.push(*i);
                    }
                }
                for (i, d) in &after.nodes {
                    if before.nodes.get(i) != Some(d) {
                        muts.push(format!("n{}={}", i, codes.code(d)));
                        muts_n.push(*i);
                    }
                }
                for (i, (s, t, d)) in &after.edges {
                    if before.edges.get(i) != Some(&(*s, *t, d.clone())) {
                        muts.push(format!("e{}={}.{}.{}", i, s, t, codes.code(d)));
                        muts_e.push(*i);
                    }
                }
                let ids = |v: &Vec<u64>| if v.is_empty() { "-".to_string() } else { v.iter().map(|x| x.to_string()).collect::<Vec<_>>().join(".") };
                let model = if !acked {
                    if !muts.is_empty() {
                        tainted = true;
                    }
                    None
                } else {
                    Some(match rq {
                        Rq::GraphDelete => "GD".to_string(),
                        Rq::Restart => unreachable!(),
                        // acknowledged although addressed to another graph: modelled as the statement it ran
                        Rq::OtherGraph(fe) => format!(
                            "Q{}c/{}/{}/{}",
                            if *fe == Fe::Resp { 'r' } else { 'h' },
                            if muts.is_empty() { "-".to_string() } else { muts.join(",") },
                            ids(&ret_n),
                            ids(&ret_e)
                        ),
                        Rq::Query(fe, q) => format!(
                            "Q{}{}/{}/{}/{}",
                            if *fe == Fe::Resp { 'r' } else { 'h' },
                            kind_of(q),
                            if muts.is_empty() { "-".to_string() } else { muts.join(",") },
                            ids(&ret_n),
                            ids(&ret_e)
                        ),
                    })
                };
                steps.push(Step { rq: rq.clone(), acked, model, muts_n, muts_e, ret_n, ret_e });
                before = after;
            }
            mem = before;
            // shutdown: the process ends; nothing is flushed explicitly by the server either
            drop(http);
            drop(handler);
            drop(store);
            drop(tenants);
            drop(pm);
        }
        // restart on the same data directory
        boot = recover_like_main(&path);
        let rec = snap(&boot.0);
        out.push(Real { steps, mem, rec, tainted, prefix, dangling });
    }
    out
}

// ---------------------------------------------------------------- generator

struct Gen {
    next_k: i64,
    /// keys (`k` property) of nodes believed alive, `w` of relationships believed alive
    nodes: Vec<i64>,
    rels: Vec<i64>,
}

/// node shapes: label sets and property values of several types
const NODE_LABELS: &[&str] = &[":L", ":L", ":L:Extra", ":A:B:C", "", ":Q"];
const NODE_PROPS: &[&str] = &[
    "",
    ", s: 'a b'",
    ", f: 1.5, b: true",
    ", t: [1, 2, 3], u: ['x', 'y z']",
    ", s: 'h\u{e9}llo \u{4e16}', neg: -7",
    ", e: '', z: 0, big: 9007199254740993",
];
/// relationship shapes: type and properties (the first has no property besides the key)
const REL_SHAPES: &[(&str, &str)] = &[("T", ""), ("T", ", s: 'x y'"), ("U", ", f: 2.5, b: false"), ("LONGER_TYPE", ", t: [1, 2]")];

impl Gen {
    fn fresh(&mut self) -> i64 {
        self.next_k += 1;
        self.next_k
    }
    fn node(&mut self, rng: &mut Rng, var: &str) -> String {
        let k = self.fresh();
        self.nodes.push(k);
        format!("({}{} {{k: {}{}}})", var, rng.pick(NODE_LABELS), k, rng.pick(NODE_PROPS))
    }
    fn rel(&mut self, rng: &mut Rng, var: &str) -> String {
        if rng.chance(1, 5) {
            // no property at all (it cannot be addressed later)
            return format!("[{}:BARE]", var);
        }
        let w = self.fresh();
        self.rels.push(w);
        let (t, p) = rng.pick(REL_SHAPES);
        format!("[{}:{} {{w: {}{}}}]", var, t, w, p)
    }
    fn request(&mut self, rng: &mut Rng) -> Rq {
        let fe = if rng.chance(3, 4) { Fe::Resp } else { Fe::Http };
        let ret = rng.chance(1, 2);
        let have_n = !self.nodes.is_empty();
        let have_two = self.nodes.len() >= 2;
        let have_r = !self.rels.is_empty();
        loop {
            let c = rng.usize(31);
            let q = match c {
                0 => {
                    let n = self.node(rng, "n");
                    format!("CREATE {}{}", n, if ret { " RETURN n" } else { "" })
                }
                1 => {
                    let (a, r, b) = (self.node(rng, "a"), self.rel(rng, "r"), self.node(rng, "b"));
                    let tail = match rng.usize(6) {
                        0 => "",
                        1 => " RETURN r",
                        2 => " RETURN a",
                        3 => " RETURN b, r, a",
                        _ => " RETURN a, r, b",
                    };
                    format!("CREATE {}-{}->{}{}", a, r, b, tail)
                }
                2 if have_two => {
                    let a = *rng.pick(&self.nodes);
                    let b = *rng.pick(&self.nodes);
                    let r = self.rel(rng, "r");
                    let tail = match rng.usize(3) {
                        0 => "",
                        1 => " RETURN r",
                        _ => " RETURN a, r, b",
                    };
                    format!("MATCH (a {{k: {}}}), (b {{k: {}}}) CREATE (a)-{}->(b){}", a, b, r, tail)
                }
                3 | 4 if have_n => {
                    let k = *rng.pick(&self.nodes);
                    let v = match rng.usize(4) {
                        0 => "2.25".to_string(),
                        1 => "'p q'".to_string(),
                        2 => "[4, 5]".to_string(),
                        _ => self.fresh().to_string(),
                    };
                    format!("MATCH (n {{k: {}}}) SET n.x = {}{}", k, v, if ret { " RETURN n" } else { "" })
                }
                5 if have_n => {
                    let k = *rng.pick(&self.nodes);
                    format!("MATCH (n {{k: {}}})\nSET n.y = {}{}", k, self.fresh(), if ret { "\nRETURN n" } else { "" })
                }
                6 if have_n => {
                    let k = *rng.pick(&self.nodes);
                    format!("MATCH (n {{k: {}}}) REMOVE n.x{}", k, if ret { " RETURN n" } else { "" })
                }
                7 if have_n => {
                    let k = *rng.pick(&self.nodes);
                    format!("MATCH (n {{k: {}}}) SET n:Extra{}", k, if ret { " RETURN n" } else { "" })
                }
                8 if have_n => {
                    let i = rng.usize(self.nodes.len());
                    let k = self.nodes.remove(i);
                    format!("MATCH (n {{k: {}}}) DETACH DELETE n", k)
                }
                9 if have_r => {
                    let w = *rng.pick(&self.rels);
                    format!("MATCH ()-[r {{w: {}}}]->() SET r.v = {}{}", w, self.fresh(), if ret { " RETURN r" } else { "" })
                }
                10 if have_r => {
                    let i = rng.usize(self.rels.len());
                    let w = self.rels.remove(i);
                    format!("MATCH ()-[r {{w: {}}}]->() DELETE r", w)
                }
                11 => {
                    let k = self.fresh();
                    self.nodes.push(k);
                    format!("MERGE (n:L {{k: {}}}){}", k, if ret { " RETURN n" } else { "" })
                }
                12 if have_n => {
                    let k = *rng.pick(&self.nodes);
                    format!("MERGE (n:L {{k: {}}}) ON MATCH SET n.seen = {} ON CREATE SET n.made = 1{}", k, self.fresh(), if ret { " RETURN n" } else { "" })
                }
                13 => {
                    let (a, b) = (self.fresh(), self.fresh());
                    self.nodes.push(a);
                    self.nodes.push(b);
                    format!("UNWIND [{}, {}] AS x CREATE (n:L {{k: x}}){}", a, b, if ret { " RETURN n" } else { "" })
                }
                14 if have_n => {
                    // every node, many rows
                    format!("MATCH (n) SET n.all = {}{}", self.fresh(), if ret { " RETURN n" } else { "" })
                }
                15 if have_n && fe == Fe::Resp && rng.chance(1, 3) => {
                    self.nodes.clear();
                    self.rels.clear();
                    return Rq::GraphDelete;
                }
                16 if have_n => {
                    let k = *rng.pick(&self.nodes);
                    format!("MATCH (n {{k: {}}}) SET n.x = {}, n:Tag RETURN n", k, self.fresh())
                }
                17 if have_n => {
                    let k = *rng.pick(&self.nodes);
                    format!("MATCH (n {{k: {}}}) REMOVE n:Extra{}", k, if ret { " RETURN n" } else { "" })
                }
                18 if have_n => {
                    // returned under an alias, next to a scalar
                    let k = *rng.pick(&self.nodes);
                    format!("MATCH (n {{k: {}}}) SET n.al = {} RETURN n.k AS key, n AS m", k, self.fresh())
                }
                19 if have_n => {
                    // returned only inside a list: not a whole-entity cell
                    let k = *rng.pick(&self.nodes);
                    format!("MATCH (n {{k: {}}}) SET n.li = {} RETURN collect(n) AS ns", k, self.fresh())
                }
                20 if have_n => {
                    // self loop, relationship without properties besides the key
                    let k = *rng.pick(&self.nodes);
                    let w = self.fresh();
                    self.rels.push(w);
                    format!("MATCH (a {{k: {}}}) CREATE (a)-[r:SELF {{w: {}}}]->(a){}", k, w, if ret { " RETURN r" } else { "" })
                }
                21 if have_two => {
                    // relationship with no property at all
                    let a = *rng.pick(&self.nodes);
                    let b = *rng.pick(&self.nodes);
                    format!("MATCH (a {{k: {}}}), (b {{k: {}}}) CREATE (a)-[r:BARE]->(b){}", a, b, if ret { " RETURN r" } else { "" })
                }
                22 if have_r => {
                    let w = *rng.pick(&self.rels);
                    format!("MATCH (a)-[r {{w: {}}}]->(b) SET r.s = 'q r', a.touched = {} RETURN a, r, b", w, self.fresh())
                }
                23 if have_n => {
                    let k = *rng.pick(&self.nodes);
                    format!("MATCH (n {{k: {}}}) SET n += {{m1: 1, m2: 'two'}}{}", k, if ret { " RETURN n" } else { "" })
                }
                24 => {
                    // node without any label and without further properties
                    let k = self.fresh();
                    self.nodes.push(k);
                    format!("CREATE (n {{k: {}}}){}", k, if ret { " RETURN n" } else { "" })
                }
                25 if have_n && rng.chance(1, 3) => {
                    // refused: this build serves one graph; must change nothing anywhere
                    return Rq::OtherGraph(fe);
                }
                26 if have_n && rng.chance(1, 2) => return Rq::Restart,
                // --- the durable image must be the FINAL state: one entity returned by several
                //     rows while a per-row SET changes it
                27 if have_n => {
                    let k = *rng.pick(&self.nodes);
                    let (a, b, c) = (self.fresh(), self.fresh(), self.fresh());
                    format!("UNWIND [{}, {}, {}] AS x MATCH (n {{k: {}}}) SET n.last = x{}", a, b, c, k, if ret { " RETURN n" } else { "" })
                }
                28 if have_n => {
                    // …and returned twice in every row, with a label change
                    let k = *rng.pick(&self.nodes);
                    let (a, b) = (self.fresh(), self.fresh());
                    format!("UNWIND [{}, {}] AS x MATCH (n {{k: {}}}) SET n.cnt = x, n:Seen RETURN n, n AS m, x", a, b, k)
                }
                29 if have_r => {
                    let w = *rng.pick(&self.rels);
                    let (a, b, c) = (self.fresh(), self.fresh(), self.fresh());
                    format!("UNWIND [{}, {}, {}] AS x MATCH (a)-[r {{w: {}}}]->(b) SET r.last = x, a.via = x RETURN a, r, b", a, b, c, w)
                }
                30 if have_n => {
                    // self-referential increment over the rows, every node hit once per row
                    let k = *rng.pick(&self.nodes);
                    format!("UNWIND [1, 2, 3] AS x MATCH (n {{k: {}}}) SET n.acc = n.k + x * {} RETURN n", k, self.fresh())
                }
                _ => continue,
            };
            return Rq::Query(fe, q);
        }
    }
}

/// "final state" histories: a hub with leaves, all stored; then statements that return the hub
/// (and/or a relationship) once per row while changing it in every row — hub-and-leaves MATCH
/// with a self-referential increment, UNWIND-driven SET, an entity returned twice in a row —
/// next to entities returned once.  Every statement returns everything it changes: the
/// history is durable (C19_partial, C19_returned_stored_final).
fn gen_final_state(rng: &mut Rng) -> Vec<Rq> {
    let mut k = 0i64;
    let mut fresh = || {
        k += 1;
        k
    };
    let hub = fresh();
    let mut h = vec![Rq::Query(Fe::Resp, format!("CREATE (h:Hub {{k: {}, visits: 0}}) RETURN h", hub))];
    let n_leaves = 2 + rng.usize(3);
    let mut ws = vec![];
    for _ in 0..n_leaves {
        let (w, l) = (fresh(), fresh());
        ws.push(w);
        h.push(Rq::Query(Fe::Resp, format!("MATCH (h:Hub {{k: {}}}) CREATE (h)-[r:LINK {{w: {}}}]->(l:Leaf {{k: {}, seen: false}}) RETURN r, l", hub, w, l)));
    }
    if rng.chance(1, 3) {
        h.push(Rq::Restart);
    }
    for _ in 0..1 + rng.usize(3) {
        let q = match rng.usize(6) {
            0 => format!("MATCH (h:Hub {{k: {}}})-[:LINK]->(l:Leaf) SET h.visits = h.visits + 1, l.seen = true RETURN h, l", hub),
            1 => format!("UNWIND [10, 20, 30] AS x MATCH (h:Hub)-[r:LINK {{w: {}}}]->(l:Leaf) SET r.last = x RETURN h, r, l", rng.pick(&ws)),
            2 => format!("MATCH (h:Hub {{k: {}}})-[r:LINK]->(l:Leaf) SET h.visits = h.visits + 1, r.hops = h.visits, h:Busy RETURN h, r, h AS again", hub),
            3 => format!("UNWIND [1, 2] AS x MATCH (h:Hub {{k: {}}}) SET h.visits = h.visits + x RETURN h, h AS m", hub),
            4 => format!("MATCH (h:Hub {{k: {}}})-[:LINK]->(l:Leaf) SET h.tally = l.k, l.rank = h.visits RETURN l, h", hub),
            _ => format!("UNWIND [5, 6, 7] AS x MATCH (h:Hub {{k: {}}})-[r:LINK]->(l:Leaf) SET r.pass = x, l.pass = x, h.visits = h.visits + 1 RETURN h, r, l", hub),
        };
        h.push(Rq::Query(Fe::Resp, q));
    }
    h
}

/// "recycled id" histories: `GraphStore` hands the id of a deleted relationship / node to the
/// next one created.  A durable relationship (or node) is deleted — the delete is not durable,
/// a known finding — and right after it a new one is created **and returned**, with other
/// endpoints, another type, other labels and properties: it reuses the freed id, and the record
/// stored under that id must become the new entity in every component.
fn gen_recycle(rng: &mut Rng) -> Vec<Rq> {
    let mut k = 0i64;
    let mut fresh = || {
        k += 1;
        k
    };
    let fe_del = |rng: &mut Rng| if rng.chance(1, 4) { Fe::Http } else { Fe::Resp };
    let (a, b, c, d) = (fresh(), fresh(), fresh(), fresh());
    let w0 = fresh();
    let mut h = vec![
        Rq::Query(Fe::Resp, format!("CREATE (a:P {{k: {}, name: 'a'}})-[r:KNOWS {{w: {}, since: 2020}}]->(b:P {{k: {}, name: 'b'}}) RETURN a, r, b", a, w0, b)),
        Rq::Query(Fe::Resp, format!("CREATE (c:Q:Extra {{k: {}, f: 1.5}}) RETURN c", c)),
        Rq::Query(Fe::Resp, format!("CREATE (d {{k: {}}}) RETURN d", d)),
    ];
    if rng.chance(1, 3) {
        h.push(Rq::Restart);
    }
    let mut live_rel = Some(w0);
    for _ in 0..1 + rng.usize(3) {
        match (rng.usize(3), live_rel) {
            (0 | 1, Some(w)) => {
                // delete the relationship, then create one between other nodes: LIFO reuse of its id
                h.push(Rq::Query(fe_del(rng), format!("MATCH ()-[r {{w: {}}}]->() DELETE r", w)));
                let w2 = fresh();
                let (x, y) = *rng.pick(&[(b, c), (c, d), (d, a), (c, c)]);
                let ty = *rng.pick(&["LIKES", "KNOWS", "T"]);
                let tail = *rng.pick(&[" RETURN r", " RETURN x, r, y", " RETURN r, r AS again"]);
                h.push(Rq::Query(Fe::Resp, format!("MATCH (x {{k: {}}}), (y {{k: {}}}) CREATE (x)-[r:{} {{w: {}, tag: 'new'}}]->(y){}", x, y, ty, w2, tail)));
                live_rel = Some(w2);
            }
            _ => {
                // delete a node with its relationships, then create a node of another shape: reuse of the node id
                let victim = *rng.pick(&[a, b]);
                h.push(Rq::Query(fe_del(rng), format!("MATCH (n {{k: {}}}) DETACH DELETE n", victim)));
                live_rel = None;
                let nk = fresh();
                h.push(Rq::Query(Fe::Resp, format!("CREATE (m:Other:Shape {{k: {}, note: 'recycled', t: [1, 2]}}) RETURN m", nk)));
                if rng.chance(1, 2) {
                    let w2 = fresh();
                    h.push(Rq::Query(Fe::Resp, format!("MATCH (x {{k: {}}}), (y {{k: {}}}) CREATE (x)-[r:LINKS {{w: {}}}]->(y) RETURN r", nk, c, w2)));
                    live_rel = Some(w2);
                }
            }
        }
    }
    h
}

/// histories in which every statement is a RESP CREATE that returns every entity it creates
fn gen_partial(rng: &mut Rng, len: usize) -> Vec<Rq> {
    let mut g = Gen { next_k: 0, nodes: vec![], rels: vec![] };
    let mut h = vec![];
    for _ in 0..len {
        let q = match rng.usize(4) {
            0 => {
                let n = g.node(rng, "n");
                format!("CREATE {} RETURN n", n)
            }
            1 => {
                let (a, r, b) = (g.node(rng, "a"), g.rel(rng, "r"), g.node(rng, "b"));
                format!("CREATE {}-{}->{} RETURN {}", a, r, b, ["a, r, b", "r, b, a", "b, a, r"][rng.usize(3)])
            }
            2 if g.nodes.len() >= 2 => {
                let a = *rng.pick(&g.nodes);
                let b = *rng.pick(&g.nodes);
                let r = g.rel(rng, "r");
                format!("MATCH (a {{k: {}}}), (b {{k: {}}}) CREATE (a)-{}->(b) RETURN r", a, b, r)
            }
            3 if !h.is_empty() && rng.chance(1, 3) => {
                h.push(Rq::Restart);
                continue;
            }
            _ => continue,
        };
        h.push(Rq::Query(Fe::Resp, q));
    }
    while matches!(h.last(), Some(Rq::Restart)) {
        h.pop();
    }
    h
}

// ---------------------------------------------------------------- concurrent writers

const CW_BULK: usize = 3000;
const CW_HOT: usize = 16;

fn gq(text: &str) -> RespValue {
    RespValue::Array(vec![bulk("GRAPH.QUERY"), bulk("default"), bulk(text)])
}

/// wait until `pred` holds for the probe node in the store (the store lock is free again and
/// the previous statement's effect is readable), never looking at that statement's reply
async fn wait_effect(store: &Shared, probe: NodeId, key: &str, want: i64) {
    loop {
        if let Ok(g) = store.try_read() {
            let ok = g.get_node(probe).and_then(|n| n.properties.get(key).cloned()).map(|v| matches!(v, PropertyValue::Integer(i) if i == want)).unwrap_or(false);
            if ok {
                return;
            }
        }
        tokio::task::yield_now().await;
    }
}

/// "Concurrent writers" family.  k ∈ {2, 3} connections share one `CommandHandler`, one store and
/// one `PersistenceManager` (as the RESP server's connection tasks do) on a multi-thread runtime.
/// Connection A sends a long statement that changes and returns thousands of nodes; connection B
/// (and C) send short statements that change and return a few of the same nodes, each issued as
/// soon as the previous statement's **effect** is readable in the store (not on its reply).
/// Every statement returns every entity it changes, so whatever the interleaving the history is
/// one of those of `C19_partial`: recovered = memory.  With the store guard held through the
/// persistence loop the statements are serial; a handler that persists after releasing the guard
/// lets A's older node images overwrite B's.  It is a schedule search: the schedule is repeated
/// `reps` times per run (restart after each), the count is in the histogram.
fn concurrent_writers(args: &Args, rep: &mut Report, known: &Known, exe: &Path, reps: usize) {
    let rt = tokio::runtime::Builder::new_multi_thread().worker_threads(4).enable_all().build().unwrap();
    let _guard = rt.enter();
    let dir = tempfile::Builder::new().prefix("c19-cw-").tempdir_in(&args.work).expect("work dir");
    let path = dir.path().to_str().unwrap().to_string();
    let mut boot = recover_like_main(&path);
    for r in 0..reps {
        let k = 2 + (r % 2);
        let round = r as i64 + 1;
        let (graph, persistence, _) = boot;
        let pm = persistence.expect("persistence manager");
        let store: Shared = Arc::new(RwLock::new(graph));
        let tenants = pm.tenants_arc();
        let handler = Arc::new(CommandHandler::new_with_tenants(Some(Arc::clone(&pm)), Arc::clone(&tenants)));
        let (all_acked, overlap) = rt.block_on(async {
            let mut all_acked = true;
            if r == 0 {
                // the data set: every CREATE returns what it makes (durable)
                let pad = "x".repeat(200);
                for chunk in (0..CW_BULK).collect::<Vec<_>>().chunks(500) {
                    let list = chunk.iter().map(|i| i.to_string()).collect::<Vec<_>>().join(", ");
                    let q = format!("UNWIND [{}] AS i CREATE (n:Item {{i: i, pad: '{}'}}) RETURN n", list, pad);
                    all_acked &= !matches!(handler.handle_command(&gq(&q), &store).await, RespValue::Error(_));
                }
                let list = (CW_BULK..CW_BULK + CW_HOT).map(|i| i.to_string()).collect::<Vec<_>>().join(", ");
                let q = format!("UNWIND [{}] AS i CREATE (n:Item:Hot {{i: i, pad: '{}'}}) RETURN n", list, pad);
                all_acked &= !matches!(handler.handle_command(&gq(&q), &store).await, RespValue::Error(_));
            }
            let probe: NodeId = store.read().await.get_nodes_by_label(&samyama::graph::Label::new("Hot"))[0].id;
            let spawn = |text: String| {
                let (h, st) = (Arc::clone(&handler), Arc::clone(&store));
                tokio::spawn(async move { h.handle_command(&gq(&text), &st).await })
            };
            let task_a = spawn(format!("MATCH (n:Item) SET n.a = {} RETURN n", round));
            wait_effect(&store, probe, "a", round).await;
            let overlap = !task_a.is_finished();
            let task_b = spawn(format!("MATCH (h:Hot) SET h.b = {} RETURN h", round));
            let task_c = if k == 3 {
                wait_effect(&store, probe, "b", round).await;
                Some(spawn(format!("MATCH (h:Hot) SET h.c = {}, h:Touched RETURN h", round)))
            } else {
                None
            };
            all_acked &= !matches!(task_a.await.unwrap(), RespValue::Error(_));
            all_acked &= !matches!(task_b.await.unwrap(), RespValue::Error(_));
            if let Some(t) = task_c {
                all_acked &= !matches!(t.await.unwrap(), RespValue::Error(_));
            }
            (all_acked, overlap)
        });
        let mem = rt.block_on(async { snap(&*store.read().await) });
        drop(handler);
        drop(store);
        drop(tenants);
        drop(pm);
        boot = recover_like_main(&path);
        let rec = snap(&boot.0);

        rep.count("concurrent-writers:schedules-run");
        rep.count(&format!("concurrent-writers:k={}", k));
        if overlap {
            rep.count("concurrent-writers:B-issued-before-A-replied");
        }
        if !all_acked {
            rep.count("concurrent-writers:not-all-acknowledged");
        }
        let text = format!("concurrent-writers k={} bulk={} hot={} repetition={}", k, CW_BULK, CW_HOT, r + 1);
        rep.case(&text, all_acked && mem.nodes.len() == CW_BULK + CW_HOT);
        // S on the real observations, evaluated by the Lean driver: recovered = memory, entity by entity
        let mut codes = Interner(HashMap::new());
        let ids: BTreeSet<u64> = mem.nodes.keys().chain(rec.nodes.keys()).cloned().collect();
        let cell = |c: &mut Interner, d: Option<&String>| d.map(|d| format!("n{}", c.code(d))).unwrap_or_else(|| "_".into());
        let pairs: Vec<String> = ids.iter().map(|i| format!("{}={}", cell(&mut codes, mem.nodes.get(i)), cell(&mut codes, rec.nodes.get(i)))).collect();
        let reply = driver::batch(exe, &[format!("spec {}", if pairs.is_empty() { "-".to_string() } else { pairs.join(",") })]).remove(0);
        let differing: Vec<u64> = ids.iter().filter(|i| mem.nodes.get(i) != rec.nodes.get(i)).cloned().collect();
        assert_eq!(reply != "ok", !differing.is_empty(), "specDurable and the harness disagree on {}: {}", text, reply);
        if all_acked && !differing.is_empty() {
            let shape = if differing.iter().any(|i| !rec.nodes.contains_key(i)) { "node-missing" } else { "node-stale" };
            let sig = format!("unexplained:concurrent-writers:returned:{}", shape);
            rep.count(&format!("loss:{}", sig));
            let show: Vec<String> = differing.iter().take(4).map(|i| format!("# node{} memory={:?}\n#        recovered={:?}", i, mem.nodes.get(i).map(|d| d.replace(&"x".repeat(200), "x*200")), rec.nodes.get(i).map(|d| d.replace(&"x".repeat(200), "x*200")))).collect();
            rep.spec_violation(
                known,
                &sig,
                &format!("{} of {} nodes differ after the restart although every statement returned every node it changed ({})", differing.len(), ids.len(), text),
                &format!("# {}\n# A: MATCH (n:Item) SET n.a = {r} RETURN n ; B (issued when A's effect is readable): MATCH (h:Hot) SET h.b = {r} RETURN h{}\n# spec: {}\n{}", text, if k == 3 { " ; C: MATCH (h:Hot) SET h.c = .., h:Touched RETURN h" } else { "" }, reply, show.join("\n"), r = round),
            );
        }
    }
}

// ---------------------------------------------------------------- main

fn parse_tab<T>(s: &str, f: impl Fn(&str) -> T) -> BTreeMap<u64, T> {
    let mut m = BTreeMap::new();
    if s == "-" {
        return m;
    }
    for p in s.split(',') {
        if let Some((i, v)) = p.split_once('=') {
            m.insert(i.parse().unwrap(), f(v));
        }
    }
    m
}

fn main() {
    let args = Args::parse();
    let known = Known::load(&args.known, "C19");
    let mut rep = Report::new(
        "C19",
        "histories of write requests through CommandHandler::handle_command and the axum router on one store with persistence enabled, then the recovery path of main.rs on the same directory; \
         non-trivial = the history has an acknowledged write whose leading clause is not a write keyword or which uses a non-space separator, and at least one entity is in memory at shutdown or was deleted; \
         distinct = distinct history text",
        &args.replays,
        args.seed,
    );
    let exe = args.driver_exe("drv_ackdurable");
    // `Rng::new(s)` and `Rng::new(s + 1)` are the same stream shifted by one draw; fork once so
    // that consecutive seeds give unrelated histories
    let mut rng = Rng::new(args.seed).fork();

    // ---- histories ---------------------------------------------------------------------
    let mut hists: Vec<(String, Vec<Rq>)> = vec![];
    let mut files: Vec<std::path::PathBuf> = vec![];
    if let Some(r) = &args.replay {
        files.push(r.clone());
    } else if let Ok(rd) = std::fs::read_dir(args.corpus.join("C19")) {
        files = rd.filter_map(|e| e.ok().map(|e| e.path())).collect();
        files.sort();
    }
    for f in &files {
        for line in std::fs::read_to_string(f).unwrap_or_default().lines() {
            if let Some(h) = line.strip_prefix("hist ") {
                let v = parse_hist(h);
                if !v.is_empty() {
                    hists.push(("corpus".into(), v));
                }
            }
        }
    }
    rep.count_n("corpus_histories", hists.len() as u64);
    if args.replay.is_none() {
        let (n_part, n_final, n_recycle, n_rand) = if args.thorough() { (50, 50, 50, 200) } else { (4, 4, 5, 12) };
        for _ in 0..n_part {
            let len = 1 + rng.usize(6);
            hists.push(("partial".into(), gen_partial(&mut rng, len)));
        }
        for _ in 0..n_final {
            hists.push(("partial".into(), gen_final_state(&mut rng)));
        }
        for _ in 0..n_recycle {
            hists.push(("recycle".into(), gen_recycle(&mut rng)));
        }
        for _ in 0..n_rand {
            let mut g = Gen { next_k: 0, nodes: vec![], rels: vec![] };
            let len = 1 + rng.usize(9);
            let h = (0..len).map(|_| g.request(&mut rng)).collect();
            hists.push(("random".into(), h));
        }
    }

    // ---- run on the real server (a few worker threads, one tokio runtime each) -----------
    let n_workers = 6usize;
    let mut reals: Vec<Option<(Vec<Real>, Interner)>> = (0..hists.len()).map(|_| None).collect();
    {
        let work = &args.work;
        let hists_ref = &hists;
        let results: Vec<Vec<(usize, Vec<Real>, Interner)>> = std::thread::scope(|sc| {
            let hs: Vec<_> = (0..n_workers)
                .map(|w| {
                    sc.spawn(move || {
                        let rt = tokio::runtime::Builder::new_current_thread().enable_all().build().unwrap();
                        let _guard = rt.enter();
                        let mut out = vec![];
                        for (n, (_, hist)) in hists_ref.iter().enumerate() {
                            if n % n_workers != w {
                                continue;
                            }
                            let dir = tempfile::Builder::new().prefix(&format!("c19-{}-", n)).tempdir_in(work).expect("work dir");
                            let mut codes = Interner(HashMap::new());
                            let real = run_history(&rt, dir.path(), hist, &mut codes);
                            out.push((n, real, codes));
                        }
                        out
                    })
                })
                .collect();
            hs.into_iter().map(|h| h.join().expect("worker")).collect()
        });
        for v in results {
            for (n, r, c) in v {
                reals[n] = Some((r, c));
            }
        }
    }

    let mut first_break: Option<String> = None;
    for (n, (origin, hist)) in hists.iter().enumerate() {
        let (epochs, mut codes) = reals[n].take().expect("history result");
        let n_epochs = epochs.len();
        for (ep, real) in epochs.into_iter().enumerate() {
        let text = hist.iter().map(show_rq).collect::<Vec<_>>().join(" ;; ");
        let epoch_note = if n_epochs > 1 { format!(" [epoch {} of {}]", ep + 1, n_epochs) } else { String::new() };
        if n_epochs > 1 {
            rep.count(&format!("epoch:{}", ep + 1));
        }
        for s in &real.steps {
            rep.count(if s.acked { "request:acknowledged" } else { "request:refused" });
            if let (true, Rq::Query(fe, q)) = (s.acked, &s.rq) {
                rep.count(&format!("stmt:{}:{}{}", if *fe == Fe::Resp { "resp" } else { "http" }, kind_of(q), if s.ret_n.is_empty() && s.ret_e.is_empty() { "" } else { "+ret" }));
            }
            if matches!(s.rq, Rq::GraphDelete) {
                rep.count("stmt:resp:graph.delete");
            }
            if matches!(s.rq, Rq::OtherGraph(_)) {
                rep.count(if s.acked { "stmt:other-graph:ACKNOWLEDGED" } else { "stmt:other-graph:refused" });
            }
        }
        if real.tainted {
            rep.count("history:discarded(unacknowledged request changed memory)");
            continue;
        }
        let model_hist: Vec<String> = real.prefix.iter().cloned().chain(real.steps.iter().filter_map(|s| s.model.clone())).collect();
        let mh = if model_hist.is_empty() { "-".to_string() } else { model_hist.join(";") };

        // observations for S: every entity id seen in memory or after the restart
        let code_n = |c: &mut Interner, d: Option<&String>| d.map(|d| format!("n{}", c.code(d))).unwrap_or_else(|| "_".into());
        let code_e = |c: &mut Interner, d: Option<&(u64, u64, String)>| d.map(|(s, t, d)| format!("e{}.{}.{}", s, t, c.code(d))).unwrap_or_else(|| "_".into());
        let n_ids: BTreeSet<u64> = real.mem.nodes.keys().chain(real.rec.nodes.keys()).cloned().collect();
        let e_ids: BTreeSet<u64> = real.mem.edges.keys().chain(real.rec.edges.keys()).cloned().collect();
        let mut pairs = vec![];
        let mut what: Vec<(char, u64)> = vec![];
        for i in &n_ids {
            pairs.push(format!("{}={}", code_n(&mut codes, real.mem.nodes.get(i)), code_n(&mut codes, real.rec.nodes.get(i))));
            what.push(('n', *i));
        }
        for i in &e_ids {
            pairs.push(format!("{}={}", code_e(&mut codes, real.mem.edges.get(i)), code_e(&mut codes, real.rec.edges.get(i))));
            what.push(('e', *i));
        }
        let reqs = vec![format!("run {}", mh), format!("spec {}", if pairs.is_empty() { "-".to_string() } else { pairs.join(",") })];
        let replies = driver::batch(&exe, &reqs);
        let f: Vec<&str> = replies[0].split(' ').collect();
        if f.len() != 7 || f[0] != "ok" {
            panic!("driver rejected history `{}`: {}", mh, replies[0]);
        }
        let m_mem_n = parse_tab(f[1], |v| v.parse::<u64>().unwrap());
        let m_rec_n = parse_tab(f[3], |v| v.parse::<u64>().unwrap());
        let m_rec_e = parse_tab(f[4], |v| v.to_string());
        let m_blame_n = parse_tab(f[5], |v| v.to_string());
        let m_blame_e = parse_tab(f[6], |v| v.to_string());
        // the model replays the observed effects: its memory must be the real memory
        let real_mem_n: BTreeMap<u64, u64> = real.mem.nodes.iter().map(|(i, d)| (*i, codes.code(d))).collect();
        assert_eq!(m_mem_n, real_mem_n, "harness: the effect log does not reproduce memory for `{}`", text);

        let acked_nonkw = real.steps.iter().any(|s| s.acked && matches!(&s.rq, Rq::Query(_, q) if (!lead_is_write(q) || q.contains('\n')) && !(s.muts_n.is_empty() && s.muts_e.is_empty())));
        let nontrivial = acked_nonkw && (!n_ids.is_empty() || !e_ids.is_empty());
        rep.case(&format!("{}{}", text, epoch_note), nontrivial);
        rep.count(&format!("history:{}", origin));

        let body_head = format!(
            "hist {}\n#{} model history {}\n# memory    nodes {:?}\n#           rels  {:?}\n# recovered nodes {:?}\n#           rels  {:?}\n# model: {}\n# spec: {}",
            text, epoch_note, mh, real.mem.nodes, real.mem.edges, real.rec.nodes, real.rec.edges, replies[0], replies[1]
        );
        if rep.samples.len() < 4 && nontrivial {
            rep.sample(json!({"history": text, "model_history": mh, "spec": replies[1], "model": replies[0]}));
        }

        // per entity: real recovered vs memory vs the model's prediction
        let last_mut = |kind: char, id: u64| -> String {
            for s in real.steps.iter().rev() {
                if !s.acked {
                    continue;
                }
                let hit = if kind == 'n' { s.muts_n.contains(&id) } else { s.muts_e.contains(&id) };
                if hit || matches!(s.rq, Rq::GraphDelete) {
                    return match &s.rq {
                        Rq::GraphDelete => "resp:graph.delete".into(),
                        Rq::Restart => "restart".into(),
                        Rq::OtherGraph(_) => "other-graph-request".into(),
                        Rq::Query(fe, q) => format!(
                            "{}:{}:{}",
                            if *fe == Fe::Resp { "resp" } else { "http" },
                            match kind_of(q) {
                                'c' => "create",
                                'm' => "merge",
                                's' => "set",
                                'r' => "remove",
                                'l' => "label",
                                _ => "delete",
                            },
                            if (kind == 'n' && s.ret_n.contains(&id)) || (kind == 'e' && s.ret_e.contains(&id)) { "returned" } else { "not-returned" }
                        ),
                    };
                }
            }
            "never-written".into()
        };
        let mut spec_failed = false;
        for (kind, id) in &what {
            let (mem_s, rec_s, mod_s) = if *kind == 'n' {
                (
                    real.mem.nodes.get(id).map(|d| codes.code(d).to_string()),
                    real.rec.nodes.get(id).map(|d| codes.code(d).to_string()),
                    m_rec_n.get(id).map(|c| c.to_string()),
                )
            } else {
                (
                    real.mem.edges.get(id).map(|(s, t, d)| format!("{}.{}.{}", s, t, codes.code(d))),
                    real.rec.edges.get(id).map(|(s, t, d)| format!("{}.{}.{}", s, t, codes.code(d))),
                    m_rec_e.get(id).cloned(),
                )
            };
            let ent = format!("{}{}", if *kind == 'n' { "node" } else { "rel" }, id);
            if rec_s != mem_s {
                spec_failed = true;
                let shape = match (&mem_s, &rec_s) {
                    (Some(_), None) => "missing",
                    (None, Some(_)) => "resurrected",
                    _ => "stale",
                };
                if rec_s == mod_s {
                    // predicted by the model: its blame names the cause
                    let mut sig = if *kind == 'n' { m_blame_n.get(id).cloned() } else { m_blame_e.get(id).cloned() }.unwrap_or_else(|| format!("unexplained:no-blame:{}", shape));
                    // the synthetic prefix expresses "stored but refused by the previous recovery" as a
                    // delete; its real cause is the endpoint that was never stored
                    if *kind == 'e' && sig == "resp:delete" && real.dangling.contains(id) && last_mut('e', *id) == "never-written" {
                        sig = "resp:endpoint-not-durable".into();
                    }
                    rep.count(&format!("loss:{}:{}", sig, shape));
                    rep.spec_violation(&known, &sig, &format!("{} is {} after the restart ({}) in `{}`", ent, shape, sig, text), &format!("{}\n# {} memory={:?} recovered={:?} model={:?}", body_head, ent, mem_s, rec_s, mod_s));
                } else {
                    // a loss the model does not predict: not one of the listed causes
                    let sig = format!("unexplained:{}:{}-{}", last_mut(*kind, *id), if *kind == 'n' { "node" } else { "rel" }, shape);
                    rep.count(&format!("loss:{}", sig));
                    rep.spec_violation(&known, &sig, &format!("{} is {} after the restart, which the persistence rule does not explain ({}) in `{}`", ent, shape, sig, text), &format!("{}\n# {} memory={:?} recovered={:?} model={:?}", body_head, ent, mem_s, rec_s, mod_s));
                }
            } else if rec_s != mod_s {
                rep.count("model_mismatch:model-predicts-loss-that-does-not-happen");
                if first_break.is_none() {
                    first_break = Some(format!("{}\n# {} memory={:?} recovered={:?} model={:?}", body_head, ent, mem_s, rec_s, mod_s));
                }
            }
        }
        // S as evaluated by the Lean driver must agree with the comparison above
        assert_eq!(replies[1] != "ok", spec_failed, "specDurable and the harness disagree on `{}`: {}", text, replies[1]);
        rep.count(if spec_failed { "history:loses-something" } else { "history:durable" });
        if origin == "partial" && spec_failed {
            rep.count("partial-history-not-durable");
        }
        }
    }
    if args.replay.is_none() {
        concurrent_writers(&args, &mut rep, &known, &exe, if args.thorough() { 12 } else { 6 });
    }
    if let Some(body) = first_break {
        if rep.spec_violations.is_empty() {
            rep.correspondence_break(
                "AckDurable.recNode/recEdge = store rebuilt by the recovery loop of main.rs",
                "the model predicts a loss that the real server does not have",
                &body,
            );
        }
    }
    rep.write(&args.out);
}
