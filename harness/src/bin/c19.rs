//! C19 — writes acknowledged by the server survive a restart.
//!
//! One case = one history of write requests sent to **one** store through the real
//! `CommandHandler::handle_command` (RESP values built in-process) and the shipped axum router
//! (`tower::ServiceExt::oneshot`), with persistence enabled in a fresh directory under
//! `args.work`; then a restart: everything is dropped, a new `PersistenceManager` is opened on
//! the same directory and the store is rebuilt by the recovery loop of
//! `src/main.rs::start_server`.  `start_server` itself is not callable (it parses argv and
//! binds sockets), so `recover_like_main` below is a **trusted, verbatim transcription** of
//! that loop (main.rs "Recover persisted data from RocksDB" + the HA-08 snapshot fallback).
//!
//! The harness reads off the real store, after every acknowledged request, the entity-level
//! difference (created / changed / deleted nodes and relationships, by id) and the ids the
//! reply returned; that history of effects is what the Lean model (`drv_ackdurable`) replays
//! to predict the recovered graph and, per lost entity, its cause.
//!   * S (specification, evaluated by the Lean driver on the real observations): recovered = memory.
//!   * loss predicted by the model  → the model's cause is the signature (known findings);
//!   * loss **not** predicted by the model → signature `unexplained:…` → VIOLATION;
//!   * model predicts a loss that does not happen → correspondence break.
#[path = "front/mod.rs"]
mod front;
use front::*;
use samyama::graph::{EdgeId, GraphStore, NodeId, PropertyValue};
use samyama::http::HttpServer;
use samyama::persistence::PersistenceManager;
use samyama::protocol::{CommandHandler, RespValue};
use serde_json::json;
use std::collections::{BTreeMap, BTreeSet, HashMap};
use std::path::Path;
use std::sync::Arc;
use tokio::sync::RwLock;
use vharness::{driver, Args, Known, Report, Rng};

// ---------------------------------------------------------------- id-keyed snapshot of a store

#[derive(Clone, Debug, PartialEq, Eq, Default)]
struct Snap {
    nodes: BTreeMap<u64, String>,
    /// id -> (src, tgt, type+props)
    edges: BTreeMap<u64, (u64, u64, String)>,
}

fn snap(store: &GraphStore) -> Snap {
    let mut s = Snap::default();
    let ids: BTreeSet<u64> = store.all_nodes().iter().map(|n| n.id.as_u64()).collect();
    for i in ids {
        if let Some(d) = node_desc(store, NodeId::new(i)) {
            s.nodes.insert(i, d);
        }
    }
    for e in store.all_edges() {
        let props: HashMap<String, PropertyValue> = e.properties.iter().map(|(k, v)| (k.clone(), v.clone())).collect();
        let mut ps: Vec<String> = props.iter().filter(|(_, v)| !matches!(v, PropertyValue::Null)).map(|(k, v)| format!("{}={}", esc(k), pv_text(v))).collect();
        ps.sort();
        s.edges.insert(e.id.as_u64(), (e.source.as_u64(), e.target.as_u64(), format!("[{}|{}]", esc(e.edge_type.as_str()), ps.join(","))));
    }
    let _ = EdgeId::new(0);
    s
}

// ---------------------------------------------------------------- trusted transcription of main.rs

/// `src/main.rs::start_server`, from "Initialize persistence FIRST" to "Graph Statistics",
/// verbatim except that `println!`/`eprintln!` lines are dropped and `--data-path` is `path`.
/// Returns the store the restarted server would serve, and the persistence manager (kept
/// alive by the caller like `start_server` does).
fn recover_like_main(path: &str) -> (GraphStore, Option<Arc<PersistenceManager>>) {
    let (mut graph, _rx) = GraphStore::with_async_indexing();

    let persistence = match samyama::PersistenceManager::new(path) {
        Ok(pm) => Some(Arc::new(pm)),
        Err(_e) => None,
    };

    // Recover persisted data from RocksDB
    let mut recovered = false;
    if let Some(ref pm) = persistence {
        match pm.list_persisted_tenants() {
            Ok(tenants) if !tenants.is_empty() => {
                for tenant in &tenants {
                    match pm.recover(tenant) {
                        Ok((nodes, edges)) => {
                            for node in nodes {
                                graph.insert_recovered_node(node);
                            }
                            for edge in edges {
                                if let Err(_e) = graph.insert_recovered_edge(edge) {}
                            }
                            recovered = true;
                        }
                        Err(_e) => {}
                    }
                }
            }
            Ok(_) => {}
            Err(_e) => {}
        }
    }

    // (demo data: `--demo` is not given)

    // HA-08: If no RocksDB recovery happened, replay the last committed .sgsnap
    // snapshot from <data_path>/snapshots/ so imports survive restart.
    if !recovered {
        match samyama::snapshot::persist::restore_persisted_snapshots(path, &mut graph) {
            Ok(Some(_stats)) => {}
            Ok(None) => {}
            Err(_e) => {}
        }
    }
    (graph, persistence)
}

// ---------------------------------------------------------------- requests

#[derive(Clone, Debug, PartialEq)]
enum Fe {
    Resp,
    Http,
}

#[derive(Clone, Debug)]
enum Rq {
    Query(Fe, String),
    GraphDelete,
}

fn show_rq(r: &Rq) -> String {
    match r {
        Rq::Query(Fe::Resp, q) => format!("R {}", escape(q)),
        Rq::Query(Fe::Http, q) => format!("H {}", escape(q)),
        Rq::GraphDelete => "GD".into(),
    }
}

fn parse_hist(line: &str) -> Vec<Rq> {
    line.split(" ;; ")
        .filter_map(|p| {
            let p = p.trim();
            if p == "GD" {
                Some(Rq::GraphDelete)
            } else if let Some(q) = p.strip_prefix("R ") {
                Some(Rq::Query(Fe::Resp, unescape(q)))
            } else if let Some(q) = p.strip_prefix("H ") {
                Some(Rq::Query(Fe::Http, unescape(q)))
            } else {
                None
            }
        })
        .collect()
}

/// clause kind of a statement (names the finding): the first of these that occurs
fn kind_of(q: &str) -> char {
    let u = q.to_uppercase();
    let has = |w: &str| u.split(|c: char| !c.is_ascii_alphanumeric()).any(|x| x == w);
    if has("DELETE") {
        'd'
    } else if has("REMOVE") {
        'r'
    } else if has("MERGE") {
        'm'
    } else if has("SET") {
        // `SET n:Label`
        let after: String = u.split("SET").nth(1).unwrap_or("").chars().take_while(|c| *c != '=').collect();
        if after.contains(':') && !after.contains('.') && !u.split("SET").nth(1).unwrap_or("").contains('=') {
            'l'
        } else {
            's'
        }
    } else {
        'c'
    }
}

fn lead_is_write(q: &str) -> bool {
    let first = q.trim().split(|c: char| !c.is_ascii_alphanumeric()).next().unwrap_or("").to_uppercase();
    ["CREATE", "MERGE", "SET", "DELETE", "DETACH", "REMOVE", "FOREACH"].contains(&first.as_str())
}

// ---------------------------------------------------------------- one history on the real server

struct Step {
    rq: Rq,
    acked: bool,
    /// model request text, None when the request was not acknowledged
    model: Option<String>,
    muts_n: Vec<u64>,
    muts_e: Vec<u64>,
    ret_n: Vec<u64>,
    ret_e: Vec<u64>,
}

struct Real {
    steps: Vec<Step>,
    mem: Snap,
    rec: Snap,
    /// an unacknowledged request changed memory: the history is not usable
    tainted: bool,
}

fn ids_in_resp(v: &RespValue, ns: &mut Vec<u64>, es: &mut Vec<u64>) {
    match v {
        RespValue::Array(a) => a.iter().for_each(|x| ids_in_resp(x, ns, es)),
        RespValue::BulkString(Some(b)) => {
            let s = String::from_utf8_lossy(b);
            if let Some(r) = s.strip_prefix("Node(NodeId(") {
                if let Ok(i) = r.trim_end_matches(')').parse() {
                    ns.push(i);
                }
            } else if let Some(r) = s.strip_prefix("Edge(EdgeId(") {
                if let Ok(i) = r.split(')').next().unwrap_or("").parse() {
                    es.push(i);
                }
            }
        }
        _ => {}
    }
}

fn ids_in_json(v: &serde_json::Value, ns: &mut Vec<u64>, es: &mut Vec<u64>) {
    for r in v["records"].as_array().cloned().unwrap_or_default() {
        for c in r.as_array().cloned().unwrap_or_default() {
            if let Some(o) = c.as_object() {
                let id = o.get("id").and_then(|i| i.as_str()).and_then(|i| i.parse().ok());
                if let Some(id) = id {
                    if o.contains_key("labels") {
                        ns.push(id);
                    } else if o.contains_key("source") {
                        es.push(id);
                    }
                }
            }
        }
    }
}

struct Interner(HashMap<String, u64>);
impl Interner {
    fn code(&mut self, s: &str) -> u64 {
        let n = self.0.len() as u64 + 1;
        *self.0.entry(s.to_string()).or_insert(n)
    }
}

fn run_history(rt: &tokio::runtime::Runtime, dir: &Path, hist: &[Rq], codes: &mut Interner) -> Real {
    let path = dir.to_str().unwrap().to_string();
    let mut steps = vec![];
    let mut tainted = false;
    let mem;
    {
        // first boot on an empty data directory: the same code path as any boot
        let (graph, persistence) = recover_like_main(&path);
        let pm = persistence.expect("persistence manager");
        let store: Shared = Arc::new(RwLock::new(graph));
        let tenants = pm.tenants_arc();
        let handler = CommandHandler::new_with_tenants(Some(Arc::clone(&pm)), Arc::clone(&tenants));
        let http = HttpServer::new(Arc::clone(&store), 0).with_data_path(Some(path.clone())).with_tenant_manager(Arc::clone(&tenants));
        let mut before = rt.block_on(async { snap(&*store.read().await) });
        for rq in hist {
            let (acked, ret_n, ret_e) = rt.block_on(async {
                let mut ns = vec![];
                let mut es = vec![];
                match rq {
                    Rq::Query(Fe::Resp, q) => {
                        let r = run_resp(&handler, &store, q).await;
                        ids_in_resp(&r, &mut ns, &mut es);
                        (!matches!(r, RespValue::Error(_)), ns, es)
                    }
                    Rq::Query(Fe::Http, q) => {
                        use http_body_util::BodyExt;
                        use tower::ServiceExt;
                        let body = json!({ "query": q }).to_string();
                        let req = axum::http::Request::builder().method("POST").uri("/api/query").header("content-type", "application/json").body(axum::body::Body::from(body)).unwrap();
                        let resp = http.router().oneshot(req).await.unwrap();
                        let ok = resp.status().as_u16() == 200;
                        let bytes = resp.into_body().collect().await.unwrap().to_bytes();
                        let j: serde_json::Value = serde_json::from_slice(&bytes).unwrap_or(json!({}));
                        ids_in_json(&j, &mut ns, &mut es);
                        (ok && j.get("error").is_none(), ns, es)
                    }
                    Rq::GraphDelete => {
                        let r = run_resp_cmd(&handler, &store, &["GRAPH.DELETE", "default"]).await;
                        (matches!(r, RespValue::SimpleString(_)), ns, es)
                    }
                }
            });
            let after = rt.block_on(async { snap(&*store.read().await) });
            // entity-level difference
            let mut muts: Vec<String> = vec![];
            let mut muts_n = vec![];
            let mut muts_e = vec![];
            for (i, (s, t, d)) in &before.edges {
                if !after.edges.contains_key(i) {
                    muts.push(format!("e{}x", i));
                    muts_e.push(*i);
                    let _ = (s, t, d);
                }
            }
            for i in before.nodes.keys() {
                if !after.nodes.contains_key(i) {
                    muts.push(format!("n{}x", i));
                    muts_n.push(*i);
                }
            }
            for (i, d) in &after.nodes {
                if before.nodes.get(i) != Some(d) {
                    muts.push(format!("n{}={}", i, codes.code(d)));
                    muts_n.push(*i);
                }
            }
            for (i, (s, t, d)) in &after.edges {
                if before.edges.get(i) != Some(&(*s, *t, d.clone())) {
                    muts.push(format!("e{}={}.{}.{}", i, s, t, codes.code(d)));
                    muts_e.push(*i);
                }
            }
            let ids = |v: &Vec<u64>| if v.is_empty() { "-".to_string() } else { v.iter().map(|x| x.to_string()).collect::<Vec<_>>().join(".") };
            let model = if !acked {
                if !muts.is_empty() {
                    tainted = true;
                }
                None
            } else {
                Some(match rq {
                    Rq::GraphDelete => "GD".to_string(),
                    Rq::Query(fe, q) => format!(
                        "Q{}{}/{}/{}/{}",
                        if *fe == Fe::Resp { 'r' } else { 'h' },
                        kind_of(q),
                        if muts.is_empty() { "-".to_string() } else { muts.join(",") },
                        ids(&ret_n),
                        ids(&ret_e)
                    ),
                })
            };
            steps.push(Step { rq: rq.clone(), acked, model, muts_n, muts_e, ret_n, ret_e });
            before = after;
        }
        mem = before;
        // shutdown: the process ends; nothing is flushed explicitly by the server either
        drop(http);
        drop(handler);
        drop(store);
        drop(tenants);
        drop(pm);
    }
    // restart on the same data directory
    let (graph, persistence) = recover_like_main(&path);
    let rec = snap(&graph);
    drop(persistence);
    Real { steps, mem, rec, tainted }
}

// ---------------------------------------------------------------- generator

struct Gen {
    next_k: i64,
    /// keys of nodes believed alive, relationship keys believed alive
    nodes: Vec<i64>,
    rels: Vec<i64>,
}

impl Gen {
    fn fresh(&mut self) -> i64 {
        self.next_k += 1;
        self.next_k
    }
    fn request(&mut self, rng: &mut Rng) -> Rq {
        let fe = if rng.chance(3, 4) { Fe::Resp } else { Fe::Http };
        let ret = rng.chance(1, 2);
        let have_n = !self.nodes.is_empty();
        let have_two = self.nodes.len() >= 2;
        let have_r = !self.rels.is_empty();
        loop {
            let c = rng.usize(17);
            let q = match c {
                0 => {
                    let k = self.fresh();
                    self.nodes.push(k);
                    format!("CREATE (n:L {{k: {}}}){}", k, if ret { " RETURN n" } else { "" })
                }
                1 => {
                    let (a, b, w) = (self.fresh(), self.fresh(), self.fresh());
                    self.nodes.push(a);
                    self.nodes.push(b);
                    self.rels.push(w);
                    let r = match rng.usize(5) {
                        0 => "",
                        1 => " RETURN r",
                        2 => " RETURN a",
                        _ => " RETURN a, r, b",
                    };
                    format!("CREATE (a:L {{k: {}}})-[r:T {{w: {}}}]->(b:L {{k: {}}}){}", a, w, b, r)
                }
                2 if have_two => {
                    let a = *rng.pick(&self.nodes);
                    let b = *rng.pick(&self.nodes);
                    let w = self.fresh();
                    self.rels.push(w);
                    let r = match rng.usize(3) {
                        0 => "",
                        1 => " RETURN r",
                        _ => " RETURN a, r, b",
                    };
                    format!("MATCH (a:L {{k: {}}}), (b:L {{k: {}}}) CREATE (a)-[r:T {{w: {}}}]->(b){}", a, b, w, r)
                }
                3 | 4 if have_n => {
                    let k = *rng.pick(&self.nodes);
                    format!("MATCH (n:L {{k: {}}}) SET n.x = {}{}", k, self.fresh(), if ret { " RETURN n" } else { "" })
                }
                5 if have_n => {
                    let k = *rng.pick(&self.nodes);
                    format!("MATCH (n:L {{k: {}}})\nSET n.y = {}{}", k, self.fresh(), if ret { "\nRETURN n" } else { "" })
                }
                6 if have_n => {
                    let k = *rng.pick(&self.nodes);
                    format!("MATCH (n:L {{k: {}}}) REMOVE n.x{}", k, if ret { " RETURN n" } else { "" })
                }
                7 if have_n => {
                    let k = *rng.pick(&self.nodes);
                    format!("MATCH (n:L {{k: {}}}) SET n:Extra{}", k, if ret { " RETURN n" } else { "" })
                }
                8 if have_n => {
                    let i = rng.usize(self.nodes.len());
                    let k = self.nodes.remove(i);
                    format!("MATCH (n:L {{k: {}}}) DETACH DELETE n", k)
                }
                9 if have_r => {
                    let w = *rng.pick(&self.rels);
                    format!("MATCH (:L)-[r:T {{w: {}}}]->(:L) SET r.v = {}{}", w, self.fresh(), if ret { " RETURN r" } else { "" })
                }
                10 if have_r => {
                    let i = rng.usize(self.rels.len());
                    let w = self.rels.remove(i);
                    format!("MATCH (:L)-[r:T {{w: {}}}]->(:L) DELETE r", w)
                }
                11 => {
                    let k = self.fresh();
                    self.nodes.push(k);
                    format!("MERGE (n:L {{k: {}}}){}", k, if ret { " RETURN n" } else { "" })
                }
                12 if have_n => {
                    let k = *rng.pick(&self.nodes);
                    format!("MERGE (n:L {{k: {}}}) ON MATCH SET n.seen = {}{}", k, self.fresh(), if ret { " RETURN n" } else { "" })
                }
                13 => {
                    let (a, b) = (self.fresh(), self.fresh());
                    self.nodes.push(a);
                    self.nodes.push(b);
                    format!("UNWIND [{}, {}] AS x CREATE (n:L {{k: x}}){}", a, b, if ret { " RETURN n" } else { "" })
                }
                14 => {
                    let k = self.fresh();
                    self.nodes.push(k);
                    format!("CREATE (n:L {{k: {}, s: 'a b', t: [1, 2]}}) RETURN n", k)
                }
                15 if have_n && fe == Fe::Resp && rng.chance(1, 6) => {
                    self.nodes.clear();
                    self.rels.clear();
                    return Rq::GraphDelete;
                }
                16 if have_n => {
                    let k = *rng.pick(&self.nodes);
                    format!("MATCH (n:L {{k: {}}}) SET n.x = {}, n:Tag RETURN n", k, self.fresh())
                }
                _ => continue,
            };
            return Rq::Query(fe, q);
        }
    }
}

/// histories in which every statement is a RESP CREATE that returns every entity it creates
fn gen_partial(rng: &mut Rng, len: usize) -> Vec<Rq> {
    let mut g = Gen { next_k: 0, nodes: vec![], rels: vec![] };
    let mut h = vec![];
    for _ in 0..len {
        let q = match rng.usize(3) {
            0 => {
                let k = g.fresh();
                g.nodes.push(k);
                format!("CREATE (n:L {{k: {}, s: 'x y'}}) RETURN n", k)
            }
            1 => {
                let (a, b, w) = (g.fresh(), g.fresh(), g.fresh());
                g.nodes.push(a);
                g.nodes.push(b);
                format!("CREATE (a:L {{k: {}}})-[r:T {{w: {}}}]->(b:L {{k: {}}}) RETURN a, r, b", a, w, b)
            }
            _ if g.nodes.len() >= 2 => {
                let a = *rng.pick(&g.nodes);
                let b = *rng.pick(&g.nodes);
                format!("MATCH (a:L {{k: {}}}), (b:L {{k: {}}}) CREATE (a)-[r:T {{w: {}}}]->(b) RETURN r", a, b, g.fresh())
            }
            _ => continue,
        };
        h.push(Rq::Query(Fe::Resp, q));
    }
    h
}

// ---------------------------------------------------------------- main

fn parse_tab<T>(s: &str, f: impl Fn(&str) -> T) -> BTreeMap<u64, T> {
    let mut m = BTreeMap::new();
    if s == "-" {
        return m;
    }
    for p in s.split(',') {
        if let Some((i, v)) = p.split_once('=') {
            m.insert(i.parse().unwrap(), f(v));
        }
    }
    m
}

fn main() {
    let args = Args::parse();
    let known = Known::load(&args.known, "C19");
    let mut rep = Report::new(
        "C19",
        "histories of write requests through CommandHandler::handle_command and the axum router on one store with persistence enabled, then the recovery path of main.rs on the same directory; \
         non-trivial = the history has an acknowledged write whose leading clause is not a write keyword or which uses a non-space separator, and at least one entity is in memory at shutdown or was deleted; \
         distinct = distinct history text",
        &args.replays,
        args.seed,
    );
    let exe = args.driver_exe("drv_ackdurable");
    // `Rng::new(s)` and `Rng::new(s + 1)` are the same stream shifted by one draw; fork once so
    // that consecutive seeds give unrelated histories
    let mut rng = Rng::new(args.seed).fork();

    // ---- histories ---------------------------------------------------------------------
    let mut hists: Vec<(String, Vec<Rq>)> = vec![];
    let mut files: Vec<std::path::PathBuf> = vec![];
    if let Some(r) = &args.replay {
        files.push(r.clone());
    } else if let Ok(rd) = std::fs::read_dir(args.corpus.join("C19")) {
        files = rd.filter_map(|e| e.ok().map(|e| e.path())).collect();
        files.sort();
    }
    for f in &files {
        for line in std::fs::read_to_string(f).unwrap_or_default().lines() {
            if let Some(h) = line.strip_prefix("hist ") {
                let v = parse_hist(h);
                if !v.is_empty() {
                    hists.push(("corpus".into(), v));
                }
            }
        }
    }
    rep.count_n("corpus_histories", hists.len() as u64);
    if args.replay.is_none() {
        let (n_part, n_rand) = if args.thorough() { (60, 240) } else { (12, 40) };
        for _ in 0..n_part {
            let len = 1 + rng.usize(6);
            hists.push(("partial".into(), gen_partial(&mut rng, len)));
        }
        for _ in 0..n_rand {
            let mut g = Gen { next_k: 0, nodes: vec![], rels: vec![] };
            let len = 1 + rng.usize(9);
            let h = (0..len).map(|_| g.request(&mut rng)).collect();
            hists.push(("random".into(), h));
        }
    }

    // ---- run on the real server (a few worker threads, one tokio runtime each) -----------
    let n_workers = 6usize;
    let mut reals: Vec<Option<(Real, Interner)>> = (0..hists.len()).map(|_| None).collect();
    {
        let work = &args.work;
        let hists_ref = &hists;
        let results: Vec<Vec<(usize, Real, Interner)>> = std::thread::scope(|sc| {
            let hs: Vec<_> = (0..n_workers)
                .map(|w| {
                    sc.spawn(move || {
                        let rt = tokio::runtime::Builder::new_current_thread().enable_all().build().unwrap();
                        let _guard = rt.enter();
                        let mut out = vec![];
                        for (n, (_, hist)) in hists_ref.iter().enumerate() {
                            if n % n_workers != w {
                                continue;
                            }
                            let dir = tempfile::Builder::new().prefix(&format!("c19-{}-", n)).tempdir_in(work).expect("work dir");
                            let mut codes = Interner(HashMap::new());
                            let real = run_history(&rt, dir.path(), hist, &mut codes);
                            out.push((n, real, codes));
                        }
                        out
                    })
                })
                .collect();
            hs.into_iter().map(|h| h.join().expect("worker")).collect()
        });
        for v in results {
            for (n, r, c) in v {
                reals[n] = Some((r, c));
            }
        }
    }

    let mut first_break: Option<String> = None;
    for (n, (origin, hist)) in hists.iter().enumerate() {
        let (real, mut codes) = reals[n].take().expect("history result");
        let text = hist.iter().map(show_rq).collect::<Vec<_>>().join(" ;; ");
        for s in &real.steps {
            rep.count(if s.acked { "request:acknowledged" } else { "request:refused" });
            if let (true, Rq::Query(fe, q)) = (s.acked, &s.rq) {
                rep.count(&format!("stmt:{}:{}{}", if *fe == Fe::Resp { "resp" } else { "http" }, kind_of(q), if s.ret_n.is_empty() && s.ret_e.is_empty() { "" } else { "+ret" }));
            }
            if matches!(s.rq, Rq::GraphDelete) {
                rep.count("stmt:resp:graph.delete");
            }
        }
        if real.tainted {
            rep.count("history:discarded(unacknowledged request changed memory)");
            continue;
        }
        let model_hist: Vec<String> = real.steps.iter().filter_map(|s| s.model.clone()).collect();
        let mh = if model_hist.is_empty() { "-".to_string() } else { model_hist.join(";") };

        // observations for S: every entity id seen in memory or after the restart
        let code_n = |c: &mut Interner, d: Option<&String>| d.map(|d| format!("n{}", c.code(d))).unwrap_or_else(|| "_".into());
        let code_e = |c: &mut Interner, d: Option<&(u64, u64, String)>| d.map(|(s, t, d)| format!("e{}.{}.{}", s, t, c.code(d))).unwrap_or_else(|| "_".into());
        let n_ids: BTreeSet<u64> = real.mem.nodes.keys().chain(real.rec.nodes.keys()).cloned().collect();
        let e_ids: BTreeSet<u64> = real.mem.edges.keys().chain(real.rec.edges.keys()).cloned().collect();
        let mut pairs = vec![];
        let mut what: Vec<(char, u64)> = vec![];
        for i in &n_ids {
            pairs.push(format!("{}={}", code_n(&mut codes, real.mem.nodes.get(i)), code_n(&mut codes, real.rec.nodes.get(i))));
            what.push(('n', *i));
        }
        for i in &e_ids {
            pairs.push(format!("{}={}", code_e(&mut codes, real.mem.edges.get(i)), code_e(&mut codes, real.rec.edges.get(i))));
            what.push(('e', *i));
        }
        let reqs = vec![format!("run {}", mh), format!("spec {}", if pairs.is_empty() { "-".to_string() } else { pairs.join(",") })];
        let replies = driver::batch(&exe, &reqs);
        let f: Vec<&str> = replies[0].split(' ').collect();
        if f.len() != 7 || f[0] != "ok" {
            panic!("driver rejected history `{}`: {}", mh, replies[0]);
        }
        let m_mem_n = parse_tab(f[1], |v| v.parse::<u64>().unwrap());
        let m_rec_n = parse_tab(f[3], |v| v.parse::<u64>().unwrap());
        let m_rec_e = parse_tab(f[4], |v| v.to_string());
        let m_blame_n = parse_tab(f[5], |v| v.to_string());
        let m_blame_e = parse_tab(f[6], |v| v.to_string());
        // the model replays the observed effects: its memory must be the real memory
        let real_mem_n: BTreeMap<u64, u64> = real.mem.nodes.iter().map(|(i, d)| (*i, codes.code(d))).collect();
        assert_eq!(m_mem_n, real_mem_n, "harness: the effect log does not reproduce memory for `{}`", text);

        let acked_nonkw = real.steps.iter().any(|s| s.acked && matches!(&s.rq, Rq::Query(_, q) if (!lead_is_write(q) || q.contains('\n')) && !(s.muts_n.is_empty() && s.muts_e.is_empty())));
        let nontrivial = acked_nonkw && (!n_ids.is_empty() || !e_ids.is_empty());
        rep.case(&text, nontrivial);
        rep.count(&format!("history:{}", origin));

        let body_head = format!(
            "hist {}\n# model history {}\n# memory    nodes {:?}\n#           rels  {:?}\n# recovered nodes {:?}\n#           rels  {:?}\n# model: {}\n# spec: {}",
            text, mh, real.mem.nodes, real.mem.edges, real.rec.nodes, real.rec.edges, replies[0], replies[1]
        );
        if rep.samples.len() < 4 && nontrivial {
            rep.sample(json!({"history": text, "model_history": mh, "spec": replies[1], "model": replies[0]}));
        }

        // per entity: real recovered vs memory vs the model's prediction
        let last_mut = |kind: char, id: u64| -> String {
            for s in real.steps.iter().rev() {
                if !s.acked {
                    continue;
                }
                let hit = if kind == 'n' { s.muts_n.contains(&id) } else { s.muts_e.contains(&id) };
                if hit || matches!(s.rq, Rq::GraphDelete) {
                    return match &s.rq {
                        Rq::GraphDelete => "resp:graph.delete".into(),
                        Rq::Query(fe, q) => format!(
                            "{}:{}:{}",
                            if *fe == Fe::Resp { "resp" } else { "http" },
                            match kind_of(q) {
                                'c' => "create",
                                'm' => "merge",
                                's' => "set",
                                'r' => "remove",
                                'l' => "label",
                                _ => "delete",
                            },
                            if (kind == 'n' && s.ret_n.contains(&id)) || (kind == 'e' && s.ret_e.contains(&id)) { "returned" } else { "not-returned" }
                        ),
                    };
                }
            }
            "never-written".into()
        };
        let mut spec_failed = false;
        for (kind, id) in &what {
            let (mem_s, rec_s, mod_s) = if *kind == 'n' {
                (
                    real.mem.nodes.get(id).map(|d| codes.code(d).to_string()),
                    real.rec.nodes.get(id).map(|d| codes.code(d).to_string()),
                    m_rec_n.get(id).map(|c| c.to_string()),
                )
            } else {
                (
                    real.mem.edges.get(id).map(|(s, t, d)| format!("{}.{}.{}", s, t, codes.code(d))),
                    real.rec.edges.get(id).map(|(s, t, d)| format!("{}.{}.{}", s, t, codes.code(d))),
                    m_rec_e.get(id).cloned(),
                )
            };
            let ent = format!("{}{}", if *kind == 'n' { "node" } else { "rel" }, id);
            if rec_s != mem_s {
                spec_failed = true;
                let shape = match (&mem_s, &rec_s) {
                    (Some(_), None) => "missing",
                    (None, Some(_)) => "resurrected",
                    _ => "stale",
                };
                if rec_s == mod_s {
                    // predicted by the model: its blame names the cause
                    let sig = if *kind == 'n' { m_blame_n.get(id).cloned() } else { m_blame_e.get(id).cloned() }.unwrap_or_else(|| format!("unexplained:no-blame:{}", shape));
                    rep.count(&format!("loss:{}:{}", sig, shape));
                    rep.spec_violation(&known, &sig, &format!("{} is {} after the restart ({}) in `{}`", ent, shape, sig, text), &format!("{}\n# {} memory={:?} recovered={:?} model={:?}", body_head, ent, mem_s, rec_s, mod_s));
                } else {
                    // a loss the model does not predict: not one of the listed causes
                    let sig = format!("unexplained:{}:{}-{}", last_mut(*kind, *id), if *kind == 'n' { "node" } else { "rel" }, shape);
                    rep.count(&format!("loss:{}", sig));
                    rep.spec_violation(&known, &sig, &format!("{} is {} after the restart, which the persistence rule does not explain ({}) in `{}`", ent, shape, sig, text), &format!("{}\n# {} memory={:?} recovered={:?} model={:?}", body_head, ent, mem_s, rec_s, mod_s));
                }
            } else if rec_s != mod_s {
                rep.count("model_mismatch:model-predicts-loss-that-does-not-happen");
                if first_break.is_none() {
                    first_break = Some(format!("{}\n# {} memory={:?} recovered={:?} model={:?}", body_head, ent, mem_s, rec_s, mod_s));
                }
            }
        }
        // S as evaluated by the Lean driver must agree with the comparison above
        assert_eq!(replies[1] != "ok", spec_failed, "specDurable and the harness disagree on `{}`: {}", text, replies[1]);
        rep.count(if spec_failed { "history:loses-something" } else { "history:durable" });
        if origin == "partial" && spec_failed {
            rep.count("partial-history-not-durable");
        }
    }
    if let Some(body) = first_break {
        if rep.spec_violations.is_empty() {
            rep.correspondence_break(
                "AckDurable.recNode/recEdge = store rebuilt by the recovery loop of main.rs",
                "the model predicts a loss that the real server does not have",
                &body,
            );
        }
    }
    rep.write(&args.out);
}
