//! C08 — version garbage collection never changes a read it must preserve: `gc_versions(w)` /
//! `gc_auto()` inserted at every point of small version histories, every watermark value; all
//! reads at versions >= w (and the reads of active transactions across gc_auto) are compared
//! before/after on the real `GraphStore`, against the Lean model `SgModel.Mvcc` and its step
//! specification.  Only violations *at gc steps* belong to this property (the others are C07's).
#[path = "c07/mvcc.rs"]
mod mvcc;
use mvcc::{parse, render, Op};
use serde_json::json;
use vharness::{driver, Args, Known, Report, Rng};

fn base_alphabet(step: usize) -> Vec<Vec<Op>> {
    let v = step as i64 + 10;
    vec![
        vec![Op::SetProp(1, 0, v)],
        vec![Op::SetEdge(1, 0, v)],
        vec![Op::Bump],
        vec![Op::Begin(true)],
        vec![Op::Begin(false)],
        vec![Op::Commit(1)],
        vec![Op::RemoveProp(1, 0)],
        vec![Op::AddLabel(2, 3)],
        vec![Op::Abort(2)],
    ]
}

/// alphabet of the family "gc against registered write sets and finished transactions"
fn txn_alphabet(step: usize) -> Vec<Vec<Op>> {
    let v = step as i64 + 30;
    vec![
        vec![Op::Begin(true)],
        vec![Op::Begin(false)],
        vec![Op::WriteNode(1, 1)],
        vec![Op::WriteNode(2, 1)],
        vec![Op::WriteEdge(1, 1)],
        vec![Op::SetProp(1, 0, v)],
        vec![Op::SetEdge(1, 0, v)],
        vec![Op::Bump],
        vec![Op::Commit(1)],
        vec![Op::Commit(2)],
        vec![Op::Abort(1)],
    ]
}

fn bases(len: usize, txn_family: bool, out: &mut Vec<Vec<Op>>) {
    fn go(len: usize, txn_family: bool, cur: &mut Vec<Op>, steps: usize, out: &mut Vec<Vec<Op>>) {
        if steps == len {
            out.push(cur.clone());
            return;
        }
        for l in if txn_family { txn_alphabet(steps) } else { base_alphabet(steps) } {
            let n = l.len();
            cur.extend(l);
            go(len, txn_family, cur, steps + 1, out);
            for _ in 0..n {
                cur.pop();
            }
        }
    }
    go(len, txn_family, &mut vec![], 0, out);
}

/// current version after each prefix of `ops` (prefix of length i -> cur), by the rule of the code
fn cur_after(ops: &[Op]) -> Vec<u64> {
    // commit success depends on conflicts; no write sets are recorded here, so every commit of an
    // active transaction succeeds.  Track begun/finished to know which commits bump.
    let mut cur = 1u64;
    let mut begun = 0u64;
    let mut finished: Vec<u64> = vec![];
    let mut out = vec![cur];
    for op in ops {
        match op {
            Op::Bump => cur += 1,
            Op::Begin(_) => begun += 1,
            Op::Commit(t) => {
                if *t <= begun && !finished.contains(t) {
                    finished.push(*t);
                    cur += 1;
                }
            }
            Op::Abort(t) => {
                if *t <= begun && !finished.contains(t) {
                    finished.push(*t);
                }
            }
            _ => {}
        }
        out.push(cur);
    }
    out
}

fn random_case(rng: &mut Rng) -> Vec<Op> {
    let mut ops = vec![Op::CreateNode(1), Op::CreateNode(1), Op::CreateEdge(1, 2, if rng.chance(1, 2) { vec![(0, 9)] } else { vec![] })];
    let len = 8 + rng.usize(30);
    let mut cur = 1u64;
    let mut begun = 0u64;
    for step in 0..len {
        let r = rng.below(100);
        let v = step as i64 + 10;
        let op = if r < 18 {
            Op::SetProp(1 + rng.below(2), rng.below(2), v)
        } else if r < 34 {
            Op::SetEdge(1, rng.below(2), v)
        } else if r < 52 {
            cur += 1;
            Op::Bump
        } else if r < 60 {
            begun += 1;
            Op::Begin(rng.chance(1, 2))
        } else if r < 68 && begun > 0 {
            Op::Commit(1 + rng.below(begun))
        } else if r < 72 && begun > 0 {
            Op::Abort(1 + rng.below(begun))
        } else if r < 75 && begun > 0 {
            if rng.chance(1, 3) {
                Op::WriteEdge(1 + rng.below(begun), 1)
            } else {
                Op::WriteNode(1 + rng.below(begun), 1 + rng.below(2))
            }
        } else if r < 78 {
            Op::RemoveProp(1, rng.below(2))
        } else if r < 82 {
            Op::AddLabel(1 + rng.below(2), 2 + rng.below(2))
        } else if r < 92 {
            Op::Gc(rng.below(cur + 3))
        } else {
            Op::GcAuto
        };
        ops.push(op);
    }
    ops
}

const CLAUSES: [&str; 6] = ["stable", "asof", "now", "scan", "result", "txn"];

fn main() {
    let args = Args::parse();
    let known = Known::load(&args.known, "C08");
    let mut rep = Report::new(
        "C08",
        "version histories (node/relationship property writes, label writes, version bumps, 0-2 transactions begun/committed/aborted) \
         with gc_versions(w) for every w in 0..=cur+1 and gc_auto inserted at every position; every (entity, version) read and the \
         transaction reads are dumped before and after; non-trivial = some entity has two versions and a gc pruned at least one \
         version or log entry; distinct = distinct rendered history",
        &args.replays,
        args.seed,
    );
    let exe = args.driver_exe("drv_mvcc");

    let mut seqs: Vec<Vec<Op>> = vec![];
    let mut n_corpus = 0;
    let mut files: Vec<std::path::PathBuf> = vec![];
    if let Some(r) = &args.replay {
        files.push(r.clone());
    } else if let Ok(rd) = std::fs::read_dir(args.corpus.join("C08")) {
        files = rd.filter_map(|e| e.ok().map(|e| e.path())).collect();
        files.sort();
    }
    for f in &files {
        for line in std::fs::read_to_string(f).unwrap_or_default().lines() {
            if let Some(ops_txt) = line.trim().strip_prefix("ops ") {
                if let Some(ops) = parse(ops_txt) {
                    seqs.push(ops);
                    n_corpus += 1;
                }
            }
        }
    }
    rep.count_n("corpus_sequences", n_corpus);

    if args.replay.is_none() {
        let before = seqs.len();
        let l = 4;
        let mut bs = vec![];
        for k in 1..=l {
            bases(k, false, &mut bs);
        }
        for (pi, prefix) in [
            vec![Op::CreateNode(1), Op::CreateNode(1), Op::CreateEdge(1, 2, vec![(0, 9)])],
            vec![Op::CreateNode(1), Op::CreateNode(1), Op::Bump, Op::CreateEdge(1, 2, vec![])],
        ]
        .iter()
        .enumerate()
        {
            for (bi, b) in bs.iter().enumerate() {
                // quick tier: the longest bases are sampled (1 in 3, rotating with the seed)
                if !args.thorough() && b.len() == l && (pi == 1 || (bi as u64 + args.seed) % 3 != 0) {
                    continue;
                }
                let mut full = prefix.clone();
                full.extend(b.iter().cloned());
                let curs = cur_after(&full);
                // insert one gc at every position after the prefix, every watermark, and gc_auto
                for pos in prefix.len()..=full.len() {
                    let cur = curs[pos];
                    let mut gcs: Vec<Op> = (0..=cur + 1).map(Op::Gc).collect();
                    gcs.push(Op::GcAuto);
                    for g in gcs {
                        let mut s = full[..pos].to_vec();
                        s.push(g);
                        s.extend(full[pos..].iter().cloned());
                        seqs.push(s);
                    }
                }
            }
        }
        // family "gc against registered write sets and finished transactions": the entities have
        // two versions before the transactions start
        let n_main = seqs.len() - before;
        let tprefix = vec![
            Op::CreateNode(1),
            Op::CreateNode(1),
            Op::CreateEdge(1, 2, vec![(0, 9)]),
            Op::SetEdge(1, 0, 1),
            Op::Bump,
            Op::SetProp(1, 0, 2),
            Op::SetEdge(1, 0, 2),
        ];
        let mut tbs = vec![];
        for k in 1..=4 {
            bases(k, true, &mut tbs);
        }
        // second variant: a snapshot transaction (id 1) is already open when the base starts
        let mut tprefix_open = tprefix.clone();
        tprefix_open.push(Op::Begin(true));
        for (bi, b) in tbs.iter().enumerate().chain(tbs.iter().enumerate()).enumerate().map(|(k, (bi, b))| ((bi, k >= tbs.len()), b)) {
            let (bi, open_variant) = bi;
            let tprefix = if open_variant { &tprefix_open } else { &tprefix };
            if b.len() == 4 && (!args.thorough() || (bi as u64 + args.seed) % 4 != 0) {
                continue; // length 4: thorough tier only, 1 in 4
            }
            let mut full = tprefix.clone();
            full.extend(b.iter().cloned());
            let curs = cur_after(&full);
            for pos in tprefix.len() + 1..=full.len() {
                let cur = curs[pos];
                let mut gcs: Vec<Op> = (0..=cur + 1).map(Op::Gc).collect();
                gcs.push(Op::GcAuto);
                for g in gcs {
                    let mut s = full[..pos].to_vec();
                    s.push(g);
                    s.extend(full[pos..].iter().cloned());
                    seqs.push(s);
                }
            }
        }
        rep.count_n("family:main", n_main as u64);
        rep.count_n("family:txn_write_sets", (seqs.len() - before - n_main) as u64);
        rep.exhaustive = true;
        rep.exhaustive_note = format!(
            "{} histories: two creation prefixes (relationship created with / without properties, at version 1 / 2) x every base \
             history of up to {} steps (quick tier: all up to one less, a third of the longest) over {{set node prop, set rel prop, bump, begin SI, begin RC, commit 1, remove prop, add label, \
             abort 2}} x gc_versions(w) for every w in 0..=cur+1 and gc_auto at every position; the same gc insertion over every base history of up to 3 \
             steps (thorough: a quarter of those of 4) over {{begin SI, begin RC, txn_write_node(1,n1), txn_write_node(2,n1), \
             txn_write_edge(1,r1), set node prop, set rel prop, bump, commit 1, commit 2, abort 1}} after a prefix that gives node and \
             relationship two versions (once with, once without a snapshot transaction already open); plus PRNG histories with several gcs and registered write sets (not exhaustive)",
            seqs.len() - before,
            l
        );
        let mut rng = Rng::new(args.seed);
        let n_rand = if args.thorough() { 60_000 } else { 6_000 };
        for _ in 0..n_rand {
            seqs.push(random_case(&mut rng));
        }
    }

    let mut first_break: Option<String> = None;
    for chunk in seqs.chunks(100_000) {
        let rendered: Vec<String> = chunk.iter().map(|s| render(s)).collect();
        let ran = mvcc::run_all(chunk, 12, 0, true);
        let real: Vec<&String> = ran.iter().map(|r| &r.0).collect();
        let mut lines = Vec::with_capacity(chunk.len() * 2);
        for (r, o) in rendered.iter().zip(real.iter()) {
            lines.push(format!("run {}", r));
            lines.push(format!("spec {} {}", r, o));
        }
        let replies = driver::par_batch(&exe, &lines, 14);
        for (k, ops) in chunk.iter().enumerate() {
            let m = &replies[2 * k];
            let s = &replies[2 * k + 1];
            let nt = ran[k].2;
            rep.case(&rendered[k], nt);
            if nt && rep.samples.len() < 3 {
                rep.sample(json!({"ops": rendered[k], "impl_obs_last": real[k].rsplit(';').next()}));
            }
            for op in ops {
                if matches!(op, Op::Gc(_) | Op::GcAuto) {
                    rep.count(&format!("op:{}", op.kind()));
                }
            }
            let body = format!("ops {}\nimpl  {}\nmodel {}\nspec  {}", rendered[k], real[k], m, s);
            if s != "ok" {
                let mut sigs: Vec<String> = vec![];
                match s.strip_prefix("viol ") {
                    Some(list) => {
                        for v in list.split(',') {
                            let f: Vec<&str> = v.split('.').collect();
                            let step = f.first().and_then(|x| x.parse::<usize>().ok());
                            let clause = f.get(1).and_then(|x| x.parse::<usize>().ok()).unwrap_or(4);
                            let ent = if f.get(2) == Some(&"e") { "rel" } else { "node" };
                            let op = step.and_then(|i| ops.get(i));
                            // only gc steps belong to C08
                            if !matches!(op, Some(Op::Gc(_)) | Some(Op::GcAuto)) {
                                rep.count("non_gc_step_violation_ignored(C07)");
                                continue;
                            }
                            let sig = format!("{}:{}:{}", CLAUSES.get(clause).unwrap_or(&"?"), op.unwrap().kind(), ent);
                            if !sigs.contains(&sig) {
                                sigs.push(sig);
                            }
                        }
                    }
                    None => sigs.push("driver-rejected".into()),
                }
                for sig in sigs {
                    rep.count(&format!("spec_violation:{}", sig));
                    rep.spec_violation(&known, &sig, &format!("gc specification violated ({}) on `{}`: {}", sig, rendered[k], s), &body);
                }
            }
            if *m != format!("ok {}", real[k]) {
                rep.count("model_mismatch");
                if first_break.is_none() {
                    first_break = Some(body);
                }
            }
        }
    }
    if let Some(body) = first_break {
        if rep.spec_violations.is_empty() {
            rep.correspondence_break(
                "SgModel.Mvcc.step = GraphStore::{gc_versions, gc_auto, gc_watermark, get_*_at_version, get_*_for_txn} (dumps)",
                "model and implementation observations differ but the gc specification holds on all explored cases",
                &body,
            );
        }
    }
    rep.sample(json!({"ops": seqs.last().map(|s| render(s))}));
    rep.write(&args.out);
}
