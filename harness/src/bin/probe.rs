fn main() { println!("ok"); }
