//! scratch probe (agent lex)
#[path = "c24/loopback.rs"]
mod loopback;
use samyama::nlq::NLQPipeline;
use samyama::persistence::tenant::{LLMProvider, NLQConfig};

fn main() {
    std::env::set_var("NO_PROXY", "127.0.0.1,localhost");
    std::env::set_var("no_proxy", "127.0.0.1,localhost");
    let lb = loopback::Loopback::start().expect("bind loopback");
    let pipe = NLQPipeline::new(NLQConfig {
        enabled: true,
        provider: LLMProvider::Ollama,
        model: "scripted".into(),
        api_key: None,
        api_base_url: Some(lb.url.clone()),
        system_prompt: None,
    })
    .expect("pipeline");
    let rt = tokio::runtime::Builder::new_current_thread().enable_all().build().unwrap();
    let accept = [
        "MATCH (n:Person) RETURN n.name", "MATCH (a)-[:KNOWS]->(b) RETURN a, b", "MATCH (n) WHERE n.age > 30 RETURN count(n)", "RETURN 1",
        "UNWIND [1,2,3] AS x RETURN x", "WITH 1 AS x RETURN x", "CALL db.labels()", "MATCH (n:Person) WHERE n.name = 'SET' RETURN n",
        "MATCH (n) WHERE n.status = 'CREATED' RETURN n", "match (n) return n", "CALL algo.pageRank({}) YIELD node", "WITH 1 AS x MATCH (n) RETURN n",
        "RETURN 42", "RETURN datetime()", "  MATCH (n) RETURN n  ", "  RETURN 1  ", "MATCH (n) RETURN n LIMIT 10", "MATCH (n) RETURN n",
    ];
    let reject = [
        "CREATE (n:Person {name: 'Alice'})", "DELETE n", "SET n.name = 'Bob'", "MERGE (n:Person {name: 'Alice'})", "DROP INDEX my_index", "REMOVE n.age",
        "CREATE (:Person {name: 'Eve'})", "DROP INDEX myIdx", "SET n.name = 'test'", "", "MATCH (n) DETACH DELETE n",
    ];
    for q in accept {
        println!("accept? {:5} {:?}", pipe.is_safe_query(q), q);
    }
    for q in reject {
        println!("reject? {:5} {:?}", !pipe.is_safe_query(q), q);
    }
    let t0 = std::time::Instant::now();
    for resp in ["MATCH (n) RETURN n", "Here:\n```cypher\nMATCH (n) DETACH DELETE n\n```", "MATCH (n)\nDETACH DELETE n", "CREATE (n)"] {
        lb.script(resp);
        let r = rt.block_on(pipe.text_to_cypher("q", "schema"));
        println!("t2c {:?} -> {:?}", resp, r.map_err(|e| e.to_string()));
    }
    for _ in 0..200 {
        lb.script("MATCH (n) RETURN n");
        let _ = rt.block_on(pipe.text_to_cypher("q", "schema"));
    }
    println!("204 round trips in {:?}", t0.elapsed());
}
