//! scratch probe (agent lex): prints what the real code does on a few inputs
use samyama::graph::GraphStore;
use samyama::query::{parse_query, QueryEngine};
use std::panic::{catch_unwind, AssertUnwindSafe};

fn show_batch(r: Result<samyama::query::RecordBatch, Box<dyn std::error::Error>>) -> String {
    match r {
        Ok(b) => format!("cols={:?} rows={:?}", b.columns, b.records),
        Err(e) => format!("ERR {}", e),
    }
}

fn main() {
    let args: Vec<String> = std::env::args().skip(1).collect();
    let mode = args.first().map(|s| s.as_str()).unwrap_or("all");
    std::panic::set_hook(Box::new(|_| {}));
    if mode == "all" || mode == "c03" {
        let store = GraphStore::new();
        let seqs: Vec<Vec<&str>> = vec![
            vec!["RETURN 'a b'", "RETURN 'a  b'"],
            vec!["RETURN 1 // x\n+ 1", "RETURN 1 // x + 1"],
            vec!["RETURN 1", "RETURN\u{a0}1"],
            vec!["RETURN  1 +  2", "RETURN 1 + 2"],
            vec!["RETURN 1 /* a  b */ + 2", "RETURN 1 /* a b */ + 2"],
            vec!["RETURN 1\u{c}+ 2", "RETURN 1 + 2"],
        ];
        for seq in seqs {
            let eng = QueryEngine::with_capacity(2);
            for q in &seq {
                let cached = show_batch(eng.execute(q, &store));
                let fresh = show_batch(QueryEngine::with_capacity(1).execute(q, &store));
                println!(
                    "C03 {:?}\n   cached {}\n   fresh  {}\n   hits={} misses={} len={}",
                    q,
                    cached,
                    fresh,
                    eng.cache_stats().hits(),
                    eng.cache_stats().misses(),
                    eng.cache_len()
                );
            }
        }
    }
    if mode == "all" || mode == "c25" {
        let big = "99999999999999999999999";
        let qs = vec![
            format!("MATCH (a)-[*{}..2]->(b) RETURN a", big),
            format!("MATCH (a)-[*1..{}]->(b) RETURN a", big),
            format!("MATCH (a)-[*{}]->(b) RETURN a", big),
            "MATCH (a)-[*0x10]->(b) RETURN a".to_string(),
            "MATCH (a)-[*-1]->(b) RETURN a".to_string(),
            "MATCH (a)-[*-1..2]->(b) RETURN a".to_string(),
            "MATCH (a)-[*0o7..0x9]->(b) RETURN a".to_string(),
            format!("RETURN 1 LIMIT {}", big),
            format!("RETURN 1 SKIP {}", big),
            "RETURN 1 LIMIT -1".to_string(),
            "RETURN 1 LIMIT 0x10".to_string(),
            format!("MATCH (n) RETURN n LIMIT {}", big),
            "MATCH (n) RETURN n LIMIT -1".to_string(),
            "MATCH (n) RETURN n LIMIT 0x10".to_string(),
            format!("WITH 1 AS x RETURN x LIMIT {}", big),
            format!("WITH 1 AS x LIMIT {} RETURN x", big),
            format!("CALL db.labels() YIELD label RETURN label LIMIT {}", big),
            format!("CREATE (n) RETURN n LIMIT {}", big),
            format!("UNWIND [1,2] AS x RETURN x LIMIT {}", big),
            format!("MATCH (n) WITH n CREATE (m) WITH m RETURN m LIMIT {}", big),
            format!("RETURN 1 AS x UNION RETURN 2 AS x LIMIT {}", big),
            format!("RETURN {}", big),
            "RETURN 9223372036854775807".to_string(),
            "RETURN -9223372036854775808".to_string(),
            "RETURN 9223372036854775808".to_string(),
            "RETURN 0x7fffffffffffffff".to_string(),
            "RETURN 0x8000000000000000".to_string(),
            "RETURN 0o777".to_string(),
            "RETURN 1e308".to_string(),
            "RETURN 1e309".to_string(),
            "RETURN 1.0e-400".to_string(),
            "RETURN 007".to_string(),
            "RETURN [1, 99999999999999999999999]".to_string(),
            "RETURN 1 + 99999999999999999999999".to_string(),
        ];
        for q in qs {
            let r = catch_unwind(AssertUnwindSafe(|| parse_query(&q)));
            let s = match r {
                Err(_) => "PANIC".to_string(),
                Ok(Err(e)) => format!("ERR {}", e),
                Ok(Ok(ast)) => {
                    let lens: Vec<String> = ast
                        .match_clauses
                        .iter()
                        .flat_map(|m| m.pattern.paths.iter())
                        .flat_map(|p| p.segments.iter())
                        .map(|s| format!("{:?}", s.edge.length))
                        .collect();
                    format!(
                        "OK skip={:?} limit={:?} lens={:?} with={:?} ret={:?}",
                        ast.skip,
                        ast.limit,
                        lens,
                        ast.with_clause.as_ref().map(|w| (w.skip, w.limit)),
                        ast.return_clause.as_ref().map(|r| format!("{:?}", r.items.iter().map(|i| &i.expression).collect::<Vec<_>>()))
                    )
                }
            };
            println!("C25 {:?} -> {}", q, s);
        }
    }
}
