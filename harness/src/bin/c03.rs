//! C03 — the parsed-query cache never changes what a query means.
//!
//! Sequences of near-duplicate query strings go through one long-lived `QueryEngine`
//! (capacities 0,1,2,3,1024: evictions are forced) and, string by string, through a fresh
//! `parse_query` + executor.  Three evaluations per sequence:
//!   R  the engine's results, the fresh results, hit/miss counters, cache length;
//!   M  the Lean cache model (`drv_cache run`, key = `Lex.normalize`): hit/miss, length, and
//!      on a hit *which earlier spelling's parse* is returned;
//!   S  the executable specification on R (`drv_cache spec`): cached result = fresh result,
//!      counters add up, length <= capacity.
use samyama::graph::GraphStore;
use samyama::query::{parse_query, MutQueryExecutor, QueryEngine, QueryExecutor, RecordBatch};
use serde_json::json;
use std::collections::HashMap;
use vharness::util::{fnv, hex};
use vharness::{driver, Args, Known, Report, Rng};

#[derive(Clone, Debug, PartialEq)]
struct Res {
    /// Ok: (columns, per row: (name, value)) ; Err: message
    ok: Option<(Vec<String>, Vec<Vec<(String, String)>>)>,
    err: String,
}

fn canon(r: Result<RecordBatch, String>) -> Res {
    match r {
        Ok(b) => Res {
            ok: Some((
                b.columns.clone(),
                b.records
                    .iter()
                    .map(|r| r.bindings().iter().map(|(n, v)| (n.to_string(), format!("{:?}", v))).collect())
                    .collect(),
            )),
            err: String::new(),
        },
        Err(e) => Res { ok: None, err: e },
    }
}

impl Res {
    fn text(&self) -> String {
        match &self.ok {
            Some((c, r)) => format!("cols={:?} rows={:?}", c, r),
            None => format!("ERR {}", self.err.replace('\n', " ")),
        }
    }
    fn digest(&self) -> u64 {
        // error texts quote the input with positions; only the fact of an error is compared
        match &self.ok {
            Some(_) => fnv(&self.text()) | 1,
            None => 0,
        }
    }
    fn same(&self, other: &Res) -> bool {
        self.ok == other.ok
    }
    fn values(&self) -> Option<Vec<Vec<String>>> {
        self.ok.as_ref().map(|(_, r)| r.iter().map(|row| row.iter().map(|(_, v)| v.clone()).collect()).collect())
    }
    fn names_squeezed(&self) -> Option<Vec<String>> {
        self.ok.as_ref().map(|(c, r)| {
            let mut v: Vec<String> = c.iter().map(|s| s.chars().filter(|c| !c.is_whitespace()).collect()).collect();
            for row in r {
                for (n, _) in row {
                    v.push(n.chars().filter(|c| !c.is_whitespace()).collect());
                }
            }
            v
        })
    }
}

/// structural class of a cached-vs-fresh disagreement
fn classify(cached: &Res, fresh: &Res) -> &'static str {
    match (&cached.ok, &fresh.ok) {
        (Some(_), None) => "result-for-unparsable-text",
        (None, Some(_)) => "error-for-valid-text",
        (None, None) => "different-errors",
        (Some(_), Some(_)) => {
            if cached.values() != fresh.values() {
                "different-rows"
            } else if cached.names_squeezed() == fresh.names_squeezed() {
                "colname-spelling"
            } else {
                "different-columns"
            }
        }
    }
}

fn base_store() -> GraphStore {
    let mut store = GraphStore::new();
    let q = parse_query(
        "CREATE (:P {name: 'a b', k: 1}), (:P {name: 'a  b', k: 2}), (:P {name: 'a\tb', k: 3}), (:P {name: 'x', k: 4}), (:P {name: 'a // b', k: 5})",
    )
    .expect("setup parses");
    MutQueryExecutor::new(&mut store, "default".to_string()).execute(&q).expect("setup runs");
    store
}

fn fresh_read(q: &str, store: &GraphStore) -> Res {
    canon(match parse_query(q) {
        Err(e) => Err(e.to_string()),
        Ok(ast) => QueryExecutor::new(store).execute(&ast).map_err(|e| e.to_string()),
    })
}
fn fresh_write(q: &str, store: &mut GraphStore) -> Res {
    canon(match parse_query(q) {
        Err(e) => Err(e.to_string()),
        Ok(ast) => MutQueryExecutor::new(store, "default".to_string()).execute(&ast).map_err(|e| e.to_string()),
    })
}

#[derive(Clone, Debug)]
struct Case {
    cap: usize,
    write: bool,
    qs: Vec<String>,
    /// generator family (evidence only)
    tag: &'static str,
}

struct Outcome {
    cached: Vec<Res>,
    fresh: Vec<Res>,
    hits: Vec<u64>,
    misses: Vec<u64>,
    lens: Vec<usize>,
    parse_ok: Vec<bool>,
}

fn run_real(case: &Case, base: &GraphStore) -> Outcome {
    let eng = QueryEngine::with_capacity(case.cap);
    let mut o = Outcome { cached: vec![], fresh: vec![], hits: vec![], misses: vec![], lens: vec![], parse_ok: vec![] };
    let mut sa = if case.write { Some((GraphStore::new(), GraphStore::new())) } else { None };
    for q in &case.qs {
        o.parse_ok.push(parse_query(q).is_ok());
        let (c, f) = match &mut sa {
            None => (canon(eng.execute(q, base).map_err(|e| e.to_string())), fresh_read(q, base)),
            Some((a, b)) => (canon(eng.execute_mut(q, a, "default").map_err(|e| e.to_string())), fresh_write(q, b)),
        };
        o.cached.push(c);
        o.fresh.push(f);
        o.hits.push(eng.cache_stats().hits());
        o.misses.push(eng.cache_stats().misses());
        o.lens.push(eng.cache_len());
    }
    o
}

// ---------------------------------------------------------------- generator

const SEPS: &[&str] = &[" ", "  ", "\t", "\n", "\r\n", " \n  "];
const BAD_SEPS: &[&str] = &["\u{a0}", "\u{2003}", "\u{c}", " \u{a0}"];
const LITS: &[&str] = &[
    "'a b'", "'a  b'", "'a\tb'", "\"a b\"", "\"a  b\"", "'a // b'", "'a  //  b'", "'a /* b'", "'a  /*  b */'",
    "'it\\'s  x'", "'it\\'s x'", "\"q'  r\"", "\"q' r\"", "'`  `'", "'x'",
];
const COMMENTS: &[&str] = &[
    "", "// c\n", "// c ", "//  c\n", "/* c */", "/*  c  */", "/* ' */", "/* '  ' */", "// it's\n", "/*/ 1 */", "/**/",
    "/* * / */", "//\n",
];

fn sep(rng: &mut Rng) -> String {
    if rng.chance(1, 14) {
        rng.pick(BAD_SEPS).to_string()
    } else if rng.chance(3, 5) {
        " ".to_string()
    } else {
        rng.pick(SEPS).to_string()
    }
}
fn kw(rng: &mut Rng, k: &str) -> String {
    if rng.chance(1, 6) {
        k.to_lowercase()
    } else {
        k.to_string()
    }
}
fn lit(rng: &mut Rng) -> String {
    rng.pick(LITS).to_string()
}

/// one variant of template `tpl`: every slot (separator, literal, comment, keyword case) drawn afresh
fn variant(rng: &mut Rng, tpl: usize) -> String {
    let lead = if rng.chance(1, 5) { sep(rng) } else { String::new() };
    let trail = if rng.chance(1, 5) { sep(rng) } else { String::new() };
    let mut parts: Vec<String> = vec![];
    let mut p = |s: String| parts.push(s);
    match tpl {
        0 => {
            p(kw(rng, "RETURN")); p(sep(rng)); p(lit(rng)); p(sep(rng)); p(kw(rng, "AS")); p(sep(rng)); p("x".into());
        }
        1 => {
            p(kw(rng, "MATCH")); p(sep(rng)); p("(n:P)".into()); p(sep(rng)); p(kw(rng, "WHERE")); p(sep(rng));
            p("n.name".into()); p(sep(rng)); p("=".into()); p(sep(rng)); p(lit(rng)); p(sep(rng));
            p(kw(rng, "RETURN")); p(sep(rng)); p("n.k".into()); p(sep(rng)); p("AS".into()); p(sep(rng)); p("k".into());
        }
        2 => {
            p(kw(rng, "RETURN")); p(sep(rng)); p("1".into()); p(sep(rng)); p(rng.pick(COMMENTS).to_string());
            p("+".into()); p(sep(rng)); p("1".into()); p(sep(rng)); p("AS".into()); p(sep(rng)); p("x".into());
        }
        3 => {
            p("RETURN".into()); p(sep(rng)); p("size(".into()); p(lit(rng)); p(")".into()); p(sep(rng));
            p("AS".into()); p(sep(rng)); p("x".into());
        }
        4 => {
            // unaliased: the column is named after the text as written
            if rng.chance(1, 2) {
                p("RETURN".into()); p(sep(rng)); p("1".into()); p(sep(rng)); p("+".into()); p(sep(rng)); p("2".into());
            } else {
                p("RETURN".into()); p(sep(rng)); p(lit(rng));
            }
        }
        5 => {
            p("UNWIND".into()); p(sep(rng)); p("[".into()); p(lit(rng)); p(",".into()); p(sep(rng)); p(lit(rng));
            p("]".into()); p(sep(rng)); p("AS".into()); p(sep(rng)); p("s".into()); p(sep(rng));
            p("RETURN".into()); p(sep(rng)); p("s".into()); p(sep(rng)); p("AS".into()); p(sep(rng)); p("x".into());
        }
        6 => {
            // comment between clauses, possibly holding a quote
            p("MATCH".into()); p(sep(rng)); p("(n:P)".into()); p(sep(rng)); p(rng.pick(COMMENTS).to_string());
            p("RETURN".into()); p(sep(rng)); p("count(n)".into()); p(sep(rng)); p("AS".into()); p(sep(rng)); p("c".into());
        }
        7 => {
            // unterminated literal: must stay an error whatever was cached before
            let l = lit(rng);
            let cut = l[..l.len() - 1].to_string();
            p("RETURN".into()); p(sep(rng)); p(cut); p(sep(rng)); p("AS".into()); p(sep(rng)); p("x".into());
        }
        _ => {
            p("CREATE".into()); p(sep(rng)); p("(n:T".into()); p(sep(rng)); p("{s:".into()); p(sep(rng)); p(lit(rng));
            p("})".into()); p(sep(rng)); p("RETURN".into()); p(sep(rng)); p("n.s".into()); p(sep(rng));
            p("AS".into()); p(sep(rng)); p("x".into());
        }
    }
    format!("{}{}{}", lead, parts.concat(), trail)
}


// ---------------------------------------------------------------- scanner-state desynchronisation
//
// The cache key is built by a scanner that must agree with the grammar about where literals
// and comments begin and end.  If it loses track once (an escape right before a closing
// quote, a quote of the other kind, a comment opener inside a literal, a quote inside a
// comment ...) everything after that point is seen inverted: the inside of a LATER literal is
// taken for code and its whitespace runs are collapsed.  So: a fixed "head" that stresses the
// scanner, followed by a "tail" whose only variation is whitespace inside a later
// literal / comment.

/// string-valued heads: the scanner must come out of each of them in the Code state
const HEADS: &[&str] = &[
    // ending in an escaped backslash (one, two, three of them)
    r"'C:\\'", r"'\\'", r"'\\\\'", r"'a\\\\'", r"'\\\\\\'", r#""C:\\""#, r#""\\""#, r#""a\\\\""#,
    // ending in an escaped quote; escaped backslash then escaped quote
    r"'it\''", r"'\''", r"'\\\''", r"'a\'\''", r#""\"""#, r#""\\\"""#, r#""say \"hi\"""#,
    // other escapes right before the closing quote
    r"'a\n'", r"'a\t'", r"'\u0041'", r"'a\ '", r#""a\n""#,
    // the other quote kind / backticks inside
    r#"'say "hi'"#, r#"'"'"#, r#"'""'"#, r#""it's""#, r#""'""#, r#""''""#, "'`'", "'a`b'", "\"`\"", r#"'\"'"#, r#""\'""#,
    // comment openers / closers inside a literal
    "'/*'", "'*/'", "'//'", "'a /* b'", "'a // b'", "\"/*\"", "\"//\"", "'/*/'",
    // empty and plain
    "''", "\"\"", "'x'", "\"x\"",
];

/// comments placed before the tail: quotes, stars and slashes that are not what they seem
const HEAD_COMMENTS: &[&str] = &[
    "/* ' */", "/* \" */", "/* it's */", "/*/ ' */", "/*/ \" /*/", "/***/", "/* **/", "/* * / ' */", "/**/", "/* \\ */", "/* '\\' */",
    "/* // ' */", "// '\n", "// it's\n", "// \"\n", "// /* '\n", "//\n", "// \\\n", "/* ` */", "// `\n",
];

/// numeric heads: a `/` that is an operator, not a comment
const NUM_HEADS: &[&str] = &["6 / 2", "6/2", "6 /2", "6/ 2", "6 / 2 / 1", "6 * 2", "7 % 2", "6 /* ' */ / 2", "6 / /* \" */ 2"];

/// tails: the same later literal with different whitespace inside, in both quote kinds;
/// the last two differ in whether a line comment swallows the rest of the statement
const TAILS: &[&str] = &["'p q'", "'p  q'", "'p\tq'", "'p \n q'", "\"p q\"", "\"p  q\"", "\"p\tq\""];
/// tails for the MATCH template: names that exist in the store
const NAME_TAILS: &[&str] = &["'a b'", "'a  b'", "'a\tb'", "\"a b\"", "\"a  b\"", "'a // b'", "'a //  b'"];

const N_DESYNC_TPL: usize = 9;

/// `sp` = separator between tokens (one space in the exhaustive families)
fn desync(tpl: usize, h1: &str, h2: &str, c: &str, tail: usize, sp: &mut dyn FnMut() -> String) -> String {
    let t = TAILS[tail % TAILS.len()];
    let nt = NAME_TAILS[tail % NAME_TAILS.len()];
    let mut parts: Vec<String> = vec![];
    {
        let mut tok = |x: &str| {
            if !x.is_empty() {
                if !parts.is_empty() {
                    parts.push(sp());
                }
                parts.push(x.to_string());
            }
        };
        match tpl {
            0 => { tok("RETURN"); tok(h1); tok(c); tok("+"); tok(t); tok("AS"); tok("x"); }
            1 => { tok("RETURN"); tok(&format!("[{},", h1)); tok(c); tok(&format!("{},", h2)); tok(&format!("{}]", t)); tok("AS"); tok("x"); }
            2 => { tok("RETURN"); tok(h1); tok("AS"); tok("h,"); tok(c); tok(t); tok("AS"); tok("x"); }
            3 => { tok("WITH"); tok(h1); tok("AS"); tok("h"); tok(c); tok("RETURN"); tok("h"); tok("+"); tok(t); tok("AS"); tok("x"); }
            4 => { tok("UNWIND"); tok(&format!("[{},", h1)); tok(&format!("{}]", h2)); tok("AS"); tok("s"); tok(c); tok("RETURN"); tok("s"); tok("+"); tok(t); tok("AS"); tok("x"); }
            5 => {
                tok("MATCH"); tok("(n:P)"); tok("WHERE"); tok("n.name"); tok("<>"); tok(h1); tok(c); tok("AND"); tok("n.name"); tok("="); tok(nt);
                tok("RETURN"); tok("n.k"); tok("AS"); tok("k");
            }
            6 => { tok("RETURN"); tok(h1); tok("+"); tok(h2); tok(c); tok("+"); tok(t); tok("+"); tok(h1); tok("AS"); tok("x"); }
            7 => {
                // a later COMMENT varies: with the newline the statement goes on, without it the rest is commented out
                tok("RETURN"); tok(h1); tok("+"); tok("'p'"); tok(c);
                tok(["// c\n", "// c", "//  c\n", "/* c */", "/*  c  */", "// c \n", "//c\n"][tail % 7]);
                tok("+"); tok("'z'"); tok("AS"); tok("x");
            }
            _ => { tok("RETURN"); tok(h1); tok("AS"); tok("h,"); tok(c); tok(t); tok("AS"); tok("x"); } // h1 numeric
        }
    }
    parts.concat()
}

fn gen_desync_case(rng: &mut Rng) -> Case {
    let cap = *rng.pick(&[1usize, 1, 2, 2, 3, 1024]);
    let tpl = rng.usize(N_DESYNC_TPL);
    let pick_head = |rng: &mut Rng| if tpl == 8 { rng.pick(NUM_HEADS).to_string() } else { rng.pick(HEADS).to_string() };
    let mut h1 = pick_head(rng);
    let h2 = rng.pick(HEADS).to_string();
    let c = if rng.chance(1, 2) { String::new() } else { rng.pick(HEAD_COMMENTS).to_string() };
    let n = 2 + rng.usize(4);
    let mut pool: Vec<String> = vec![];
    let mut qs = vec![];
    for _ in 0..n {
        if !pool.is_empty() && rng.chance(1, 5) {
            qs.push(rng.pick(&pool).clone());
            continue;
        }
        if rng.chance(1, 8) {
            h1 = pick_head(rng); // a sibling head now and then: more keys in the cache
        }
        let tail = rng.usize(7);
        let wild = rng.chance(1, 4);
        let q = {
            let mut sp = || if wild && rng.chance(1, 3) { rng.pick(SEPS).to_string() } else { " ".to_string() };
            desync(tpl, &h1, &h2, &c, tail, &mut sp)
        };
        pool.push(q.clone());
        qs.push(q);
    }
    Case { cap, write: false, qs, tag: "desync" }
}

/// exhaustive: every head (and every head comment, every numeric head) x all ordered pairs of tails
fn exhaustive_desync(out: &mut Vec<Case>, thorough: bool) {
    let mut one = || " ".to_string();
    let caps: &[usize] = if thorough { &[1, 2] } else { &[2] };
    let mut family = |tpl: usize, h1: &str, h2: &str, c: &str, out: &mut Vec<Case>| {
        let fam: Vec<String> = (0..7).map(|t| desync(tpl, h1, h2, c, t, &mut one)).collect();
        for cap in caps {
            for a in &fam {
                for b in &fam {
                    if a != b {
                        out.push(Case { cap: *cap, write: false, qs: vec![a.clone(), b.clone()], tag: "desync" });
                    }
                }
            }
        }
    };
    for h in HEADS {
        family(0, h, "'x'", "", out);
        family(5, h, "'x'", "", out);
        if thorough {
            family(1, "'x'", h, "", out);
            family(6, h, h, "", out);
            family(7, h, "'x'", "", out);
        }
    }
    for c in HEAD_COMMENTS {
        family(0, "'x'", "'x'", c, out);
        family(2, "'x'", "'x'", c, out);
        if thorough {
            family(5, "'x'", "'x'", c, out);
            family(7, "'x'", "'x'", c, out);
        }
    }
    for h in NUM_HEADS {
        family(8, h, "'x'", "", out);
    }
    // two stressing heads in a row, one of each quote kind, then the tail
    let mixed: &[(&str, &str)] = &[
        (r"'C:\\'", r#""it's""#), (r#""C:\\""#, r"'it\''"), (r"'\\\''", r#""\\\"""#), ("'/*'", "\"*/\""), ("'//'", r"'\\'"), (r#"'"'"#, r#""'""#),
    ];
    for (a, b) in mixed {
        family(6, a, b, "", out);
        family(4, a, b, "/* ' */", out);
    }
}

const N_READ_TPL: usize = 8;

fn gen_case(rng: &mut Rng) -> Case {
    let cap = *rng.pick(&[0usize, 1, 1, 2, 2, 3, 1024]);
    let write = rng.chance(1, 10);
    let n = 2 + rng.usize(7);
    let tpl = if write { 8 } else { rng.usize(N_READ_TPL) };
    let mut pool: Vec<String> = vec![];
    let mut qs = vec![];
    for _ in 0..n {
        // near-duplicates: re-draw from the same template; repeat an earlier text sometimes
        if !pool.is_empty() && rng.chance(1, 4) {
            qs.push(rng.pick(&pool).clone());
            continue;
        }
        let t = if !write && rng.chance(1, 6) { rng.usize(N_READ_TPL) } else { tpl };
        let q = variant(rng, t);
        pool.push(q.clone());
        qs.push(q);
    }
    Case { cap, write, qs, tag: "" }
}

/// small exhaustive scope: all ordered pairs and triples over hand-picked families
fn exhaustive(out: &mut Vec<Case>, thorough: bool) {
    let families: Vec<Vec<&str>> = vec![
        vec![
            "RETURN 'a b' AS x", "RETURN 'a  b' AS x", "RETURN  'a b' AS x", "RETURN 'a b'  AS x", "RETURN 'a\tb' AS x",
            "RETURN\u{a0}'a b' AS x", "return 'a b' AS x", " RETURN 'a b' AS x ", "RETURN \"a b\" AS x", "RETURN \"a  b\" AS x",
        ],
        vec![
            "RETURN 1 // c\n+ 1 AS x", "RETURN 1 // c + 1 AS x", "RETURN 1 //  c\n+ 1 AS x", "RETURN 1 // c\n + 1 AS x",
            "RETURN 1 /* c */ + 1 AS x", "RETURN 1 /*  c  */ + 1 AS x", "RETURN 1 + 1 AS x", "RETURN  1 +  1 AS x",
            "RETURN 1 /* ' */ + 1 AS x", "RETURN 1 /* '  */ + 1 AS x",
        ],
        vec![
            "MATCH (n:P) WHERE n.name = 'a b' RETURN n.k AS k", "MATCH (n:P) WHERE n.name = 'a  b' RETURN n.k AS k",
            "MATCH (n:P)  WHERE n.name = 'a b' RETURN n.k AS k", "MATCH (n:P) WHERE n.name = 'a\tb' RETURN n.k AS k",
            "MATCH (n:P) WHERE n.name = 'a // b' RETURN n.k AS k", "MATCH (n:P) WHERE n.name = 'a //  b' RETURN n.k AS k",
            "MATCH (n:P) WHERE n.name = 'a b'\nRETURN n.k AS k",
        ],
        vec!["RETURN 1 + 2", "RETURN  1 +  2", "RETURN 1 +\t2", "RETURN 1 + 2 ", "RETURN 'a b'", "RETURN 'a  b'", "RETURN  'a b'"],
        vec![
            "RETURN 'it\\'s  x' AS x", "RETURN 'it\\'s x' AS x", "RETURN  'it\\'s x' AS x", "RETURN 'it\\'s x'  AS x",
            "RETURN \"q'  r\" AS x", "RETURN \"q' r\" AS x", "RETURN 'a b AS x", "RETURN 'a  b AS x",
        ],
    ];
    for fam in &families {
        for cap in [1usize, 2] {
            for a in fam {
                for b in fam {
                    out.push(Case { cap, write: false, qs: vec![a.to_string(), b.to_string()], tag: "" });
                    if thorough || fam.len() <= 8 {
                        for c in fam {
                            out.push(Case { cap, write: false, qs: vec![a.to_string(), b.to_string(), c.to_string()], tag: "" });
                        }
                    }
                }
            }
        }
    }
}

fn render(c: &Case) -> String {
    format!("seq {} {} {}", c.cap, if c.write { "w" } else { "r" }, serde_json::to_string(&c.qs).unwrap())
}

fn parse_case(line: &str) -> Option<Case> {
    let rest = line.strip_prefix("seq ")?;
    let (cap, rest) = rest.split_once(' ')?;
    let (w, arr) = rest.split_once(' ')?;
    Some(Case { cap: cap.parse().ok()?, write: w == "w", qs: serde_json::from_str(arr).ok()?, tag: "" })
}

fn main() {
    let args = Args::parse();
    let known = Known::load(&args.known, "C03");
    let mut rep = Report::new(
        "C03",
        "sequences of 2-8 near-duplicate query strings (whitespace in/out of literals, comments, quoting, keyword case, \
         Unicode blanks, unterminated literals; scanner-stressing heads followed by a later literal/comment whose inner whitespace varies) through one QueryEngine at capacities 0/1/2/3/1024 vs fresh parse+execute; \
         non-trivial = the sequence holds two strings with equal legacy key and different token streams, or equal token \
         streams and different text; distinct = distinct rendered sequence",
        &args.replays,
        args.seed,
    );
    let exe = args.driver_exe("drv_cache");
    let base = base_store();

    let mut cases: Vec<Case> = vec![];
    let mut files: Vec<std::path::PathBuf> = vec![];
    if let Some(r) = &args.replay {
        files.push(r.clone());
    } else if let Ok(rd) = std::fs::read_dir(args.corpus.join("C03")) {
        files = rd.filter_map(|e| e.ok().map(|e| e.path())).collect();
        files.sort();
    }
    let mut n_corpus = 0;
    for f in &files {
        for line in std::fs::read_to_string(f).unwrap_or_default().lines() {
            if let Some(c) = parse_case(line.trim()) {
                cases.push(c);
                n_corpus += 1;
            }
        }
    }
    rep.count_n("corpus_sequences", n_corpus);
    if args.replay.is_none() {
        exhaustive(&mut cases, args.thorough());
        let n0 = cases.len();
        exhaustive_desync(&mut cases, args.thorough());
        rep.count_n("exhaustive_desync_pairs", (cases.len() - n0) as u64);
        rep.exhaustive = true;
        rep.exhaustive_note = "all ordered pairs (and triples) of five hand-picked families of near-duplicate statements at capacities 1 and 2; for every scanner-stressing head (literals ending in escaped backslash / escaped quote, other-kind quotes, comment openers inside literals, comments holding quotes, `/` operators) all ordered pairs of 7 tails that differ only in whitespace inside a LATER literal or comment; plus PRNG sequences (not exhaustive)".into();
        let mut rng = Rng::new(args.seed.wrapping_mul(0xD1B5_4A32_D192_ED03));
        let n = if args.thorough() { 200_000 } else { 20_000 };
        for _ in 0..n {
            cases.push(gen_case(&mut rng));
        }
        for _ in 0..n / 2 {
            cases.push(gen_desync_case(&mut rng));
        }
    }

    // lexical facts of every distinct string, from the model
    let mut strings: Vec<String> = vec![];
    {
        let mut seen = std::collections::HashSet::new();
        for c in &cases {
            for q in &c.qs {
                if seen.insert(q.clone()) {
                    strings.push(q.clone());
                }
            }
        }
    }
    let lex_lines: Vec<String> = strings.iter().map(|s| format!("lex {}", hex(s.as_bytes()))).collect();
    let lex_replies = driver::par_batch(&exe, &lex_lines, 12);
    let mut lex: HashMap<String, (String, String, String)> = HashMap::new(); // legacy key, repaired key, tokens
    for (s, r) in strings.iter().zip(lex_replies.iter()) {
        let f: Vec<&str> = r.split(' ').collect();
        assert!(f.len() == 5 && f[0] == "ok", "driver lex reply `{}` for {:?}", r, s);
        lex.insert(s.clone(), (f[1].to_string(), f[2].to_string(), f[3].to_string()));
    }
    rep.count_n("distinct_strings", strings.len() as u64);

    let mut first_break: Option<(String, String)> = None;
    for chunk in cases.chunks(50_000) {
        let outs: Vec<Outcome> = chunk.iter().map(|c| run_real(c, &base)).collect();
        let mut lines = Vec::with_capacity(chunk.len() * 2);
        for (c, o) in chunk.iter().zip(outs.iter()) {
            let qs: Vec<String> =
                c.qs.iter().zip(o.parse_ok.iter()).map(|(q, ok)| format!("{}:{}", hex(q.as_bytes()), *ok as u8)).collect();
            lines.push(format!("run {} norm {}", c.cap, qs.join(",")));
            let obs: Vec<String> = (0..c.qs.len())
                .map(|i| format!("{}.{}.{}.{}.{}", o.cached[i].digest(), o.fresh[i].digest(), o.hits[i], o.misses[i], o.lens[i]))
                .collect();
            lines.push(format!("spec {} {}", c.cap, obs.join(",")));
        }
        let replies = driver::par_batch(&exe, &lines, 12);
        for (k, (c, o)) in chunk.iter().zip(outs.iter()).enumerate() {
            let m = &replies[2 * k];
            let s = &replies[2 * k + 1];
            let rendered = render(c);
            // non-triviality (Appendix B)
            let mut nt = false;
            for i in 0..c.qs.len() {
                for j in 0..i {
                    if c.qs[i] == c.qs[j] {
                        continue;
                    }
                    let (li, _, ti) = &lex[&c.qs[i]];
                    let (lj, _, tj) = &lex[&c.qs[j]];
                    if (li == lj && ti != tj) || ti == tj {
                        nt = true;
                    }
                }
            }
            rep.case(&rendered, nt);
            rep.count(&format!("capacity:{}", c.cap));
            if c.write {
                rep.count("write_sequences");
            }
            if c.tag == "desync" {
                rep.count("desync_sequences");
                for ok in &o.parse_ok {
                    rep.count(if *ok { "desync_queries_parse_ok" } else { "desync_queries_parse_err" });
                }
            }
            let mut body = format!("{}\n", rendered);
            for i in 0..c.qs.len() {
                body.push_str(&format!(
                    "# [{}] {:?}\n#   cached {}\n#   fresh  {}\n#   hits={} misses={} len={}\n",
                    i, c.qs[i], o.cached[i].text(), o.fresh[i].text(), o.hits[i], o.misses[i], o.lens[i]
                ));
            }
            body.push_str(&format!("# model {}\n# spec  {}\n", m, s));
            if nt && rep.samples.len() < 3 {
                rep.sample(json!({"case": rendered, "model": m, "spec": s}));
            }
            // S on R
            let mut viol = false;
            if s != "ok" {
                viol = true;
                let mut reported = false;
                for i in 0..c.qs.len() {
                    if !o.cached[i].same(&o.fresh[i]) && o.cached[i].digest() != o.fresh[i].digest() {
                        let sig = classify(&o.cached[i], &o.fresh[i]);
                        rep.count(&format!("spec_violation:{}", sig));
                        rep.spec_violation(
                            &known,
                            sig,
                            &format!("query #{} {:?} answered through the cache differs from the fresh answer ({})", i, c.qs[i], sig),
                            &body,
                        );
                        reported = true;
                    }
                }
                if !reported {
                    let sig = if s.starts_with("viol ") { "counters" } else { "driver-rejected" };
                    rep.count(&format!("spec_violation:{}", sig));
                    rep.spec_violation(&known, sig, &format!("specification answered `{}`: counters/length inconsistent", s), &body);
                }
            }
            // R vs M: hit/miss pattern, lengths, and on a hit the spelling whose parse is returned
            let mut mism: Option<String> = None;
            match m.strip_prefix("ok ") {
                None => mism = Some(format!("driver answered `{}`", m)),
                Some(ms) => {
                    let steps: Vec<&str> = ms.split(',').collect();
                    if steps.len() != c.qs.len() {
                        mism = Some("length".into());
                    } else {
                        for i in 0..steps.len() {
                            let (hm, len) = steps[i].split_once('/').unwrap_or(("?", "?"));
                            let real_hit = o.hits[i] > if i == 0 { 0 } else { o.hits[i - 1] };
                            let model_hit = hm.starts_with('h');
                            rep.count(if real_hit { "hits" } else { "misses" });
                            if real_hit != model_hit || len != o.lens[i].to_string() {
                                mism = Some(format!("op {}: model {} vs real hit={} len={}", i, steps[i], real_hit, o.lens[i]));
                                break;
                            }
                            if model_hit && !c.write {
                                if let Ok(j) = hm[1..].parse::<usize>() {
                                    // the cached answer is the fresh answer of the stored spelling
                                    let src = fresh_read(&c.qs[j], &base);
                                    if !src.same(&o.cached[i]) {
                                        mism = Some(format!("op {}: hit should answer with the parse of op {}", i, j));
                                        break;
                                    }
                                    if c.qs[j] != c.qs[i] {
                                        rep.count("hits_on_a_different_spelling");
                                    }
                                }
                            }
                            if i > 0 && !real_hit && o.parse_ok[i] && o.lens[i] == o.lens[i - 1] {
                                rep.count("evictions");
                            }
                        }
                    }
                }
            }
            if let Some(w) = mism {
                rep.count("model_mismatch");
                if !viol && first_break.is_none() {
                    first_break = Some((w, body));
                }
            }
        }
    }
    if let Some((w, body)) = first_break {
        if rep.spec_violations.is_empty() {
            rep.correspondence_break(
                "SgModel.Cache.cachedParse with key Lex.normalize = QueryEngine::cached_parse (hit/miss, length, stored spelling)",
                &format!("model and implementation disagree ({}) although the specification holds on every explored case", w),
                &body,
            );
        }
    }
    rep.write(&args.out);
}
