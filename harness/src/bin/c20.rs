//! C20 — RESP framing survives any TCP chunking and pipelining.
//! Real `RespValue::{encode,decode}` inside a replica of `handle_connection`'s loop (and, in
//! the thorough tier, a live `RespServer` on a loopback socket) vs the Lean model
//! `SgModel.Resp.feed`, and the executable specification `specFeed` evaluated on the
//! implementation's observations.
#[path = "resp_common/mod.rs"]
mod resp_common;
use resp_common::*;
use samyama::protocol::resp::RespValue;
use serde_json::json;
use vharness::{driver, Args, Known, Report, Rng};

#[derive(Clone)]
struct Case {
    frames: Option<Vec<Frame>>, // None: raw bytes (no specification, correspondence only)
    chunks: Vec<Vec<u8>>,
}

fn case_line(c: &Case) -> String {
    match &c.frames {
        Some(f) => format!("case {} {}", frames_text(f), chunks_text(&c.chunks)),
        None => format!("raw {}", chunks_text(&c.chunks)),
    }
}

fn split_at(stream: &[u8], cuts: &[usize]) -> Vec<Vec<u8>> {
    let mut out = vec![];
    let mut prev = 0;
    for &c in cuts {
        if c > prev && c < stream.len() {
            out.push(stream[prev..c].to_vec());
            prev = c;
        }
    }
    out.push(stream[prev..].to_vec());
    out
}

// ---------------------------------------------------------------- generators

fn gen_text(rng: &mut Rng) -> String {
    let pool = ["", "OK", "PONG", "ERR unknown command 'x'", "h\u{e9}llo", "\u{65e5}\u{672c}", "a b\tc", "\u{1f600}", "x", "WRONGTYPE Operation"];
    if rng.chance(1, 4) {
        let n = rng.usize(12);
        (0..n).map(|_| *rng.pick(&['a', 'Z', '0', ' ', '-', '+', ':', '$', '*', '_', '"', '\\', '\u{e9}', '\u{4e2d}'])).collect()
    } else {
        rng.pick(&pool).to_string()
    }
}

fn gen_payload(rng: &mut Rng, allow_big: bool) -> Vec<u8> {
    match rng.usize(10) {
        0 => vec![],
        1 => b"\r\n".to_vec(),
        2 => b"a\r\nb".to_vec(),
        3 => b"$5\r\nhello\r\n".to_vec(),
        4 => (0..rng.usize(40)).map(|_| rng.below(256) as u8).collect(),
        5 => b"MATCH (n) RETURN n".to_vec(),
        6 if allow_big => {
            let n = 1 + rng.usize(70_000);
            (0..n).map(|i| if i % 97 == 13 { b'\r' } else if i % 97 == 14 { b'\n' } else { (i % 251) as u8 }).collect()
        }
        7 => vec![b'\r'],
        8 => (0..rng.usize(6)).map(|_| *rng.pick(&[b'\r', b'\n', b'*', b'$', b'1'])).collect(),
        _ => (0..rng.usize(12)).map(|_| b'a' + rng.below(26) as u8).collect(),
    }
}

fn gen_value(rng: &mut Rng, depth: usize, allow_big: bool) -> RespValue {
    let k = if depth == 0 { rng.usize(6) } else { rng.usize(9) };
    match k {
        0 => RespValue::SimpleString(gen_text(rng)),
        1 => RespValue::Error(gen_text(rng)),
        2 => RespValue::Integer(match rng.usize(7) {
            0 => 0, 1 => -1, 2 => i64::MIN, 3 => i64::MAX, 4 => rng.range(-1000, 1000),
            5 => 1000, _ => rng.next_u64() as i64 }),
        3 => RespValue::BulkString(None),
        4 => RespValue::BulkString(Some(gen_payload(rng, allow_big))),
        5 => RespValue::Null,
        _ => {
            let n = rng.usize(6);
            RespValue::Array((0..n).map(|_| gen_value(rng, depth - 1, allow_big)).collect())
        }
    }
}

fn gen_inline(rng: &mut Rng) -> Vec<u8> {
    let words = ["PING", "ECHO", "GRAPH.QUERY", "default", "x", "h\u{e9}", "a:b", "k=v"];
    let quoted = ["\"a b\"", "\"\"", "\"x\\ny\"", "\"q\\\"q\"", "\"b\\\\s\"", "\"\\z\"", "\"tab\\there\"", "\"MATCH (n) RETURN n\"", "pre\"mid dle\"post", "\"\u{65e5} \u{672c}\"", "\"l1\nl2\"", "\"caf\\\u{e9}\"", "\"\\\u{1f600}\u{20ac}\"", "\u{e9}\"\u{20ac}\""];
    let n = 1 + rng.usize(4);
    let mut s = String::new();
    for i in 0..n {
        if i > 0 { let sep: &str = *rng.pick(&[" ", "  ", "\t", " \t "]); s.push_str(sep); }
        let w: &str = if i == 0 || rng.chance(1, 2) { *rng.pick(&words) } else { *rng.pick(&quoted) };
        s.push_str(w);
    }
    if rng.chance(1, 5) { s.push(' '); }
    s.into_bytes()
}

fn gen_frames(rng: &mut Rng, allow_big: bool) -> Vec<Frame> {
    let n = 1 + rng.usize(4);
    (0..n).map(|_| {
        if rng.chance(1, 5) { Frame::Inline(gen_inline(rng)) }
        else { let d = 1 + rng.usize(4); Frame::Resp(gen_value(rng, d, allow_big)) }
    }).collect()
}

// ---------------------------------------------------------------- structure of a stream

/// cut positions (1..len-1) that fall strictly inside a bulk body, or between an array
/// header and the start of its last element (Appendix B rule for C20)
fn deep_cuts(v: &RespValue, base: usize, out: &mut Vec<(usize, usize)>) -> usize {
    let mut enc = Vec::new();
    v.encode(&mut enc).unwrap();
    match v {
        RespValue::BulkString(Some(d)) => {
            let hdr = enc.len() - d.len() - 2;
            if d.len() >= 2 { out.push((base + hdr + 1, base + hdr + d.len() - 1)); }
        }
        RespValue::Array(items) if !items.is_empty() => {
            let hdr = format!("*{}\r\n", items.len()).len();
            let mut off = base + hdr;
            let mut last_start = off;
            for it in items {
                last_start = off;
                off += deep_cuts(it, off, out);
            }
            out.push((base + hdr, last_start));
        }
        _ => {}
    }
    enc.len()
}

struct Layout { bounds: Vec<usize>, deep: Vec<(usize, usize)>, kinds: Vec<&'static str>, hdr_end: Vec<usize> }

fn layout(frames: &[Frame]) -> Layout {
    let mut l = Layout { bounds: vec![0], deep: vec![], kinds: vec![], hdr_end: vec![] };
    let mut off = 0;
    for f in frames {
        let b = frame_bytes(f);
        let first_line = b.windows(2).position(|w| w == b"\r\n").map(|p| p + 2).unwrap_or(b.len());
        l.hdr_end.push(off + first_line);
        match f {
            Frame::Resp(v) => {
                deep_cuts(v, off, &mut l.deep);
                l.kinds.push(match v { RespValue::BulkString(Some(_)) => "bulk", RespValue::Array(_) => "array", _ => "line" });
            }
            Frame::Inline(_) => l.kinds.push("inline"),
        }
        off += b.len();
        l.bounds.push(off);
    }
    l
}

fn cut_positions(chunks: &[Vec<u8>]) -> Vec<usize> {
    let mut v = vec![];
    let mut off = 0;
    for c in &chunks[..chunks.len().saturating_sub(1)] { off += c.len(); v.push(off); }
    v
}

fn nontrivial(l: &Layout, cuts: &[usize]) -> bool {
    cuts.iter().any(|c| l.deep.iter().any(|(a, b)| a <= c && c <= b))
}

/// structural class of the first cut that tears a frame
fn signature(l: &Layout, cuts: &[usize]) -> String {
    for c in cuts {
        if l.bounds.contains(c) { continue; }
        let i = l.bounds.iter().rposition(|b| b < c).unwrap_or(0);
        let kind = l.kinds.get(i).copied().unwrap_or("?");
        let part = if *c < l.hdr_end[i] { "header-line" } else { "body" };
        return format!("torn-{}-{}", kind, part);
    }
    "aligned".into()
}

// ---------------------------------------------------------------- live server (thorough)

fn live_check(rep: &mut Report, known: &Known, rng: &mut Rng, n_conns: usize) {
    use std::io::{Read, Write};
    let rt = tokio::runtime::Builder::new_multi_thread().worker_threads(2).enable_all().build().unwrap();
    let port = { let l = std::net::TcpListener::bind("127.0.0.1:0").unwrap(); l.local_addr().unwrap().port() };
    let store = std::sync::Arc::new(tokio::sync::RwLock::new(samyama::graph::GraphStore::new()));
    let cfg = samyama::protocol::ServerConfig { address: "127.0.0.1".into(), port, max_connections: 100, data_path: None };
    let server = samyama::protocol::RespServer::new(cfg, store);
    let h = rt.spawn(async move { let _ = server.start().await; });
    let mut sock = None;
    for _ in 0..200 {
        if let Ok(s) = std::net::TcpStream::connect(("127.0.0.1", port)) { sock = Some(s); break; }
        std::thread::sleep(std::time::Duration::from_millis(20));
    }
    if sock.is_none() { rep.notes.push("live server did not come up; live part skipped".into()); h.abort(); return; }
    drop(sock);
    live_systematic(rep, known, port);
    for conn in 0..n_conns {
        // commands with predictable replies: ECHO <payload> (bulk back), PING (+PONG), inline PING
        let n = 1 + rng.usize(6);
        let mut frames = vec![];
        let mut expect: Vec<RespValue> = vec![];
        for _ in 0..n {
            match rng.usize(4) {
                0 => { frames.push(Frame::Resp(RespValue::Array(vec![RespValue::BulkString(Some(b"PING".to_vec()))]))); expect.push(RespValue::SimpleString("PONG".into())); }
                1 => { frames.push(Frame::Inline(b"PING".to_vec())); expect.push(RespValue::SimpleString("PONG".into())); }
                _ => {
                    let p = gen_payload(rng, conn % 8 == 0);
                    frames.push(Frame::Resp(RespValue::Array(vec![RespValue::BulkString(Some(b"ECHO".to_vec())), RespValue::BulkString(Some(p.clone()))])));
                    expect.push(RespValue::BulkString(Some(p)));
                }
            }
        }
        let stream: Vec<u8> = frames.iter().flat_map(frame_bytes).collect();
        let mut cuts: Vec<usize> = (0..1 + rng.usize(5)).map(|_| 1 + rng.usize(stream.len().max(2) - 1)).collect();
        cuts.sort(); cuts.dedup();
        let chunks = split_at(&stream, &cuts);
        let lay = layout(&frames);
        let cpos = cut_positions(&chunks);
        let mut s = match std::net::TcpStream::connect(("127.0.0.1", port)) { Ok(s) => s, Err(e) => { rep.notes.push(format!("live connect failed: {}", e)); break; } };
        s.set_nodelay(true).ok();
        s.set_read_timeout(Some(std::time::Duration::from_secs(30))).ok();
        // reader thread: big ECHO replies would otherwise fill the socket buffers while we still write
        let mut rs = s.try_clone().unwrap();
        let want = expect.len();
        let reader = std::thread::spawn(move || {
            let mut got: Vec<RespValue> = vec![];
            let mut buf = bytes::BytesMut::new();
            let mut tmp = [0u8; 65536];
            while got.len() < want {
                match rs.read(&mut tmp) {
                    Ok(0) | Err(_) => break,
                    Ok(k) => {
                        buf.extend_from_slice(&tmp[..k]);
                        while let Ok(Some(v)) = RespValue::decode(&mut buf) { got.push(v); }
                    }
                }
            }
            (got, buf.to_vec())
        });
        for c in &chunks {
            if s.write_all(c).is_err() { break; }
            s.flush().ok();
            std::thread::sleep(std::time::Duration::from_micros(800));
        }
        let (got, left) = reader.join().unwrap();
        rep.case(&format!("live {}", case_line(&Case { frames: Some(frames.clone()), chunks: chunks.clone() })), nontrivial(&lay, &cpos));
        rep.count("live_connections");
        if got != expect || !left.is_empty() {
            let sig = format!("live-{}", signature(&lay, &cpos));
            rep.count(&format!("spec_violation:{}", sig));
            let body = format!("{}\n# live connection: expected {} replies {:?}\n# got {} replies {:?} leftover={}",
                case_line(&Case { frames: Some(frames), chunks }), expect.len(), expect.iter().map(vtext).collect::<Vec<_>>(),
                got.len(), got.iter().map(vtext).collect::<Vec<_>>(), hexd(&left));
            rep.spec_violation(known, &sig, "live server: replies differ from one reply per frame in order", &body);
        }
    }
    h.abort();
    rt.shutdown_timeout(std::time::Duration::from_secs(1));
}

/// write the chunks (separate writes, TCP_NODELAY; a longer pause when the boundary lies between
/// the CR and the LF of a terminator, so that the server really sees two reads), then read
/// until `want` replies were decoded or nothing arrives for 2 s
fn talk(s: &mut std::net::TcpStream, chunks: &[Vec<u8>], want: usize) -> (Vec<RespValue>, Vec<u8>) {
    use std::io::{Read, Write};
    for (i, c) in chunks.iter().enumerate() {
        if s.write_all(c).is_err() { break; }
        s.flush().ok();
        if i + 1 < chunks.len() {
            let torn_terminator = c.last() == Some(&b'\r') && chunks[i + 1].first() == Some(&b'\n');
            std::thread::sleep(std::time::Duration::from_millis(if torn_terminator { 25 } else { 2 }));
        }
    }
    let mut got = vec![];
    let mut buf = bytes::BytesMut::new();
    let mut tmp = [0u8; 4096];
    while got.len() < want {
        match s.read(&mut tmp) {
            Ok(0) | Err(_) => break,
            Ok(k) => {
                buf.extend_from_slice(&tmp[..k]);
                while let Ok(Some(v)) = RespValue::decode(&mut buf) { got.push(v); }
            }
        }
    }
    (got, buf.to_vec())
}

/// Deterministic live part (both tiers): short pipelines with predictable replies, delivered to
/// the real `handle_connection` under **every** two-way cut and, for every CRLF, the three-way
/// cut that isolates its CR and its LF.  Pipeline 0 uses a fresh connection per chunking, the
/// others one long session each (so state kept across reads and across commands is exercised).
fn live_systematic(rep: &mut Report, known: &Known, port: u16) {
    let arr = |parts: &[&[u8]]| Frame::Resp(RespValue::Array(parts.iter().map(|p| RespValue::BulkString(Some(p.to_vec()))).collect()));
    let bulk = |b: &[u8]| RespValue::BulkString(Some(b.to_vec()));
    let pong = RespValue::SimpleString("PONG".into());
    let pipelines: Vec<(Vec<Frame>, Vec<RespValue>)> = vec![
        (vec![arr(&[b"PING"]), arr(&[b"ECHO", b"hello"])], vec![pong.clone(), bulk(b"hello")]),
        (vec![Frame::Inline(b"PING".to_vec()), arr(&[b"ECHO", b"a\r\nb"]), arr(&[b"PING", b"x"])], vec![pong.clone(), bulk(b"a\r\nb"), bulk(b"x")]),
        (vec![arr(&[b"ECHO", b""]), Frame::Inline(b"ECHO \"q w\"".to_vec()), arr(&[b"PING"])], vec![bulk(b""), bulk(b"q w"), pong.clone()]),
    ];
    let connect = || -> Option<std::net::TcpStream> {
        let s = std::net::TcpStream::connect(("127.0.0.1", port)).ok()?;
        s.set_nodelay(true).ok();
        s.set_read_timeout(Some(std::time::Duration::from_secs(2))).ok();
        Some(s)
    };
    // a frame longer than the 4096-byte connection buffer, in reads of 4096, cut one byte before its end,
    // and followed by a second command in the same session (buffer growth and reuse across reads)
    if let Some(mut s) = connect() {
        let payload: Vec<u8> = (0..10_000).map(|i| if i % 89 == 7 { b'\r' } else if i % 89 == 8 { b'\n' } else { b'a' + (i % 26) as u8 }).collect();
        let frames = vec![arr(&[b"ECHO", &payload]), arr(&[b"PING"])];
        let expect = vec![bulk(&payload), pong.clone()];
        let stream: Vec<u8> = frames.iter().flat_map(frame_bytes).collect();
        let n = stream.len();
        let lay = layout(&frames);
        for cuts in [vec![4096, 8192], vec![n - 15], vec![1, 4097, n - 1], vec![5000]] {
            let chunks = split_at(&stream, &cuts);
            let (got, left) = talk(&mut s, &chunks, expect.len());
            let cpos = cut_positions(&chunks);
            rep.case(&format!("live-systematic big {:?}", cuts), nontrivial(&lay, &cpos));
            rep.count("live_systematic:frame-longer-than-4096");
            if got != expect || !left.is_empty() {
                let sig = format!("live-{}", signature(&lay, &cpos));
                rep.count(&format!("spec_violation:{}", sig));
                let body = format!("# live connection: ECHO <10000-byte payload> + PING cut at {:?}; expected 2 replies, got {} ({} bytes left undecoded)", cuts, got.len(), left.len());
                rep.spec_violation(known, &sig, "live server: replies differ from one reply per frame in order", &body);
                break;
            }
        }
    }
    for (pi, (frames, expect)) in pipelines.iter().enumerate() {
        let stream: Vec<u8> = frames.iter().flat_map(frame_bytes).collect();
        let n = stream.len();
        let lay = layout(frames);
        let mut cutsets: Vec<Vec<usize>> = (1..n).map(|c| vec![c]).collect();
        for p in 0..n - 1 {
            if &stream[p..p + 2] == b"\r\n" {
                if p >= 1 { cutsets.push(vec![p, p + 1]); }
                if p + 2 < n { cutsets.push(vec![p + 1, p + 2]); }
            }
        }
        let mut session = if pi == 0 { None } else { connect() };
        for cuts in cutsets {
            let chunks = split_at(&stream, &cuts);
            let mut fresh;
            let sock = if pi == 0 { fresh = connect(); fresh.as_mut() } else { session.as_mut() };
            let Some(sock) = sock else { rep.notes.push("live connect failed".into()); return; };
            let (got, left) = talk(sock, &chunks, expect.len());
            let cpos = cut_positions(&chunks);
            let case = Case { frames: Some(frames.clone()), chunks: chunks.clone() };
            rep.case(&format!("live-systematic {} {}", pi, case_line(&case)), nontrivial(&lay, &cpos));
            rep.count(if pi == 0 { "live_systematic:fresh-connection" } else { "live_systematic:session" });
            if chunks.windows(2).any(|w| w[0].last() == Some(&b'\r') && w[1].first() == Some(&b'\n')) { rep.count("live_systematic:cut-between-CR-and-LF"); }
            if got != *expect || !left.is_empty() {
                let sig = format!("live-{}", signature(&lay, &cpos));
                rep.count(&format!("spec_violation:{}", sig));
                let body = format!("{}\n# live connection (pipeline {}, {}): expected {} replies {:?}\n# got {} replies {:?} leftover={}",
                    case_line(&case), pi, if pi == 0 { "fresh connection" } else { "same session as the previous chunkings" }, expect.len(),
                    expect.iter().map(vtext).collect::<Vec<_>>(), got.len(), got.iter().map(vtext).collect::<Vec<_>>(), hexd(&left));
                rep.spec_violation(known, &sig, "live server: replies differ from one reply per frame in order", &body);
                if pi != 0 { session = connect(); } // the session is out of step now
            }
        }
    }
}

// ---------------------------------------------------------------- main

fn main() {
    let args = Args::parse();
    silence_panics();
    let known = Known::load(&args.known, "C20");
    let mut rep = Report::new(
        "C20",
        "frame lists (RESP value trees depth<=4, arrays<=5, bulk payloads empty/CRLF-inside/binary/up to 70 kB, null bulk, \
         i64 extremes, UTF-8 status lines, inline commands with quotes and escapes) x chunkings (all 2^(n-1) for short streams, \
         all single and double cuts, random cut sets, 4096-byte reads); non-trivial = a cut falls strictly inside a bulk body \
         or between an array header and the start of its last element; distinct = distinct (frames, chunking)",
        &args.replays,
        args.seed,
    );
    let exe = args.driver_exe("drv_resp");
    let mut rng = Rng::new(args.seed);
    let mut cases: Vec<Case> = vec![];

    // 1. corpus / replay
    let mut n_corpus = 0;
    for (k, rest) in corpus_lines(&args.corpus.join("C20"), &args.replay) {
        let parts: Vec<&str> = rest.split_whitespace().collect();
        match (k.as_str(), parts.as_slice()) {
            ("case", [f, c]) => {
                if let (Some(f), Some(c)) = (parse_frames(f), parse_chunks(c)) { cases.push(Case { frames: Some(f), chunks: c }); n_corpus += 1; }
            }
            ("raw", [c]) => {
                if let Some(c) = parse_chunks(c) { cases.push(Case { frames: None, chunks: c }); n_corpus += 1; }
            }
            _ => {}
        }
    }
    rep.count_n("corpus_cases", n_corpus);

    if args.replay.is_none() {
        // 2. exhaustive: every chunking of short streams
        let b = |s: &str| RespValue::BulkString(Some(s.as_bytes().to_vec()));
        let short: Vec<Vec<Frame>> = vec![
            vec![Frame::Resp(b("hi"))],
            vec![Frame::Resp(RespValue::Array(vec![b("a")]))],
            vec![Frame::Resp(RespValue::Array(vec![RespValue::Integer(1), RespValue::Integer(2)]))],
            vec![Frame::Inline(b"PING".to_vec()), Frame::Resp(RespValue::SimpleString("OK".into()))],
            vec![Frame::Resp(RespValue::BulkString(None)), Frame::Resp(RespValue::Null), Frame::Resp(RespValue::Integer(7))],
            vec![Frame::Resp(RespValue::Array(vec![RespValue::Array(vec![RespValue::Null])]))],
            vec![Frame::Resp(b("")), Frame::Resp(RespValue::SimpleString("".into()))],
            vec![Frame::Resp(b("\r\n")), Frame::Resp(RespValue::Error("E".into()))],
            vec![Frame::Resp(RespValue::Array(vec![])), Frame::Resp(RespValue::Array(vec![b("")]))],
        ];
        let mut n_ex = 0u64;
        for fs in &short {
            let stream: Vec<u8> = fs.iter().flat_map(frame_bytes).collect();
            let n = stream.len();
            assert!(n <= 14, "short stream too long");
            for mask in 0..(1u32 << (n - 1)) {
                let cuts: Vec<usize> = (1..n).filter(|i| mask & (1 << (i - 1)) != 0).collect();
                cases.push(Case { frames: Some(fs.clone()), chunks: split_at(&stream, &cuts) });
                n_ex += 1;
            }
        }
        rep.exhaustive = true;
        rep.exhaustive_note = format!("all 2^(n-1) chunkings of {} streams of at most 14 bytes ({} cases); all single cuts and all double cuts of generated streams up to 48 bytes; the remaining cases are PRNG-driven (not exhaustive)", short.len(), n_ex);

        // 3. generated frames: all single cuts, all double cuts (short streams), random cut sets
        let n_gen = if args.thorough() { 4000 } else { 350 };
        for g in 0..n_gen {
            let fs = gen_frames(&mut rng, args.thorough() && g % 50 == 7);
            let stream: Vec<u8> = fs.iter().flat_map(frame_bytes).collect();
            let n = stream.len();
            if n < 2 { continue; }
            if n <= 400 {
                for c in 1..n { cases.push(Case { frames: Some(fs.clone()), chunks: split_at(&stream, &[c]) }); }
            }
            if n <= 48 {
                for c1 in 1..n { for c2 in c1 + 1..n { cases.push(Case { frames: Some(fs.clone()), chunks: split_at(&stream, &[c1, c2]) }); } }
            }
            for _ in 0..6 {
                let k = 1 + rng.usize(8);
                let mut cuts: Vec<usize> = (0..k).map(|_| 1 + rng.usize(n - 1)).collect();
                cuts.sort(); cuts.dedup();
                cases.push(Case { frames: Some(fs.clone()), chunks: split_at(&stream, &cuts) });
            }
            // what read_buf does with a big write: 4096-byte reads; and byte-at-a-time for short ones
            let cuts: Vec<usize> = (1..).map(|i| i * 4096).take_while(|c| *c < n).collect();
            if !cuts.is_empty() { cases.push(Case { frames: Some(fs.clone()), chunks: split_at(&stream, &cuts) }); }
            if n <= 64 { cases.push(Case { frames: Some(fs.clone()), chunks: split_at(&stream, &(1..n).collect::<Vec<_>>()) }); }
        }
        // 3b. frames longer than one 4096-byte read
        for g in 0..(if args.thorough() { 60 } else { 4 }) {
            let n = 4097 + rng.usize(66_000);
            let payload: Vec<u8> = (0..n).map(|i| if i % 97 == 13 { b'\r' } else if i % 97 == 14 { b'\n' } else { (i % 251) as u8 }).collect();
            let mut fs = vec![Frame::Resp(RespValue::Array(vec![RespValue::BulkString(Some(b"GRAPH.QUERY".to_vec())), RespValue::BulkString(Some(b"default".to_vec())), RespValue::BulkString(Some(payload))]))];
            if g % 2 == 0 { fs.push(Frame::Inline(b"PING".to_vec())); }
            let stream: Vec<u8> = fs.iter().flat_map(frame_bytes).collect();
            let cuts: Vec<usize> = (1..).map(|i| i * 4096).take_while(|c| *c < stream.len()).collect();
            cases.push(Case { frames: Some(fs.clone()), chunks: split_at(&stream, &cuts) });
            let mut cuts: Vec<usize> = (0..3).map(|_| 1 + rng.usize(stream.len() - 1)).collect();
            cuts.sort(); cuts.dedup();
            cases.push(Case { frames: Some(fs.clone()), chunks: split_at(&stream, &cuts) });
        }
        // 4. raw streams (mutated frames): correspondence of the loop on malformed input, no specification
        let n_raw = if args.thorough() { 20_000 } else { 3000 };
        for _ in 0..n_raw {
            let fs = gen_frames(&mut rng, false);
            let mut stream: Vec<u8> = fs.iter().flat_map(frame_bytes).collect();
            if stream.len() > 300 { continue; }
            for _ in 0..1 + rng.usize(3) {
                let i = rng.usize(stream.len());
                match rng.usize(4) {
                    0 => stream[i] = *rng.pick(&[b'\r', b'\n', b'*', b'$', b'-', b'9', b'"', 0xff, b':']),
                    1 => { stream.remove(i); }
                    2 => stream.insert(i, *rng.pick(&[b'\r', b'\n', b'1', b'-', b'"', b' '])),
                    _ => stream.truncate(i.max(1)),
                }
                if stream.is_empty() { stream.push(b'*'); }
            }
            let n = stream.len();
            let k = rng.usize(4);
            let mut cuts: Vec<usize> = (0..k).map(|_| 1 + rng.usize(n.max(2) - 1)).collect();
            cuts.sort(); cuts.dedup();
            cases.push(Case { frames: None, chunks: split_at(&stream, &cuts) });
        }
    }

    // evaluate
    let mut first_break: Option<(String, String)> = None;
    let mut mismatches = 0u64;
    for chunk in cases.chunks(40_000) {
        let mut lines = Vec::with_capacity(chunk.len() * 3);
        let mut real = Vec::with_capacity(chunk.len());
        for c in chunk {
            let (evs, buf) = real_feed(&c.chunks);
            let et = events_text(&evs);
            let bt = hexd(&buf);
            lines.push(format!("feed {}", chunks_text(&c.chunks)));
            match &c.frames {
                Some(f) => {
                    lines.push(format!("frames {}", frames_text(f)));
                    lines.push(format!("spec20 {} {} {}", frames_text(f), et, bt));
                }
                None => { lines.push("frames -".into()); lines.push("spec20 - - -".into()); }
            }
            real.push((et, bt, evs.len()));
        }
        let replies = driver::par_batch(&exe, &lines, 12);
        for (k, c) in chunk.iter().enumerate() {
            let m = &replies[3 * k];
            let fr = &replies[3 * k + 1];
            let sp = &replies[3 * k + 2];
            let (et, bt, nev) = &real[k];
            let line = case_line(c);
            let stream: Vec<u8> = c.chunks.concat();
            let cpos = cut_positions(&c.chunks);
            rep.count(&format!("chunks:{}", match c.chunks.len() { 1 => "1", 2 => "2", 3 => "3", 4..=8 => "4-8", _ => "9+" }));
            rep.count(&format!("stream_bytes:{}", match stream.len() { 0..=14 => "<=14", 15..=64 => "15-64", 65..=400 => "65-400", 401..=4096 => "401-4096", _ => ">4096" }));
            let body = format!("{}\n# impl   events={} buf={}\n# model  {}\n# frames {}\n# spec   {}", line, et, bt, m, fr, sp);
            match &c.frames {
                Some(f) => {
                    let lay = layout(f);
                    let nt = nontrivial(&lay, &cpos);
                    rep.case(&line, nt);
                    if nt && rep.samples.len() < 4 && stream.len() < 80 {
                        rep.sample(json!({"frames": frames_text(f), "chunks": chunks_text(&c.chunks), "impl_events": et, "impl_buf": bt}));
                    }
                    for fr in f { rep.count(match fr { Frame::Inline(_) => "frame:inline", Frame::Resp(RespValue::Array(_)) => "frame:array", Frame::Resp(RespValue::BulkString(Some(_))) => "frame:bulk", Frame::Resp(RespValue::BulkString(None)) => "frame:null-bulk", Frame::Resp(_) => "frame:line" }); }
                    // the generator must produce well-formed frames whose model encoding is the real one
                    let expect_fr = format!("ok {} 1", hexd(&stream));
                    if *fr != expect_fr {
                        rep.count("encode_or_wf_mismatch");
                        mismatches += 1;
                        if first_break.is_none() { first_break = Some(("SgModel.Resp.encode / Frame.wf = RespValue::encode on generated frames".into(), body.clone())); }
                        continue;
                    }
                    if sp != "ok" {
                        let sig = signature(&lay, &cpos);
                        rep.count(&format!("spec_violation:{}", sig));
                        rep.spec_violation(&known, &sig,
                            &format!("decoded commands differ from the frames sent ({} events for {} frames, buffer left {})", nev, f.len(), bt), &body);
                        continue;
                    }
                }
                None => {
                    rep.case(&line, false);
                    rep.count("raw_stream");
                }
            }
            if *m != format!("ok {} {}", et, bt) {
                rep.count("model_mismatch");
                mismatches += 1;
                if first_break.is_none() { first_break = Some(("SgModel.Resp.feed = handle_connection loop around RespValue::decode".into(), body)); }
            }
        }
    }

    // 4b. self-test of the comparison: the model of the *pinned* decoder (`legacy`) is a mutant of
    // the model; on the corpus witnesses it must disagree with the (repaired) implementation
    {
        let wit: Vec<&Case> = cases.iter().take(n_corpus as usize).filter(|c| c.frames.is_some()).collect();
        if !wit.is_empty() {
            let lines: Vec<String> = wit.iter().map(|c| format!("legacy {}", chunks_text(&c.chunks))).collect();
            let replies = driver::batch(&exe, &lines);
            let detected = wit.iter().zip(replies.iter()).filter(|(c, m)| {
                let (evs, buf) = real_feed(&c.chunks);
                **m != format!("ok {} {}", events_text(&evs), hexd(&buf))
            }).count();
            rep.extra.insert("model_self_test".into(), json!({"mutant": "decodeLegacy (header consumed before Incomplete)", "witnesses": wit.len(), "detected": detected}));
        }
    }

    // 5. live server over loopback TCP (thorough tier; a few connections in quick as a smoke test)
    if args.replay.is_none() {
        let n = if args.thorough() { 400 } else { 30 };
        live_check(&mut rep, &known, &mut rng, n);
    }

    if let Some((name, body)) = first_break {
        if rep.spec_violations.is_empty() {
            rep.correspondence_break(&name, &format!("model and implementation disagree on {} cases while the specification holds on all explored cases", mismatches), &body);
        }
    }
    rep.write(&args.out);
}
