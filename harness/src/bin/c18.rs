//! C18 — tenant quotas hold under every interleaving of writers.
//!
//! Real threads call `PersistenceManager::persist_*` on one tenant of one real manager.  The
//! `verif_hook` callback parks a thread at every hook point until this binary's scheduler
//! grants it the next micro-step, so a schedule (list of thread indices) replays
//! deterministically on the implementation exactly as `SgModel.Quota.run` replays it on the
//! model: same enabledness rule (a thread about to start a call is not granted a step while
//! another thread is past `persist.locked` and has not returned), same drain order.  Compared
//! per case: the step-by-step trace, the calls' results, the stored ids, the usage counters
//! at quiescence and after `recover` once and twice (R = M), and `specQuota` / `specRefused`
//! evaluated on the implementation's observations (S ⊨ R).
#[path = "persist/common.rs"]
mod common;
use common::*;
use samyama::persistence::PersistenceManager;
use serde_json::json;
use std::cell::RefCell;
use std::collections::BTreeSet;
use std::path::PathBuf;
use std::sync::atomic::{AtomicUsize, Ordering};
use std::sync::{Arc, Condvar, Mutex};
use std::time::Duration;
use vharness::{driver, Args, Known, Report, Rng};

// ---------------------------------------------------------------------------------------------
// deterministic scheduler
// ---------------------------------------------------------------------------------------------

#[derive(Default)]
struct TState {
    /// where the thread is parked (`begin` = before its next call); None while running
    at: Option<String>,
    granted: bool,
    finished: bool,
    /// result of the call that returned during the last granted step
    returned: Option<String>,
    results: Vec<String>,
}
struct CaseSched {
    m: Mutex<Vec<TState>>,
    cv: Condvar,
}
/// Hook points at which a parked thread is about to take the write lock.  `begin` (every call
/// of the repaired code locks first) is there from the start; other points are learnt the
/// first time a thread granted a step from there fails to arrive while another thread holds
/// the lock (code that locks later in a call).  A thread parked at such a point is not granted
/// a step while the lock is held — the same enabledness rule as the model's `lock` step.
static LOCKING_POINTS: Mutex<Vec<String>> = Mutex::new(Vec::new());
fn is_locking_point(p: &str) -> bool {
    p == "begin" || LOCKING_POINTS.lock().unwrap().iter().any(|x| x == p)
}

thread_local! {
    static CTX: RefCell<Option<(Arc<CaseSched>, usize)>> = RefCell::new(None);
}

fn park(cs: &CaseSched, tid: usize, name: &str) {
    let mut g = cs.m.lock().unwrap();
    g[tid].at = Some(name.to_string());
    cs.cv.notify_all();
    while !g[tid].granted {
        g = cs.cv.wait(g).unwrap();
    }
    g[tid].granted = false;
    g[tid].at = None;
}

fn hook(name: &'static str) {
    let ctx = CTX.with(|c| c.borrow().clone());
    if let Some((cs, tid)) = ctx {
        park(&cs, tid, name.strip_prefix("persist.").unwrap_or(name));
    }
}

/// what a thread calls on the manager: a `persist_*` operation or `recover` of the tenant
#[derive(Clone, Debug, PartialEq)]
enum Call {
    Op(Op),
    Recover,
}
impl Call {
    fn render(&self) -> String {
        match self { Call::Op(o) => o.render(), Call::Recover => "rc".into() }
    }
    fn parse(s: &str) -> Option<Call> {
        if s == "rc" { Some(Call::Recover) } else { Op::parse(s).map(Call::Op) }
    }
}
fn render_calls(p: &[Call]) -> String {
    if p.is_empty() { "-".into() } else { p.iter().map(|c| c.render()).collect::<Vec<_>>().join(";") }
}
fn parse_calls(s: &str) -> Option<Vec<Call>> {
    if s == "-" { return Some(vec![]); }
    s.split(';').map(Call::parse).collect()
}
fn call(pm: &PersistenceManager, tenant: &str, c: &Call) -> String {
    match c {
        Call::Op(o) => apply(pm, tenant, o),
        Call::Recover => match pm.recover(tenant) { Ok(_) => "ok".into(), Err(e) => err_name(&e) },
    }
}

struct Outcome {
    trace: Vec<String>,
    results: Vec<Vec<String>>,
    stuck: Option<String>,
}

/// run the programs on real threads under `sched`, then drain (lowest enabled thread first)
fn run_threads(pm: &Arc<PersistenceManager>, tenant: &str, progs: &[Vec<Call>], sched: &[usize]) -> Outcome {
    let n = progs.len();
    let cs = Arc::new(CaseSched { m: Mutex::new((0..n).map(|_| TState::default()).collect()), cv: Condvar::new() });
    let mut handles = vec![];
    for (tid, prog) in progs.iter().enumerate() {
        let (cs, pm, prog, tenant) = (cs.clone(), pm.clone(), prog.clone(), tenant.to_string());
        handles.push(std::thread::spawn(move || {
            CTX.with(|c| *c.borrow_mut() = Some((cs.clone(), tid)));
            for op in &prog {
                park(&cs, tid, "begin");
                let r = call(&pm, &tenant, op);
                let mut g = cs.m.lock().unwrap();
                g[tid].returned = Some(r.clone());
                g[tid].results.push(r);
            }
            let mut g = cs.m.lock().unwrap();
            g[tid].finished = true;
            cs.cv.notify_all();
            CTX.with(|c| *c.borrow_mut() = None);
        }));
    }
    let mut trace = vec![];
    let mut holder: Option<usize> = None;
    let mut stuck = None;
    // wait until every thread is parked at `begin` (or finished: empty program)
    let settled = |g: &Vec<TState>, t: usize| g[t].finished || g[t].at.is_some();
    {
        let mut g = cs.m.lock().unwrap();
        for t in 0..n {
            while !settled(&g, t) {
                g = cs.cv.wait(g).unwrap();
            }
        }
    }
    // `inflight[t]`: thread t was granted a step that has not reached a hook point yet because it
    // is waiting for the write lock.  This cannot happen with code whose calls take the lock
    // first (a thread past `begin` is then always the holder); it does happen with code that
    // locks later (e.g. a `recover` that scans before locking).  Such a grant is given a short
    // time to arrive; if it does not, the entry is recorded as `t.blocked` and the thread is
    // left to arrive when the lock is released.
    let inflight: Vec<std::cell::Cell<bool>> = (0..n).map(|_| std::cell::Cell::new(false)).collect();
    let deviant = std::cell::Cell::new(false);
    let step = |t: usize, trace: &mut Vec<String>, holder: &mut Option<usize>| -> Option<String> {
        // returns Some(reason) when the granted thread never reached its next point
        let mut g = cs.m.lock().unwrap();
        if t >= n || g[t].finished {
            trace.push(format!("{}.x", t));
            return None;
        }
        let from = g[t].at.clone().unwrap_or_default();
        if !inflight[t].get() {
            if holder.is_some() && *holder != Some(t) && is_locking_point(&from) {
                trace.push(format!("{}.x", t));
                return None;
            }
            if holder.is_some() && *holder != Some(t) {
                deviant.set(true); // a thread inside a call that is not the lock holder
            }
            g[t].granted = true;
            cs.cv.notify_all();
        }
        // wait for the thread to park again or finish
        let short = deviant.get() || inflight.iter().any(|x| x.get());
        let limit = if short { 1 } else { 120 };
        let mut waited = 0;
        while g[t].granted || !(g[t].finished || g[t].at.is_some()) {
            let (g2, to) = cs.cv.wait_timeout(g, Duration::from_millis(if short { 150 } else { 500 })).unwrap();
            g = g2;
            if to.timed_out() {
                waited += 1;
                if waited >= limit {
                    if short {
                        if !inflight[t].get() && !from.is_empty() {
                            let mut lp = LOCKING_POINTS.lock().unwrap();
                            if !lp.contains(&from) { lp.push(from.clone()); }
                        }
                        inflight[t].set(true);
                        trace.push(format!("{}.blocked", t));
                        return None;
                    }
                    trace.push(format!("{}.stuck", t));
                    return Some(format!("thread {} did not reach its next hook point within 60 s", t));
                }
            }
        }
        inflight[t].set(false);
        if let Some(r) = g[t].returned.take() {
            trace.push(format!("{}.ret:{}", t, r));
            if *holder == Some(t) {
                *holder = None;
            }
        } else {
            let p = g[t].at.clone().unwrap_or("?".into());
            if p == "locked" {
                *holder = Some(t);
            }
            trace.push(format!("{}.{}", t, p));
        }
        None
    };
    for &t in sched {
        if stuck.is_some() { break; }
        stuck = step(t, &mut trace, &mut holder);
    }
    // drain
    while stuck.is_none() {
        let pick = {
            let g = cs.m.lock().unwrap();
            (0..n).find(|&t| !g[t].finished && (inflight[t].get() || !(holder.is_some() && holder != Some(t) && is_locking_point(g[t].at.as_deref().unwrap_or("")))))
        };
        match pick {
            Some(t) => { stuck = step(t, &mut trace, &mut holder); }
            None => break,
        }
        if trace.len() > 4000 { stuck = Some("drain did not terminate".into()); }
    }
    if stuck.is_some() {
        // let everything run to the end so the threads can be joined
        loop {
            let mut g = cs.m.lock().unwrap();
            if (0..n).all(|t| g[t].finished) { break; }
            for t in 0..n { g[t].granted = true; }
            cs.cv.notify_all();
            drop(g);
            std::thread::sleep(Duration::from_millis(1));
        }
    }
    for h in handles {
        let _ = h.join();
    }
    let g = cs.m.lock().unwrap();
    Outcome { trace, results: g.iter().map(|t| t.results.clone()).collect(), stuck }
}

// ---------------------------------------------------------------------------------------------
// cases
// ---------------------------------------------------------------------------------------------

#[derive(Clone, Debug)]
struct Case {
    cfg: Cfg,
    progs: Vec<Vec<Call>>,
    sched: Vec<usize>,
}
fn render_progs(p: &[Vec<Call>]) -> String {
    p.iter().map(|x| render_calls(x)).collect::<Vec<_>>().join("/")
}
fn render_sched(s: &[usize]) -> String {
    if s.is_empty() { "-".into() } else { s.iter().map(|x| x.to_string()).collect::<Vec<_>>().join(",") }
}
fn parse_case(line: &str) -> Option<Case> {
    // `case <cfg> <progs> <sched>`
    let t: Vec<&str> = line.split_whitespace().collect();
    if t.len() != 4 || t[0] != "case" { return None; }
    let progs: Option<Vec<Vec<Call>>> = t[2].split('/').map(parse_calls).collect();
    let sched: Option<Vec<usize>> = if t[3] == "-" { Some(vec![]) } else { t[3].split(',').map(|x| x.parse().ok()).collect() };
    Some(Case { cfg: Cfg::parse(t[1])?, progs: progs?, sched: sched? })
}

/// all sequences containing `counts[t]` copies of `t`, each copy expanded to `width` entries
fn interleavings(counts: &[usize], width: usize) -> Vec<Vec<usize>> {
    fn go(left: &mut Vec<usize>, cur: &mut Vec<usize>, out: &mut Vec<Vec<usize>>) {
        if left.iter().all(|c| *c == 0) { out.push(cur.clone()); return; }
        for t in 0..left.len() {
            if left[t] > 0 {
                left[t] -= 1; cur.push(t);
                go(left, cur, out);
                cur.pop(); left[t] += 1;
            }
        }
    }
    let mut out = vec![];
    go(&mut counts.to_vec(), &mut vec![], &mut out);
    out.into_iter().map(|s| s.into_iter().flat_map(|t| std::iter::repeat(t).take(width)).collect()).collect()
}

/// all interleavings of the threads' unit sequences; `units[t]` lists the widths (number of
/// schedule entries) of thread t's consecutive units
fn interleave_units(units: &[Vec<usize>]) -> Vec<Vec<usize>> {
    fn go(units: &[Vec<usize>], pos: &mut Vec<usize>, cur: &mut Vec<usize>, out: &mut Vec<Vec<usize>>) {
        if (0..units.len()).all(|t| pos[t] == units[t].len()) { out.push(cur.clone()); return; }
        for t in 0..units.len() {
            if pos[t] < units[t].len() {
                let w = units[t][pos[t]];
                pos[t] += 1;
                for _ in 0..w { cur.push(t); }
                go(units, pos, cur, out);
                for _ in 0..w { cur.pop(); }
                pos[t] -= 1;
            }
        }
    }
    let mut out = vec![];
    go(units, &mut vec![0; units.len()], &mut vec![], &mut out);
    out
}

fn quota_cfg(n: Option<usize>, e: Option<usize>) -> Cfg {
    Cfg { registered: true, enabled: true, max_nodes: n, max_edges: e }
}

fn gen_case(rng: &mut Rng) -> Case {
    let nthreads = 2 + rng.usize(2);
    let max_id = 1 + rng.below(3);
    let progs: Vec<Vec<Call>> = (0..nthreads)
        .map(|_| {
            (0..1 + rng.usize(3))
                .map(|_| {
                    let id = 1 + rng.below(max_id);
                    match rng.below(12) {
                        0..=4 => Call::Op(Op::CreateNode { id, labels: vec![], props: vec![] }),
                        5 => Call::Op(Op::CreateEdge { id, src: 1, tgt: 2, ty: 1, props: vec![] }),
                        6..=7 => Call::Op(Op::DeleteNode(id)),
                        8 => Call::Op(Op::DeleteEdge(id)),
                        9 => Call::Op(Op::UpdateNode(id, vec![(0, 1)])),
                        _ => Call::Recover,
                    }
                })
                .collect()
        })
        .collect();
    let len = rng.usize(40);
    let sched = (0..len).map(|_| rng.usize(nthreads)).collect();
    Case { cfg: quota_cfg(Some(1 + rng.usize(3)), Some(1 + rng.usize(2))), progs, sched }
}

fn nontrivial(trace: &[String], finished_before: impl Fn(usize, usize) -> bool) -> bool {
    // repaired: a thread that still has work was refused a step (lock contention);
    // legacy: two threads passed `checked` before anyone reached `counted`
    let mut checked: BTreeSet<&str> = BTreeSet::new();
    for (i, e) in trace.iter().enumerate() {
        let (t, what) = e.split_once('.').unwrap_or(("", ""));
        if what == "x" && !finished_before(t.parse().unwrap_or(usize::MAX), i) { return true; }
        if what == "checked" { checked.insert(t); if checked.len() >= 2 { return true; } }
        if what == "counted" { checked.clear(); }
    }
    false
}

fn main() {
    let args = Args::parse();
    let known = Known::load(&args.known, "C18");
    let mut rep = Report::new(
        "C18",
        "case = (quota, per-thread programs of persist_* calls on one tenant, schedule = list of thread indices, one hook-point-to-\
         hook-point micro-step each); non-trivial = a thread with work left was refused a step because another thread held the \
         write lock (repaired code) / two threads passed persist.checked before either reached persist.counted (pinned code); \
         distinct = distinct (quota, programs, schedule)",
        &args.replays,
        args.seed,
    );
    let exe = args.driver_exe("drv_quota");
    let work = tempfile::Builder::new().prefix("c18").tempdir_in(&args.work).expect("work dir");
    samyama::verif_hook::install(Arc::new(hook));

    // ---- cases ----
    let mut cases: Vec<Case> = vec![];
    let mut files: Vec<PathBuf> = vec![];
    if let Some(r) = &args.replay {
        files.push(r.clone());
    } else if let Ok(rd) = std::fs::read_dir(args.corpus.join("C18")) {
        files = rd.filter_map(|e| e.ok().map(|e| e.path())).collect();
        files.sort();
    }
    for f in &files {
        for line in std::fs::read_to_string(f).unwrap_or_default().lines() {
            if let Some(c) = parse_case(line) { cases.push(c); }
        }
    }
    let n_corpus = cases.len();
    rep.count_n("corpus_cases", n_corpus as u64);
    if args.replay.is_none() {
        let cn = |id: u64| Call::Op(Op::CreateNode { id, labels: vec![], props: vec![] });
        let mk = |id: u64| vec![cn(id)];
        // (a) 2 threads x 1 creation, quota 1-2: every interleaving of 6 + 6 micro-steps
        let two = interleavings(&[6, 6], 1);
        for q in 1..=2 {
            for s in &two {
                cases.push(Case { cfg: quota_cfg(Some(q), None), progs: vec![mk(1), mk(2)], sched: s.clone() });
            }
        }
        rep.count_n("exhaustive:2x1", 2 * two.len() as u64);
        // (b) 3 threads x 1 creation, quota 1-2: every interleaving of the three segments
        //     [lock,check] [log,store] [count,return] of each thread
        let three = interleavings(&[3, 3, 3], 2);
        for q in 1..=2 {
            for s in &three {
                cases.push(Case { cfg: quota_cfg(Some(q), None), progs: vec![mk(1), mk(2), mk(3)], sched: s.clone() });
            }
        }
        rep.count_n("exhaustive:3x1", 2 * three.len() as u64);
        // (d)-(h) `recover` as a thread program, interleaved with writers at every hook point.
        //   Thread 0 is a set-up thread that persists `pre` nodes before the others start (its
        //   schedule entries come first); quota q in 1..=2, pre in 0..=q.
        let with_setup = |pre: usize, progs: Vec<Vec<Call>>, sched: &[usize]| -> (Vec<Vec<Call>>, Vec<usize>) {
            let mut p = vec![(1..=pre as u64).map(|i| cn(i)).collect::<Vec<_>>()];
            p.extend(progs);
            let mut sc = vec![0usize; 6 * pre];
            sc.extend(sched.iter().map(|t| t + 1));
            (p, sc)
        };
        let combos: Vec<(usize, usize)> = vec![(1, 0), (1, 1), (2, 0), (2, 1), (2, 2)];
        let mut n_rec = 0u64;
        // (d) recover + 1 creation, micro-step granularity (4 + 6 entries)
        let rw = interleave_units(&[vec![1; 4], vec![1; 6]]);
        for &(q, pre) in &combos {
            for s in &rw {
                let (progs, sched) = with_setup(pre, vec![vec![Call::Recover], mk(7)], s);
                cases.push(Case { cfg: quota_cfg(Some(q), None), progs, sched });
                n_rec += 1;
            }
        }
        // (e) recover + 1 deletion of a persisted node, micro-step granularity (4 + 5 entries)
        let rd = interleave_units(&[vec![1; 4], vec![1; 5]]);
        for &(q, pre) in combos.iter().filter(|c| c.1 >= 1) {
            for s in &rd {
                let (progs, sched) = with_setup(pre, vec![vec![Call::Recover], vec![Call::Op(Op::DeleteNode(1))]], s);
                cases.push(Case { cfg: quota_cfg(Some(q), None), progs, sched });
                n_rec += 1;
            }
        }
        // (f) recover + 2 creations: recover as [lock] [scan] [count,return], each creation as
        //     three 2-step segments
        let rww = interleave_units(&[vec![1, 1, 2], vec![2; 3], vec![2; 3]]);
        for &(q, pre) in &[(1usize, 0usize), (2, 0), (2, 1)] {
            for s in &rww {
                let (progs, sched) = with_setup(pre, vec![vec![Call::Recover], mk(7), mk(8)], s);
                cases.push(Case { cfg: quota_cfg(Some(q), None), progs, sched });
                n_rec += 1;
            }
        }
        // (g) [create; recover] and (h) [recover; create] against a creator
        let cr = interleave_units(&[vec![2, 2, 2, 1, 1, 1, 1], vec![2; 3]]);
        let rc = interleave_units(&[vec![1, 1, 1, 1, 2, 2, 2], vec![2; 3]]);
        for &(q, pre) in &combos {
            for s in &cr {
                let (progs, sched) = with_setup(pre, vec![vec![cn(7), Call::Recover], mk(8)], s);
                cases.push(Case { cfg: quota_cfg(Some(q), None), progs, sched });
                n_rec += 1;
            }
            for s in &rc {
                let (progs, sched) = with_setup(pre, vec![vec![Call::Recover, cn(7)], mk(8)], s);
                cases.push(Case { cfg: quota_cfg(Some(q), None), progs, sched });
                n_rec += 1;
            }
        }
        rep.count_n("exhaustive:recover", n_rec);
        rep.exhaustive = true;
        rep.exhaustive_note = format!(
            "all {} interleavings of 2 threads x 1 creation at micro-step granularity (6+6 schedule entries) and all {} interleavings of              3 threads x 1 creation at the granularity of three 2-step segments per thread, each at quota 1 and 2; with `recover` as a              thread program, at quota 1-2 with 0..quota pre-persisted nodes: all {} interleavings of recover + 1 creation and all {} of              recover + 1 deletion at micro-step granularity, all {} of recover ([lock][scan][count,return]) + 2 creations (three 2-step              segments each), all {} of [create; recover] and all {} of [recover; create] against a creator; plus PRNG cases (2-3 threads,              1-3 calls each incl. recover, re-puts, deletes, updates, edges; random schedules), not exhaustive",
            two.len(), three.len(), rw.len(), rd.len(), rww.len(), cr.len(), rc.len()
        );
        // (c) random programs and schedules
        let mut rng = Rng::new(args.seed);
        let n = if args.thorough() { 120_000 } else { 1_500 };
        for _ in 0..n { cases.push(gen_case(&mut rng)); }
    }

    // ---- run on the implementation: 4 runners, one manager each, a fresh tenant per case ----
    struct Obs { trace: Vec<String>, line: Result<String, String>, stuck: Option<String> }
    let next = AtomicUsize::new(0);
    let out: Mutex<Vec<(usize, Obs)>> = Mutex::new(vec![]);
    let n_runners = 6usize;
    std::thread::scope(|sc| {
        for w in 0..n_runners {
            let (next, out, cases, workp) = (&next, &out, &cases, work.path());
            sc.spawn(move || {
                let pm = Arc::new(PersistenceManager::new(workp.join(format!("db{}", w))).expect("open"));
                let mut local = vec![];
                loop {
                    let i = next.fetch_add(1, Ordering::SeqCst);
                    if i >= cases.len() { break; }
                    let c = &cases[i];
                    // tenant names increase, so a tenant's key range is always the last one of the store
                    let tenant = format!("q{:09}", i);
                    c.cfg.setup(&pm, &tenant);
                    let o = run_threads(&pm, &tenant, &c.progs, &c.sched);
                    let ids = |v: Vec<u64>| if v.is_empty() { "-".to_string() } else { v.iter().map(|x| x.to_string()).collect::<Vec<_>>().join(",") };
                    let line = (|| -> Result<String, String> {
                        let mut n: Vec<u64> = pm.storage().scan_nodes(&tenant).map_err(|e| e.to_string())?.iter().map(|x| x.id.as_u64()).collect();
                        let mut e: Vec<u64> = pm.storage().scan_edges(&tenant).map_err(|e| e.to_string())?.iter().map(|x| x.id.as_u64()).collect();
                        n.sort(); e.sort();
                        let u = |pm: &PersistenceManager| pm.tenants().get_usage(&tenant).map(|u| format!("{}.{}", u.node_count, u.edge_count)).map_err(|e| e.to_string());
                        let u0 = u(&pm)?;
                        // a creation attempted now that everybody has returned
                        let probe = apply(&pm, &tenant, &Op::CreateNode { id: 99, labels: vec![], props: vec![] });
                        let mut np: Vec<u64> = pm.storage().scan_nodes(&tenant).map_err(|e| e.to_string())?.iter().map(|x| x.id.as_u64()).collect();
                        np.sort();
                        let up = u(&pm)?;
                        pm.recover(&tenant).map_err(|e| err_name(&e))?;
                        let u1 = u(&pm)?;
                        pm.recover(&tenant).map_err(|e| err_name(&e))?;
                        let u2 = u(&pm)?;
                        let res = o.results.iter().map(|r| if r.is_empty() { "-".to_string() } else { r.join(",") }).collect::<Vec<_>>().join("/");
                        Ok(format!("{}|{}|{}|{}|{}|{}|{}|{}|{}", res, ids(n), ids(e), u0, probe, ids(np), up, u1, u2))
                    })();
                    // leave nothing behind for the next tenant's scans
                    let _ = pm.storage().delete_node(&tenant, 99);
                    for op in c.progs.iter().flatten() {
                        match op {
                            Call::Op(Op::CreateNode { id, .. }) => { let _ = pm.storage().delete_node(&tenant, *id); }
                            Call::Op(Op::CreateEdge { id, .. }) => { let _ = pm.storage().delete_edge(&tenant, *id); }
                            _ => {}
                        }
                    }
                    let _ = pm.tenants().delete_tenant(&tenant);
                    local.push((i, Obs { trace: o.trace, line, stuck: o.stuck }));
                }
                out.lock().unwrap().extend(local);
            });
        }
    });
    samyama::verif_hook::clear();
    let mut obs = out.into_inner().unwrap();
    obs.sort_by_key(|(i, _)| *i);

    // ---- three-way evaluation ----
    let mut lines = Vec::with_capacity(obs.len() * 2);
    for (i, o) in &obs {
        let c = &cases[*i];
        lines.push(format!("quota {} {} {}", c.cfg.render(), render_progs(&c.progs), render_sched(&c.sched)));
        match &o.line {
            Ok(l) => lines.push(format!("specquota {} {} {}", c.cfg.render(), render_progs(&c.progs), l)),
            Err(_) => lines.push("noop".into()),
        }
    }
    let replies = driver::par_batch(&exe, &lines, 8);
    let mut first_break: Option<String> = None;
    let mut seen_sig: BTreeSet<String> = BTreeSet::new();
    for (k, (i, o)) in obs.iter().enumerate() {
        let c = &cases[*i];
        let (m, s) = (&replies[2 * k], &replies[2 * k + 1]);
        let tr = if o.trace.is_empty() { "-".to_string() } else { o.trace.join(",") };
        let r = match &o.line { Ok(l) => format!("ok {}|{}", l, tr), Err(e) => format!("err {}", e) };
        let canon = format!("{} {} {}", c.cfg.render(), render_progs(&c.progs), render_sched(&c.sched));
        // a thread is finished before entry i iff it has returned from all its calls by then
        let fin = |t: usize, upto: usize| -> bool {
            if t >= c.progs.len() { return true; }
            o.trace[..upto].iter().filter(|e| e.starts_with(&format!("{}.ret:", t))).count() >= c.progs[t].len()
        };
        let nt = nontrivial(&o.trace, fin);
        rep.case(&canon, nt);
        rep.count(&format!("threads:{}", c.progs.len()));
        for e in &o.trace {
            let what = e.split_once('.').map(|x| x.1).unwrap_or("");
            rep.count(&format!("step:{}", what.split(':').next().unwrap_or(what)));
            if let Some(res) = what.strip_prefix("ret:") { rep.count(&format!("result:{}", res)); }
        }
        if nt && rep.samples.len() < 4 && k % 997 == 3 {
            rep.sample(json!({"cfg": c.cfg.render(), "progs": render_progs(&c.progs), "sched": render_sched(&c.sched), "impl": r}));
        }
        let body = format!("case {} {} {}\nimpl  {}\nmodel {}\nspec  {}", c.cfg.render(), render_progs(&c.progs), render_sched(&c.sched), r, m, s);
        if let Some(st) = &o.stuck {
            rep.correspondence_break("scheduler: every granted thread reaches its next hook point", st, &body);
            continue;
        }
        if let Ok(l) = &o.line {
            if s != "ok" {
                // structural signatures of the failing observation
                let f: Vec<&str> = l.split('|').collect();
                let cnt = |x: &str| if x == "-" { 0 } else { x.split(',').count() };
                let (nn, ne, np) = (cnt(f[1]), cnt(f[2]), cnt(f[5]));
                let exact = format!("{}.{}", nn, ne);
                let exact_p = format!("{}.{}", np, ne);
                let has_recover = c.progs.iter().flatten().any(|x| *x == Call::Recover);
                let mut sigs = vec![];
                let over = |n: usize, e: usize| c.cfg.max_nodes.map(|q| n > q).unwrap_or(false) || c.cfg.max_edges.map(|q| e > q).unwrap_or(false);
                if over(nn, ne) { sigs.push("quota-overrun"); }
                if f[3] != exact { sigs.push(if has_recover { "usage-skew-with-concurrent-recover" } else { "usage-skew" }); }
                if f[3] == exact && !over(nn, ne) {
                    let room = c.cfg.max_nodes.map(|q| nn < q).unwrap_or(true);
                    if (f[4] == "ok") != room || over(np, ne) || f[6] != exact_p { sigs.push("probe-creation"); }
                    else if f[7] != exact_p || f[8] != exact_p { sigs.push("recover-adds"); }
                }
                if s == "viol:refused-left-something" { sigs.push("refused-left-something"); }
                if sigs.is_empty() { sigs.push(if s.starts_with("viol") { "quota-spec" } else { "driver-rejected" }); }
                for sig in sigs {
                    rep.count(&format!("spec_violation:{}", sig));
                    if known.is_known(sig).is_some() || seen_sig.insert(sig.to_string()) {
                        rep.spec_violation(&known, sig, &format!("{}: observations `{}` violate the quota specification ({})", sig, l, s), &body);
                    }
                }
                continue;
            }
        }
        if *m != r {
            rep.count("model_mismatch");
            if first_break.is_none() { first_break = Some(body); }
        }
    }
    // model self-test: the model of the pinned tree differs on the corpus witnesses
    {
        let mut l = vec![];
        for c in cases.iter().take(n_corpus) {
            l.push(format!("quota {} {} {}", c.cfg.render(), render_progs(&c.progs), render_sched(&c.sched)));
            l.push(format!("quotalegacy {} {} {}", c.cfg.render(), render_progs(&c.progs), render_sched(&c.sched)));
        }
        let r = driver::batch(&exe, &l);
        let detected = r.chunks(2).filter(|c| c[0] != c[1]).count();
        rep.extra.insert("model_self_test".into(), json!({"mutants": r.len() / 2, "detected": detected}));
    }
    if let Some(body) = first_break {
        if rep.spec_violations.is_empty() {
            rep.correspondence_break(
                "SgModel.Quota.run/drain fixed = real threads over PersistenceManager::persist_* under the hook-point scheduler (trace, results, stored ids, usage, usage after recover x2)",
                "model and implementation observations differ but the specification holds on all explored cases",
                &body,
            );
        }
    }
    rep.extra.insert("schedules".into(), json!({"enumerated": obs.len(), "exhaustive_scopes": ["2 threads x 1 creation, quota 1-2, micro-step granularity", "3 threads x 1 creation, quota 1-2, 3 segments per thread"]}));
    rep.write(&args.out);
}
