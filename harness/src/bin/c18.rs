//! C18 — tenant quotas hold under every interleaving of writers.
//!
//! Real threads call `PersistenceManager::persist_*` on one tenant of one real manager.  The
//! `verif_hook` callback parks a thread at every hook point until this binary's scheduler
//! grants it the next micro-step, so a schedule (list of thread indices) replays
//! deterministically on the implementation exactly as `SgModel.Quota.run` replays it on the
//! model: same enabledness rule (a thread about to start a call is not granted a step while
//! another thread is past `persist.locked` and has not returned), same drain order.  Compared
//! per case: the step-by-step trace, the calls' results, the stored ids, the usage counters
//! at quiescence and after `recover` once and twice (R = M), and `specQuota` / `specRefused`
//! evaluated on the implementation's observations (S ⊨ R).
#[path = "persist/common.rs"]
mod common;
use common::*;
use samyama::persistence::PersistenceManager;
use serde_json::json;
use std::cell::RefCell;
use std::collections::BTreeSet;
use std::path::PathBuf;
use std::sync::atomic::{AtomicUsize, Ordering};
use std::sync::{Arc, Condvar, Mutex};
use std::time::Duration;
use vharness::{driver, Args, Known, Report, Rng};

// ---------------------------------------------------------------------------------------------
// deterministic scheduler
// ---------------------------------------------------------------------------------------------

#[derive(Default)]
struct TState {
    /// where the thread is parked (`begin` = before its next call); None while running
    at: Option<String>,
    granted: bool,
    finished: bool,
    /// result of the call that returned during the last granted step
    returned: Option<String>,
    results: Vec<String>,
}
struct CaseSched {
    m: Mutex<Vec<TState>>,
    cv: Condvar,
}
thread_local! {
    static CTX: RefCell<Option<(Arc<CaseSched>, usize)>> = RefCell::new(None);
}

fn park(cs: &CaseSched, tid: usize, name: &str) {
    let mut g = cs.m.lock().unwrap();
    g[tid].at = Some(name.to_string());
    cs.cv.notify_all();
    while !g[tid].granted {
        g = cs.cv.wait(g).unwrap();
    }
    g[tid].granted = false;
    g[tid].at = None;
}

fn hook(name: &'static str) {
    let ctx = CTX.with(|c| c.borrow().clone());
    if let Some((cs, tid)) = ctx {
        park(&cs, tid, name.strip_prefix("persist.").unwrap_or(name));
    }
}

struct Outcome {
    trace: Vec<String>,
    results: Vec<Vec<String>>,
    stuck: Option<String>,
}

/// run the programs on real threads under `sched`, then drain (lowest enabled thread first)
fn run_threads(pm: &Arc<PersistenceManager>, tenant: &str, progs: &[Vec<Op>], sched: &[usize]) -> Outcome {
    let n = progs.len();
    let cs = Arc::new(CaseSched { m: Mutex::new((0..n).map(|_| TState::default()).collect()), cv: Condvar::new() });
    let mut handles = vec![];
    for (tid, prog) in progs.iter().enumerate() {
        let (cs, pm, prog, tenant) = (cs.clone(), pm.clone(), prog.clone(), tenant.to_string());
        handles.push(std::thread::spawn(move || {
            CTX.with(|c| *c.borrow_mut() = Some((cs.clone(), tid)));
            for op in &prog {
                park(&cs, tid, "begin");
                let r = apply(&pm, &tenant, op);
                let mut g = cs.m.lock().unwrap();
                g[tid].returned = Some(r.clone());
                g[tid].results.push(r);
            }
            let mut g = cs.m.lock().unwrap();
            g[tid].finished = true;
            cs.cv.notify_all();
            CTX.with(|c| *c.borrow_mut() = None);
        }));
    }
    let mut trace = vec![];
    let mut holder: Option<usize> = None;
    let mut stuck = None;
    // wait until every thread is parked at `begin` (or finished: empty program)
    let settled = |g: &Vec<TState>, t: usize| g[t].finished || g[t].at.is_some();
    {
        let mut g = cs.m.lock().unwrap();
        for t in 0..n {
            while !settled(&g, t) {
                g = cs.cv.wait(g).unwrap();
            }
        }
    }
    let step = |t: usize, trace: &mut Vec<String>, holder: &mut Option<usize>| -> Option<String> {
        // returns Some(reason) when the granted thread never reached its next point
        let mut g = cs.m.lock().unwrap();
        if t >= n || g[t].finished {
            trace.push(format!("{}.x", t));
            return None;
        }
        if g[t].at.as_deref() == Some("begin") && holder.is_some() {
            trace.push(format!("{}.x", t));
            return None;
        }
        g[t].granted = true;
        cs.cv.notify_all();
        // wait for the thread to park again or finish
        let mut waited = 0;
        while g[t].granted || !(g[t].finished || g[t].at.is_some()) {
            let (g2, to) = cs.cv.wait_timeout(g, Duration::from_millis(500)).unwrap();
            g = g2;
            if to.timed_out() {
                waited += 1;
                if waited > 120 {
                    trace.push(format!("{}.stuck", t));
                    return Some(format!("thread {} did not reach its next hook point within 60 s", t));
                }
            }
        }
        if let Some(r) = g[t].returned.take() {
            trace.push(format!("{}.ret:{}", t, r));
            if *holder == Some(t) {
                *holder = None;
            }
        } else {
            let p = g[t].at.clone().unwrap_or("?".into());
            if p == "locked" {
                *holder = Some(t);
            }
            trace.push(format!("{}.{}", t, p));
        }
        None
    };
    for &t in sched {
        if stuck.is_some() { break; }
        stuck = step(t, &mut trace, &mut holder);
    }
    // drain
    while stuck.is_none() {
        let pick = {
            let g = cs.m.lock().unwrap();
            (0..n).find(|&t| !g[t].finished && !(g[t].at.as_deref() == Some("begin") && holder.is_some()))
        };
        match pick {
            Some(t) => { stuck = step(t, &mut trace, &mut holder); }
            None => break,
        }
    }
    if stuck.is_some() {
        // let everything run to the end so the threads can be joined
        loop {
            let mut g = cs.m.lock().unwrap();
            if (0..n).all(|t| g[t].finished) { break; }
            for t in 0..n { g[t].granted = true; }
            cs.cv.notify_all();
            drop(g);
            std::thread::sleep(Duration::from_millis(1));
        }
    }
    for h in handles {
        let _ = h.join();
    }
    let g = cs.m.lock().unwrap();
    Outcome { trace, results: g.iter().map(|t| t.results.clone()).collect(), stuck }
}

// ---------------------------------------------------------------------------------------------
// cases
// ---------------------------------------------------------------------------------------------

#[derive(Clone, Debug)]
struct Case {
    cfg: Cfg,
    progs: Vec<Vec<Op>>,
    sched: Vec<usize>,
}
fn render_progs(p: &[Vec<Op>]) -> String {
    p.iter().map(|x| render_ops(x)).collect::<Vec<_>>().join("/")
}
fn render_sched(s: &[usize]) -> String {
    if s.is_empty() { "-".into() } else { s.iter().map(|x| x.to_string()).collect::<Vec<_>>().join(",") }
}
fn parse_case(line: &str) -> Option<Case> {
    // `case <cfg> <progs> <sched>`
    let t: Vec<&str> = line.split_whitespace().collect();
    if t.len() != 4 || t[0] != "case" { return None; }
    let progs: Option<Vec<Vec<Op>>> = t[2].split('/').map(parse_ops).collect();
    let sched: Option<Vec<usize>> = if t[3] == "-" { Some(vec![]) } else { t[3].split(',').map(|x| x.parse().ok()).collect() };
    Some(Case { cfg: Cfg::parse(t[1])?, progs: progs?, sched: sched? })
}

/// all sequences containing `counts[t]` copies of `t`, each copy expanded to `width` entries
fn interleavings(counts: &[usize], width: usize) -> Vec<Vec<usize>> {
    fn go(left: &mut Vec<usize>, cur: &mut Vec<usize>, out: &mut Vec<Vec<usize>>) {
        if left.iter().all(|c| *c == 0) { out.push(cur.clone()); return; }
        for t in 0..left.len() {
            if left[t] > 0 {
                left[t] -= 1; cur.push(t);
                go(left, cur, out);
                cur.pop(); left[t] += 1;
            }
        }
    }
    let mut out = vec![];
    go(&mut counts.to_vec(), &mut vec![], &mut out);
    out.into_iter().map(|s| s.into_iter().flat_map(|t| std::iter::repeat(t).take(width)).collect()).collect()
}

fn quota_cfg(n: Option<usize>, e: Option<usize>) -> Cfg {
    Cfg { registered: true, enabled: true, max_nodes: n, max_edges: e }
}

fn gen_case(rng: &mut Rng) -> Case {
    let nthreads = 2 + rng.usize(2);
    let max_id = 1 + rng.below(3);
    let progs: Vec<Vec<Op>> = (0..nthreads)
        .map(|_| {
            (0..1 + rng.usize(3))
                .map(|_| {
                    let id = 1 + rng.below(max_id);
                    match rng.below(10) {
                        0..=4 => Op::CreateNode { id, labels: vec![], props: vec![] },
                        5 => Op::CreateEdge { id, src: 1, tgt: 2, ty: 1, props: vec![] },
                        6..=7 => Op::DeleteNode(id),
                        8 => Op::DeleteEdge(id),
                        _ => Op::UpdateNode(id, vec![(0, 1)]),
                    }
                })
                .collect()
        })
        .collect();
    let len = rng.usize(30);
    let sched = (0..len).map(|_| rng.usize(nthreads)).collect();
    Case { cfg: quota_cfg(Some(1 + rng.usize(3)), Some(1 + rng.usize(2))), progs, sched }
}

fn nontrivial(trace: &[String], finished_before: impl Fn(usize, usize) -> bool) -> bool {
    // repaired: a thread that still has work was refused a step (lock contention);
    // legacy: two threads passed `checked` before anyone reached `counted`
    let mut checked: BTreeSet<&str> = BTreeSet::new();
    for (i, e) in trace.iter().enumerate() {
        let (t, what) = e.split_once('.').unwrap_or(("", ""));
        if what == "x" && !finished_before(t.parse().unwrap_or(usize::MAX), i) { return true; }
        if what == "checked" { checked.insert(t); if checked.len() >= 2 { return true; } }
        if what == "counted" { checked.clear(); }
    }
    false
}

fn main() {
    let args = Args::parse();
    let known = Known::load(&args.known, "C18");
    let mut rep = Report::new(
        "C18",
        "case = (quota, per-thread programs of persist_* calls on one tenant, schedule = list of thread indices, one hook-point-to-\
         hook-point micro-step each); non-trivial = a thread with work left was refused a step because another thread held the \
         write lock (repaired code) / two threads passed persist.checked before either reached persist.counted (pinned code); \
         distinct = distinct (quota, programs, schedule)",
        &args.replays,
        args.seed,
    );
    let exe = args.driver_exe("drv_quota");
    let work = tempfile::Builder::new().prefix("c18").tempdir_in(&args.work).expect("work dir");
    samyama::verif_hook::install(Arc::new(hook));

    // ---- cases ----
    let mut cases: Vec<Case> = vec![];
    let mut files: Vec<PathBuf> = vec![];
    if let Some(r) = &args.replay {
        files.push(r.clone());
    } else if let Ok(rd) = std::fs::read_dir(args.corpus.join("C18")) {
        files = rd.filter_map(|e| e.ok().map(|e| e.path())).collect();
        files.sort();
    }
    for f in &files {
        for line in std::fs::read_to_string(f).unwrap_or_default().lines() {
            if let Some(c) = parse_case(line) { cases.push(c); }
        }
    }
    let n_corpus = cases.len();
    rep.count_n("corpus_cases", n_corpus as u64);
    if args.replay.is_none() {
        let mk = |id: u64| vec![Op::CreateNode { id, labels: vec![], props: vec![] }];
        // (a) 2 threads x 1 creation, quota 1-2: every interleaving of 6 + 6 micro-steps
        let two = interleavings(&[6, 6], 1);
        for q in 1..=2 {
            for s in &two {
                cases.push(Case { cfg: quota_cfg(Some(q), None), progs: vec![mk(1), mk(2)], sched: s.clone() });
            }
        }
        rep.count_n("exhaustive:2x1", 2 * two.len() as u64);
        // (b) 3 threads x 1 creation, quota 1-2: every interleaving of the three segments
        //     [lock,check] [log,store] [count,return] of each thread
        let three = interleavings(&[3, 3, 3], 2);
        for q in 1..=2 {
            for s in &three {
                cases.push(Case { cfg: quota_cfg(Some(q), None), progs: vec![mk(1), mk(2), mk(3)], sched: s.clone() });
            }
        }
        rep.count_n("exhaustive:3x1", 2 * three.len() as u64);
        rep.exhaustive = true;
        rep.exhaustive_note = format!(
            "all {} interleavings of 2 threads x 1 creation at micro-step granularity (6+6 schedule entries) and all {} interleavings of \
             3 threads x 1 creation at the granularity of three 2-step segments per thread, each at quota 1 and 2; plus PRNG cases \
             (2-3 threads, 1-3 calls each incl. re-puts, deletes, updates, edges; random schedules), not exhaustive",
            two.len(), three.len()
        );
        // (c) random programs and schedules
        let mut rng = Rng::new(args.seed);
        let n = if args.thorough() { 120_000 } else { 1_500 };
        for _ in 0..n { cases.push(gen_case(&mut rng)); }
    }

    // ---- run on the implementation: 4 runners, one manager each, a fresh tenant per case ----
    struct Obs { trace: Vec<String>, line: Result<String, String>, stuck: Option<String> }
    let next = AtomicUsize::new(0);
    let out: Mutex<Vec<(usize, Obs)>> = Mutex::new(vec![]);
    let n_runners = 4usize;
    std::thread::scope(|sc| {
        for w in 0..n_runners {
            let (next, out, cases, workp) = (&next, &out, &cases, work.path());
            sc.spawn(move || {
                let pm = Arc::new(PersistenceManager::new(workp.join(format!("db{}", w))).expect("open"));
                let mut local = vec![];
                loop {
                    let i = next.fetch_add(1, Ordering::SeqCst);
                    if i >= cases.len() { break; }
                    let c = &cases[i];
                    // tenant names increase, so a tenant's key range is always the last one of the store
                    let tenant = format!("q{:09}", i);
                    c.cfg.setup(&pm, &tenant);
                    let o = run_threads(&pm, &tenant, &c.progs, &c.sched);
                    let ids = |v: Vec<u64>| if v.is_empty() { "-".to_string() } else { v.iter().map(|x| x.to_string()).collect::<Vec<_>>().join(",") };
                    let line = (|| -> Result<String, String> {
                        let mut n: Vec<u64> = pm.storage().scan_nodes(&tenant).map_err(|e| e.to_string())?.iter().map(|x| x.id.as_u64()).collect();
                        let mut e: Vec<u64> = pm.storage().scan_edges(&tenant).map_err(|e| e.to_string())?.iter().map(|x| x.id.as_u64()).collect();
                        n.sort(); e.sort();
                        let u = |pm: &PersistenceManager| pm.tenants().get_usage(&tenant).map(|u| format!("{}.{}", u.node_count, u.edge_count)).map_err(|e| e.to_string());
                        let u0 = u(&pm)?;
                        pm.recover(&tenant).map_err(|e| err_name(&e))?;
                        let u1 = u(&pm)?;
                        pm.recover(&tenant).map_err(|e| err_name(&e))?;
                        let u2 = u(&pm)?;
                        let res = o.results.iter().map(|r| if r.is_empty() { "-".to_string() } else { r.join(",") }).collect::<Vec<_>>().join("/");
                        Ok(format!("{}|{}|{}|{}|{}|{}", res, ids(n), ids(e), u0, u1, u2))
                    })();
                    // leave nothing behind for the next tenant's scans
                    for op in c.progs.iter().flatten() {
                        match op {
                            Op::CreateNode { id, .. } => { let _ = pm.storage().delete_node(&tenant, *id); }
                            Op::CreateEdge { id, .. } => { let _ = pm.storage().delete_edge(&tenant, *id); }
                            _ => {}
                        }
                    }
                    let _ = pm.tenants().delete_tenant(&tenant);
                    local.push((i, Obs { trace: o.trace, line, stuck: o.stuck }));
                }
                out.lock().unwrap().extend(local);
            });
        }
    });
    samyama::verif_hook::clear();
    let mut obs = out.into_inner().unwrap();
    obs.sort_by_key(|(i, _)| *i);

    // ---- three-way evaluation ----
    let mut lines = Vec::with_capacity(obs.len() * 2);
    for (i, o) in &obs {
        let c = &cases[*i];
        lines.push(format!("quota {} {} {}", c.cfg.render(), render_progs(&c.progs), render_sched(&c.sched)));
        match &o.line {
            Ok(l) => lines.push(format!("specquota {} {} {}", c.cfg.render(), render_progs(&c.progs), l)),
            Err(_) => lines.push("noop".into()),
        }
    }
    let replies = driver::par_batch(&exe, &lines, 8);
    let mut first_break: Option<String> = None;
    let mut seen_sig: BTreeSet<String> = BTreeSet::new();
    for (k, (i, o)) in obs.iter().enumerate() {
        let c = &cases[*i];
        let (m, s) = (&replies[2 * k], &replies[2 * k + 1]);
        let tr = if o.trace.is_empty() { "-".to_string() } else { o.trace.join(",") };
        let r = match &o.line { Ok(l) => format!("ok {}|{}", l, tr), Err(e) => format!("err {}", e) };
        let canon = format!("{} {} {}", c.cfg.render(), render_progs(&c.progs), render_sched(&c.sched));
        // a thread is finished before entry i iff it has returned from all its calls by then
        let fin = |t: usize, upto: usize| -> bool {
            if t >= c.progs.len() { return true; }
            o.trace[..upto].iter().filter(|e| e.starts_with(&format!("{}.ret:", t))).count() >= c.progs[t].len()
        };
        let nt = nontrivial(&o.trace, fin);
        rep.case(&canon, nt);
        rep.count(&format!("threads:{}", c.progs.len()));
        for e in &o.trace {
            let what = e.split_once('.').map(|x| x.1).unwrap_or("");
            rep.count(&format!("step:{}", what.split(':').next().unwrap_or(what)));
            if let Some(res) = what.strip_prefix("ret:") { rep.count(&format!("result:{}", res)); }
        }
        if nt && rep.samples.len() < 4 && k % 997 == 3 {
            rep.sample(json!({"cfg": c.cfg.render(), "progs": render_progs(&c.progs), "sched": render_sched(&c.sched), "impl": r}));
        }
        let body = format!("case {} {} {}\nimpl  {}\nmodel {}\nspec  {}", c.cfg.render(), render_progs(&c.progs), render_sched(&c.sched), r, m, s);
        if let Some(st) = &o.stuck {
            rep.correspondence_break("scheduler: every granted thread reaches its next hook point", st, &body);
            continue;
        }
        if let Ok(l) = &o.line {
            if s != "ok" {
                // structural signatures of the failing observation
                let f: Vec<&str> = l.split('|').collect();
                let cnt = |x: &str| if x == "-" { 0 } else { x.split(',').count() };
                let (nn, ne) = (cnt(f[1]), cnt(f[2]));
                let exact = format!("{}.{}", nn, ne);
                let mut sigs = vec![];
                if c.cfg.max_nodes.map(|q| nn > q).unwrap_or(false) || c.cfg.max_edges.map(|q| ne > q).unwrap_or(false) { sigs.push("quota-overrun"); }
                if f[3] != exact { sigs.push("usage-skew"); }
                if f[3] == exact && (f[4] != exact || f[5] != exact) { sigs.push("recover-adds"); }
                if s == "viol:refused-left-something" { sigs.push("refused-left-something"); }
                if sigs.is_empty() { sigs.push(if s.starts_with("viol") { "quota-spec" } else { "driver-rejected" }); }
                for sig in sigs {
                    rep.count(&format!("spec_violation:{}", sig));
                    if known.is_known(sig).is_some() || seen_sig.insert(sig.to_string()) {
                        rep.spec_violation(&known, sig, &format!("{}: observations `{}` violate the quota specification ({})", sig, l, s), &body);
                    }
                }
                continue;
            }
        }
        if *m != r {
            rep.count("model_mismatch");
            if first_break.is_none() { first_break = Some(body); }
        }
    }
    // model self-test: the model of the pinned tree differs on the corpus witnesses
    {
        let mut l = vec![];
        for c in cases.iter().take(n_corpus) {
            l.push(format!("quota {} {} {}", c.cfg.render(), render_progs(&c.progs), render_sched(&c.sched)));
            l.push(format!("quotalegacy {} {} {}", c.cfg.render(), render_progs(&c.progs), render_sched(&c.sched)));
        }
        let r = driver::batch(&exe, &l);
        let detected = r.chunks(2).filter(|c| c[0] != c[1]).count();
        rep.extra.insert("model_self_test".into(), json!({"mutants": r.len() / 2, "detected": detected}));
    }
    if let Some(body) = first_break {
        if rep.spec_violations.is_empty() {
            rep.correspondence_break(
                "SgModel.Quota.run/drain fixed = real threads over PersistenceManager::persist_* under the hook-point scheduler (trace, results, stored ids, usage, usage after recover x2)",
                "model and implementation observations differ but the specification holds on all explored cases",
                &body,
            );
        }
    }
    rep.extra.insert("schedules".into(), json!({"enumerated": obs.len(), "exhaustive_scopes": ["2 threads x 1 creation, quota 1-2, micro-step granularity", "3 threads x 1 creation, quota 1-2, 3 segments per thread"]}));
    rep.write(&args.out);
}
