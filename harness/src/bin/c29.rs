//! C29 — vector search returns live, current, correctly ranked nodes.
//! Real engine (Cypher through `QueryEngine`, plus `GraphStore::vector_search`) vs the Lean model
//! `SgModel.VecIdx`, and the executable specification evaluated on the engine's observations.
use samyama::graph::{GraphStore, PropertyValue};
use samyama::query::executor::record::Value;
use samyama::query::QueryEngine;
use serde_json::json;
use std::collections::HashSet;
use vharness::{driver, Args, Known, Report, Rng};

/// how an embedding value is spelled / typed when it is written (the model sees only its
/// numeric components; every accepted representation must reach the same bookkeeping):
/// 'f' all-float list literal `[1.0, 0.0]`, 'i' all-integer list literal `[1, 0]` (stays
/// Array[Integer]), 'x' mixed `[1, 0.0]`, 'e' a list produced by an expression
/// (`[x IN [1, 0] | x]`, SET only; CREATE falls back to 'i'), 'p' a query parameter `$v`
/// holding Array[Integer], 'v' PropertyValue::Vector through GraphStore::set_node_property
const REPRS: [char; 6] = ['f', 'i', 'x', 'e', 'p', 'v'];

#[derive(Clone, Debug)]
enum VV {
    Vec(Vec<i32>, char),
    Null,
    Scalar,
}

#[derive(Clone, Debug)]
enum Op {
    MkIndex(usize, char), // dimension, 'c' cosine | 'l' l2 (Cypher DDL) | 'i' inner product (store API)
    Create(bool, Option<(Vec<i32>, char)>),
    SetVec(usize, VV),
    RemoveVec(usize),
    AddL(usize),
    RemL(usize),
    Delete(usize),
    Query(usize, Vec<i32>),
    /// GraphStore::rebuild_vector_index() — a no-op for the model (the entry list already is
    /// what a rebuild produces)
    Rebuild,
}

fn vec_txt(v: &[i32]) -> String {
    v.iter().map(|x| x.to_string()).collect::<Vec<_>>().join(",")
}
fn vec_cypher(v: &[i32]) -> String {
    format!("[{}]", v.iter().map(|x| format!("{}.0", x)).collect::<Vec<_>>().join(", "))
}
/// the list literal / expression for a representation that is written inside the statement
fn vec_spelled(v: &[i32], repr: char, in_create: bool) -> String {
    let ints = format!("[{}]", v.iter().map(|x| x.to_string()).collect::<Vec<_>>().join(", "));
    match repr {
        'f' => vec_cypher(v),
        'x' => format!(
            "[{}]",
            v.iter().enumerate().map(|(i, x)| if i == 0 { x.to_string() } else { format!("{}.0", x) }).collect::<Vec<_>>().join(", ")
        ),
        'e' if !in_create => format!("[x IN {} | x]", ints),
        _ => ints,
    }
}

/// driver text; `raws[j]` = the ids the implementation returned for the j-th query
fn render(ops: &[Op], raws: Option<&[String]>) -> String {
    let mut j = 0;
    ops.iter()
        .filter(|op| !matches!(op, Op::Rebuild))
        .map(|op| match op {
            Op::Rebuild => String::new(),
            Op::MkIndex(d, m) => format!("x:{}.{}", d, m),
            Op::Create(l, v) => format!(
                "n:{}:{}",
                if *l { 1 } else { 0 },
                v.as_ref().map(|(v, _)| vec_txt(v)).unwrap_or_else(|| "_".into())
            ),
            Op::SetVec(h, VV::Vec(v, _)) => format!("s:{}:{}", h, vec_txt(v)),
            Op::SetVec(h, _) => format!("s:{}:_", h),
            Op::RemoveVec(h) => format!("r:{}", h),
            Op::AddL(h) => format!("a:{}", h),
            Op::RemL(h) => format!("u:{}", h),
            Op::Delete(h) => format!("d:{}", h),
            Op::Query(k, q) => {
                let raw = raws.map(|r| r[j].clone()).unwrap_or_else(|| "_".into());
                j += 1;
                format!("q:{}:{}:{}", k, vec_txt(q), raw)
            }
        })
        .collect::<Vec<_>>()
        .join(";")
}

/// canonical text of a case (scalar writes keep their own letter so that replay is faithful)
fn canon(ops: &[Op]) -> String {
    ops.iter()
        .map(|op| match op {
            Op::SetVec(h, VV::Scalar) => format!("s:{}:#", h),
            Op::Rebuild => "b".to_string(),
            Op::Create(l, Some((v, r))) => format!("n:{}:{}@{}", if *l { 1 } else { 0 }, vec_txt(v), r),
            Op::SetVec(h, VV::Vec(v, r)) => format!("s:{}:{}@{}", h, vec_txt(v), r),
            Op::Query(k, q) => format!("q:{}:{}", k, vec_txt(q)),
            other => render(std::slice::from_ref(other), None),
        })
        .collect::<Vec<_>>()
        .join(";")
}

fn parse_vec(s: &str) -> Option<Vec<i32>> {
    s.split(',').map(|x| x.parse().ok()).collect()
}
/// `1,0@i` -> ([1,0], 'i'); without a suffix the all-float literal
fn parse_vec_repr(s: &str) -> Option<(Vec<i32>, char)> {
    match s.split_once('@') {
        Some((v, r)) => Some((parse_vec(v)?, r.chars().next()?)),
        None => Some((parse_vec(s)?, 'f')),
    }
}
fn parse_ops(s: &str) -> Option<Vec<Op>> {
    let mut out = vec![];
    for p in s.split(';') {
        let f: Vec<&str> = p.split(':').collect();
        out.push(match f.as_slice() {
            ["x", a] => {
                let (d, m) = a.split_once('.')?;
                Op::MkIndex(d.parse().ok()?, m.chars().next()?)
            }
            ["b"] => Op::Rebuild,
            ["n", l, v] => Op::Create(*l == "1", if *v == "_" { None } else { Some(parse_vec_repr(v)?) }),
            ["s", h, "_"] => Op::SetVec(h.parse().ok()?, VV::Null),
            ["s", h, "#"] => Op::SetVec(h.parse().ok()?, VV::Scalar),
            ["s", h, v] => {
                let (v, r) = parse_vec_repr(v)?;
                Op::SetVec(h.parse().ok()?, VV::Vec(v, r))
            }
            ["r", h] => Op::RemoveVec(h.parse().ok()?),
            ["a", h] => Op::AddL(h.parse().ok()?),
            ["u", h] => Op::RemL(h.parse().ok()?),
            ["d", h] => Op::Delete(h.parse().ok()?),
            ["q", k, v] | ["q", k, v, _] => Op::Query(k.parse().ok()?, parse_vec(v)?),
            _ => return None,
        });
    }
    Some(out)
}

#[derive(Clone, Debug)]
struct ONode {
    h: usize,
    in_l: bool,
    vec: Option<Vec<i32>>,
}

/// what one query showed
#[derive(Clone, Debug)]
struct QObs {
    rows: Vec<(Option<usize>, f64)>, // handle (None = the row's node does not exist), score
    api_rows: Vec<Option<usize>>,    // the same query through GraphStore::vector_search
    nodes: Vec<ONode>,
    size: usize,
    err: Option<String>,
}

fn pv_vec(p: &PropertyValue) -> Option<Vec<i32>> {
    let to_i = |f: f64| if f.fract() == 0.0 && f.abs() < 1e6 { Some(f as i32) } else { None };
    match p {
        PropertyValue::Vector(v) if !v.is_empty() => v.iter().map(|x| to_i(*x as f64)).collect(),
        PropertyValue::Array(a) if !a.is_empty() => a
            .iter()
            .map(|x| match x {
                PropertyValue::Float(f) => to_i(*f),
                PropertyValue::Integer(i) => Some(*i as i32),
                _ => None,
            })
            .collect(),
        _ => None,
    }
}

fn observe_nodes(eng: &QueryEngine, store: &GraphStore) -> Result<Vec<ONode>, String> {
    let b = eng.execute("MATCH (n) RETURN n.h, labels(n), n.v", store).map_err(|e| e.to_string())?;
    let mut nodes = vec![];
    for rec in &b.records {
        let get = |c: &str| -> PropertyValue {
            match rec.get(c) {
                Some(Value::Property(p)) => p.clone(),
                _ => PropertyValue::Null,
            }
        };
        let h = match get("n.h") {
            PropertyValue::Integer(i) => i as usize,
            _ => usize::MAX,
        };
        let in_l = match get("labels(n)") {
            PropertyValue::Array(a) => a.iter().any(|l| matches!(l, PropertyValue::String(s) if s == "L")),
            _ => false,
        };
        nodes.push(ONode { h, in_l, vec: pv_vec(&get("n.v")) });
    }
    nodes.sort_by_key(|n| n.h);
    Ok(nodes)
}

fn run_real(ops: &[Op]) -> (Vec<QObs>, Option<String>) {
    let eng = QueryEngine::new();
    let mut store = GraphStore::new();
    let mut next = 0usize;
    let mut out = vec![];
    for op in ops {
        if let Op::MkIndex(d, 'i') = op {
            // Cypher DDL offers cosine and l2 only: the third metric is declared the way the
            // HTTP layer does it, through the store API, followed by the same backfill
            // CREATE VECTOR INDEX runs
            if let Err(e) = store.create_vector_index("L", "v", *d, samyama::vector::DistanceMetric::InnerProduct) {
                return (out, Some(format!("create_vector_index failed: {}", e)));
            }
            store.rebuild_vector_index();
            continue;
        }
        let stmt = match op {
            Op::MkIndex(d, m) => Some(format!(
                "CREATE VECTOR INDEX FOR (n:L) ON (n.v) OPTIONS {{dimensions: {}, similarity: '{}'}}",
                d,
                if *m == 'c' { "cosine" } else { "l2" }
            )),
            Op::Create(l, v) => {
                let q = match v {
                    // through the store API, or as a parameter (CREATE property maps do not take
                    // executor parameters): the node is created first, the vector written next
                    Some((_, 'v')) | Some((_, 'p')) | None => format!("CREATE (:{} {{h: {}}})", if *l { "L" } else { "M" }, next),
                    Some((v, r)) => {
                        format!("CREATE (:{} {{h: {}, v: {}}})", if *l { "L" } else { "M" }, next, vec_spelled(v, *r, true))
                    }
                };
                next += 1;
                Some(q)
            }
            Op::SetVec(h, VV::Vec(_, 'p')) => Some(format!("MATCH (n {{h: {}}}) SET n.v = $v", h)),
            Op::SetVec(_, VV::Vec(_, 'v')) => Some(String::new()),
            Op::SetVec(h, VV::Vec(v, r)) => Some(format!("MATCH (n {{h: {}}}) SET n.v = {}", h, vec_spelled(v, *r, false))),
            Op::SetVec(h, VV::Null) => Some(format!("MATCH (n {{h: {}}}) SET n.v = null", h)),
            Op::SetVec(h, VV::Scalar) => Some(format!("MATCH (n {{h: {}}}) SET n.v = 7", h)),
            Op::RemoveVec(h) => Some(format!("MATCH (n {{h: {}}}) REMOVE n.v", h)),
            Op::AddL(h) => Some(format!("MATCH (n {{h: {}}}) SET n:L", h)),
            Op::RemL(h) => Some(format!("MATCH (n {{h: {}}}) REMOVE n:L", h)),
            Op::Delete(h) => Some(format!("MATCH (n {{h: {}}}) DELETE n", h)),
            Op::Rebuild => {
                store.rebuild_vector_index();
                continue;
            }
            Op::Query(..) => None,
        };
        if let Some(q) = stmt {
            // the vector of this write and how it is to be handed over
            let written: Option<(&Vec<i32>, char, usize)> = match op {
                Op::Create(_, Some((v, r))) => Some((v, *r, next - 1)),
                Op::SetVec(h, VV::Vec(v, r)) => Some((v, *r, *h)),
                _ => None,
            };
            let r = std::panic::catch_unwind(std::panic::AssertUnwindSafe(|| -> Result<(), String> {
                if !q.is_empty() {
                    match written {
                        Some((v, 'p', _)) if matches!(op, Op::SetVec(..)) => {
                            // a parameter holding an all-integer list
                            let ast = samyama::query::parse_query(&q).map_err(|e| e.to_string())?;
                            let mut params = std::collections::HashMap::new();
                            params.insert(
                                "v".to_string(),
                                PropertyValue::Array(v.iter().map(|x| PropertyValue::Integer(*x as i64)).collect()),
                            );
                            samyama::query::executor::MutQueryExecutor::new(&mut store, "default".to_string())
                                .with_params(params)
                                .execute(&ast)
                                .map(|_| ())
                                .map_err(|e| e.to_string())?;
                        }
                        _ => {
                            eng.execute_mut(&q, &mut store, "default").map(|_| ()).map_err(|e| e.to_string())?;
                        }
                    }
                }
                if let (Some((v, 'p', h)), Op::Create(..)) = (written, op) {
                    let ast = samyama::query::parse_query(&format!("MATCH (n {{h: {}}}) SET n.v = $v", h)).map_err(|e| e.to_string())?;
                    let mut params = std::collections::HashMap::new();
                    params.insert("v".to_string(), PropertyValue::Array(v.iter().map(|x| PropertyValue::Integer(*x as i64)).collect()));
                    samyama::query::executor::MutQueryExecutor::new(&mut store, "default".to_string())
                        .with_params(params)
                        .execute(&ast)
                        .map(|_| ())
                        .map_err(|e| e.to_string())?;
                }
                if let Some((v, 'v', h)) = written {
                    // PropertyValue::Vector through the store API (when the node exists)
                    let id = store.all_nodes().iter().find(|n| n.get_property("h") == Some(&PropertyValue::Integer(h as i64))).map(|n| n.id);
                    if let Some(id) = id {
                        store
                            .set_node_property("default", id, "v", PropertyValue::Vector(v.iter().map(|x| *x as f32).collect()))
                            .map_err(|e| e.to_string())?;
                    }
                }
                Ok(())
            }));
            match r {
                Ok(Ok(())) => {}
                Ok(Err(e)) => return (out, Some(format!("statement `{}` failed: {}", q, e))),
                Err(_) => return (out, Some(format!("statement `{}` panicked", q))),
            }
            continue;
        }
        if let Op::Query(k, qv) = op {
            let q = format!(
                "CALL db.index.vector.queryNodes('L', 'v', {}, {}) YIELD node, score RETURN node.h, score",
                vec_cypher(qv),
                k
            );
            let mut o = QObs { rows: vec![], api_rows: vec![], nodes: vec![], size: 0, err: None };
            let r = std::panic::catch_unwind(std::panic::AssertUnwindSafe(|| eng.execute(&q, &store).map_err(|e| e.to_string())));
            match r {
                Ok(Ok(b)) => {
                    for rec in &b.records {
                        let h = match rec.get("node.h") {
                            Some(Value::Property(PropertyValue::Integer(i))) => Some(*i as usize),
                            _ => None,
                        };
                        let s = match rec.get("score") {
                            Some(Value::Property(PropertyValue::Float(f))) => *f,
                            _ => f64::NAN,
                        };
                        o.rows.push((h, s));
                    }
                }
                Ok(Err(e)) => o.err = Some(e),
                Err(_) => o.err = Some("panic".into()),
            }
            let qf: Vec<f32> = qv.iter().map(|x| *x as f32).collect();
            if let Ok(Ok(hits)) = std::panic::catch_unwind(std::panic::AssertUnwindSafe(|| store.vector_search("L", "v", &qf, *k))) {
                for (id, _) in hits {
                    let h = store.get_node(id).and_then(|n| match n.get_property("h") {
                        Some(PropertyValue::Integer(i)) => Some(*i as usize),
                        _ => None,
                    });
                    o.api_rows.push(h);
                }
            }
            match observe_nodes(&eng, &store) {
                Ok(n) => o.nodes = n,
                Err(e) => o.err = Some(e),
            }
            o.size = store.vector_index.get_index("L", "v").map(|i| i.read().unwrap().len()).unwrap_or(0);
            out.push(o);
        }
    }
    (out, None)
}

fn nodes_txt(nodes: &[ONode]) -> String {
    if nodes.is_empty() {
        return "-".into();
    }
    nodes
        .iter()
        .map(|n| {
            format!(
                "{}:{}:{}",
                n.h,
                if n.in_l { 1 } else { 0 },
                n.vec.as_ref().map(|v| vec_txt(v)).unwrap_or_else(|| "_".into())
            )
        })
        .collect::<Vec<_>>()
        .join("+")
}
fn ids_txt(rows: &[(Option<usize>, f64)]) -> String {
    if rows.is_empty() {
        return "-".into();
    }
    rows.iter().map(|(h, _)| h.map(|x| x.to_string()).unwrap_or_else(|| "x".into())).collect::<Vec<_>>().join(",")
}

/// exact distance in f64 under the declared metric (harness-side check of the reported score)
fn expected_score(metric: char, q: &[i32], v: &[i32]) -> f64 {
    if metric == 'i' {
        return 1.0 - q.iter().zip(v).map(|(a, b)| (*a as f64) * (*b as f64)).sum::<f64>();
    }
    if metric == 'l' {
        return q.iter().zip(v).map(|(a, b)| ((a - b) as f64).powi(2)).sum::<f64>().sqrt();
    }
    let dot: f64 = q.iter().zip(v).map(|(a, b)| (a * b) as f64).sum();
    let nq: f64 = q.iter().map(|a| (a * a) as f64).sum();
    let nv: f64 = v.iter().map(|a| (a * a) as f64).sum();
    if nq <= 0.0 || nv <= 0.0 {
        1.0
    } else {
        (1.0 - dot / (nq.sqrt() * nv.sqrt())).max(0.0)
    }
}

/// Appendix B: a node that was in the index was updated / removed / unlabelled / deleted
/// before a search
fn nontrivial(ops: &[Op]) -> bool {
    let mut dim: Option<usize> = None;
    let mut nodes: Vec<Option<(bool, Option<Vec<i32>>)>> = vec![];
    let mut touched = false;
    let indexed = |n: &Option<(bool, Option<Vec<i32>>)>, dim: Option<usize>| -> bool {
        matches!((n, dim), (Some((true, Some(v))), Some(d)) if v.len() == d)
    };
    for op in ops {
        match op {
            Op::MkIndex(d, _) => dim = Some(*d),
            Op::Rebuild => {}
            Op::Create(l, v) => nodes.push(Some((*l, v.as_ref().map(|(v, _)| v.clone())))),
            Op::SetVec(h, vv) => {
                if let Some(n) = nodes.get_mut(*h) {
                    if indexed(n, dim) {
                        touched = true;
                    }
                    if let Some(x) = n {
                        x.1 = match vv {
                            VV::Vec(v, _) => Some(v.clone()),
                            _ => None,
                        };
                    }
                }
            }
            Op::RemoveVec(h) => {
                if let Some(n) = nodes.get_mut(*h) {
                    if indexed(n, dim) {
                        touched = true;
                    }
                    if let Some(x) = n {
                        x.1 = None;
                    }
                }
            }
            Op::AddL(h) => {
                if let Some(Some(x)) = nodes.get_mut(*h) {
                    x.0 = true;
                }
            }
            Op::RemL(h) => {
                if let Some(n) = nodes.get_mut(*h) {
                    if indexed(n, dim) {
                        touched = true;
                    }
                    if let Some(x) = n {
                        x.0 = false;
                    }
                }
            }
            Op::Delete(h) => {
                if let Some(n) = nodes.get_mut(*h) {
                    if indexed(n, dim) {
                        touched = true;
                    }
                    *n = None;
                }
            }
            Op::Query(..) => {
                if touched {
                    return true;
                }
            }
        }
    }
    false
}

fn small_letters(handles: usize, metric: char, reprs: (char, char)) -> Vec<Op> {
    let vs: [Vec<i32>; 3] = [vec![1, 0], vec![1, 1], vec![3, 0]];
    let mut a = vec![Op::MkIndex(2, metric), Op::Create(false, Some((vec![1, 0], reprs.0)))];
    for v in &vs {
        a.push(Op::Create(true, Some((v.clone(), reprs.0))));
    }
    for h in 0..handles {
        a.push(Op::SetVec(h, VV::Vec(vec![1, 1], reprs.1)));
        a.push(Op::SetVec(h, VV::Vec(vec![0, 2], reprs.0)));
        a.push(Op::SetVec(h, VV::Null));
        a.push(Op::RemoveVec(h));
        a.push(Op::AddL(h));
        a.push(Op::RemL(h));
        a.push(Op::Delete(h));
    }
    a
}

/// all histories up to `max_len` (a handle is addressed only once handed out), the query
/// [1,0] k=5 after every statement and [1,2] k=1 at the end
fn exhaustive(max_len: usize, metric: char, reprs: (char, char), out: &mut Vec<Vec<Op>>) {
    fn go(cur: &mut Vec<Op>, created: usize, max_len: usize, metric: char, reprs: (char, char), out: &mut Vec<Vec<Op>>) {
        if !cur.is_empty() {
            let mut c = vec![];
            for op in cur.iter() {
                c.push(op.clone());
                c.push(Op::Query(5, vec![1, 0]));
            }
            c.push(Op::Query(1, vec![1, 2]));
            c.push(Op::Query(2, vec![-1, 1]));
            out.push(c);
        }
        if cur.len() == max_len {
            return;
        }
        for op in small_letters(created.min(2), metric, reprs) {
            let c2 = created + matches!(op, Op::Create(..)) as usize;
            cur.push(op);
            go(cur, c2, max_len, metric, reprs, out);
            cur.pop();
        }
    }
    go(&mut vec![], 0, max_len, metric, reprs, out);
}

fn rand_vec(rng: &mut Rng, dim: usize) -> Vec<i32> {
    (0..dim).map(|_| rng.range(-4, 4) as i32).collect()
}
fn rand_repr(rng: &mut Rng) -> char {
    // the all-integer literal is the common way to write a small test vector: weight it
    *rng.pick(&['f', 'i', 'i', 'x', 'e', 'p', 'v'])
}

fn random_case(rng: &mut Rng) -> Vec<Op> {
    let dim = 2 + rng.usize(3);
    let metric = *rng.pick(&['c', 'l', 'i']);
    let n = 8 + rng.usize(24);
    let index_at = if rng.chance(4, 5) { 0 } else { rng.usize(n / 2) };
    let mut ops = vec![];
    let mut next = 0usize;
    for i in 0..n {
        if i == index_at {
            ops.push(Op::MkIndex(dim, metric));
        }
        let h = if next == 0 { 0 } else { rng.usize(next) };
        // mostly the right dimension; sometimes one off
        let d = if rng.chance(1, 12) { dim + 1 } else { dim };
        let op = match rng.usize(20) {
            0..=5 => {
                next += 1;
                Op::Create(rng.chance(4, 5), if rng.chance(9, 10) { Some((rand_vec(rng, d), rand_repr(rng))) } else { None })
            }
            6..=9 => Op::SetVec(h, VV::Vec(rand_vec(rng, d), rand_repr(rng))),
            10 => Op::SetVec(h, if rng.chance(1, 2) { VV::Null } else { VV::Scalar }),
            11 => Op::RemoveVec(h),
            12 => Op::AddL(h),
            13 => Op::RemL(h),
            14 | 15 => Op::Delete(h),
            16 => {
                if rng.chance(1, 2) {
                    Op::MkIndex(dim, *rng.pick(&['c', 'l', 'i']))
                } else {
                    Op::Rebuild
                }
            }
            _ => Op::Query(1 + rng.usize(6), rand_vec(rng, dim)),
        };
        let is_index = matches!(op, Op::MkIndex(..) | Op::Rebuild);
        if !is_index || rng.chance(1, 4) {
            ops.push(op);
        }
    }
    if !ops.iter().any(|o| matches!(o, Op::MkIndex(..))) {
        ops.push(Op::MkIndex(dim, metric));
    }
    ops.push(Op::Query(1 + rng.usize(6), rand_vec(rng, dim)));
    ops
}

/// the ranking itself, for every metric the code has: a handful of candidates with
/// components of either sign (dot products on both sides of 1, cosine similarities on both
/// sides of 0), zero vectors, larger magnitudes, and k below / at / above the candidate count
fn ranking_case(rng: &mut Rng) -> Vec<Op> {
    let dim = 2 + rng.usize(3);
    let metric = *rng.pick(&['c', 'l', 'i', 'i']);
    let scale = *rng.pick(&[1, 1, 1, 3, 25]);
    let n = 2 + rng.usize(11);
    let mut v = |rng: &mut Rng| -> Vec<i32> {
        if rng.chance(1, 8) {
            vec![0; dim]
        } else {
            rand_vec(rng, dim).iter().map(|x| x * scale).collect()
        }
    };
    let mut ops = vec![];
    let at_start = rng.chance(1, 2);
    if at_start {
        ops.push(Op::MkIndex(dim, metric));
    }
    for _ in 0..n {
        let x = v(rng);
        let r = rand_repr(rng);
        ops.push(Op::Create(true, Some((x, r))));
    }
    if !at_start {
        ops.push(Op::MkIndex(dim, metric));
    }
    for _ in 0..rng.usize(4) {
        let h = rng.usize(n);
        let x = v(rng);
        let r = rand_repr(rng);
        ops.push(if rng.chance(2, 3) { Op::SetVec(h, VV::Vec(x, r)) } else { Op::Delete(h) });
    }
    for k in [1, n.saturating_sub(1).max(1), n, n + 3] {
        let q = if rng.chance(1, 10) { vec![0; dim] } else { rand_vec(rng, dim) };
        ops.push(Op::Query(k, q));
    }
    ops
}

/// every representation of the embedding crossed with every bookkeeping event: a few nodes
/// written in one representation each, then one event on one of them — an update in another
/// representation, a non-vector / null, REMOVE n.v, REMOVE n:L (+ SET n:L back), DELETE followed
/// by a CREATE of another label that recycles the id, a wrong-dimension update, a rebuild — with a
/// query before and after; the index is declared before or after the data
fn repr_event_case(rng: &mut Rng) -> Vec<Op> {
    let dim = 2 + rng.usize(2);
    let metric = *rng.pick(&['c', 'l', 'c', 'l', 'i']);
    let n = 2 + rng.usize(3);
    let mut ops = vec![];
    let before = rng.chance(1, 2);
    if before {
        ops.push(Op::MkIndex(dim, metric));
    }
    let r0 = *rng.pick(&REPRS);
    for i in 0..n {
        let r = if i == 0 { r0 } else { *rng.pick(&REPRS) };
        ops.push(Op::Create(true, Some((rand_vec(rng, dim), r))));
    }
    if !before {
        ops.push(Op::MkIndex(dim, metric));
    }
    let q = rand_vec(rng, dim);
    ops.push(Op::Query(n + 1, q.clone()));
    // the event hits node 0 (written as r0), so each (representation, event) pair is drawn directly
    match rng.usize(9) {
        0 => ops.push(Op::SetVec(0, VV::Vec(rand_vec(rng, dim), *rng.pick(&REPRS)))),
        1 => ops.push(Op::SetVec(0, if rng.chance(1, 2) { VV::Null } else { VV::Scalar })),
        2 => ops.push(Op::RemoveVec(0)),
        3 => {
            ops.push(Op::RemL(0));
            ops.push(Op::Query(n + 1, q.clone()));
            ops.push(Op::AddL(0));
        }
        4 => ops.push(Op::Delete(0)),
        5 => {
            ops.push(Op::Delete(0));
            ops.push(Op::Query(n + 1, q.clone()));
            ops.push(Op::Create(false, None)); // recycles the id under another label
        }
        6 => ops.push(Op::SetVec(0, VV::Vec(rand_vec(rng, dim + 1), *rng.pick(&REPRS)))),
        7 => {
            ops.push(Op::RemL(0));
            ops.push(Op::Rebuild);
        }
        _ => {
            ops.push(Op::Delete(0));
            ops.push(Op::Create(false, Some((rand_vec(rng, dim), *rng.pick(&REPRS)))));
            ops.push(Op::AddL(n));
        }
    }
    ops.push(Op::Query(n + 1, q.clone()));
    ops.push(Op::Query(1, rand_vec(rng, dim)));
    ops
}

/// a large index (> 128 live entries: the HNSW path) with exact distance ties among the
/// nearest nodes, several of which were UPDATED (the append-only HNSW graph then holds two or
/// three points for them): filler far from the query, a few nodes carrying "tie" vectors, and
/// nodes created nearer to the query and then re-embedded — some to a vector another node
/// already carries, some to a different vector with the same declared distance (equal cosine,
/// equal dot product, equal L2).  Searched with several k.  Oracle = what C29 states for the
/// approximate path (live, current score, each node at most once, ranked); recall is not asserted.
fn tie_case(rng: &mut Rng, metric: char) -> Vec<Op> {
    // everything is written for the query direction e0 and then rotated onto a random axis
    let axis = rng.usize(3);
    let rot = |v: [i32; 3]| -> Vec<i32> { (0..3).map(|i| v[(i + 3 - axis) % 3]).collect() };
    let q = rot([1, 0, 0]);
    // vectors with one and the same declared distance to the query ...
    let ties: Vec<[i32; 3]> = match metric {
        // identical embeddings (bit-identical cosine) plus one more direction with the same angle
        'c' => vec![[4, 3, 0], [4, 3, 0], [4, 3, 0], [4, 0, 3], [4, 0, -3]],
        // equal dot product with the query, different directions
        'i' => vec![[3, 2, 0], [3, 0, -2], [3, 4, 1], [3, -1, -1], [3, 0, 0], [3, 2, 0]],
        // equal L2 distance (squared distance 5)
        _ => vec![[2, 2, 0], [0, 2, 0], [2, 0, -2], [1, 1, 2], [1, -2, 1], [2, 2, 0]],
    };
    // ... and vectors strictly nearer than the ties (where the updated nodes start)
    let near: Vec<[i32; 3]> = match metric {
        'c' => vec![[4, 1, 0], [4, 0, 1], [4, 0, 0], [4, -1, 0], [4, 1, 1]],
        'i' => vec![[4, 0, 0], [4, 1, 0], [4, 0, 2], [4, -1, 1], [4, 2, 2]],
        _ => vec![[1, 1, 0], [1, 0, 1], [2, 0, 0], [1, 0, -1], [1, -1, 0]],
    };
    let mut ops = vec![];
    let at_start = rng.chance(1, 2);
    if at_start {
        ops.push(Op::MkIndex(3, metric));
    }
    let mut next = 0usize;
    // filler, far from the query under every metric (negative component along the query)
    let spread = if rng.chance(1, 4) { 170 } else { 40 };
    let n_fill = 130 + rng.usize(spread);
    for _ in 0..n_fill {
        let f = [-(2 + rng.usize(3) as i32), rng.range(-4, 4) as i32, rng.range(-4, 4) as i32];
        ops.push(Op::Create(true, Some((rot(f), *rng.pick(&['f', 'i', 'x'])))));
        next += 1;
    }
    // nodes that carry a tie vector from the start
    let n_b = 2 + rng.usize(3);
    for _ in 0..n_b {
        ops.push(Op::Create(true, Some((rot(*rng.pick(&ties)), rand_repr(rng)))));
        next += 1;
    }
    // nodes created nearer, to be re-embedded
    let n_a = 2 + rng.usize(4);
    let a0 = next;
    for _ in 0..n_a {
        ops.push(Op::Create(true, Some((rot(*rng.pick(&near)), rand_repr(rng)))));
        next += 1;
    }
    if !at_start {
        ops.push(Op::MkIndex(3, metric));
    }
    ops.push(Op::Query(n_a + n_b, q.clone()));
    for h in a0..a0 + n_a {
        ops.push(Op::SetVec(h, VV::Vec(rot(*rng.pick(&ties)), rand_repr(rng))));
        if rng.chance(1, 4) {
            // a third point for the same node
            ops.push(Op::SetVec(h, VV::Vec(rot(*rng.pick(&ties)), rand_repr(rng))));
        }
    }
    for k in [n_a + n_b, 10, 3, 20, n_a] {
        ops.push(Op::Query(k, q.clone()));
    }
    if rng.chance(1, 2) {
        // one of the tie carriers goes away; an updated node moves back near
        ops.push(Op::Delete(n_fill));
        ops.push(Op::SetVec(a0, VV::Vec(rot(*rng.pick(&near)), rand_repr(rng))));
        ops.push(Op::Query(10, q.clone()));
        ops.push(Op::Query(n_a + n_b + 2, q));
    }
    ops
}

/// more than 128 indexed nodes: the HNSW regime, with updates and deletes, and back below
fn big_case(rng: &mut Rng) -> Vec<Op> {
    let dim = 3 + rng.usize(2);
    let metric = *rng.pick(&['l', 'l', 'i', 'i', 'c']);
    let mut ops = vec![];
    let at_start = rng.chance(1, 2);
    if at_start {
        ops.push(Op::MkIndex(dim, metric));
    }
    let n = 132 + rng.usize(30);
    for _ in 0..n {
        let r = *rng.pick(&['f', 'i', 'x']);
        ops.push(Op::Create(true, Some((rand_vec(rng, dim), r))));
    }
    if !at_start {
        ops.push(Op::MkIndex(dim, metric));
    }
    ops.push(Op::Query(1 + rng.usize(8), rand_vec(rng, dim)));
    for _ in 0..(10 + rng.usize(20)) {
        let h = rng.usize(n);
        ops.push(match rng.usize(6) {
            0 | 1 => Op::SetVec(h, VV::Vec(rand_vec(rng, dim), rand_repr(rng))),
            2 => Op::Delete(h),
            3 => Op::RemoveVec(h),
            4 => Op::RemL(h),
            _ => Op::Query(1 + rng.usize(8), rand_vec(rng, dim)),
        });
    }
    ops.push(Op::Query(1 + rng.usize(8), rand_vec(rng, dim)));
    if rng.chance(1, 2) {
        // shrink below the exact-search bound again
        for h in 0..(n - 120) {
            ops.push(Op::Delete(h));
        }
        ops.push(Op::Query(1 + rng.usize(8), rand_vec(rng, dim)));
    }
    ops
}

fn main() {
    let args = Args::parse();
    let known = Known::load(&args.known, "C29");
    let mut rep = Report::new(
        "C29",
        "histories of CREATE VECTOR INDEX (cosine, l2) or GraphStore::create_vector_index (inner product) / CREATE / SET n.v / REMOVE n.v / SET n:L / REMOVE n:L / DELETE with \
         CALL db.index.vector.queryNodes interleaved (integer-component vectors of either sign incl. zero vectors, every DistanceMetric variant, sizes on \
         both sides of the 128-entry exact-search bound); non-trivial = a node that was in the index was updated, \
         lost its vector or label, or was deleted before a search; distinct = distinct rendered case",
        &args.replays,
        args.seed,
    );
    let exe = args.driver_exe("drv_vecidx");

    let mut cases: Vec<Vec<Op>> = vec![];
    let mut files: Vec<std::path::PathBuf> = vec![];
    if let Some(r) = &args.replay {
        files.push(r.clone());
    } else if let Ok(rd) = std::fs::read_dir(args.corpus.join("C29")) {
        files = rd.filter_map(|e| e.ok().map(|e| e.path())).collect();
        files.sort();
    }
    let mut n_corpus = 0;
    for f in &files {
        for line in std::fs::read_to_string(f).unwrap_or_default().lines() {
            let t: Vec<&str> = line.split_whitespace().collect();
            if t.len() == 2 && t[0] == "case" {
                if let Some(c) = parse_ops(t[1]) {
                    cases.push(c);
                    n_corpus += 1;
                }
            }
        }
    }
    rep.count_n("corpus_cases", n_corpus);

    if args.replay.is_none() {
        let l = if args.thorough() { 4 } else { 3 };
        // (representation of creates and of the second update, representation of the first update)
        exhaustive(l, 'c', ('f', 'i'), &mut cases);
        exhaustive(l, 'l', ('i', 'x'), &mut cases);
        exhaustive(l, 'i', ('i', 'f'), &mut cases);
        exhaustive(l, 'c', ('i', 'v'), &mut cases);
        rep.exhaustive = true;
        rep.exhaustive_note = format!(
            "all histories of length <= {} (handles addressed only once handed out) over 19 letters (index declaration, 4 creates, \
             per handle: 2 vector updates, null, REMOVE n.v, SET/REMOVE n:L, DELETE; 2 handles), for a cosine, an l2 and an inner-product index and four pairings of embedding representations, \
             with a query after every statement; plus PRNG histories (embeddings written as float / integer / mixed list literals, list expressions, parameters, or \
             PropertyValue::Vector through the store API), representation x bookkeeping-event batteries, large-index-with-ties batteries (> 128 entries, updated nodes tied \
             with other nodes on the exact distance, every metric), ranking batteries (every metric, k below/at/above the candidate count) \
             and >128-entry cases (not exhaustive)",
            l
        );
        let mut rng = Rng::new(args.seed).fork();
        let n_rand = if args.thorough() { 25_000 } else { 600 };
        for _ in 0..n_rand {
            cases.push(random_case(&mut rng));
        }
        let n_rank = if args.thorough() { 20_000 } else { 600 };
        for _ in 0..n_rank {
            cases.push(ranking_case(&mut rng));
        }
        let n_repr = if args.thorough() { 25_000 } else { 1_000 };
        for _ in 0..n_repr {
            cases.push(repr_event_case(&mut rng));
        }
        // large index with exact ties among updated nodes, each metric in turn
        let n_tie = if args.thorough() { 120 } else { 12 };
        for i in 0..n_tie {
            cases.push(tie_case(&mut rng, ['c', 'i', 'l'][i % 3]));
        }
        let n_big = if args.thorough() { 150 } else { 5 };
        for _ in 0..n_big {
            cases.push(big_case(&mut rng));
        }
    }

    let mut first_break: Option<String> = None;
    let threads = 12usize;
    for chunk in cases.chunks(60_000) {
        let mut real: Vec<(Vec<QObs>, Option<String>)> = Vec::with_capacity(chunk.len());
        let per = chunk.len().div_ceil(threads).max(1);
        std::thread::scope(|sc| {
            let hs: Vec<_> = chunk
                .chunks(per)
                .map(|part| sc.spawn(move || part.iter().map(|c| run_real(c)).collect::<Vec<_>>()))
                .collect();
            for h in hs {
                real.extend(h.join().expect("worker"));
            }
        });
        // driver requests (only for cases the driver can express: every row names a live handle)
        let mut lines = vec![];
        let mut line_of: Vec<Option<usize>> = vec![];
        for (k, c) in chunk.iter().enumerate() {
            let (obs, err) = &real[k];
            let expressible = err.is_none()
                && obs.iter().all(|o| o.err.is_none() && o.rows.iter().all(|(h, _)| h.is_some()));
            if expressible {
                let raws: Vec<String> = obs
                    .iter()
                    .map(|o| if o.rows.is_empty() { "_".to_string() } else { ids_txt(&o.rows) })
                    .collect();
                let ops_txt = render(c, Some(&raws));
                let obs_txt =
                    obs.iter().map(|o| format!("{}|{}", ids_txt(&o.rows), nodes_txt(&o.nodes))).collect::<Vec<_>>().join(";");
                line_of.push(Some(lines.len()));
                lines.push(format!("run {}", ops_txt));
                lines.push(format!("spec {} {}", ops_txt, obs_txt));
            } else {
                line_of.push(None);
            }
        }
        let replies = driver::par_batch(&exe, &lines, 12);
        for (k, c) in chunk.iter().enumerate() {
            let (obs, err) = &real[k];
            let cn = canon(c);
            let nt = nontrivial(c);
            rep.case(&cn, nt);
            for op in c {
                rep.count(match op {
                    Op::MkIndex(_, 'c') => "op:index-cosine",
                    Op::MkIndex(_, 'i') => "op:index-inner-product",
                    Op::MkIndex(..) => "op:index-l2",
                    Op::Create(..) => "op:create",
                    Op::Rebuild => "op:rebuild",
                    Op::SetVec(_, VV::Vec(..)) => "op:set-vector",
                    Op::SetVec(..) => "op:set-null-or-scalar",
                    Op::RemoveVec(_) => "op:remove-property",
                    Op::AddL(_) => "op:add-label",
                    Op::RemL(_) => "op:remove-label",
                    Op::Delete(_) => "op:delete",
                    Op::Query(..) => "op:query",
                });
            }
            for o in obs {
                rep.count(if o.size > 128 { "query:hnsw-regime" } else { "query:exact-regime" });
            }
            let impl_txt = obs
                .iter()
                .map(|o| {
                    format!(
                        "{}|{}|{}",
                        ids_txt(&o.rows),
                        nodes_txt(&o.nodes),
                        o.size
                    )
                })
                .collect::<Vec<_>>()
                .join(";");
            let mut body = format!("case {}\nimpl  {}", cn, impl_txt);
            if nt && rep.samples.len() < 3 {
                rep.sample(json!({"case": cn, "impl_obs": impl_txt}));
            }
            if let Some(e) = err {
                rep.count("unexpected_error");
                rep.spec_violation(&known, "unexpected-error", &format!("{} in `{}`", e, cn), &body);
                continue;
            }
            if let Some(o) = obs.iter().find(|o| o.err.is_some()) {
                rep.count("unexpected_error");
                rep.spec_violation(
                    &known,
                    "vector-query-error",
                    &format!("query failed: {} in `{}`", o.err.clone().unwrap_or_default(), cn),
                    &body,
                );
                continue;
            }
            // a row whose node does not exist: the entry of a deleted node
            if obs.iter().any(|o| o.rows.iter().any(|(h, _)| h.is_none()) || o.api_rows.iter().any(|h| h.is_none())) {
                rep.count("spec_violation:vector-delete-stale");
                rep.spec_violation(
                    &known,
                    "vector-delete-stale",
                    &format!("a search row names a node that no longer exists, in `{}`", cn),
                    &body,
                );
                continue;
            }
            let li = line_of[k].expect("expressible");
            let m = &replies[li];
            let s = &replies[li + 1];
            body.push_str(&format!("\nmodel {}\nspec  {}", m, s));
            // metric in force at each query (for the score check and the classification)
            let mut metric_at = vec![];
            let mut cur: Option<(usize, char)> = None;
            for op in c {
                match op {
                    Op::MkIndex(d, mm) => cur = Some((*d, *mm)),
                    Op::Query(_, q) => metric_at.push((cur, q.clone())),
                    _ => {}
                }
            }
            if !s.starts_with("ok") {
                let f: Vec<&str> = s.split_whitespace().collect();
                let j = f.get(1).and_then(|x| x.parse::<usize>().ok());
                let part = f.get(2).copied().unwrap_or("");
                let sig = match (f.first(), j) {
                    (Some(&"viol"), Some(j)) if j < obs.len() => {
                        let ids: Vec<usize> = obs[j].rows.iter().filter_map(|(h, _)| *h).collect();
                        let set: HashSet<usize> = ids.iter().cloned().collect();
                        match part {
                            "live" if set.len() < ids.len() => "vector-update-duplicate".to_string(),
                            "live" | "no-index" => "vector-delete-stale".to_string(),
                            "rank" if matches!(metric_at[j].0, Some((_, 'l'))) => "vector-l2-as-cosine".to_string(),
                            "rank" if matches!(metric_at[j].0, Some((_, 'i'))) => "vector-rank-inner-product".to_string(),
                            "rank" => "vector-rank-cosine".to_string(),
                            other => format!("vector-{}", other),
                        }
                    }
                    _ => "driver-rejected".to_string(),
                };
                rep.count(&format!("spec_violation:{}", sig));
                rep.spec_violation(&known, &sig, &format!("specification violated ({}) on `{}`", s, cn), &body);
                continue;
            }
            {
                let f: Vec<&str> = s.split_whitespace().collect();
                rep.count_n("spec:ranked-queries", f.get(1).and_then(|x| x.parse().ok()).unwrap_or(0));
                rep.count_n("spec:near-tie-queries-liveness-only", f.get(2).and_then(|x| x.parse().ok()).unwrap_or(0));
            }
            // the Cypher procedure and the store API must tell the same story
            if obs.iter().any(|o| o.api_rows != o.rows.iter().map(|(h, _)| *h).collect::<Vec<_>>()) {
                rep.count("spec_violation:query-api-disagree");
                rep.spec_violation(&known, "query-api-disagree", &format!("queryNodes and vector_search differ on `{}`", cn), &body);
                continue;
            }
            // reported score = declared distance to the current vector
            let mut bad_score = None;
            for (j, o) in obs.iter().enumerate() {
                if let (Some((_, mm)), q) = &metric_at[j] {
                    for (h, sc) in &o.rows {
                        if let Some(v) = o.nodes.iter().find(|n| Some(n.h) == *h).and_then(|n| n.vec.as_ref()) {
                            let want = expected_score(*mm, q, v);
                            if (want - sc).abs() > 1e-4 * want.abs().max(1.0) {
                                bad_score = Some((j, h.unwrap_or(0), *sc));
                            }
                        }
                    }
                }
            }
            if let Some((j, h, sc)) = bad_score {
                let sig = if matches!(metric_at[j].0, Some((_, 'l'))) { "vector-l2-as-cosine" } else { "score-mismatch" };
                rep.count(&format!("spec_violation:{}", sig));
                rep.spec_violation(
                    &known,
                    sig,
                    &format!("query {} reports score {} for node {}: not the declared distance to its current vector, in `{}`", j, sc, h, cn),
                    &body,
                );
                continue;
            }
            // M = R: nodes and index size at every query; the ids where the answer is unique
            let mans: Vec<&str> = m.strip_prefix("ok ").unwrap_or("").split(';').collect();
            let mut mismatch = mans.len() != obs.len() && !(obs.is_empty() && m.trim() == "ok");
            if !mismatch {
                for (j, o) in obs.iter().enumerate() {
                    let f: Vec<&str> = mans[j].split('|').collect();
                    if f.len() != 4 {
                        mismatch = true;
                        break;
                    }
                    if f[2] != nodes_txt(&o.nodes) || f[3] != o.size.to_string() {
                        mismatch = true;
                    }
                    if f[0] == "2" && f[1] != ids_txt(&o.rows) {
                        mismatch = true;
                    }
                    rep.count(&format!("query:class-{}", f[0]));
                }
            }
            if mismatch {
                rep.count("model_mismatch");
                if first_break.is_none() {
                    first_break = Some(body);
                }
            }
        }
    }
    if let Some(body) = first_break {
        if rep.spec_violations.is_empty() {
            rep.correspondence_break(
                "SgModel.VecIdx.step/search = vector index maintenance + db.index.vector.queryNodes (nodes, index size, unique answers)",
                "model and implementation observations differ but the specification holds on all explored cases",
                &body,
            );
        }
    }
    if let Some(c) = cases.last() {
        rep.sample(json!({"case_len": c.len(), "case_head": canon(&c[..c.len().min(12)])}));
    }
    rep.write(&args.out);
}
