//! Driving the real engine: build a `GraphStore` holding the logical graph, run a Cypher text
//! through `QueryEngine::execute` (parser → planner → operators), and render the result table
//! with entities named by creation handles.
#![allow(dead_code)]
use super::ast::*;
use samyama::graph::{GraphStore, Label, PropertyValue};
use samyama::query::{QueryEngine, Value};
use std::collections::HashMap;

pub struct Built {
    pub store: GraphStore,
    pub node_handle: HashMap<u64, usize>,
    pub rel_handle: HashMap<u64, usize>,
}

pub fn pv_of(v: &V) -> PropertyValue {
    match v {
        V::Null => PropertyValue::Null,
        V::Bool(b) => PropertyValue::Boolean(*b),
        V::Int(i) => PropertyValue::Integer(*i),
        V::Flt(f) => PropertyValue::Float(*f),
        V::Str(s) => PropertyValue::String(s.clone()),
        V::List(l) => PropertyValue::Array(l.iter().map(pv_of).collect()),
        V::Node(_) | V::Rel(_) | V::Other(_) => PropertyValue::Null,
    }
}

/// build through the store API (one version per entity, no version bumps)
pub fn build_api(g: &G) -> Built {
    let mut store = GraphStore::new();
    let mut node_handle = HashMap::new();
    let mut rel_handle = HashMap::new();
    let mut ids = vec![];
    for (h, n) in g.nodes.iter().enumerate() {
        let labels: Vec<Label> = n.labels.iter().map(|l| Label::new(l.clone())).collect();
        let props: HashMap<String, PropertyValue> = n.props.iter().map(|(k, v)| (k.clone(), pv_of(v))).collect();
        let id = store.create_node_with_properties("default", labels, props);
        node_handle.insert(id.as_u64(), h);
        ids.push(id);
    }
    for (h, r) in g.rels.iter().enumerate() {
        let props: HashMap<String, PropertyValue> = r.props.iter().map(|(k, v)| (k.clone(), pv_of(v))).collect();
        let id = store
            .create_edge_with_properties(ids[r.src], ids[r.tgt], r.ty.as_str(), props)
            .expect("create edge");
        rel_handle.insert(id.as_u64(), h);
    }
    Built { store, node_handle, rel_handle }
}

/// build through Cypher `CREATE` statements (the engine's own write path)
pub fn build_cypher(g: &G) -> Option<Built> {
    let mut store = GraphStore::new();
    let eng = QueryEngine::new();
    let mut node_handle = HashMap::new();
    let mut rel_handle = HashMap::new();
    let mut ids: Vec<u64> = vec![];
    let props_txt = |ps: &[(String, V)]| -> String {
        let ps: Vec<String> = ps.iter().filter(|(_, v)| *v != V::Null).map(|(k, v)| format!("{}: {}", k, v.cypher())).collect();
        if ps.is_empty() { String::new() } else { format!(" {{{}}}", ps.join(", ")) }
    };
    for (h, n) in g.nodes.iter().enumerate() {
        let q = format!(
            "CREATE (n{}{}) RETURN n",
            n.labels.iter().map(|l| format!(":{}", l)).collect::<String>(),
            props_txt(&n.props)
        );
        let b = eng.execute_mut(&q, &mut store, "default").ok()?;
        let id = b.records.first()?.get("n")?.node_id()?.as_u64();
        node_handle.insert(id, h);
        ids.push(id);
    }
    for (h, r) in g.rels.iter().enumerate() {
        let q = format!(
            "MATCH (a), (b) WHERE id(a) = {} AND id(b) = {} CREATE (a)-[r:{}{}]->(b) RETURN r",
            ids[r.src], ids[r.tgt], r.ty, props_txt(&r.props)
        );
        let b = eng.execute_mut(&q, &mut store, "default").ok()?;
        let id = b.records.first()?.get("r")?.edge_id()?.as_u64();
        rel_handle.insert(id, h);
    }
    Some(Built { store, node_handle, rel_handle })
}

pub fn v_of_pv(p: &PropertyValue) -> V {
    match p {
        PropertyValue::Null => V::Null,
        PropertyValue::Boolean(b) => V::Bool(*b),
        PropertyValue::Integer(i) => V::Int(*i),
        PropertyValue::Float(f) => V::Flt(*f),
        PropertyValue::String(s) => V::Str(s.clone()),
        PropertyValue::Array(l) => V::List(l.iter().map(v_of_pv).collect()),
        PropertyValue::Vector(l) => V::List(l.iter().map(|f| V::Flt(*f as f64)).collect()),
        other => V::Other(format!("{:?}", other)),
    }
}

impl Built {
    pub fn v_of_value(&self, v: &Value) -> V {
        match v {
            Value::Null => V::Null,
            Value::Property(p) => v_of_pv(p),
            Value::Node(id, _) | Value::NodeRef(id) => match self.node_handle.get(&id.as_u64()) {
                Some(h) => V::Node(*h),
                None => V::Other(format!("unknown node {}", id.as_u64())),
            },
            Value::Edge(id, _) | Value::EdgeRef(id, ..) => match self.rel_handle.get(&id.as_u64()) {
                Some(h) => V::Rel(*h),
                None => V::Other(format!("unknown rel {}", id.as_u64())),
            },
            Value::List(l) => V::List(l.iter().map(|x| self.v_of_value(x)).collect()),
            other => V::Other(format!("{:?}", other)),
        }
    }

    /// a canonical dump of what the store holds (to check that read queries change nothing)
    pub fn fingerprint(&self) -> String {
        let mut ns: Vec<String> = self
            .store
            .all_nodes()
            .iter()
            .map(|n| {
                let mut ls: Vec<&str> = n.labels.iter().map(|l| l.as_str()).collect();
                ls.sort();
                let mut ps: Vec<String> = n.properties.iter().map(|(k, v)| format!("{}={:?}", k, v)).collect();
                ps.sort();
                format!("n{}v{}[{}]{{{}}}", n.id.as_u64(), n.version, ls.join(":"), ps.join(","))
            })
            .collect();
        ns.sort();
        let mut es: Vec<String> = self
            .store
            .all_edges()
            .iter()
            .map(|e| {
                let mut ps: Vec<String> = e.properties.iter().map(|(k, v)| format!("{}={:?}", k, v)).collect();
                ps.sort();
                format!("e{}:{}->{}:{}{{{}}}", e.id.as_u64(), e.source.as_u64(), e.target.as_u64(), e.edge_type.as_str(), ps.join(","))
            })
            .collect();
        es.sort();
        format!("{}|{}|v{}", ns.join(";"), es.join(";"), self.store.current_version)
    }
}

#[derive(Clone, Debug)]
pub enum Outcome {
    Table { cols: Vec<String>, rows: Vec<Vec<V>> },
    Err(String),
    Panic(String),
}

impl Outcome {
    pub fn table_sexp(&self) -> Option<String> {
        match self {
            Outcome::Table { cols, rows } => Some(format!(
                "(t ({}){})",
                cols.join(" "),
                rows.iter().map(|r| format!(" (row{})", r.iter().map(|v| format!(" {}", v.sexp())).collect::<String>())).collect::<String>()
            )),
            _ => None,
        }
    }
    pub fn representable(&self) -> bool {
        match self {
            Outcome::Table { cols, rows } => {
                cols.iter().all(|c| !c.is_empty() && !c.contains(|ch: char| ch.is_whitespace() || ch == '(' || ch == ')'))
                    && rows.iter().all(|r| r.iter().all(|v| v.representable()))
            }
            _ => false,
        }
    }
    pub fn short(&self) -> String {
        match self {
            Outcome::Table { .. } => self.table_sexp().unwrap(),
            Outcome::Err(e) => format!("err {}", e),
            Outcome::Panic(e) => format!("panic {}", e),
        }
    }
}

pub fn run(eng: &QueryEngine, b: &Built, cypher: &str) -> Outcome {
    let r = std::panic::catch_unwind(std::panic::AssertUnwindSafe(|| eng.execute(cypher, &b.store)));
    match r {
        Err(p) => {
            let msg = p.downcast_ref::<String>().cloned().or_else(|| p.downcast_ref::<&str>().map(|s| s.to_string())).unwrap_or_default();
            Outcome::Panic(msg)
        }
        Ok(Err(e)) => Outcome::Err(e.to_string()),
        Ok(Ok(batch)) => {
            let cols = batch.columns.clone();
            let rows = batch
                .records
                .iter()
                .map(|r| cols.iter().map(|c| match r.get(c) { Some(v) => b.v_of_value(v), None => V::Other(format!("unbound column {}", c)) }).collect())
                .collect();
            Outcome::Table { cols, rows }
        }
    }
}

/// names of the physical operators in the plan (coverage evidence only)
pub fn plan_ops(b: &Built, cypher: &str) -> Vec<String> {
    let r = std::panic::catch_unwind(std::panic::AssertUnwindSafe(|| {
        let ast = samyama::query::parse_query(cypher).ok()?;
        let planner = samyama::query::executor::planner::QueryPlanner::new();
        let plan = planner.plan(&ast, &b.store).ok()?;
        let mut out = vec![];
        fn walk(d: &samyama::query::executor::operator::OperatorDescription, out: &mut Vec<String>) {
            out.push(d.name.clone());
            for c in &d.children {
                walk(c, out);
            }
        }
        walk(&plan.root.describe(), &mut out);
        Some(out)
    }));
    r.ok().flatten().unwrap_or_default()
}

pub fn classify_error(e: &str) -> &'static str {
    let l = e.to_lowercase();
    if l.contains("type error") {
        "type"
    } else if l.contains("division by zero") || l.contains("modulo by zero") || l.contains("overflow") {
        "arith"
    } else if l.contains("parse") || l.contains("syntax") || l.contains("expected") {
        "parse"
    } else if l.contains("not found") || l.contains("unbound") || l.contains("undefined") {
        "unbound"
    } else if l.contains("not supported") || l.contains("unsupported") {
        "unsupported"
    } else {
        "other"
    }
}
