//! Generators: small property graphs with deliberately mixed-type properties, and typed
//! read-only queries of the staged fragment (grammar v1 / v2 / v3).
#![allow(dead_code)]
use super::ast::*;
use vharness::Rng;

pub const BIG: i64 = 9007199254740993; // 2^53 + 1

fn scalar_values() -> Vec<V> {
    vec![
        V::Int(0),
        V::Int(1),
        V::Int(-1),
        V::Flt(1.0),
        V::Int(BIG),
        V::Str("a".into()),
        V::Str("".into()),
        V::Bool(true),
    ]
}

/// `{absent, null, 0, 1, -1, 1.0, 2^53+1, "a", "", true, [1], [1.0,"a"]}`; None = absent
fn prop_value(rng: &mut Rng) -> Option<V> {
    match rng.below(14) {
        0 | 1 => None,
        2 => Some(V::Null),
        3 => Some(V::Int(0)),
        4 | 5 => Some(V::Int(1)),
        6 => Some(V::Int(-1)),
        7 | 8 => Some(V::Flt(1.0)),
        9 => Some(V::Int(BIG)),
        10 => Some(V::Str("a".into())),
        11 => Some(V::Str("".into())),
        12 => Some(V::Bool(true)),
        _ => Some(if rng.chance(1, 2) { V::List(vec![V::Int(1)]) } else { V::List(vec![V::Flt(1.0), V::Str("a".into())]) }),
    }
}

/// `{absent, null, -1, 0, 1, 2, 3, 5, 0.25, 0.5, 1.5, 2.5, -0.75}`
fn num_value(rng: &mut Rng) -> Option<V> {
    match rng.below(16) {
        0 | 1 => None,
        2 => Some(V::Null),
        3 => Some(V::Int(-1)),
        4 => Some(V::Int(0)),
        5 | 6 => Some(V::Int(1)),
        7 => Some(V::Int(2)),
        8 => Some(V::Int(3)),
        9 => Some(V::Int(5)),
        10 => Some(V::Flt(0.25)),
        11 | 12 => Some(V::Flt(0.5)),
        13 => Some(V::Flt(1.5)),
        14 => Some(V::Flt(2.5)),
        _ => Some(V::Flt(-0.75)),
    }
}

pub fn gen_graph(rng: &mut Rng) -> G {
    let mut g = G::default();
    let n = match rng.below(10) {
        0 => 0,
        1 => 1,
        2 => 2,
        3 | 4 => 3,
        5 | 6 => 4,
        7 => 5,
        _ => 6,
    };
    for _ in 0..n {
        let mut node = GNode::default();
        for l in ["A", "B", "C"] {
            if rng.chance(1, 2) {
                node.labels.push(l.to_string());
            }
        }
        if let Some(v) = prop_value(rng) {
            node.props.push(("k".into(), v));
        }
        // j: mostly small integers (so arithmetic and aggregates have something to chew on)
        match rng.below(8) {
            0 | 1 => {}
            2 => node.props.push(("j".into(), V::Flt(1.0))),
            3 => node.props.push(("j".into(), V::Flt(0.5))),
            4 => node.props.push(("j".into(), V::Str("a".into()))),
            x => node.props.push(("j".into(), V::Int(x as i64 - 5))),
        }
        // g: a grouping key with few values (absent and null collide on null)
        match rng.below(8) {
            0 | 1 => {}
            2 => node.props.push(("g".into(), V::Null)),
            3 | 4 => node.props.push(("g".into(), V::Str("a".into()))),
            5 => node.props.push(("g".into(), V::Str("b".into()))),
            6 => node.props.push(("g".into(), V::Int(0))),
            _ => node.props.push(("g".into(), V::Bool(true))),
        }
        // v: what aggregates chew on — small integers and non-integral multiples of 0.25
        // (every sum is exact in f64 and independent of the order of addition), null, absent
        if let Some(v) = num_value(rng) {
            node.props.push(("v".into(), v));
        }
        if rng.chance(1, 4) {
            node.props.push(("l".into(), if rng.chance(1, 2) { V::List(vec![V::Int(1)]) } else { V::List(vec![V::Flt(1.0), V::Str("a".into())]) }));
        }
        g.nodes.push(node);
    }
    if n > 0 {
        let m = match rng.below(12) {
            0 => 0,
            1 => 1,
            2 => 2,
            3 => 3,
            4 | 5 => 4,
            6 | 7 => 5,
            8 => 6,
            9 => 7,
            _ => 8,
        };
        for _ in 0..m {
            let src = rng.usize(n);
            let tgt = if rng.chance(1, 6) { src } else { rng.usize(n) };
            let mut props = vec![];
            if rng.chance(1, 2) {
                if let Some(v) = prop_value(rng) {
                    props.push(("k".to_string(), v));
                }
            }
            if rng.chance(1, 3) {
                props.push(("w".to_string(), V::Int(rng.range(0, 2))));
            }
            if rng.chance(1, 2) {
                if let Some(v) = num_value(rng) {
                    props.push(("v".to_string(), v));
                }
            }
            g.rels.push(GRel { src, tgt, ty: if rng.chance(3, 5) { "R".into() } else { "S".into() }, props });
        }
    }
    g
}

#[derive(Clone, Copy, PartialEq, Debug)]
pub enum Kind { Node, Rel, Val }

pub struct QGen<'a> {
    pub rng: &'a mut Rng,
    /// 1 = single MATCH; >= 2 adds comma patterns, several MATCH, OPTIONAL MATCH, WITH, UNWIND,
    /// sum/avg/min/max/collect
    pub version: u32,
    /// variable-length relationship steps (grammar v3), independent of `version`
    pub varlen: bool,
    /// relationships in the graph the query will run on, and variable-length steps generated so
    /// far: the reference semantics enumerates every path of distinct relationships, so the
    /// generator keeps (paths per step) x (steps) small
    pub graph_rels: usize,
    varlen_steps: usize,
    pub scope: Vec<(String, Kind)>,
    fresh: usize,
    /// this query may use constructs on which the engine is known to deviate (OPTIONAL MATCH
    /// that is disconnected / has several patterns / filters on outer variables, comma
    /// patterns with two relationship-bearing paths, WITH aggregates without a grouping key,
    /// UNWIND between MATCH and WITH, sum/avg DISTINCT); the other ~92 % of the v2 queries stay
    /// inside the subset the engine is supposed to answer correctly
    pub risky: bool,
}

impl<'a> QGen<'a> {
    pub fn new(rng: &'a mut Rng, version: u32, varlen: bool) -> Self {
        let risky = version >= 2 && rng.chance(1, 12);
        QGen { rng, version, varlen, graph_rels: 8, varlen_steps: 0, scope: vec![], fresh: 0, risky }
    }

    fn fresh(&mut self, prefix: &str) -> String {
        self.fresh += 1;
        format!("{}{}", prefix, self.fresh)
    }

    fn vars_of(&self, k: Kind) -> Vec<String> {
        self.scope.iter().filter(|(_, kk)| *kk == k).map(|(n, _)| n.clone()).collect()
    }

    fn scalar_lit(&mut self) -> V {
        let vs = scalar_values();
        match self.rng.below(12) {
            0 => V::Null,
            1 => V::Int(2),
            2 => V::Flt(0.5),
            3 => V::Str("ab".into()),
            4 => V::Bool(false),
            _ => self.rng.pick(&vs).clone(),
        }
    }

    fn list_lit(&mut self) -> V {
        match self.rng.below(8) {
            0 => V::List(vec![]),
            1 => V::List(vec![V::Null]),
            2 => V::List(vec![V::Int(1)]),
            3 => V::List(vec![V::Flt(1.0), V::Str("a".into())]),
            _ => {
                let n = 1 + self.rng.usize(3);
                V::List((0..n).map(|_| self.scalar_lit()).collect())
            }
        }
    }

    fn prop_access(&mut self) -> Option<E> {
        let ents: Vec<(String, Kind)> = self.scope.iter().filter(|(_, k)| *k != Kind::Val).cloned().collect();
        if ents.is_empty() {
            return None;
        }
        let (v, k) = self.rng.pick(&ents).clone();
        let key = match (k, self.rng.below(20)) {
            (_, 0) => "zz",
            (_, 16 | 17) => "v",
            (Kind::Node, 18 | 19) => "g",
            (_, 10..) => "k",
            (Kind::Rel, 1..=4) => "w",
            (Kind::Rel, _) => "k",
            (_, 1..=5) => "k",
            (_, 6..=8) => "j",
            _ => "l",
        };
        Some(E::prop(&v, key))
    }

    pub fn gen_val(&mut self, depth: u32) -> E {
        let r = self.rng.below(100);
        if r < 55 {
            if let Some(p) = self.prop_access() {
                return p;
            }
        }
        if r < 62 {
            let vals = self.vars_of(Kind::Val);
            if !vals.is_empty() {
                return E::Var(self.rng.pick(&vals).clone());
            }
        }
        if r < 80 || depth == 0 {
            return E::Lit(self.scalar_lit());
        }
        if r < 92 {
            let op = *self.rng.pick(&[ArOp::Add, ArOp::Add, ArOp::Sub, ArOp::Mul, ArOp::Div, ArOp::Mod]);
            let a = self.gen_val(depth - 1);
            let b = if self.rng.chance(1, 12) { E::Lit(V::Int(i64::MAX)) } else { self.gen_val(depth - 1) };
            return E::Ar(op, Box::new(a), Box::new(b));
        }
        if r < 96 {
            let a = self.gen_val(depth - 1);
            return match self.rng.below(3) {
                0 => E::Fn(F1::Size, Box::new(a)),
                1 => E::Fn(F1::Abs, Box::new(a)),
                _ => {
                    let b = E::Lit(self.scalar_lit());
                    E::Coalesce(Box::new(a), Box::new(b))
                }
            };
        }
        E::Neg(Box::new(self.gen_val(depth - 1)))
    }

    pub fn gen_pred(&mut self, depth: u32) -> E {
        let r = self.rng.below(100);
        if r < 45 || depth == 0 {
            let op = *self.rng.pick(&[CmpOp::Eq, CmpOp::Eq, CmpOp::Eq, CmpOp::Ne, CmpOp::Lt, CmpOp::Le, CmpOp::Gt, CmpOp::Ge]);
            let a = self.gen_val(1);
            let b = if self.rng.chance(2, 3) { E::Lit(self.scalar_lit()) } else { self.gen_val(1) };
            return E::Cmp(op, Box::new(a), Box::new(b));
        }
        if r < 55 {
            let a = self.prop_access().unwrap_or(E::Lit(V::Null));
            return if self.rng.chance(1, 2) { E::IsNull(Box::new(a)) } else { E::NotNull(Box::new(a)) };
        }
        if r < 65 {
            let a = self.gen_val(0);
            let b = if self.rng.chance(1, 6) { self.prop_access().unwrap_or(E::Lit(V::List(vec![]))) } else { E::Lit(self.list_lit()) };
            return E::In(Box::new(a), Box::new(b));
        }
        if r < 73 {
            let a = self.gen_val(0);
            let s = self.rng.pick(&["a", "", "ab", "b"]).to_string();
            let op = *self.rng.pick(&[StrOp::Starts, StrOp::Ends, StrOp::Contains]);
            return E::Str(op, Box::new(a), Box::new(E::Lit(V::Str(s))));
        }
        if r < 90 {
            let a = self.gen_pred(depth - 1);
            let b = self.gen_pred(depth - 1);
            return match self.rng.below(5) {
                0 | 1 => E::And(Box::new(a), Box::new(b)),
                2 | 3 => E::Or(Box::new(a), Box::new(b)),
                _ => E::Xor(Box::new(a), Box::new(b)),
            };
        }
        if r < 97 {
            return E::Not(Box::new(self.gen_pred(depth - 1)));
        }
        let ns = self.vars_of(Kind::Node);
        if ns.len() >= 2 {
            let a = self.rng.pick(&ns).clone();
            let b = self.rng.pick(&ns).clone();
            return E::Cmp(if self.rng.chance(1, 2) { CmpOp::Eq } else { CmpOp::Ne }, Box::new(E::Var(a)), Box::new(E::Var(b)));
        }
        E::Lit(V::Bool(self.rng.chance(1, 2)))
    }

    fn gen_np(&mut self, named: bool) -> NP {
        let mut np = NP::default();
        if named {
            // sometimes re-use a node variable (cycles, joins with earlier clauses)
            let ns = self.vars_of(Kind::Node);
            if !ns.is_empty() && self.rng.chance(1, 8) {
                np.var = Some(self.rng.pick(&ns).clone());
            } else {
                let v = self.fresh("n");
                self.scope.push((v.clone(), Kind::Node));
                np.var = Some(v);
            }
        }
        match self.rng.below(20) {
            0..=12 => {}
            13..=17 => np.labels.push(self.rng.pick(&["A", "B", "C"]).to_string()),
            _ => {
                let pairs = [["A", "B"], ["B", "A"], ["A", "C"], ["B", "C"]];
                let p = self.rng.pick(&pairs);
                np.labels = vec![p[0].to_string(), p[1].to_string()];
            }
        }
        if self.rng.chance(1, 12) {
            let key = if self.rng.chance(2, 3) { "k" } else { "j" };
            np.props.push((key.into(), self.scalar_lit()));
        }
        np
    }

    fn gen_rp(&mut self) -> RP {
        let mut rp = RP { var: None, types: vec![], dir: Dir::Out, props: vec![], range: None };
        let varlen = self.varlen && self.varlen_steps < 2 && self.rng.chance(1, 2);
        if varlen {
            let lo = self.rng.below(3) as u32;
            // unbounded only as the single variable-length step over a graph with few relationships
            let unbounded_ok = self.varlen_steps == 0 && self.graph_rels <= 5;
            let hi = match self.rng.below(4) {
                0 if unbounded_ok => None,
                0 => Some(lo + 1),
                x => Some((lo + x as u32 - 1).min(3)),
            };
            // an unbounded step closes the budget for this query
            self.varlen_steps += if hi.is_none() { 2 } else { 1 };
            rp.range = Some((lo, hi.map(|h| h.max(lo))));
        } else if self.rng.chance(1, 2) {
            let v = self.fresh("r");
            self.scope.push((v.clone(), Kind::Rel));
            rp.var = Some(v);
        }
        match self.rng.below(20) {
            0..=11 => {}
            12..=17 => rp.types.push(self.rng.pick(&["R", "S"]).to_string()),
            _ => rp.types = vec!["R".into(), "S".into()],
        }
        rp.dir = *self.rng.pick(&[Dir::Out, Dir::Out, Dir::In, Dir::Both]);
        if !varlen && self.rng.chance(1, 16) {
            let key = if self.rng.chance(1, 2) { "w" } else { "k" };
            rp.props.push((key.into(), self.scalar_lit()));
        }
        rp
    }

    pub fn gen_path(&mut self) -> Path {
        let hops = match self.rng.below(20) {
            0..=7 => 0,
            8..=15 => 1,
            16..=18 => 2,
            _ => 3,
        };
        let start = {
            let named = self.rng.chance(9, 10);
            self.gen_np(named)
        };
        let mut steps = vec![];
        for _ in 0..hops {
            let rp = self.gen_rp();
            let named = self.rng.chance(4, 5);
            let before = self.scope.len();
            let mut np = self.gen_np(named);
            // a variable-length step that closes on an already bound variable re-binds it in
            // the engine (known deviation `varlen-bound-target`): keep the target fresh, except rarely
            let reused = np.var.is_some() && self.scope.len() == before;
            if rp.range.is_some() && reused && !self.rng.chance(1, 30) {
                let nv = self.fresh("n");
                self.scope.push((nv.clone(), Kind::Node));
                np.var = Some(nv);
            }
            steps.push((rp, np));
        }
        Path { start, steps }
    }

    fn gen_match(&mut self, optional: bool) -> Clause {
        if optional && !self.risky {
            return self.gen_optional_safe();
        }
        let npats = if self.version >= 2 && self.rng.chance(1, 5) { 2 } else { 1 };
        let mut pats: Vec<Path> = vec![];
        for i in 0..npats {
            let mut p = self.gen_path();
            // two relationship-bearing comma patterns: cross-pattern isomorphism is a known deviation
            if i > 0 && !self.risky && pats.iter().any(|q| !q.steps.is_empty()) {
                p.steps.clear();
            }
            pats.push(p);
        }
        let w = if self.rng.chance(3, 5) { Some(self.gen_pred(2)) } else { None };
        Clause::Match(optional, pats, w)
    }

    /// OPTIONAL MATCH inside the subset the engine implements as a left outer join: one
    /// pattern with >= 1 hop that starts at an already bound node; a WHERE, if any, tests a
    /// variable the pattern introduces
    fn gen_optional_safe(&mut self) -> Clause {
        let ns = self.vars_of(Kind::Node);
        if ns.is_empty() {
            return self.gen_match(false);
        }
        let start_var = self.rng.pick(&ns).clone();
        let start = NP { var: Some(start_var), labels: vec![], props: vec![] };
        let hops = 1 + self.rng.usize(2);
        let mut steps = vec![];
        let mut new_vars: Vec<String> = vec![];
        for _ in 0..hops {
            let before = self.scope.len();
            let rp = self.gen_rp();
            let v = self.fresh("n");
            self.scope.push((v.clone(), Kind::Node));
            let mut np = NP { var: Some(v), labels: vec![], props: vec![] };
            if self.rng.chance(1, 4) {
                np.labels.push(self.rng.pick(&["A", "B", "C"]).to_string());
            }
            for (n, _) in &self.scope[before..] {
                new_vars.push(n.clone());
            }
            steps.push((rp, np));
        }
        let w = if self.rng.chance(1, 3) {
            let v = self.rng.pick(&new_vars).clone();
            let key = if self.rng.chance(2, 3) { "k" } else { "j" };
            let op = *self.rng.pick(&[CmpOp::Eq, CmpOp::Ne, CmpOp::Lt, CmpOp::Ge]);
            let lit = self.scalar_lit();
            Some(E::Cmp(op, Box::new(E::prop(&v, key)), Box::new(E::Lit(lit))))
        } else {
            None
        };
        Clause::Match(true, vec![Path { start, steps }], w)
    }

    fn gen_item_expr(&mut self) -> E {
        let r = self.rng.below(100);
        if r < 50 {
            if let Some(p) = self.prop_access() {
                return p;
            }
        }
        if r < 75 && !self.scope.is_empty() {
            let sc = self.scope.clone();
            return E::Var(self.rng.pick(&sc).0.clone());
        }
        if r < 90 {
            return self.gen_val(2);
        }
        self.gen_pred(1)
    }

    fn gen_agg(&mut self, alias: String) -> Item {
        let kinds: &[AggKind] = &[
            AggKind::CountStar, AggKind::Count, AggKind::Count, AggKind::Sum, AggKind::Sum, AggKind::Sum,
            AggKind::Avg, AggKind::Min, AggKind::Max, AggKind::Collect,
        ];
        let k = *self.rng.pick(kinds);
        if k == AggKind::CountStar {
            return Item::Agg(k, false, E::Lit(V::Null), alias);
        }
        let distinct = match k {
            // sum/avg DISTINCT: known finding `aggregate-distinct-ignored`
            AggKind::Sum | AggKind::Avg => self.risky && self.rng.chance(1, 2),
            AggKind::Count => self.rng.chance(1, 3),
            _ => self.rng.chance(1, 5),
        };
        let ents: Vec<String> = self.scope.iter().filter(|(_, k)| *k != Kind::Val).map(|(n, _)| n.clone()).collect();
        let arg = if ents.is_empty() {
            let vals = self.vars_of(Kind::Val);
            if vals.is_empty() { E::Lit(V::Int(1)) } else { E::Var(self.rng.pick(&vals).clone()) }
        } else {
            let v = self.rng.pick(&ents).clone();
            match k {
                AggKind::Sum | AggKind::Avg => match self.rng.below(10) {
                    0 => E::prop(&v, "j"),
                    1 => E::prop(&v, "k"),
                    _ => E::prop(&v, "v"),
                },
                _ => match self.rng.below(10) {
                    // collect(DISTINCT <entity>) answers [] (known finding): rare
                    0 if k == AggKind::Count || (k == AggKind::Collect && (!distinct || self.rng.chance(1, 10))) => E::Var(v),
                    1 => E::prop(&v, "j"),
                    2 | 3 => E::prop(&v, "k"),
                    4 => E::prop(&v, "g"),
                    _ => E::prop(&v, "v"),
                },
            }
        };
        Item::Agg(k, distinct, arg, alias)
    }

    /// a grouping key: mostly a property of `key_var` (all keys on ONE variable is the
    /// engine's identity-grouping fast path), else of any variable, the variable itself, or
    /// an expression
    fn gen_group_key(&mut self, key_var: &Option<String>) -> E {
        let ents: Vec<String> = self.scope.iter().filter(|(_, k)| *k == Kind::Node).map(|(n, _)| n.clone()).collect();
        if ents.is_empty() {
            return self.gen_item_expr();
        }
        let v = match key_var {
            Some(v) => v.clone(),
            None => self.rng.pick(&ents).clone(),
        };
        match self.rng.below(20) {
            0..=8 => E::prop(&v, "g"),
            9 | 10 => E::prop(&v, "k"),
            11 => E::prop(&v, "j"),
            12 => E::prop(&v, "zz"),
            13 | 14 => E::Var(v),
            15 => E::IsNull(Box::new(E::prop(&v, "g"))),
            16 => E::Coalesce(Box::new(E::prop(&v, "g")), Box::new(E::Lit(V::Str("z".into())))),
            17 => E::Cmp(CmpOp::Eq, Box::new(E::prop(&v, "g")), Box::new(E::Lit(V::Str("a".into())))),
            _ => self.gen_item_expr(),
        }
    }

    /// a projection; `is_return` = final clause (otherwise WITH: aliases become the new scope)
    fn gen_proj(&mut self, is_return: bool) -> Proj {
        let mut p = Proj::default();
        let with_agg = self.rng.chance(7, 20);
        let mut n_items = 1 + self.rng.usize(3);
        // 3 in 5 grouped projections draw every key from one variable
        let key_var: Option<String> = if with_agg && self.rng.chance(3, 5) {
            let ns = self.vars_of(Kind::Node);
            if ns.is_empty() { None } else { Some(self.rng.pick(&ns).clone()) }
        } else {
            None
        };
        // WITH <aggregates only> over no rows: the engine returns no row (known deviation)
        let need_key = !is_return && with_agg && !self.risky;
        if need_key && n_items == 1 {
            n_items = 2;
        }
        let mut new_scope: Vec<(String, Kind)> = vec![];
        for i in 0..n_items {
            let alias = if is_return { format!("c{}", i) } else { self.fresh("x") };
            if with_agg && (i == n_items - 1 || (self.rng.chance(1, 3) && !(need_key && i == 0))) {
                p.items.push(self.gen_agg(alias.clone()));
                new_scope.push((alias, Kind::Val));
            } else {
                let e = if with_agg { self.gen_group_key(&key_var) } else { self.gen_item_expr() };
                // a bare variable may go un-aliased (column name = variable name); WITH keeps entity kinds
                match &e {
                    E::Var(x) if !p.items.iter().any(|it| it.alias() == x) && (self.rng.chance(1, 2) || !is_return) => {
                        let k = self.scope.iter().find(|(n, _)| n == x).map(|(_, k)| *k).unwrap_or(Kind::Val);
                        new_scope.push((x.clone(), k));
                        p.items.push(Item::E(e.clone(), x.clone(), false));
                    }
                    _ => {
                        let k = match &e {
                            E::Var(x) => self.scope.iter().find(|(n, _)| n == x).map(|(_, k)| *k).unwrap_or(Kind::Val),
                            _ => Kind::Val,
                        };
                        new_scope.push((alias.clone(), k));
                        p.items.push(Item::E(e, alias, true));
                    }
                }
            }
        }
        p.distinct = !with_agg && self.rng.chance(1, 6);
        // ORDER BY: returned columns (always legal), or expressions over the old scope when
        // there is neither DISTINCT nor aggregation
        if self.rng.chance(7, 20) {
            let nk = 1 + self.rng.usize(2);
            for _ in 0..nk {
                let by_alias = p.distinct || with_agg || self.rng.chance(2, 3);
                let e = if by_alias {
                    let sortable: Vec<Item> = p.items.iter().filter(|it| !matches!(it, Item::Agg(AggKind::Collect, ..))).cloned().collect();
                    if sortable.is_empty() {
                        continue;
                    }
                    let it = self.rng.pick(&sortable).clone();
                    E::Var(it.alias().to_string())
                } else {
                    self.prop_access().unwrap_or_else(|| E::Var(p.items[0].alias().to_string()))
                };
                // entity-valued sort keys are outside the fragment
                let is_entity = match &e {
                    E::Var(x) => new_scope.iter().chain(self.scope.iter()).find(|(n, _)| n == x).map(|(_, k)| *k != Kind::Val).unwrap_or(false),
                    _ => false,
                };
                if !is_entity {
                    p.order.push((e, self.rng.chance(1, 3)));
                }
            }
        }
        if self.rng.chance(3, 20) {
            p.skip = Some(self.rng.below(3) as u32);
        }
        if self.rng.chance(5, 20) {
            p.limit = Some(self.rng.below(4) as u32);
        }
        if !is_return {
            self.scope = new_scope;
            if self.rng.chance(1, 4) {
                p.where_ = Some(self.gen_pred(1));
            }
        }
        p
    }

    pub fn gen_query(&mut self) -> Query {
        let mut clauses = vec![];
        if self.version >= 2 && self.rng.chance(1, 8) {
            let x = self.fresh("u");
            let l = self.list_lit();
            clauses.push(Clause::Unwind(E::Lit(l), x.clone()));
            self.scope.push((x, Kind::Val));
        }
        clauses.push(self.gen_match(false));
        if self.version >= 2 {
            let extra = match self.rng.below(10) {
                0..=3 => 0,
                4..=7 => 1,
                _ => 2,
            };
            let mut unwound = false;
            for k in 0..extra {
                let last = k + 1 == extra;
                match self.rng.below(10) {
                    0..=2 => clauses.push(self.gen_match(false)),
                    3..=5 => clauses.push(self.gen_match(true)),
                    6..=8 => {
                        // WITH after an UNWIND that follows a MATCH: the engine applies the
                        // UNWIND after the WITH (known deviation)
                        if unwound && !self.risky {
                            clauses.push(self.gen_match(false));
                        } else {
                            let p = self.gen_proj(false);
                            clauses.push(Clause::With(p));
                        }
                    }
                    _ => {
                        if last || self.risky {
                            let x = self.fresh("u");
                            let e = if self.rng.chance(1, 2) { E::Lit(self.list_lit()) } else { self.prop_access().unwrap_or(E::Lit(V::List(vec![]))) };
                            clauses.push(Clause::Unwind(e, x.clone()));
                            self.scope.push((x, Kind::Val));
                            unwound = true;
                        } else {
                            clauses.push(self.gen_match(false));
                        }
                    }
                }
            }
        }
        let ret = self.gen_proj(true);
        Query { clauses, ret }
    }
}
